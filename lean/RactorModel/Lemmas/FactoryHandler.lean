import RactorModel.Lemmas.FactoryHooks
import RactorModel.Lemmas.FactoryStop

/-!
Discard-handler identity (C13): the factory's handler and every worker slot's copy agree after
every sequence of operations, and every discard ever reported went to the handler that was
installed when it was made (the one of the latest `UpdateSettings` the factory has handled).
-/

namespace Factory

/-- an event that may be logged while `h` is the installed handler: anything except a discard
addressed to somebody else, the installation of another handler, and a queued job abandoned by
`post_stop` -/
def evOk (h : Option Nat) : Ev → Bool
  | .discard _ _ h' => h' == h
  | .installed _ => false
  | .abandoned _ => false
  | _ => true

/-- the history grew by events that are fine for the installed handler `h` -/
def ExtE (h : Option Nat) (e e' : Env) : Prop := ∃ new, e'.log = e.log ++ new ∧ ∀ ev ∈ new, evOk h ev = true

theorem ExtE.of_log {h : Option Nat} {e e' : Env} (hl : e'.log = e.log) : ExtE h e e' :=
  ⟨[], by simp [hl], by simp⟩

theorem ExtE.refl (h : Option Nat) (e : Env) : ExtE h e e := ExtE.of_log rfl

theorem ExtE.trans {h : Option Nat} {a b c : Env} (h1 : ExtE h a b) (h2 : ExtE h b c) : ExtE h a c := by
  obtain ⟨n1, l1, o1⟩ := h1
  obtain ⟨n2, l2, o2⟩ := h2
  refine ⟨n1 ++ n2, by rw [l2, l1, List.append_assoc], ?_⟩
  intro ev hev
  rcases List.mem_append.mp hev with hm | hm
  · exact o1 ev hm
  · exact o2 ev hm

theorem extE_emit {h : Option Nat} (e : Env) (ev : Ev) (hk : evOk h ev = true) : ExtE h e (e.emit ev) :=
  ⟨[ev], rfl, by intro x hx; rw [List.mem_singleton.mp hx]; exact hk⟩

theorem extE_discard {h : Option Nat} (e : Env) {h' : Option Nat} (hh : h' = h) (r : Reason) (j : Job) :
    ExtE h e (e.discard h' r j) := by
  subst hh
  exact extE_emit e _ (by simp [evOk])

theorem extE_reject {h : Option Nat} (e : Env) (j : Job) : ExtE h e (e.reject j) := by
  unfold Env.reject; split
  · exact extE_emit e _ rfl
  · exact ExtE.refl h e

theorem extE_accept {h : Option Nat} (e : Env) (j : Job) : ExtE h e (e.accept j) := by
  unfold Env.accept; split
  · exact extE_emit e _ rfl
  · exact ExtE.refl h e

theorem extE_cast {h : Option Nat} (e e' : Env) (aid : Nat) (j : Job) (hc : e.cast aid j = some e') : ExtE h e e' := by
  unfold Env.cast at hc
  cases ha : e.getActor aid with
  | none => simp [ha] at hc
  | some a =>
    simp only [ha] at hc
    split at hc
    · simp at hc
    · simp only [Option.some.injEq] at hc; subst hc; exact ExtE.of_log rfl

theorem extE_die {h : Option Nat} (e : Env) (aid : Nat) : ExtE h e (e.die aid) := by
  unfold Env.die
  cases ha : e.getActor aid with
  | none => exact ExtE.refl h e
  | some a =>
    simp only
    split
    · exact ExtE.refl h e
    · refine ⟨a.heldJobs.map (fun j => Ev.lost aid j.id), rfl, ?_⟩
      intro ev hev
      obtain ⟨j, _, rfl⟩ := List.mem_map.mp hev
      rfl

theorem extE_killAll {h : Option Nat} (e : Env) : ExtE h e e.killAll := by
  unfold Env.killAll
  generalize e.actors.map (·.aid) = ids
  induction ids generalizing e with
  | nil => exact ExtE.refl h e
  | cons a as ih => rw [List.foldl_cons]; exact (extE_die e a).trans (ih _)

theorem extE_stop {h : Option Nat} (e : Env) (aid : Nat) : ExtE h e (e.stop aid) := by
  unfold Env.stop
  cases ha : e.getActor aid with
  | none => exact ExtE.refl h e
  | some a => simp only; split <;> exact ExtE.of_log rfl

theorem extE_settleOne {h : Option Nat} (e : Env) (aid : Nat) : ExtE h e (e.settleOne aid) := by
  unfold Env.settleOne
  cases ha : e.getActor aid with
  | none => exact ExtE.refl h e
  | some a =>
    simp only
    split
    · exact ExtE.refl h e
    · split
      · exact extE_die e aid
      · cases hm : a.mailbox with
        | nil => exact ExtE.refl h e
        | cons j rest =>
          simp only
          exact ExtE.trans (ExtE.of_log (e' := e.setActor { a with running := some j, mailbox := rest }) rfl) (extE_emit _ _ rfl)

theorem extE_settle {h : Option Nat} (e : Env) : ExtE h e e.settle := by
  unfold Env.settle
  generalize e.actors.map (·.aid) = ids
  induction ids generalizing e with
  | nil => exact ExtE.refl h e
  | cons a as ih => rw [List.foldl_cons]; exact (extE_settleOne e a).trans (ih _)

theorem extE_spawn {h : Option Nat} (e : Env) (wid aid : Nat) : ExtE h e (e.spawn wid aid) :=
  ⟨[Ev.build wid aid], rfl, by intro x hx; rw [List.mem_singleton.mp hx]; rfl⟩

/-! ### `WorkerProperties`: the record keeps its handler copy and reports to it -/

theorem extE_getNextNonExpired (h : Option Nat) (mq : List Job) (pend : List Nat) (e : Env) :
    ExtE h e (getNextNonExpired h mq pend e).2.2.2 := by
  induction mq generalizing pend e with
  | nil => exact ExtE.refl h e
  | cons j rest ih =>
    unfold getNextNonExpired
    split
    · exact ExtE.refl h e
    · exact (extE_discard e rfl _ j).trans (ih _ _)

theorem getNext_handler (p : WP) (e : Env) : (p.getNext e).2.1.handler = p.handler := rfl

theorem extE_getNext (p : WP) (e : Env) : ExtE p.handler e (p.getNext e).2.2 :=
  extE_getNextNonExpired p.handler p.mq p.pending e

theorem dispatchJob_handler (p : WP) (e : Env) (j : Job) : (p.dispatchJob e j).1.handler = p.handler := by
  unfold WP.dispatchJob; split <;> rfl

theorem extE_dispatchJob {h : Option Nat} (p : WP) (e : Env) (j : Job) : ExtE h e (p.dispatchJob e j).2 := by
  unfold WP.dispatchJob
  cases hc : e.cast p.actor j with
  | none => exact ExtE.refl h e
  | some e' => exact extE_cast e e' _ j hc

theorem shedOldest_h {h : Option Nat} (limit fuel : Nat) (p : WP) (e : Env) (hp : p.handler = h) :
    (shedOldest limit fuel p e).1.handler = h ∧ ExtE h e (shedOldest limit fuel p e).2 := by
  induction fuel generalizing p e with
  | zero => exact ⟨hp, ExtE.refl h e⟩
  | succ fuel ih =>
    unfold shedOldest
    split
    · have hg := extE_getNext p e
      have hh := getNext_handler p e
      cases hn : p.getNext e with
      | mk r pe =>
        obtain ⟨p', e'⟩ := pe
        rw [hn] at hg hh
        simp only at hg hh
        rw [hp] at hg hh
        cases r with
        | none =>
          simp only
          have := ih p' e' hh
          exact ⟨this.1, hg.trans this.2⟩
        | some d =>
          simp only
          have := ih (p'.untrack d.key) (e'.discard p'.handler .loadshed d) hh
          exact ⟨this.1, (hg.trans (extE_discard e' hh _ d)).trans this.2⟩
    · exact ⟨hp, ExtE.refl h e⟩

theorem enqueueAccepted_h {h : Option Nat} (p : WP) (e : Env) (j : Job) (hp : p.handler = h) :
    (p.enqueueAccepted e j).1.handler = h ∧ ExtE h e (p.enqueueAccepted e j).2 := by
  unfold WP.enqueueAccepted
  split
  · have hg := extE_getNext p e
    have hh := getNext_handler p e
    cases hn : p.getNext e with
    | mk r pe =>
      obtain ⟨p', e'⟩ := pe
      rw [hn] at hg hh
      simp only at hg hh
      rw [hp] at hg hh
      cases r with
      | none => simp only; exact ⟨(dispatchJob_handler _ _ _).trans hh, hg.trans (extE_dispatchJob _ _ _)⟩
      | some d => simp only; exact ⟨(dispatchJob_handler _ _ _).trans hh, hg.trans (extE_dispatchJob _ _ _)⟩
  · simp only
    split
    · exact shedOldest_h _ _ _ _ hp
    · exact ⟨hp, ExtE.refl h e⟩

theorem enqueueJob_h {h : Option Nat} (p : WP) (e : Env) (j : Job) (hp : p.handler = h) :
    (p.enqueueJob e j).1.handler = h ∧ ExtE h e (p.enqueueJob e j).2 := by
  unfold WP.enqueueJob
  split
  · exact ⟨hp, (extE_discard e hp _ j).trans (extE_reject _ j)⟩
  · have := enqueueAccepted_h (p.track j.key) (e.accept j) { j with port := false } hp
    exact ⟨this.1, (extE_accept e j).trans this.2⟩

theorem getNextThenDispatch_h {h : Option Nat} (p0 : WP) (e : Env) (hp : p0.handler = h) :
    (match p0.getNext e with
      | (some j, p, e) => p.dispatchJob e j
      | (none, p, e) => (p, e)).1.handler = h ∧
    ExtE h e (match p0.getNext e with
      | (some j, p, e) => p.dispatchJob e j
      | (none, p, e) => (p, e)).2 := by
  have hg := extE_getNext p0 e
  have hh := getNext_handler p0 e
  cases hn : p0.getNext e with
  | mk r pe =>
    obtain ⟨p', e'⟩ := pe
    rw [hn] at hg hh
    simp only at hg hh
    rw [hp] at hg hh
    cases r with
    | none => exact ⟨hh, hg⟩
    | some d => exact ⟨(dispatchJob_handler _ _ _).trans hh, hg.trans (extE_dispatchJob _ _ _)⟩

theorem workerComplete_h {h : Option Nat} (p : WP) (e : Env) (key : Nat) (hp : p.handler = h) :
    (p.workerComplete e key).1.handler = h ∧ ExtE h e (p.workerComplete e key).2 := by
  unfold WP.workerComplete
  split
  · exact getNextThenDispatch_h _ e hp
  · exact ⟨hp, ExtE.refl h e⟩

theorem replaceWorker_h {h : Option Nat} (p : WP) (e : Env) (naid : Nat) (hp : p.handler = h) :
    (p.replaceWorker e naid).1.handler = h ∧ ExtE h e (p.replaceWorker e naid).2 := by
  unfold WP.replaceWorker
  exact getNextThenDispatch_h _ e hp

/-! ### the factory -/

/-- the factory and every worker slot hold handler `h` -/
structure HS (h : Option Nat) (w : W) : Prop where
  fac : w.handler = h
  pool : ∀ p ∈ w.pool, p.handler = h

theorem HS.of_pool {h : Option Nat} {w w' : W} (hs : HS h w) (hf : w'.handler = w.handler) (hp : w'.pool = w.pool) : HS h w' :=
  ⟨hf.trans hs.fac, by rw [hp]; exact hs.pool⟩

theorem HS.setW {h : Option Nat} {w w' : W} (hs : HS h w) {wid : Nat} {p' : WP} (hp' : p'.handler = h)
    (hf : w'.handler = w.handler) (hp : w'.pool = Factory.setW w.pool wid p') : HS h w' := by
  refine ⟨hf.trans hs.fac, ?_⟩
  intro x hx
  rw [hp] at hx
  rcases mem_setW hx with h1 | h1
  · rw [h1]; exact hp'
  · exact hs.pool x h1

theorem HS.removeW {h : Option Nat} {w w' : W} (hs : HS h w) {wid : Nat}
    (hf : w'.handler = w.handler) (hp : w'.pool = Factory.removeW w.pool wid) : HS h w' := by
  refine ⟨hf.trans hs.fac, ?_⟩
  intro x hx
  rw [hp] at hx
  exact hs.pool x (mem_removeW hx)

/-- `w'` still holds handler `h` everywhere and the history grew only by events fine for `h` -/
structure HQ (h : Option Nat) (w w' : W) : Prop where
  hs : HS h w'
  ext : ExtE h w.env w'.env

theorem HQ.refl {h : Option Nat} {w : W} (hs : HS h w) : HQ h w w := ⟨hs, ExtE.refl h _⟩
theorem HQ.trans {h : Option Nat} {a b c : W} (h1 : HQ h a b) (h2 : HQ h b c) : HQ h a c :=
  ⟨h2.hs, h1.ext.trans h2.ext⟩

/-- pool, handler and history untouched -/
theorem HQ.same {h : Option Nat} {w w' : W} (hs : HS h w) (hf : w'.handler = w.handler) (hp : w'.pool = w.pool)
    (hl : w'.env.log = w.env.log) : HQ h w w' := ⟨hs.of_pool hf hp, ExtE.of_log hl⟩

theorem HQ.of_frame {h : Option Nat} {w w' : W} (hs : HS h w) (f : RouterFrame w w') : HQ h w w' :=
  HQ.same hs f.handler f.pool (by rw [f.env])

theorem hq_availChange {h : Option Nat} (w : W) (wid : Nat) (b : Bool) (hs : HS h w) : HQ h w (w.availChange wid b) :=
  HQ.of_frame hs (availChange_frame w wid b)

theorem hq_choose {h : Option Nat} (w : W) (j : Job) (hint : Option Nat) (hs : HS h w) :
    HQ h w (w.chooseTargetWorker j hint).2 :=
  HQ.of_frame hs (chooseTargetWorker_frame w j hint)

theorem hq_routeInner {h : Option Nat} (w : W) (j : Job) (hint : Option Nat) (hs : HS h w) :
    HQ h w (w.routeInner j hint).2 := by
  unfold W.routeInner
  have hc0 := hq_choose w j hint hs
  cases hc : w.chooseTargetWorker j hint with
  | mk t w1 =>
    rw [hc] at hc0
    simp only at hc0 ⊢
    cases t with
    | none => exact hc0
    | some wid =>
      simp only
      cases hg : getW w1.pool wid with
      | none => exact hc0
      | some p =>
        have he := enqueueJob_h p w1.env j (hc0.hs.pool p (getW_mem hg))
        exact hc0.trans ⟨hc0.hs.setW he.1 rfl rfl, he.2⟩

theorem hq_routeLimited {h : Option Nat} (w : W) (j : Job) (hint : Option Nat) (hs : HS h w) :
    HQ h w (w.routeLimited j hint).2 := by
  unfold W.routeLimited
  split
  · exact hq_routeInner w j hint hs
  · rename_i c lb _
    simp only
    have h0 : HQ h w { w with rl := some (c, (LeakyBucket.check c lb w.env.now).1) } := HQ.same hs rfl rfl rfl
    split
    · split
      · split
        · rename_i hh _
          exact h0.trans (hq_availChange _ hh true h0.hs)
        · exact h0
      · exact h0
    · have hi := hq_routeInner { w with rl := some (c, (LeakyBucket.check c lb w.env.now).1) } j hint h0.hs
      cases hr : W.routeInner { w with rl := some (c, (LeakyBucket.check c lb w.env.now).1) } j hint with
      | mk r w2 =>
        rw [hr] at hi
        simp only at hi ⊢
        split
        · exact h0.trans (hi.trans (HQ.same hi.hs rfl rfl rfl))
        · exact h0.trans hi

theorem hq_routeMessage {h : Option Nat} (w : W) (j : Job) (hint : Option Nat) (hs : HS h w) :
    HQ h w (w.routeMessage j hint).2 := by
  unfold W.routeMessage
  have hi := hq_routeLimited w j hint hs
  cases hr : w.routeLimited j hint with
  | mk r w2 => rw [hr] at hi; exact hi.trans (HQ.same hi.hs rfl rfl rfl)

theorem hq_dropExpiredHead {h : Option Nat} (fuel : Nat) (w : W) (hs : HS h w) : HQ h w (W.dropExpiredHead fuel w) := by
  induction fuel generalizing w with
  | zero => exact HQ.refl hs
  | succ fuel ih =>
    unfold W.dropExpiredHead
    split
    · split
      · split
        · rename_i j' q _
          have h1 : HQ h w { w with queue := q, env := (w.env.discard w.handler .ttlExpired j').reject j' } :=
            ⟨hs.of_pool rfl rfl, (extE_discard w.env hs.fac _ j').trans (extE_reject _ j')⟩
          exact h1.trans (ih _ h1.hs)
        · exact HQ.refl hs
      · exact HQ.refl hs
    · exact HQ.refl hs

theorem hq_routeLoop {h : Option Nat} (hint : Option Nat) (fuel : Nat) (w : W) (hs : HS h w) :
    HQ h w (W.routeLoop hint fuel w) := by
  induction fuel generalizing w with
  | zero => exact HQ.refl hs
  | succ fuel ih =>
    unfold W.routeLoop
    split
    · exact HQ.refl hs
    · rename_i j _
      have hc0 := hq_choose w j hint hs
      cases hc : w.chooseTargetWorker j hint with
      | mk t w1 =>
        rw [hc] at hc0
        simp only at hc0 ⊢
        cases t with
        | none => exact hc0
        | some worker =>
          simp only
          cases hp : qPopFront w1.cfg w1.queue with
          | none => exact hc0
          | some jq =>
            obtain ⟨j', q⟩ := jq
            simp only
            have h1 : HQ h w { w1 with queue := q } := hc0.trans (HQ.same hc0.hs rfl rfl rfl)
            have hr := hq_routeMessage { w1 with queue := q } j' (some worker) h1.hs
            cases hrm : W.routeMessage { w1 with queue := q } j' (some worker) with
            | mk r w2 =>
              rw [hrm] at hr
              cases r with
              | handled => exact h1.trans hr
              | rateLimited =>
                simp only
                have h2 : HQ h w2 { w2 with env := (w2.env.discard w2.handler .rateLimited j').reject j' } :=
                  ⟨hr.hs.of_pool rfl rfl, (extE_discard w2.env hr.hs.fac _ j').trans (extE_reject _ j')⟩
                exact (h1.trans hr).trans (h2.trans (ih _ h2.hs))
              | backlog =>
                simp only
                refine (h1.trans hr).trans ⟨hr.hs.of_pool rfl rfl, ?_⟩
                exact (extE_emit w2.env _ rfl).trans (extE_emit _ _ rfl)

theorem hq_tryRoute {h : Option Nat} (w : W) (hint : Option Nat) (hs : HS h w) : HQ h w (w.tryRouteNextActiveJob hint) := by
  unfold W.tryRouteNextActiveJob
  have h1 := hq_dropExpiredHead (w.queue.length + 1) w hs
  exact h1.trans (hq_routeLoop _ _ _ h1.hs)

theorem hq_shedQueueOldest {h : Option Nat} (limit fuel : Nat) (w : W) (hs : HS h w) :
    HQ h w (W.shedQueueOldest limit fuel w) := by
  induction fuel generalizing w with
  | zero => exact HQ.refl hs
  | succ fuel ih =>
    unfold W.shedQueueOldest
    split
    · split
      · rename_i j q _
        have h1 : HQ h w { w with queue := q, env := w.env.discard w.handler .loadshed j } :=
          ⟨hs.of_pool rfl rfl, extE_discard w.env hs.fac _ j⟩
        exact h1.trans (ih _ h1.hs)
      · exact ih w hs
    · exact HQ.refl hs

theorem hq_maybeEnqueue {h : Option Nat} (w : W) (j : Job) (hs : HS h w) : HQ h w (w.maybeEnqueue j) := by
  unfold W.maybeEnqueue
  split
  · split
    · exact ⟨hs.of_pool rfl rfl, (extE_discard w.env hs.fac _ j).trans (extE_reject _ j)⟩
    · exact ⟨hs.of_pool rfl rfl, extE_accept w.env j⟩
  · dsimp only
    have h1 : HQ h w { w with env := w.env.accept j, queue := w.queue ++ [{ j with port := false }] } :=
      ⟨hs.of_pool rfl rfl, extE_accept w.env j⟩
    exact h1.trans (hq_shedQueueOldest _ _ _ h1.hs)
  · exact ⟨hs.of_pool rfl rfl, extE_accept w.env j⟩

theorem hq_growOne {h : Option Nat} (w : W) (wid : Nat) (hs : HS h w) : HQ h w (w.growOne wid) := by
  unfold W.growOne
  split
  · rename_i p hg
    dsimp only
    have h1 : HQ h w { w with pool := Factory.setW w.pool wid { p with draining := false } } :=
      ⟨hs.setW (p' := { p with draining := false }) (hs.pool p (getW_mem hg)) rfl rfl, ExtE.of_log rfl⟩
    split
    · exact h1.trans (hq_availChange _ _ _ h1.hs)
    · exact h1
  · dsimp only
    have h1 : HQ h w { w with
        nextAid := w.nextAid + 1
        env := w.env.spawn wid w.nextAid
        pool := w.pool ++ [({ wid := wid, actor := w.nextAid, disc := w.workerDiscard w.disc, handler := w.handler } : WP)]
        byActor := w.byActor ++ [(w.nextAid, wid)] } := by
      refine ⟨⟨hs.fac, ?_⟩, extE_spawn w.env _ _⟩
      intro x hx
      rcases List.mem_append.mp hx with hm | hm
      · exact hs.pool x hm
      · simp only [List.mem_singleton] at hm; subst hm; exact hs.fac
    exact h1.trans (hq_availChange _ _ _ h1.hs)

theorem hq_foldl {h : Option Nat} {f : W → Nat → W} (hf : ∀ w k, HS h w → HQ h w (f w k)) (l : List Nat) (w : W)
    (hs : HS h w) : HQ h w (l.foldl f w) := by
  induction l generalizing w with
  | nil => exact HQ.refl hs
  | cons a l ih => exact (hf w a hs).trans (ih _ (hf w a hs).hs)

theorem hq_growPool {h : Option Nat} (w : W) (n : Nat) (hs : HS h w) : HQ h w (w.growPool n) := by
  unfold W.growPool; exact hq_foldl (fun w k hw => hq_growOne w _ hw) _ w hs

theorem hq_shrinkOne {h : Option Nat} (w : W) (wid : Nat) (hs : HS h w) : HQ h w (w.shrinkOne wid) := by
  unfold W.shrinkOne
  split
  · rename_i p hg
    split
    · exact ⟨hs.setW (p' := { p with draining := true }) (hs.pool p (getW_mem hg)) rfl rfl, ExtE.of_log rfl⟩
    · have h1 := hq_availChange w wid false hs
      exact h1.trans ⟨h1.hs.removeW rfl rfl, extE_stop _ p.actor⟩
  · exact HQ.refl hs

theorem hq_shrinkPool {h : Option Nat} (w : W) (n : Nat) (hs : HS h w) : HQ h w (w.shrinkPool n) := by
  unfold W.shrinkPool; exact hq_foldl (fun w k hw => hq_shrinkOne w _ hw) _ w hs

theorem hq_flushAfterGrow {h : Option Nat} (fuel : Nat) (w : W) (hs : HS h w) : HQ h w (W.flushAfterGrow fuel w) := by
  induction fuel generalizing w with
  | zero => exact HQ.refl hs
  | succ fuel ih =>
    unfold W.flushAfterGrow
    simp only
    split
    · exact HQ.refl hs
    · have h1 := hq_tryRoute w none hs
      split
      · exact h1
      · exact h1.trans (ih _ h1.hs)

theorem hq_resizePool {h : Option Nat} (w : W) (n : Nat) (hs : HS h w) : HQ h w (w.resizePool n) := by
  unfold W.resizePool
  split
  · exact HQ.refl hs
  · simp only
    split
    · have h1 := hq_growPool w (min GLOBAL_WORKER_POOL_MAXIMUM n - w.poolSize) hs
      have h2 : HQ h w { w.growPool (min GLOBAL_WORKER_POOL_MAXIMUM n - w.poolSize) with poolSize := min GLOBAL_WORKER_POOL_MAXIMUM n } :=
        h1.trans (HQ.same h1.hs rfl rfl rfl)
      exact h2.trans (hq_flushAfterGrow _ _ h2.hs)
    · split
      · have h1 := hq_shrinkPool w (w.poolSize - min GLOBAL_WORKER_POOL_MAXIMUM n) hs
        exact h1.trans (HQ.same h1.hs rfl rfl rfl)
      · exact HQ.same hs rfl rfl rfl

theorem hq_dispatch {h : Option Nat} (w : W) (j : Job) (hs : HS h w) : HQ h w (w.dispatch j) := by
  unfold W.dispatch
  split
  · exact ⟨hs.of_pool rfl rfl, (extE_discard w.env hs.fac _ j).trans (extE_reject _ j)⟩
  · split
    · have hr := hq_routeMessage w j none hs
      cases hrm : w.routeMessage j none with
      | mk r w2 =>
        rw [hrm] at hr
        cases r with
        | handled => exact hr
        | rateLimited =>
          exact hr.trans ⟨hr.hs.of_pool rfl rfl, (extE_discard w2.env hr.hs.fac _ j).trans (extE_reject _ j)⟩
        | backlog => exact hr.trans (hq_maybeEnqueue w2 j hr.hs)
    · exact ⟨hs.of_pool rfl rfl, (extE_discard w.env hs.fac _ j).trans (extE_reject _ j)⟩

theorem hq_ite {h : Option Nat} (c : Prop) [Decidable c] (w a b : W) (ha : HQ h w a) (hb : HQ h w b) :
    HQ h w (if c then a else b) := by
  split <;> assumption

theorem hq_workerFinishedJob {h : Option Nat} (w : W) (who key : Nat) (hs : HS h w) :
    HQ h w (w.workerFinishedJob who key) := by
  unfold W.workerFinishedJob
  split
  · rename_i p hg
    have hq := workerComplete_h p w.env key (hs.pool p (getW_mem hg))
    cases hwc : p.workerComplete w.env key with
    | mk p' e' =>
      rw [hwc] at hq
      simp only at hq ⊢
      have h1 : HQ h w { w with pool := setW w.pool who p', env := e' } := ⟨hs.setW hq.1 rfl rfl, hq.2⟩
      split
      · split
        · exact h1.trans ⟨h1.hs.removeW rfl rfl, extE_stop e' p'.actor⟩
        · exact h1
      · have h2 := hq_tryRoute _ (some who) h1.hs
        apply hq_ite
        · exact (h1.trans h2).trans (hq_availChange _ _ _ h2.hs)
        · exact h1.trans h2
  · exact hq_tryRoute w _ hs

theorem extE_foldl_discard {h : Option Nat} (r : Reason) (l : List Job) (e : Env) :
    ExtE h e (l.foldl (fun e j => e.discard h r j) e) := by
  induction l generalizing e with
  | nil => exact ExtE.refl h e
  | cons j l ih => rw [List.foldl_cons]; exact (extE_discard e rfl r j).trans (ih _)

theorem hq_removeExpired {h : Option Nat} (w : W) (hs : HS h w) : HQ h w w.removeExpired := by
  unfold W.removeExpired
  split
  · have hf := hs.fac
    subst hf
    exact ⟨hs.of_pool rfl rfl, extE_foldl_discard .ttlExpired (expiredInOrder w.cfg w.env.now w.queue) w.env⟩
  · exact HQ.refl hs

theorem hq_calcRest {h : Option Nat} (w : W) (hs : HS h w) : HQ h w w.calcRest := by
  unfold W.calcRest
  have h1 := hq_removeExpired w hs
  exact h1.trans (HQ.same h1.hs rfl rfl rfl)

theorem hq_updateSettings {h : Option Nat} (w : W) (d : Option (Option (Nat × Mode))) (n : Option Nat) (hs : HS h w) :
    HQ h w (w.updateSettings d n) := by
  unfold W.updateSettings
  have h1 : HQ h w (match d with
      | some d => { w with pool := w.pool.map (fun p => { p with disc := w.workerDiscard d }), disc := d }
      | none => w) := by
    cases d with
    | none => exact HQ.refl hs
    | some d =>
      refine ⟨⟨hs.fac, ?_⟩, ExtE.of_log rfl⟩
      intro x hx
      obtain ⟨y, hy, rfl⟩ := List.mem_map.mp hx
      exact hs.pool y hy
  cases n with
  | none => exact h1
  | some n => exact h1.trans (hq_resizePool _ n h1.hs)

theorem hq_afterReplace {h : Option Nat} (w : W) (wid : Nat) (hs : HS h w) : HQ h w (w.afterReplace wid) := by
  unfold W.afterReplace
  cases hret : w.retireIdleDrainingWorker wid with
  | some w2 =>
    simp only
    unfold W.retireIdleDrainingWorker at hret
    split at hret
    · rename_i p _
      split at hret
      · simp only [Option.some.injEq] at hret; subst hret
        exact ⟨hs.removeW rfl rfl, extE_stop w.env p.actor⟩
      · simp at hret
    · simp at hret
  | none =>
    simp only
    have h2 := hq_tryRoute w (some wid) hs
    apply hq_ite
    · exact h2.trans (hq_availChange _ _ _ h2.hs)
    · exact h2

theorem hq_handleSupervisorEvt {h : Option Nat} (w : W) (who : Nat) (hs : HS h w) :
    HQ h w (w.handleSupervisorEvt who) := by
  unfold W.handleSupervisorEvt
  split
  · exact HQ.refl hs
  · rename_i wid _
    split
    · exact HQ.refl hs
    · rename_i p hg
      simp only
      have hq := replaceWorker_h p (w.env.spawn wid w.nextAid) w.nextAid (hs.pool p (getW_mem hg))
      cases hrw : p.replaceWorker (w.env.spawn wid w.nextAid) w.nextAid with
      | mk p' e' =>
        rw [hrw] at hq
        simp only at hq ⊢
        have h1 : HQ h w { w with
            nextAid := w.nextAid + 1
            env := e'
            pool := setW w.pool wid p'
            byActor := (w.byActor.filter (fun (x : Nat × Nat) => x.1 != who)) ++ [(w.nextAid, wid)] } :=
          ⟨hs.setW hq.1 rfl rfl, (extE_spawn w.env wid w.nextAid).trans hq.2⟩
        exact h1.trans (hq_afterReplace _ wid h1.hs)

theorem extE_foldl {h : Option Nat} (f : Env → Job → Env) (hf : ∀ e j, ExtE h e (f e j)) (l : List Job) (e : Env) :
    ExtE h e (l.foldl f e) := by
  induction l generalizing e with
  | nil => exact ExtE.refl h e
  | cons j l ih => rw [List.foldl_cons]; exact (hf e j).trans (ih _)

theorem extE_foldlW {h : Option Nat} (f : Env → WP → Env) (hf : ∀ e p, ExtE h e (f e p)) (l : List WP) (e : Env) :
    ExtE h e (l.foldl f e) := by
  induction l generalizing e with
  | nil => exact ExtE.refl h e
  | cons p l ih => rw [List.foldl_cons]; exact (hf e p).trans (ih _)

theorem dropWorkerQueue_avail (e : Env) (p : WP) (h : p.isAvailable = true) : e.dropWorkerQueue p = e := by
  unfold WP.isAvailable at h
  simp only [Bool.and_eq_true, List.isEmpty_iff] at h
  unfold Env.dropWorkerQueue
  rw [h.2]; rfl

theorem foldl_dropWorkerQueue_avail (pool : List WP) (e : Env) (h : ∀ p ∈ pool, p.isAvailable = true) :
    pool.foldl Env.dropWorkerQueue e = e := by
  induction pool generalizing e with
  | nil => rfl
  | cons p ps ih =>
    rw [List.foldl_cons, dropWorkerQueue_avail e p (h p (List.mem_cons_self ..))]
    exact ih e (fun x hx => h x (List.mem_cons_of_mem _ hx))

/-- `post_stop` entered with every slot free and the factory queue empty: nothing is discarded,
nothing abandoned -/
theorem hq_postStop {h : Option Nat} (w : W) (hs : HS h w) (ha : ∀ p ∈ w.pool, p.isAvailable = true)
    (hq : w.queue = []) : HQ h w w.postStop := by
  unfold W.postStop
  simp only
  refine ⟨⟨hs.fac, fun p hp => by cases hp⟩, ?_⟩
  rw [hq, List.foldl_nil, foldl_dropWorkerQueue_avail w.pool w.env ha]
  have h3 := extE_foldlW (h := h) (fun e p => e.stop p.actor) (fun e p => extE_stop e p.actor) w.pool w.env
  exact h3.trans (ExtE.of_log rfl)

theorem extE_dropMsg {h : Option Nat} (e : Env) (m : FMsg) : ExtE h e (e.dropMsg m) := by
  cases m with
  | dispatch j =>
    show ExtE h e (if j.port then (e.emit (.dropped j.id)).emit (.portClosed j.id) else e.emit (.dropped j.id))
    split
    · exact (extE_emit e _ rfl).trans (extE_emit _ _ rfl)
    · exact extE_emit e _ rfl
  | _ => exact ExtE.refl h e

theorem extE_foldlM {h : Option Nat} (l : List FMsg) (e : Env) : ExtE h e (l.foldl Env.dropMsg e) := by
  induction l generalizing e with
  | nil => exact ExtE.refl h e
  | cons m l ih => rw [List.foldl_cons]; exact (extE_dropMsg e m).trans (ih _)

theorem hq_isDrained {h : Option Nat} (w : W) (hs : HS h w) : HQ h w w.isDrained.2 := by
  unfold W.isDrained
  split
  · exact HQ.refl hs
  · exact HQ.refl hs
  · split
    · exact HQ.same hs rfl rfl rfl
    · exact HQ.refl hs

theorem hq_afterHandle {h : Option Nat} (w : W) (hs : HS h w) : HQ h w w.afterHandle := by
  unfold W.afterHandle
  split
  · exact HQ.refl hs
  · have h1 := hq_isDrained w hs
    cases hd : w.isDrained with
    | mk d w2 =>
      rw [hd] at h1
      simp only at h1 ⊢
      split
      · exact h1.trans (HQ.same h1.hs rfl rfl rfl)
      · exact h1

theorem hq_tryFinishStop {h : Option Nat} (w : W) (hs : HS h w) : HQ h w w.tryFinishStop := by
  unfold W.tryFinishStop
  split
  · refine ⟨hs.of_pool rfl rfl, ?_⟩
    simp only
    have h1 : ExtE h w.env (w.env.emit (.hook .stopped)) := extE_emit w.env _ rfl
    have h2 := extE_foldlM (h := h) w.inbox (w.env.emit (.hook .stopped))
    have h3 := extE_killAll (h := h) (w.inbox.foldl Env.dropMsg (w.env.emit (.hook .stopped)))
    exact (h1.trans (h2.trans h3)).trans (ExtE.of_log rfl)
  · exact HQ.refl hs

theorem hq_send {h : Option Nat} (w : W) (m : FMsg) (hs : HS h w) : HQ h w (w.send m) := by
  unfold W.send; split
  · exact HQ.refl hs
  · exact HQ.same hs rfl rfl rfl

theorem hq_emit {h : Option Nat} (w : W) (ev : Ev) (hk : evOk h ev = true) (hs : HS h w) : HQ h w (w.emit ev) :=
  ⟨hs.of_pool rfl rfl, extE_emit w.env ev hk⟩

/-! ### the whole history -/

/-- the handler installed after the history `l`, starting from `h` -/
def curOf (h : Option Nat) : List Ev → Option Nat
  | [] => h
  | .installed h' :: l => curOf h' l
  | _ :: l => curOf h l

/-- every discard of the history `l` is addressed to the handler installed at that point -/
def discardsOk (h : Option Nat) : List Ev → Bool
  | [] => true
  | .installed h' :: l => discardsOk h' l
  | .discard _ _ h' :: l => (h' == h) && discardsOk h l
  | _ :: l => discardsOk h l

theorem curOf_append (h : Option Nat) (a b : List Ev) : curOf h (a ++ b) = curOf (curOf h a) b := by
  induction a generalizing h with
  | nil => rfl
  | cons ev a ih => cases ev <;> simp [curOf, ih]

theorem curOf_ok (h : Option Nat) (l : List Ev) (ok : ∀ ev ∈ l, evOk h ev = true) : curOf h l = h := by
  induction l with
  | nil => rfl
  | cons ev l ih =>
    have h1 := ok ev (List.mem_cons_self ..)
    have h2 := ih (fun x hx => ok x (List.mem_cons_of_mem _ hx))
    cases ev <;> simp_all [curOf, evOk]

theorem discardsOk_append (h : Option Nat) (a b : List Ev) :
    discardsOk h (a ++ b) = (discardsOk h a && discardsOk (curOf h a) b) := by
  induction a generalizing h with
  | nil => simp [discardsOk, curOf]
  | cons ev a ih => cases ev <;> simp [discardsOk, curOf, ih, Bool.and_assoc]

theorem discardsOk_ok (h : Option Nat) (l : List Ev) (ok : ∀ ev ∈ l, evOk h ev = true) : discardsOk h l = true := by
  induction l with
  | nil => rfl
  | cons ev l ih =>
    have h1 := ok ev (List.mem_cons_self ..)
    have h2 := ih (fun x hx => ok x (List.mem_cons_of_mem _ hx))
    cases ev <;> simp_all [discardsOk, evOk]

theorem discardsOk_at (h0 : Option Nat) (pre post : List Ev) (r : Reason) (id : Nat) (h' : Option Nat)
    (ok : discardsOk h0 (pre ++ Ev.discard r id h' :: post) = true) : h' = curOf h0 pre := by
  rw [discardsOk_append] at ok
  simp only [discardsOk, Bool.and_eq_true, beq_iff_eq] at ok
  exact ok.2.1

/-- the handler-identity invariant: the factory and every slot hold the handler of the latest
installation, and no discard of the history went anywhere else -/
structure HInv (h0 : Option Nat) (w : W) : Prop where
  hs : HS (curOf h0 w.env.log) w
  ok : discardsOk h0 w.env.log = true
  clean : ∀ id, Ev.abandoned id ∉ w.env.log

theorem HInv.step {h0 : Option Nat} {w w' : W} (hi : HInv h0 w) (q : ∀ h, HS h w → HQ h w w') : HInv h0 w' := by
  have q0 := q _ hi.hs
  obtain ⟨new, hl, hok⟩ := q0.ext
  have hc : curOf h0 w'.env.log = curOf h0 w.env.log := by rw [hl, curOf_append, curOf_ok _ _ hok]
  refine ⟨by rw [hc]; exact q0.hs, ?_, ?_⟩
  · rw [hl, discardsOk_append, hi.ok, discardsOk_ok _ _ hok]
    rfl
  · intro id hm
    rw [hl] at hm
    rcases List.mem_append.mp hm with hm | hm
    · exact hi.clean id hm
    · have := hok _ hm
      cases this

theorem hinv_setHandler {h0 : Option Nat} (w : W) (hd : Option Nat) (hi : HInv h0 w) : HInv h0 (w.setHandler hd) := by
  have hl : (w.setHandler hd).env.log = w.env.log ++ [Ev.installed hd] := rfl
  have hc : curOf h0 (w.setHandler hd).env.log = hd := by rw [hl, curOf_append]; rfl
  refine ⟨?_, ?_, ?_⟩
  · rw [hc]
    refine ⟨rfl, ?_⟩
    intro x hx
    obtain ⟨y, _, rfl⟩ := List.mem_map.mp hx
    rfl
  · rw [hl, discardsOk_append, hi.ok]; rfl
  · intro id hm
    rw [hl] at hm
    rcases List.mem_append.mp hm with hm | hm
    · exact hi.clean id hm
    · simp at hm

theorem hinv_handleMsg {h0 : Option Nat} (w : W) (m : FMsg) (hi : HInv h0 w) : HInv h0 (w.handleMsg m) := by
  cases m with
  | dispatch j => exact hi.step (fun _ hs => hq_dispatch w j hs)
  | finished who key => exact hi.step (fun _ hs => hq_workerFinishedJob w who key hs)
  | adjust n => exact hi.step (fun _ hs => hq_resizePool w n hs)
  | updateSettings d n => exact hi.step (fun _ hs => hq_updateSettings w d n hs)
  | setHandler hd => exact hinv_setHandler w hd hi
  | drainRequests => exact hi.step (fun _ hs => ⟨hs.of_pool rfl rfl, extE_emit w.env _ rfl⟩)
  | calculate =>
    show HInv h0 (if w.cfg.hasCC && w.armed then { w with armed := false, blocked := true } else w.calcRest)
    split
    · exact hi.step (fun _ hs => HQ.same hs rfl rfl rfl)
    · exact hi.step (fun _ hs => hq_calcRest w hs)
  | getQueueDepth => exact hi.step (fun _ hs => HQ.same hs rfl rfl rfl)
  | getNumActiveWorkers => exact hi.step (fun _ hs => HQ.same hs rfl rfl rfl)
  | getAvailableCapacity => exact hi.step (fun _ hs => HQ.same hs rfl rfl rfl)

/-- handling anything but a handler update leaves the handler installed everywhere and reports
every discard it makes to that handler -/
theorem hq_handleMsg {h : Option Nat} (w : W) (m : FMsg) (hm : ∀ hd, m ≠ .setHandler hd) (hs : HS h w) :
    HQ h w (w.handleMsg m) := by
  cases m with
  | dispatch j => exact hq_dispatch w j hs
  | finished who key => exact hq_workerFinishedJob w who key hs
  | adjust n => exact hq_resizePool w n hs
  | updateSettings d n => exact hq_updateSettings w d n hs
  | setHandler hd => exact absurd rfl (hm hd)
  | drainRequests => exact ⟨hs.of_pool rfl rfl, extE_emit w.env _ rfl⟩
  | calculate =>
    show HQ h w (if w.cfg.hasCC && w.armed then { w with armed := false, blocked := true } else w.calcRest)
    split
    · exact HQ.same hs rfl rfl rfl
    · exact hq_calcRest w hs
  | getQueueDepth => exact HQ.same hs rfl rfl rfl
  | getNumActiveWorkers => exact HQ.same hs rfl rfl rfl
  | getAvailableCapacity => exact HQ.same hs rfl rfl rfl

theorem hinv_loopStep {h0 : Option Nat} (w w' : W) (hi : HInv h0 w) (si : StopInv w) (hl : w.loopStep = some w') :
    HInv h0 w' := by
  unfold W.loopStep at hl
  split at hl
  · simp at hl
  · rename_i hg
    split at hl
    · rename_i hsig
      simp only [Option.some.injEq] at hl; subst hl
      have hst : w.stopped = false := by cases hh : w.stopped <;> simp_all
      have := si.idle hsig hst
      exact hi.step (fun _ hs => hq_postStop w hs this.2.1 this.2.2)
    · split at hl
      · rename_i who rest _
        simp only [Option.some.injEq] at hl; subst hl
        have h1 : HInv h0 { w with env := { w.env with sup := rest } } := hi.step (fun _ hs => HQ.same hs rfl rfl rfl)
        exact h1.step (fun _ hs => hq_handleSupervisorEvt _ who hs)
      · split at hl
        · rename_i m rest _
          simp only [Option.some.injEq] at hl; subst hl
          have h1 : HInv h0 { w with inbox := rest } := hi.step (fun _ hs => HQ.same hs rfl rfl rfl)
          exact (hinv_handleMsg _ m h1).step (fun _ hs => hq_afterHandle _ hs)
        · simp at hl

theorem hinv_runQ {h0 : Option Nat} (fuel : Nat) (w : W) (hi : HInv h0 w) (si : StopInv w) : HInv h0 (W.runQ fuel w) := by
  induction fuel generalizing w with
  | zero => exact hi
  | succ fuel ih =>
    unfold W.runQ
    cases hl : w.loopStep with
    | some w' => simp only; exact ih _ (hinv_loopStep w w' hi si hl) (stopInv_loopStep w w' si hl)
    | none =>
      simp only
      have h1 : HInv h0 { w with env := w.env.settle } :=
        hi.step (fun _ hs => ⟨hs.of_pool rfl rfl, extE_settle w.env⟩)
      have hs : HInv h0 (W.tryFinishStop { w with env := w.env.settle }) :=
        h1.step (fun _ hs => hq_tryFinishStop _ hs)
      have ss : StopInv (W.tryFinishStop { w with env := w.env.settle }) :=
        stopInv_tryFinishStop _ (si.same ⟨rfl, rfl, rfl, rfl⟩ rfl rfl rfl)
      split
      · exact hs
      · exact ih _ hs ss

theorem hinv_send {h0 : Option Nat} (w : W) (m : FMsg) (hi : HInv h0 w) : HInv h0 (w.send m) :=
  hi.step (fun _ hs => hq_send w m hs)

theorem hinv_advanceTo {h0 : Option Nat} (t fuel : Nat) (w : W) (hi : HInv h0 w) (si : StopInv w) :
    HInv h0 (W.advanceTo t fuel w) := by
  induction fuel generalizing w with
  | zero => exact hi.step (fun _ hs => HQ.same hs rfl rfl rfl)
  | succ fuel ih =>
    unfold W.advanceTo
    split
    · simp only
      have h1 : HInv h0 { w.setNow w.nextCalc with nextCalc := t + CALCULATE_FREQUENCY * 1000000 } :=
        hi.step (fun _ hs => HQ.same hs rfl rfl rfl)
      have s1 : StopInv { w.setNow w.nextCalc with nextCalc := t + CALCULATE_FREQUENCY * 1000000 } :=
        si.same ⟨rfl, rfl, rfl, rfl⟩ rfl rfl rfl
      exact ih _ (hinv_runQ _ _ (hinv_send _ _ h1) (stopInv_send _ _ s1)) (stopInv_runQ _ _ (stopInv_send _ _ s1))
    · exact hi.step (fun _ hs => HQ.same hs rfl rfl rfl)

theorem hq_finish {h : Option Nat} (w : W) (aid : Nat) (ok : Bool) (hs : HS h w) : HQ h w (w.finish aid ok) := by
  unfold W.finish
  cases ha : w.env.getActor aid with
  | none => exact HQ.refl hs
  | some a =>
    simp only
    cases hr : a.running with
    | none => exact HQ.refl hs
    | some j =>
      simp only
      split
      · exact HQ.refl hs
      · split
        · exact ⟨hs.of_pool rfl rfl, (extE_emit w.env _ rfl).trans (extE_die _ aid)⟩
        · have h1 : HQ h w { w with env := (w.env.emit (.finishOk aid)).emit (.handled aid j.id) } :=
            ⟨hs.of_pool rfl rfl, (extE_emit w.env _ rfl).trans (extE_emit _ _ rfl)⟩
          have h2 := hq_send { w with env := (w.env.emit (.finishOk aid)).emit (.handled aid j.id) } (.finished a.wid j.key) h1.hs
          refine (h1.trans h2).trans ⟨h2.hs.of_pool rfl rfl, ?_⟩
          exact ExtE.trans (ExtE.of_log rfl) (extE_settleOne _ aid)

theorem hinv_applyOp {h0 : Option Nat} (w : W) (op : Op) (hi : HInv h0 w) : HInv h0 (w.applyOp op) := by
  cases op with
  | dispatch id key hash ttl acc =>
    simp only [W.applyOp]
    split
    · exact hi
    · exact hinv_send _ _ (hi.step (fun _ hs => hq_emit w _ rfl hs))
  | finish aid ok => exact hi.step (fun _ hs => hq_finish w aid ok hs)
  | kill aid => exact hi.step (fun _ hs => ⟨hs.of_pool rfl rfl, (extE_emit w.env _ rfl).trans (extE_die _ aid)⟩)
  | resize n => exact hinv_send _ _ (hi.step (fun _ hs => hq_emit w _ rfl hs))
  | settings d n =>
    simp only [W.applyOp]
    apply hinv_send
    cases d with
    | none => cases n with
      | none => exact hi
      | some n => exact hi.step (fun _ hs => hq_emit w _ rfl hs)
    | some d => cases n with
      | none => exact hi.step (fun _ hs => hq_emit w _ rfl hs)
      | some n => exact (hi.step (fun _ hs => hq_emit w _ rfl hs)).step (fun _ hs => hq_emit _ _ rfl hs)
  | drain => exact hinv_send _ _ (hi.step (fun _ hs => hq_emit w _ rfl hs))
  | setHandler hd => exact hinv_send _ _ (hi.step (fun _ hs => hq_emit w _ rfl hs))
  | advance => exact hi
  | block => exact hi.step (fun _ hs => HQ.same hs rfl rfl rfl)
  | release n =>
    simp only [W.applyOp]
    split
    · have h0' : HInv h0 { w.emit (.released n) with blocked := false } :=
        (hi.step (fun _ hs => hq_emit w _ rfl hs)).step (fun _ hs => HQ.same hs rfl rfl rfl)
      have h1 : HInv h0 (if ({ w.emit (.released n) with blocked := false } : W).poolSize != n
          then W.resizePool { w.emit (.released n) with blocked := false } n
          else { w.emit (.released n) with blocked := false }) := by
        split
        · exact h0'.step (fun _ hs => hq_resizePool _ _ hs)
        · exact h0'
      exact (h1.step (fun _ hs => hq_calcRest _ hs)).step (fun _ hs => hq_afterHandle _ hs)
    · exact hi
  | nop => exact hi

theorem hinv_ask {h0 : Option Nat} (w : W) (m : FMsg) (hi : HInv h0 w) (si : StopInv w) : HInv h0 (w.ask m) := by
  unfold W.ask
  split
  · exact hi.step (fun _ hs => HQ.same hs rfl rfl rfl)
  · simp only
    have h1 := hinv_runQ RUN_FUEL _ (hinv_send w m hi) (stopInv_send w m si)
    split
    · exact h1.step (fun _ hs => HQ.same hs rfl rfl rfl)
    · exact h1

theorem hinv_queries {h0 : Option Nat} (w : W) (hi : HInv h0 w) (si : StopInv w) : HInv h0 w.queries := by
  unfold W.queries
  split
  · exact hi.step (fun _ hs => HQ.same hs rfl rfl rfl)
  · have s0 : StopInv { w with answers := [] } := si.same ⟨rfl, rfl, rfl, rfl⟩ rfl rfl rfl
    have h0' : HInv h0 { w with answers := [] } := hi.step (fun _ hs => HQ.same hs rfl rfl rfl)
    have s1 := stopInv_ask _ FMsg.getQueueDepth s0
    have h1 := hinv_ask _ FMsg.getQueueDepth h0' s0
    have s2 := stopInv_ask _ FMsg.getNumActiveWorkers s1
    have h2 := hinv_ask _ FMsg.getNumActiveWorkers h1 s1
    exact hinv_ask _ _ h2 s2

theorem hinv_stepOp {h0 : Option Nat} (w : W) (op : Op) (t0 tq te : Nat) (hi : HInv h0 w) (si : StopInv w) :
    HInv h0 (w.stepOp op t0 tq te) := by
  unfold W.stepOp
  simp only
  generalize hw1 : W.advanceTo t0 (advanceFuel w t0) w = w1
  have h1 : HInv h0 w1 := by rw [← hw1]; exact hinv_advanceTo _ _ _ hi si
  have s1 : StopInv w1 := by rw [← hw1]; exact stopInv_advanceTo _ _ _ si
  generalize hw2 : W.runQ RUN_FUEL (w1.applyOp op) = w2
  have h2 : HInv h0 w2 := by rw [← hw2]; exact hinv_runQ _ _ (hinv_applyOp _ _ h1) (stopInv_applyOp _ _ s1)
  have s2 : StopInv w2 := by rw [← hw2]; exact stopInv_runQ _ _ (stopInv_applyOp _ _ s1)
  generalize hw3 : W.advanceTo tq (advanceFuel w2 tq) w2 = w3
  have h3 : HInv h0 w3 := by rw [← hw3]; exact hinv_advanceTo _ _ _ h2 s2
  have s3 : StopInv w3 := by rw [← hw3]; exact stopInv_advanceTo _ _ _ s2
  generalize hw4 : w3.queries = w4
  have h4 : HInv h0 w4 := by rw [← hw4]; exact hinv_queries _ h3 s3
  have s4 : StopInv w4 := by rw [← hw4]; exact stopInv_queries _ s3
  generalize hw5 : W.advanceTo te (advanceFuel w4 te) w4 = w5
  have h5 : HInv h0 w5 := by rw [← hw5]; exact hinv_advanceTo _ _ _ h4 s4
  have h6 : HInv h0 { w5 with lastWq := none } := h5.step (fun _ hs => HQ.same hs rfl rfl rfl)
  exact h6.step (fun _ hs => hq_emit _ _ rfl hs)

theorem hinv_runSteps {h0 : Option Nat} (w : W) (steps : List Step) (hi : HInv h0 w) (si : StopInv w) :
    HInv h0 (w.runSteps steps) := by
  induction steps generalizing w with
  | nil => exact hi
  | cons s rest ih => exact ih _ (hinv_stepOp w s.op s.t0 s.tq s.te hi si) (stopInv_stepOp w s.op s.t0 s.tq s.te si)

/-- the handler a case starts with -/
def initHandler (c : CaseCfg) : Option Nat := if c.cfg.hasHandler then some 0 else none

theorem hinv_init (c : CaseCfg) : HInv (initHandler c) (init c) := by
  unfold init
  simp only
  have hi0 : HInv (initHandler c)
    ({ cfg := c.cfg, poolSize := 0, pool := [], byActor := [], avail := [], inQ := [], last := 0,
       rl := c.rl.map fun (r : Nat × Nat × Nat × Nat) =>
          let lc : LeakyBucket.Cfg := ⟨r.1, r.2.1, r.2.2.1, 10 ^ 40⟩
          (lc, LeakyBucket.new lc (some r.2.2.2) 0),
       queue := [], disc := c.disc, drain := .notDraining,
       handler := if c.cfg.hasHandler then some 0 else none,
       env := { actors := [], log := [], now := 0, sup := [] },
       nextAid := 0, stopSignal := false, stopped := false, inbox := [], blocked := false, armed := false,
       nextCalc := CALCULATE_FREQUENCY, answers := [], lastWq := none } : W) :=
    ⟨⟨rfl, fun p hp => by cases hp⟩, rfl, fun id hm => by cases hm⟩
  have h1 := hi0.step (fun _ hs => hq_growPool _ c.n hs)
  have h2 := h1.step (fun _ hs => HQ.same (w' := { W.growPool _ c.n with poolSize := c.n }) hs rfl rfl rfl)
  exact h2.step (fun _ hs => hq_emit _ _ rfl hs)

/-- the handler-identity invariant holds after every sequence of operations -/
theorem hinv_always (c : CaseCfg) (steps : List Step) : HInv (initHandler c) ((init c).runSteps steps) :=
  hinv_runSteps _ steps (hinv_init c) (stopInv_init c)

end Factory
