//! C10 harness, cluster build: the same engine as hcore's `registry` binary, compiled against
//! ractor with the `cluster` feature (pid registry, remote proxies) — plus, `--mode pid`, the engine
//! `pidmon` for the pid table and its lifecycle monitors (`pid_registry::{monitor, demonitor,
//! register_pid, unregister_pid, get_all_pids, where_is_pid}`), see `mod pidmon` below and
//! lean/Driver/PidRegistry.lean.
#[path = "../../../hcore/src/bin/registry.rs"]
#[allow(dead_code)]
mod core;

fn main() {
    let args = hutil::Args::parse();
    if args.str("mode", "lts") == "pid" {
        pidmon::main(args)
    } else {
        core::main_with(true)
    }
}

/// Engine `pidmon` (E-LTS, API level): paused current_thread runtime, run to quiescence between ops.
/// Every actor of a case is a *logging* actor: whatever `PidLifecycleEvent` it gets to handle is
/// recorded with the recipient; any of them (local, remote-id proxy, held in `post_stop`, dead) can be
/// subscribed with `pid_registry::monitor`. After every op the harness reads `get_all_pids()`, the
/// listener map (`verif_pid_listeners`), every actor's status, `where_is_pid` of every actor, and the
/// events handled since the previous op.
///
///   `case`                         tear down, spawn the hidden supervisor (actor 900)     → `ok`
///   `spawn k ok|fail plain|instant|linked`   a LOCAL actor (pre_start fails on request)   → `ok`|`fail`
///   `spawnremote k`                `ActorRuntime::spawn_linked_remote(Remote id, sup 900)` → `ok`
///   `exit k stop|kill|drain`       whole exit (an actor held in post_stop is released)    → `ok`
///   `exitbegin k` / `exitend k`    exit held in `post_stop` (status Stopping) / released  → `ok`
///   `monitor k` / `demonitor k`    `pid_registry::monitor(cell)` / `demonitor(id)`        → `ok`
///   `getall`                       `get_all_pids()`                                       → `pids …`
///   `whereis k`                    `where_is_pid(id)`                                     → `found`|`none`
///
/// impl line: `<ans> | pids=… mons=… actors=k:L|R:phase,… found=… ev=to:S|T:who,…`
mod pidmon {
    use std::collections::BTreeMap;
    use std::sync::atomic::{AtomicBool, Ordering};
    use std::sync::{Arc, Mutex};
    use std::time::Duration;

    use hutil::{Args, Log, Rng, Stats};
    use ractor::registry::{self, pid_registry, PidLifecycleEvent};
    use ractor::{Actor, ActorCell, ActorId, ActorProcessingErr, ActorRef, ActorStatus, SupervisionEvent};

    const SUP: u64 = 900;

    type EvLog = Arc<Mutex<Vec<(bool, ActorId)>>>;

    /// The logging test actor.
    struct LA {
        fail: bool,
        slot: Arc<Mutex<Option<ActorCell>>>,
        hold: Arc<AtomicBool>,
        gate: Arc<tokio::sync::Notify>,
        log: EvLog,
    }

    impl Actor for LA {
        type Msg = ();
        type State = ();
        type Arguments = ();

        async fn pre_start(&self, myself: ActorRef<()>, _: ()) -> Result<(), ActorProcessingErr> {
            *self.slot.lock().unwrap() = Some(myself.get_cell());
            if self.fail {
                Err("refused".into())
            } else {
                Ok(())
            }
        }

        async fn post_stop(&self, _: ActorRef<()>, _: &mut ()) -> Result<(), ActorProcessingErr> {
            if self.hold.load(Ordering::SeqCst) {
                self.gate.notified().await;
            }
            Ok(())
        }

        async fn handle_supervisor_evt(&self, _: ActorRef<()>, ev: SupervisionEvent, _: &mut ()) -> Result<(), ActorProcessingErr> {
            if let SupervisionEvent::PidLifecycleEvent(e) = ev {
                match e {
                    PidLifecycleEvent::Spawn(c) => self.log.lock().unwrap().push((true, c.get_id())),
                    PidLifecycleEvent::Terminate(c) => self.log.lock().unwrap().push((false, c.get_id())),
                }
            }
            Ok(())
        }
    }

    #[derive(Clone)]
    struct Rec {
        cell: ActorCell,
        remote: bool,
        hold: Arc<AtomicBool>,
        gate: Arc<tokio::sync::Notify>,
        log: EvLog,
    }

    #[derive(Default)]
    struct World {
        recs: BTreeMap<u64, Rec>,
    }

    fn phase(c: &ActorCell) -> u64 {
        let s = c.get_status();
        if s < ActorStatus::Stopping {
            0
        } else if s == ActorStatus::Stopping {
            1
        } else {
            2
        }
    }

    impl World {
        fn k_of_id(&self, id: ActorId) -> u64 {
            self.recs.iter().find(|(_, r)| r.cell.get_id() == id).map(|(k, _)| *k).unwrap_or(999)
        }

        fn view(&self) -> String {
            let mut pids: Vec<u64> = registry::get_all_pids().iter().map(|c| self.k_of_id(c.get_id())).collect();
            pids.sort();
            let mut mons: Vec<u64> = pid_registry::verif_pid_listeners().into_iter().map(|id| self.k_of_id(id)).collect();
            mons.sort();
            let acts = if self.recs.is_empty() {
                "-".to_string()
            } else {
                self.recs
                    .iter()
                    .map(|(k, r)| format!("{k}:{}:{}", if r.remote { "R" } else { "L" }, phase(&r.cell)))
                    .collect::<Vec<_>>()
                    .join(",")
            };
            let mut found: Vec<u64> = Vec::new();
            for (k, r) in &self.recs {
                if let Some(c) = registry::where_is_pid(r.cell.get_id()) {
                    // a foreign cell under this id would show as 998
                    found.push(if c.get_id() == r.cell.get_id() { *k } else { 998 });
                }
            }
            let mut evs: Vec<String> = Vec::new();
            for (k, r) in &self.recs {
                for (spawn, id) in std::mem::take(&mut *r.log.lock().unwrap()) {
                    evs.push(format!("{k}:{}:{}", if spawn { "S" } else { "T" }, self.k_of_id(id)));
                }
            }
            let ev = if evs.is_empty() { "-".to_string() } else { evs.join(",") };
            format!(
                "pids={} mons={} actors={acts} found={} ev={ev}",
                hutil::show_u64s(&pids),
                hutil::show_u64s(&mons),
                hutil::show_u64s(&found)
            )
        }
    }

    async fn quiesce() {
        tokio::time::sleep(Duration::from_millis(1)).await;
    }

    fn new_la(fail: bool) -> (LA, Arc<Mutex<Option<ActorCell>>>, Arc<AtomicBool>, Arc<tokio::sync::Notify>, EvLog) {
        let slot = Arc::new(Mutex::new(None));
        let hold = Arc::new(AtomicBool::new(false));
        let gate = Arc::new(tokio::sync::Notify::new());
        let log: EvLog = Arc::new(Mutex::new(Vec::new()));
        (LA { fail, slot: slot.clone(), hold: hold.clone(), gate: gate.clone(), log: log.clone() }, slot, hold, gate, log)
    }

    async fn spawn_local(w: &mut World, k: u64, fail: bool, flavour: &str) -> &'static str {
        let (la, slot, hold, gate, log) = new_la(fail);
        let sup = w.recs.get(&SUP).map(|r| r.cell.clone());
        let classify = |e: &ractor::SpawnErr| match e {
            ractor::SpawnErr::StartupFailed(_) => "fail",
            _ => "err",
        };
        let ans = match (flavour, sup) {
            ("instant", _) => match ractor::ActorRuntime::<LA>::spawn_instant(None, la, ()) {
                Err(e) => classify(&e),
                Ok((_, h)) => match h.await {
                    Ok(Ok(_)) => "ok",
                    Ok(Err(e)) => classify(&e),
                    Err(_) => "err",
                },
            },
            ("linked", Some(sup)) => match Actor::spawn_linked(None, la, (), sup).await {
                Ok(_) => "ok",
                Err(e) => classify(&e),
            },
            _ => match Actor::spawn(None, la, ()).await {
                Ok(_) => "ok",
                Err(e) => classify(&e),
            },
        };
        quiesce().await;
        quiesce().await;
        let cell = slot.lock().unwrap().clone();
        if let Some(cell) = cell {
            w.recs.insert(k, Rec { cell, remote: false, hold, gate, log });
        }
        ans
    }

    async fn exec(w: &mut World, log: &mut Log, st: &mut Stats, line: &str) {
        let t: Vec<&str> = line.split_whitespace().collect();
        let rec_of = |w: &World, k: &str| k.parse::<u64>().ok().and_then(|k| w.recs.get(&k).cloned());
        let ans: String = match t.as_slice() {
            ["case", ..] => {
                for r in w.recs.values() {
                    r.hold.store(false, Ordering::SeqCst);
                    r.gate.notify_one();
                    r.cell.kill();
                }
                quiesce().await;
                quiesce().await;
                // stale listener entries (monitor() on an actor that had already exited) are never
                // removed by ractor itself
                for id in pid_registry::verif_pid_listeners() {
                    pid_registry::demonitor(id);
                }
                *w = World::default();
                let _ = spawn_local(w, SUP, false, "plain").await;
                st.bump("cases");
                "ok".into()
            }
            ["spawn", k, how, ..] => match k.parse::<u64>() {
                Ok(k) if !w.recs.contains_key(&k) => {
                    let flavour = t.get(3).copied().unwrap_or("plain");
                    let ans = spawn_local(w, k, *how == "fail", flavour).await;
                    st.bump(&format!("spawn_{ans}"));
                    st.bump(&format!("flavour_{flavour}"));
                    ans.into()
                }
                _ => "bad".into(),
            },
            ["spawnremote", k] => match (k.parse::<u64>(), w.recs.get(&SUP).map(|r| r.cell.clone())) {
                (Ok(k), Some(sup)) if !w.recs.contains_key(&k) => {
                    let (la, _slot, hold, gate, elog) = new_la(false);
                    let id = ActorId::Remote { node_id: 7, pid: 1000 + k };
                    let r = ractor::ActorRuntime::spawn_linked_remote(None, la, id, (), sup).await;
                    quiesce().await;
                    match r {
                        Ok((a, _)) => {
                            st.bump("spawnremote");
                            w.recs.insert(k, Rec { cell: a.get_cell(), remote: true, hold, gate, log: elog });
                            "ok".into()
                        }
                        Err(_) => "err".into(),
                    }
                }
                _ => "bad".into(),
            },
            ["exit", k, how] => match rec_of(w, k) {
                Some(r) => {
                    st.bump(&format!("exit_{how}_phase{}", phase(&r.cell)));
                    match *how {
                        "stop" => r.cell.stop(None),
                        "drain" => {
                            let _ = r.cell.drain();
                        }
                        _ => r.cell.kill(),
                    }
                    if r.cell.get_status() >= ActorStatus::Stopping {
                        r.hold.store(false, Ordering::SeqCst);
                        r.gate.notify_one();
                    }
                    quiesce().await;
                    quiesce().await;
                    "ok".into()
                }
                None => "noactor".into(),
            },
            ["exitbegin", k] => match rec_of(w, k) {
                Some(r) => {
                    if r.cell.get_status() < ActorStatus::Stopping {
                        r.hold.store(true, Ordering::SeqCst);
                    }
                    r.cell.stop(None);
                    quiesce().await;
                    quiesce().await;
                    st.bump("exitbegin");
                    "ok".into()
                }
                None => "noactor".into(),
            },
            ["exitend", k] => match rec_of(w, k) {
                Some(r) => {
                    r.hold.store(false, Ordering::SeqCst);
                    r.gate.notify_one();
                    quiesce().await;
                    quiesce().await;
                    st.bump("exitend");
                    "ok".into()
                }
                None => "noactor".into(),
            },
            ["monitor", k] => match rec_of(w, k) {
                Some(r) => {
                    st.bump(&format!("monitor_{}_phase{}", if r.remote { "remote" } else { "local" }, phase(&r.cell)));
                    pid_registry::monitor(r.cell.clone());
                    quiesce().await;
                    "ok".into()
                }
                None => "noactor".into(),
            },
            ["demonitor", k] => match rec_of(w, k) {
                Some(r) => {
                    st.bump("demonitor");
                    pid_registry::demonitor(r.cell.get_id());
                    quiesce().await;
                    "ok".into()
                }
                None => "noactor".into(),
            },
            ["getall"] => {
                st.bump("getall");
                let mut pids: Vec<u64> = registry::get_all_pids().iter().map(|c| w.k_of_id(c.get_id())).collect();
                pids.sort();
                format!("pids {}", hutil::show_u64s(&pids))
            }
            ["whereis", k] => match rec_of(w, k) {
                Some(r) => match registry::where_is_pid(r.cell.get_id()) {
                    Some(c) if c.get_id() == r.cell.get_id() => {
                        st.bump("whereis_found");
                        "found".into()
                    }
                    Some(_) => "foreign".into(),
                    None => {
                        st.bump("whereis_none");
                        "none".into()
                    }
                },
                None => "none".into(),
            },
            _ => "bad-op".into(),
        };
        log.rec(line, format!("{ans} | {}", w.view()));
    }

    async fn gen_case(w: &mut World, log: &mut Log, st: &mut Stats, rng: &mut Rng, len: u64) {
        exec(w, log, st, "case").await;
        let mut next: u64 = 0;
        for _ in 0..len {
            let by_phase = |w: &World, p: u64| -> Vec<u64> {
                w.recs.iter().filter(|(k, r)| **k != SUP && phase(&r.cell) == p).map(|(k, _)| *k).collect()
            };
            let live = by_phase(w, 0);
            let held = by_phase(w, 1);
            let all: Vec<u64> = w.recs.keys().cloned().filter(|k| *k != SUP).collect();
            let mons: Vec<u64> = pid_registry::verif_pid_listeners().into_iter().map(|id| w.k_of_id(id)).collect();
            let c = rng.below(100);
            let line = if c < 16 || all.is_empty() || (live.is_empty() && c < 70) {
                next += 1;
                format!("spawn {} ok {}", next - 1, rng.pick(&["plain", "plain", "instant", "linked"]))
            } else if c < 22 {
                next += 1;
                format!("spawn {} fail {}", next - 1, rng.pick(&["plain", "instant", "linked"]))
            } else if c < 30 {
                next += 1;
                format!("spawnremote {}", next - 1)
            } else if c < 50 {
                // mostly live actors, sometimes any (held in post_stop, dead: a stale entry)
                if !live.is_empty() && rng.chance(4, 5) {
                    format!("monitor {}", rng.pick(&live))
                } else {
                    format!("monitor {}", rng.pick(&all))
                }
            } else if c < 58 {
                if !mons.is_empty() && rng.chance(3, 4) {
                    format!("demonitor {}", rng.pick(&mons))
                } else {
                    format!("demonitor {}", rng.pick(&all))
                }
            } else if c < 74 && !live.is_empty() {
                // prefer exiting monitors now and then: demonitor-before-unregister
                let k = if !mons.is_empty() && rng.chance(1, 3) { *rng.pick(&mons) } else { *rng.pick(&live) };
                if k == SUP || k == 999 {
                    format!("exit {} kill", rng.pick(&live))
                } else {
                    format!("exit {k} {}", rng.pick(&["stop", "kill", "drain"]))
                }
            } else if c < 80 && !live.is_empty() {
                format!("exitbegin {}", rng.pick(&live))
            } else if c < 88 && !held.is_empty() {
                if rng.chance(1, 2) {
                    format!("exitend {}", rng.pick(&held))
                } else {
                    format!("exit {} kill", rng.pick(&held))
                }
            } else if c < 92 {
                "getall".to_string()
            } else {
                format!("whereis {}", rng.pick(&all))
            };
            exec(w, log, st, &line).await;
        }
    }

    async fn replay_file(w: &mut World, log: &mut Log, st: &mut Stats, path: &str) {
        let text = std::fs::read_to_string(path).unwrap_or_default();
        let mut started = false;
        for line in text.lines() {
            let line = line.trim();
            if line.is_empty() || line.starts_with('#') {
                continue;
            }
            st.bump("replayed_ops");
            if line.starts_with("case") {
                started = true;
            }
            if !started {
                exec(w, log, st, "case").await;
                started = true;
            }
            exec(w, log, st, line).await;
        }
    }

    pub fn main(args: Args) {
        let seed = args.u64("seed", 1);
        let cases = args.u64("cases", 100);
        let out = args.str("out", "/tmp/c10-pid");
        let len = args.u64("len", 30);
        let mut rng = Rng::new(seed);
        let mut log = Log::create(std::path::Path::new(&out)).unwrap();
        let mut st = Stats::default();
        let rt = tokio::runtime::Builder::new_current_thread().enable_all().start_paused(true).build().unwrap();
        let replay = args.str("replay-ops", "");
        let only_replay = args.u64("only-replay", 0) == 1;
        rt.block_on(async {
            let mut w = World::default();
            for f in replay.split(',').filter(|f| !f.is_empty()) {
                replay_file(&mut w, &mut log, &mut st, f).await;
            }
            if !only_replay {
                for _ in 0..cases {
                    gen_case(&mut w, &mut log, &mut st, &mut rng, len).await;
                }
            }
            exec(&mut w, &mut log, &mut st, "case").await;
        });
        st.add("lines", log.lines);
        st.write_json(&std::path::Path::new(&out).join("stats.json"));
        log.finish();
    }
}
