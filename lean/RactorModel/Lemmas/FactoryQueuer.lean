import RactorModel.Lemmas.FactoryDrain

/-!
Queuer routing (C14): after every handler of the factory, if a job waits in the factory queue
then no worker in the pool is available.  Needs the router's lazy available-workers deque to be
sound: every available worker is flagged (`inQ`) and every flagged worker is in the deque.
-/

namespace Factory

/-- availability of slot `wid` as the factory sees it -/
def availP (pool : List WP) (wid : Nat) : Bool :=
  match getW pool wid with
  | some p => p.isAvailable
  | none => false

theorem hintAvailable_some (pool : List WP) (h : Nat) : hintAvailable pool (some h) = availP pool h := rfl

theorem availP_of_mem {pool : List WP} {p : WP} (hn : NodupW pool) (hp : p ∈ pool) : availP pool p.wid = p.isAvailable := by
  unfold availP; rw [getW_of_mem_nodup hp hn]

/-- the router's deque is sound, except possibly for the slots in `ex` (whose availability has just
changed and has not been reported yet) -/
structure DInv (ex : List Nat) (w : W) : Prop where
  cfg : w.cfg.router = .q
  nodupW : NodupW w.pool
  nodupQ : w.inQ.Nodup
  sub : ∀ x ∈ w.inQ, x ∈ w.avail
  d1 : ∀ p ∈ w.pool, p.wid ∉ ex → p.isAvailable = true → p.wid ∈ w.inQ

/-- no worker (except possibly slot `h`) idles while a job waits -/
def QInv (ex : List Nat) (w : W) : Prop :=
  w.queue ≠ [] → ∀ p ∈ w.pool, p.wid ∉ ex → p.isAvailable = false

theorem DInv.weaken {w : W} {ex ex' : List Nat} (d : DInv ex w) (hsub : ∀ x ∈ ex, x ∈ ex') : DInv ex' w :=
  ⟨d.cfg, d.nodupW, d.nodupQ, d.sub, fun p hp hne ha => d.d1 p hp (fun hin => hne (hsub _ hin)) ha⟩

theorem QInv.weaken {w : W} {ex ex' : List Nat} (q : QInv ex w) (hsub : ∀ x ∈ ex, x ∈ ex') : QInv ex' w :=
  fun hq p hp hne => q hq p hp (fun hin => hne (hsub _ hin))

/-- a slot that is busy needs no exemption -/
theorem DInv.drop_busy {w : W} {ex : List Nat} (d : DInv ex w) (wid : Nat) (hb : availP w.pool wid = false) :
    DInv (ex.filter (· != wid)) w := by
  refine ⟨d.cfg, d.nodupW, d.nodupQ, d.sub, ?_⟩
  intro p hp hne ha
  by_cases hw : p.wid = wid
  · rw [← hw, availP_of_mem d.nodupW hp, ha] at hb; cases hb
  · apply d.d1 p hp ?_ ha
    intro hin
    exact hne (List.mem_filter.mpr ⟨hin, by simpa using hw⟩)

/-! ### `popAvail` -/

theorem popAvail_spec (pool : List WP) (hn : NodupW pool) (avail inQ : List Nat) (hq : inQ.Nodup)
    (hsub : ∀ x ∈ inQ, x ∈ avail) :
    (popAvail pool avail inQ).2.2.Nodup ∧
    (∀ x ∈ (popAvail pool avail inQ).2.2, x ∈ (popAvail pool avail inQ).2.1) ∧
    (∀ x ∈ (popAvail pool avail inQ).2.2, x ∈ inQ) ∧
    (∀ p ∈ pool, p.isAvailable = true → p.wid ∈ inQ →
        p.wid ∈ (popAvail pool avail inQ).2.2 ∨ (popAvail pool avail inQ).1 = some p.wid) ∧
    (∀ wid, (popAvail pool avail inQ).1 = some wid → availP pool wid = true) ∧
    ((popAvail pool avail inQ).1 = none → ∀ x ∈ avail, availP pool x = false) := by
  induction avail generalizing inQ with
  | nil =>
    have : inQ = [] := by
      cases inQ with
      | nil => rfl
      | cons a l => exact absurd (hsub a (List.mem_cons_self ..)) (List.not_mem_nil)
    subst this
    simp [popAvail]
  | cons wid rest ih =>
    -- the flags without `wid` still point into `rest`
    have hq' : (inQ.erase wid).Nodup := hq.erase wid
    have hsub' : ∀ x ∈ inQ.erase wid, x ∈ rest := by
      intro x hx
      have hxin := List.mem_of_mem_erase hx
      have hne : x ≠ wid := by
        intro heq; subst heq
        exact (List.Nodup.not_mem_erase hq) hx
      rcases List.mem_cons.mp (hsub x hxin) with h | h
      · exact absurd h hne
      · exact h
    have hmem_erase : ∀ x, x ∈ inQ → x ≠ wid → x ∈ inQ.erase wid := by
      intro x hx hne
      exact (List.mem_erase_of_ne hne).mpr hx
    unfold popAvail
    simp only
    cases hg : getW pool wid with
    | none =>
      simp only
      obtain ⟨i1, i2, i3, i4, i5, i6⟩ := ih (inQ.erase wid) hq' hsub'
      refine ⟨i1, i2, fun x hx => List.mem_of_mem_erase (i3 x hx), ?_, i5, ?_⟩
      · intro p hp ha hin
        have hne : p.wid ≠ wid := by
          intro heq
          have := getW_of_mem_nodup hp hn
          rw [heq, hg] at this; cases this
        exact i4 p hp ha (hmem_erase _ hin hne)
      · intro hnone x hx
        rcases List.mem_cons.mp hx with h | h
        · subst h; simp [availP, hg]
        · exact i6 hnone x h
    | some p0 =>
      simp only
      cases hav : p0.isAvailable
      · simp only [Bool.false_eq_true, if_false]
        obtain ⟨i1, i2, i3, i4, i5, i6⟩ := ih (inQ.erase wid) hq' hsub'
        refine ⟨i1, i2, fun x hx => List.mem_of_mem_erase (i3 x hx), ?_, i5, ?_⟩
        · intro p hp ha hin
          have hne : p.wid ≠ wid := by
            intro heq
            have := getW_of_mem_nodup hp hn
            rw [heq, hg] at this
            have : p0 = p := Option.some.inj this
            subst this
            rw [hav] at ha; cases ha
          exact i4 p hp ha (hmem_erase _ hin hne)
        · intro hnone x hx
          rcases List.mem_cons.mp hx with h | h
          · subst h; simp [availP, hg, hav]
          · exact i6 hnone x h
      · simp only [if_true]
        refine ⟨hq', hsub', fun x hx => List.mem_of_mem_erase hx, ?_, ?_, ?_⟩
        · intro p hp ha hin
          by_cases hne : p.wid = wid
          · right; rw [hne]
          · left; exact hmem_erase _ hin hne
        · intro w' hw'
          simp only [Option.some.injEq] at hw'
          subst hw'
          simp [availP, hg, hav]
        · intro h; cases h

end Factory

namespace Factory

theorem mem_setW_ne {pool : List WP} {wid : Nat} {p p' x : WP} (hn : NodupW pool) (hg : getW pool wid = some p)
    (hw : p'.wid = wid) (hx : x ∈ setW pool wid p') : x = p' ∨ (x ∈ pool ∧ x.wid ≠ wid) := by
  rcases mem_setW hx with h | h
  · exact Or.inl h
  · by_cases hxw : x.wid = wid
    · left
      exact nodupW_eq_of_wid (nodupW_setW hw hn) hx (mem_setW_self hg) (by rw [hxw, hw])
    · exact Or.inr ⟨h, hxw⟩

theorem availP_true_getW {pool : List WP} {wid : Nat} (h : availP pool wid = true) :
    ∃ p, getW pool wid = some p ∧ p.isAvailable = true := by
  unfold availP at h
  cases hg : getW pool wid with
  | none => simp [hg] at h
  | some p => exact ⟨p, rfl, by simpa [hg] using h⟩

/-- what the queuer's `choose_target_worker` guarantees -/
structure ChooseQ (ex : List Nat) (w : W) (hint : Option Nat) (t : Option Nat) (w' : W) : Prop where
  frame : RouterFrame w w'
  nodupQ : w'.inQ.Nodup
  sub : ∀ x ∈ w'.inQ, x ∈ w'.avail
  d1 : ∀ p ∈ w.pool, p.wid ∉ ex → p.isAvailable = true → p.wid ∈ w'.inQ ∨ t = some p.wid
  target : ∀ wid, t = some wid → availP w.pool wid = true
  none_idle : t = none → hintAvailable w.pool hint = false ∧ ∀ p ∈ w.pool, p.wid ∉ ex → p.isAvailable = false
  hinted : hintAvailable w.pool hint = true → t = hint

theorem chooseQ_spec (w : W) (j : Job) (hint : Option Nat) (ex : List Nat) (d : DInv ex w) :
    ChooseQ ex w hint (w.chooseTargetWorker j hint).1 (w.chooseTargetWorker j hint).2 := by
  unfold W.chooseTargetWorker
  simp only [d.cfg]
  split
  · rename_i hh
    refine ⟨RouterFrame.refl w, d.nodupQ, d.sub, fun p hp hne ha => Or.inl (d.d1 p hp hne ha), ?_, ?_, fun _ => rfl⟩
    · intro wid hw
      cases hint with
      | none => simp [hintAvailable] at hh
      | some h0 =>
        simp only [Option.some.injEq] at hw; subst hw
        exact hh
    · intro hn
      cases hint with
      | none => simp [hintAvailable] at hh
      | some h0 => cases hn
  · rename_i hh
    have hh' : hintAvailable w.pool hint = false := by simpa using hh
    obtain ⟨s1, s2, s3, s4, s5, s6⟩ := popAvail_spec w.pool d.nodupW w.avail w.inQ d.nodupQ d.sub
    refine ⟨⟨rfl, rfl, rfl, rfl, rfl, rfl, rfl, rfl, rfl, rfl, rfl, rfl, rfl⟩, s1, s2, ?_, s5, ?_, ?_⟩
    · intro p hp hne ha
      exact s4 p hp ha (d.d1 p hp hne ha)
    · intro hnone
      refine ⟨hh', ?_⟩
      intro p hp hne
      cases ha : p.isAvailable
      · rfl
      · have hin := d.sub _ (d.d1 p hp hne ha)
        have := s6 hnone _ hin
        rw [availP_of_mem d.nodupW hp, ha] at this
        cases this
    · intro hc; rw [hh'] at hc; cases hc

/-- the outcome of routing one job with the queuer (no rate limiter) -/
structure RouteQ (ex : List Nat) (w : W) (hint : Option Nat) (r : RouteResult) (w' : W) : Prop where
  dinv : DInv ex w'
  queue : w'.queue = w.queue
  wids : ∀ x, hasW w'.pool x = hasW w.pool x
  /-- a worker was found: it is busy now, the records of all other slots are untouched -/
  handled : r = .handled → ∃ wid, availP w.pool wid = true ∧ availP w'.pool wid = false ∧
      (hintAvailable w.pool hint = true → hint = some wid) ∧
      ∀ x ∈ w'.pool, x.wid ≠ wid → x ∈ w.pool
  /-- nobody was available -/
  backlog : r = .backlog → w'.pool = w.pool ∧ hintAvailable w.pool hint = false ∧
      ∀ p ∈ w.pool, p.wid ∉ ex → p.isAvailable = false
  /-- the limiter refused: nothing was routed, and a hinted available worker is (again) in the deque -/
  limited : r = .rateLimited → w'.pool = w.pool ∧ ∀ h, hint = some h → hintAvailable w.pool hint = true → h ∈ w'.inQ

theorem routeInnerQ (w : W) (j : Job) (hint : Option Nat) (ex : List Nat) (d : DInv ex w) :
    RouteQ ex w hint (w.routeInner j hint).1 (w.routeInner j hint).2 := by
  unfold W.routeInner
  have hs := chooseQ_spec w j hint ex d
  cases hc : w.chooseTargetWorker j hint with
  | mk t w1 =>
    rw [hc] at hs
    simp only at hs ⊢
    cases t with
    | none =>
      simp only
      obtain ⟨hidle1, hidle2⟩ := hs.none_idle rfl
      refine ⟨⟨by rw [hs.frame.cfg]; exact d.cfg, by rw [hs.frame.pool]; exact d.nodupW,
          hs.nodupQ, hs.sub, ?_⟩, hs.frame.queue, (fun x => by rw [hs.frame.pool]), (fun hr => by cases hr), ?_, (by intro hx; cases hx)⟩
      · intro p hp hne ha
        rw [hs.frame.pool] at hp
        rcases hs.d1 p hp hne ha with h1 | h1
        · exact h1
        · cases h1
      · intro _; exact ⟨hs.frame.pool, hidle1, hidle2⟩
    | some wid =>
      simp only
      have hav := hs.target wid rfl
      obtain ⟨p, hg, hpa⟩ := availP_true_getW hav
      have hg1 : getW w1.pool wid = some p := by rw [hs.frame.pool]; exact hg
      simp only [hg1]
      have hwid : (p.enqueueJob w1.env j).1.wid = wid := by rw [enqueueJob_wid]; exact getW_wid hg
      have hbusy : (p.enqueueJob w1.env j).1.isAvailable = false := by
        have := enqueueJob_working p w1.env j
        simpa [WP.isWorking] using this
      have hn1 : NodupW w1.pool := by rw [hs.frame.pool]; exact d.nodupW
      refine ⟨⟨by simp only; rw [hs.frame.cfg]; exact d.cfg, nodupW_setW hwid hn1, hs.nodupQ, hs.sub, ?_⟩, hs.frame.queue,
          (fun x => by show hasW (setW w1.pool wid _) x = _; rw [hasW_setW _ _ _ _ hwid, hs.frame.pool]),
          ?_, (fun hr => by cases hr), (by intro hx; cases hx)⟩
      · intro x hx hne ha
        rcases mem_setW_ne hn1 hg1 hwid hx with h1 | ⟨h1, h2⟩
        · subst h1; rw [hbusy] at ha; cases ha
        · rw [hs.frame.pool] at h1
          rcases hs.d1 x h1 hne ha with h3 | h3
          · exact h3
          · simp only [Option.some.injEq] at h3; exact absurd h3.symm h2
      · intro _
        refine ⟨wid, hav, ?_, ?_, ?_⟩
        · show availP (setW w1.pool wid (p.enqueueJob w1.env j).1) wid = false
          unfold availP
          rw [getW_setW_same hg1 hwid]; exact hbusy
        · intro hh; exact (hs.hinted hh).symm
        · intro x hx hne
          rcases mem_setW_ne hn1 hg1 hwid hx with h1 | ⟨h1, _⟩
          · subst h1; exact absurd hwid hne
          · rw [hs.frame.pool] at h1; exact h1

theorem DInv.drop_listed {w : W} {ex : List Nat} {x : Nat} (d : DInv (x :: ex) w) (hx : x ∈ w.inQ) : DInv ex w :=
  ⟨d.cfg, d.nodupW, d.nodupQ, d.sub, fun p hp hne ha => by
    by_cases hw : p.wid = x
    · rw [hw]; exact hx
    · exact d.d1 p hp (fun hin => by
        rcases List.mem_cons.mp hin with h | h
        · exact hw h
        · exact hne h) ha⟩

theorem availChange_true_mem (w : W) (wid : Nat) : wid ∈ (w.availChange wid true).inQ := by
  unfold W.availChange
  simp only [if_true]
  split
  · rename_i hc; simpa using hc
  · exact List.mem_cons_self ..

theorem availChange_true_dinv' (w : W) (wid : Nat) (ex : List Nat) (d : DInv ex w) : DInv ex (w.availChange wid true) := by
  unfold W.availChange
  simp only [if_true]
  split
  · exact d
  · rename_i hc
    have hnot : wid ∉ w.inQ := by simpa using hc
    refine ⟨d.cfg, d.nodupW, List.nodup_cons.mpr ⟨hnot, d.nodupQ⟩, ?_, ?_⟩
    · intro x hx
      rcases List.mem_cons.mp hx with h | h
      · subst h; exact List.mem_append_right _ (List.mem_singleton.mpr rfl)
      · exact List.mem_append_left _ (d.sub x h)
    · intro p hp hne ha
      exact List.mem_cons_of_mem _ (d.d1 p hp hne ha)

/-- `RateLimitedRouter::route_message` around the queuer: a refused job is not routed, and the hinted worker —
which `try_route_next_active_job` has just taken out of the deque — is announced as available again -/
theorem routeMessageQ (w : W) (j : Job) (hint : Option Nat) (ex : List Nat) (d : DInv ex w) :
    RouteQ ex w hint (w.routeMessage j hint).1 (w.routeMessage j hint).2 := by
  unfold W.routeMessage W.routeLimited
  cases hrl : w.rl with
  | none =>
    simp only
    have hi := routeInnerQ w j hint ex d
    cases hr : w.routeInner j hint with
    | mk r w2 =>
      rw [hr] at hi
      simp only at hi ⊢
      exact ⟨⟨hi.dinv.cfg, hi.dinv.nodupW, hi.dinv.nodupQ, hi.dinv.sub, hi.dinv.d1⟩,
        hi.queue, hi.wids, hi.handled, hi.backlog, hi.limited⟩
  | some cl =>
    obtain ⟨c, lb⟩ := cl
    simp only
    have d0 : DInv ex { w with rl := some (c, (LeakyBucket.check c lb w.env.now).1) } :=
      ⟨d.cfg, d.nodupW, d.nodupQ, d.sub, d.d1⟩
    split
    · -- refused
      cases hint with
      | none =>
        simp only
        exact ⟨⟨d.cfg, d.nodupW, d.nodupQ, d.sub, d.d1⟩, rfl, (fun _ => rfl), (fun h => by cases h), (fun h => by cases h),
          (fun _ => ⟨rfl, fun h hh => by cases hh⟩)⟩
      | some h0 =>
        simp only
        split
        · have d1 := availChange_true_dinv' _ h0 ex d0
          have hf := availChange_frame ({ w with rl := some (c, (LeakyBucket.check c lb w.env.now).1) } : W) h0 true
          have hm := availChange_true_mem ({ w with rl := some (c, (LeakyBucket.check c lb w.env.now).1) } : W) h0
          refine ⟨⟨d1.cfg, d1.nodupW, d1.nodupQ, d1.sub, d1.d1⟩, hf.queue, (fun x => by simp only; rw [hf.pool]),
            (fun h => by cases h), (fun h => by cases h), (fun _ => ⟨hf.pool, ?_⟩)⟩
          intro h hh _
          simp only [Option.some.injEq] at hh
          subst hh
          exact hm
        · rename_i hna
          refine ⟨⟨d.cfg, d.nodupW, d.nodupQ, d.sub, d.d1⟩, rfl, (fun _ => rfl), (fun h => by cases h), (fun h => by cases h),
            (fun _ => ⟨rfl, ?_⟩)⟩
          intro h hh ha
          exact absurd ha hna
    · -- admitted: the inner router decides; a token is taken only if the job was handed over
      have hi := routeInnerQ _ j hint ex d0
      cases hr : W.routeInner { w with rl := some (c, (LeakyBucket.check c lb w.env.now).1) } j hint with
      | mk r w2 =>
        rw [hr] at hi
        simp only at hi ⊢
        split
        · exact ⟨⟨hi.dinv.cfg, hi.dinv.nodupW, hi.dinv.nodupQ, hi.dinv.sub, hi.dinv.d1⟩,
            hi.queue, hi.wids, hi.handled, hi.backlog, hi.limited⟩
        · exact ⟨⟨hi.dinv.cfg, hi.dinv.nodupW, hi.dinv.nodupQ, hi.dinv.sub, hi.dinv.d1⟩,
            hi.queue, hi.wids, hi.handled, hi.backlog, hi.limited⟩

end Factory

namespace Factory

theorem peekByPrio_mem {cfg : Cfg} {ps : List Nat} {q : List Job} {j : Job} (h : peekByPrio cfg ps q = some j) : j ∈ q := by
  induction ps with
  | nil => simp [peekByPrio] at h
  | cons p ps ih =>
    unfold peekByPrio at h
    split at h
    · rename_i r hf
      simp only [Option.some.injEq] at h; subst h
      exact List.mem_of_find?_eq_some hf
    · exact ih h

theorem qPeek_some_ne_nil {cfg : Cfg} {q : List Job} {j : Job} (h : qPeek cfg q = some j) : q ≠ [] := by
  intro hq
  have := peekByPrio_mem h
  rw [hq] at this; cases this

theorem qPeek_none_nil {cfg : Cfg} {q : List Job} (h : qPeek cfg q = none) : q = [] := by
  cases q with
  | nil => rfl
  | cons j q =>
    exfalso
    have hp := mem_prioUp cfg j
    unfold qPeek at h
    -- some priority class contains `j`
    have : ∀ ps, prioOf cfg j ∈ ps → peekByPrio cfg ps (j :: q) ≠ none := by
      intro ps
      induction ps with
      | nil => intro hm; cases hm
      | cons p ps ih =>
        intro hm
        unfold peekByPrio
        cases hf : (j :: q).find? (fun j' => prioOf cfg j' == p) with
        | some r => simp
        | none =>
          simp only
          cases hm with
          | head =>
            have := List.find?_eq_none.mp hf j (List.mem_cons_self ..)
            simp at this
          | tail _ hm' => exact ih hm'
    exact this prioUp hp h

/-- the same router state, pool and configuration -/
structure SamePool (w w' : W) : Prop where
  cfg : w'.cfg = w.cfg
  rl : w'.rl = w.rl
  pool : w'.pool = w.pool
  avail : w'.avail = w.avail
  inQ : w'.inQ = w.inQ

theorem DInv.of_samePool {w w' : W} {ex : List Nat} (d : DInv ex w) (s : SamePool w w') : DInv ex w' :=
  ⟨by rw [s.cfg]; exact d.cfg, by rw [s.pool]; exact d.nodupW,
   by rw [s.inQ]; exact d.nodupQ, by rw [s.inQ, s.avail]; exact d.sub, by rw [s.pool, s.inQ]; exact d.d1⟩

theorem QInv.of_samePool {w w' : W} {ex : List Nat} (q : QInv ex w) (s : SamePool w w')
    (hq : w'.queue ≠ [] → w.queue ≠ []) : QInv ex w' := by
  intro h; rw [s.pool]; exact q (hq h)

theorem dropExpiredHead_samePool (fuel : Nat) (w : W) :
    SamePool w (W.dropExpiredHead fuel w) ∧ (W.dropExpiredHead fuel w).queue.length ≤ w.queue.length := by
  induction fuel generalizing w with
  | zero => exact ⟨⟨rfl, rfl, rfl, rfl, rfl⟩, Nat.le_refl _⟩
  | succ fuel ih =>
    unfold W.dropExpiredHead
    split
    · split
      · split
        · rename_i j' q hp
          have hl := popByPrio_length (show popByPrio w.cfg prioUp w.queue = some (j', q) from hp)
          obtain ⟨h1, h2⟩ := ih { w with queue := q, env := (w.env.discard w.handler .ttlExpired j').reject j' }
          exact ⟨⟨h1.cfg, h1.rl, h1.pool, h1.avail, h1.inQ⟩, by simp only at h2; omega⟩
        · exact ⟨⟨rfl, rfl, rfl, rfl, rfl⟩, Nat.le_refl _⟩
      · exact ⟨⟨rfl, rfl, rfl, rfl, rfl⟩, Nat.le_refl _⟩
    · exact ⟨⟨rfl, rfl, rfl, rfl, rfl⟩, Nat.le_refl _⟩

theorem ne_nil_of_length_le {α : Type} {a b : List α} (h : a.length ≤ b.length) (ha : a ≠ []) : b ≠ [] := by
  intro hb; subst hb
  cases a with
  | nil => exact ha rfl
  | cons _ _ => simp at h

theorem mem_toList_iff {hint : Option Nat} {x : Nat} : x ∈ hint.toList ↔ hint = some x := by
  cases hint <;> simp [eq_comm]

/-- what one call of the routing loop of `try_route_next_active_job` establishes -/
def LoopQ (hint : Option Nat) (w r : W) : Prop :=
  DInv hint.toList r ∧ r.queue.length ≤ w.queue.length ∧
  ((QInv hint.toList w ∨ w.queue.length ≤ r.queue.length) → QInv [] r) ∧
  (∀ x, hasW r.pool x = hasW w.pool x)

/-- one iteration of the routing loop; it goes round again only after the rate limiter refused the head job
(which is then discarded as `RateLimited`, so the queue got shorter) -/
theorem routeLoopQ_body (hint : Option Nat) (fuel : Nat) (w : W) (d : DInv hint.toList w)
    (hrec : ∀ w', w'.queue.length < w.queue.length → DInv hint.toList w' → LoopQ hint w' (W.routeLoop hint fuel w')) :
    LoopQ hint w (W.routeLoop hint (fuel + 1) w) := by
  unfold LoopQ
  unfold W.routeLoop
  cases hpk : qPeek w.cfg w.queue with
  | none =>
    simp only
    have hq := qPeek_none_nil hpk
    exact ⟨d, Nat.le_refl _, fun _ h => absurd hq h, fun _ => trivial⟩
  | some j =>
    simp only
    have hne : w.queue ≠ [] := qPeek_some_ne_nil hpk
    have hs := chooseQ_spec w j hint hint.toList d
    cases hc : w.chooseTargetWorker j hint with
    | mk t w1 =>
      rw [hc] at hs
      simp only at hs ⊢
      cases t with
      | none =>
        simp only
        obtain ⟨hidle1, hidle2⟩ := hs.none_idle rfl
        refine ⟨⟨by rw [hs.frame.cfg]; exact d.cfg, by rw [hs.frame.pool]; exact d.nodupW,
            hs.nodupQ, hs.sub, ?_⟩, by rw [hs.frame.queue]; exact Nat.le_refl _, ?_, (fun x => by rw [hs.frame.pool])⟩
        · intro p hp hne' ha
          rw [hs.frame.pool] at hp
          rcases hs.d1 p hp hne' ha with h1 | h1
          · exact h1
          · cases h1
        · intro _ _ p hp _
          rw [hs.frame.pool] at hp
          by_cases hin : p.wid ∈ hint.toList
          · have hh : hint = some p.wid := mem_toList_iff.mp hin
            rw [hh, hintAvailable_some, availP_of_mem d.nodupW hp] at hidle1
            exact hidle1
          · exact hidle2 p hp hin
      | some worker =>
        simp only
        have hav := hs.target worker rfl
        cases hp : qPopFront w1.cfg w1.queue with
        | none =>
          exfalso
          have := qPopFront_none hp
          rw [hs.frame.queue] at this
          exact hne this
        | some jq =>
          obtain ⟨j', q⟩ := jq
          simp only
          have hlen := popByPrio_length (show popByPrio w1.cfg prioUp w1.queue = some (j', q) from hp)
          rw [hs.frame.queue] at hlen
          -- the deque is sound for everybody but the hinted and the reserved slot
          have d1' : DInv (worker :: hint.toList) { w1 with queue := q } := by
            refine ⟨by simp only; rw [hs.frame.cfg]; exact d.cfg, by simp only; rw [hs.frame.pool]; exact d.nodupW, hs.nodupQ, hs.sub, ?_⟩
            intro p hp' hne' ha
            simp only at hp'
            rw [hs.frame.pool] at hp'
            have hn1 : p.wid ∉ hint.toList := fun hin => hne' (List.mem_cons_of_mem _ hin)
            rcases hs.d1 p hp' hn1 ha with h1 | h1
            · exact h1
            · simp only [Option.some.injEq] at h1
              exact absurd (by rw [h1]; exact List.mem_cons_self ..) hne'
          have hr := routeMessageQ { w1 with queue := q } j' (some worker) (worker :: hint.toList) d1'
          have havw1 : hintAvailable ({ w1 with queue := q } : W).pool (some worker) = true := by
            simp only; rw [hs.frame.pool]; exact hav
          cases hrm : W.routeMessage { w1 with queue := q } j' (some worker) with
          | mk r w2 =>
            rw [hrm] at hr
            simp only at hr
            cases r with
            | rateLimited =>
              simp only
              obtain ⟨hpool2, hin⟩ := hr.limited rfl
              have hmem : worker ∈ w2.inQ := hin worker rfl havw1
              have d2 : DInv hint.toList w2 := hr.dinv.drop_listed hmem
              have hq2 : w2.queue = q := hr.queue
              have hp2 : w2.pool = w.pool := by
                have := hpool2; simp only at this; rw [this, hs.frame.pool]
              generalize hw3 : ({ w2 with env := (w2.env.discard w2.handler .rateLimited j').reject j' } : W) = w3
              have hq3 : w3.queue = q := by subst hw3; exact hq2
              have hp3 : w3.pool = w.pool := by subst hw3; exact hp2
              have d3 : DInv hint.toList w3 := by subst hw3; exact ⟨d2.cfg, d2.nodupW, d2.nodupQ, d2.sub, d2.d1⟩
              have hrc := hrec w3 (by rw [hq3]; omega) d3
              obtain ⟨r1, r2, r3, r4⟩ := hrc
              refine ⟨r1, by rw [hq3] at r2; omega, ?_, (fun x => by rw [r4 x, hp3])⟩
              intro hor
              apply r3
              left
              rcases hor with hqpre | hnp
              · intro _ x hx hne'
                rw [hp3] at hx
                exact hqpre hne x hx hne'
              · rw [hq3] at r2; omega
            | backlog =>
              exfalso
              have := (hr.backlog rfl).2.1
              rw [havw1] at this; cases this
            | handled =>
              simp only
              obtain ⟨wid, ha1, ha2, ha3, ha4⟩ := hr.handled rfl
              have hwid : worker = wid := by
                have := ha3 havw1
                simpa using this
              subst hwid
              have hq2 : w2.queue = q := hr.queue
              have d2 : DInv hint.toList w2 :=
                (hr.dinv.drop_busy worker ha2).weaken (by
                  intro x hx
                  have := (List.mem_filter.mp hx).1
                  rcases List.mem_cons.mp this with h1 | h1
                  · have := (List.mem_filter.mp hx).2
                    simp [h1] at this
                  · exact h1)
              refine ⟨d2, by rw [hq2]; omega, ?_, (fun x => by rw [hr.wids x]; simp only; rw [hs.frame.pool])⟩
              intro hor
              rcases hor with hqpre | hnp
              · intro _ x hx _
                by_cases hxw : x.wid = worker
                · rw [← hxw, availP_of_mem d2.nodupW hx] at ha2; exact ha2
                · have hxin : x ∈ w.pool := by
                    have := ha4 x hx hxw
                    simp only at this
                    rw [hs.frame.pool] at this; exact this
                  by_cases hin : x.wid ∈ hint.toList
                  · have hh : hint = some x.wid := mem_toList_iff.mp hin
                    cases hha : hintAvailable w.pool hint
                    · rw [hh, hintAvailable_some, availP_of_mem d.nodupW hxin] at hha; exact hha
                    · have := hs.hinted hha
                      rw [hh] at this
                      simp only [Option.some.injEq] at this
                      exact absurd this.symm hxw
                  · exact hqpre hne x hxin hin
              · rw [hq2] at hnp; omega

/-- the whole loop: at most one iteration per waiting job -/
theorem routeLoopQ (hint : Option Nat) (fuel : Nat) (w : W) (hlen : w.queue.length ≤ fuel) (d : DInv hint.toList w) :
    LoopQ hint w (W.routeLoop hint (fuel + 1) w) := by
  induction fuel generalizing w with
  | zero =>
    apply routeLoopQ_body hint 0 w d
    intro w' hlt _
    omega
  | succ n ih =>
    apply routeLoopQ_body hint (n + 1) w d
    intro w' hlt d'
    exact ih w' (by omega) d'

theorem tryRouteQ (w : W) (hint : Option Nat) (d : DInv hint.toList w) :
    DInv hint.toList (w.tryRouteNextActiveJob hint) ∧
    (w.tryRouteNextActiveJob hint).queue.length ≤ w.queue.length ∧
    ((QInv hint.toList w ∨ w.queue.length ≤ (w.tryRouteNextActiveJob hint).queue.length) →
      QInv [] (w.tryRouteNextActiveJob hint)) ∧
    (∀ x, hasW (w.tryRouteNextActiveJob hint).pool x = hasW w.pool x) := by
  unfold W.tryRouteNextActiveJob
  dsimp only
  obtain ⟨hsp, hle⟩ := dropExpiredHead_samePool (w.queue.length + 1) w
  have d1 := d.of_samePool hsp
  obtain ⟨r1, r2, r3, r4⟩ := routeLoopQ hint (W.dropExpiredHead (w.queue.length + 1) w).queue.length _ (Nat.le_refl _) d1
  refine ⟨r1, by omega, ?_, (fun x => by rw [r4 x, hsp.pool])⟩
  intro hor
  apply r3
  rcases hor with h | h
  · left; exact h.of_samePool hsp (fun hq => ne_nil_of_length_le hle hq)
  · right; omega

end Factory

namespace Factory

/-- the invariant between two handlers -/
structure QD (w : W) : Prop where
  d : DInv [] w
  q : QInv [] w

theorem DInv.of_fields {w w' : W} {ex : List Nat} (d : DInv ex w) (h1 : w'.cfg = w.cfg) (h2 : w'.rl = w.rl)
    (h3 : w'.pool = w.pool) (h4 : w'.avail = w.avail) (h5 : w'.inQ = w.inQ) : DInv ex w' :=
  d.of_samePool ⟨h1, h2, h3, h4, h5⟩

theorem QInv.of_fields {w w' : W} {ex : List Nat} (q : QInv ex w) (h3 : w'.pool = w.pool) (h6 : w'.queue = w.queue) :
    QInv ex w' := by
  intro h; rw [h3]; exact q (by rw [← h6]; exact h)

theorem QD.of_fields {w w' : W} (h : QD w) (h1 : w'.cfg = w.cfg) (h2 : w'.rl = w.rl)
    (h3 : w'.pool = w.pool) (h4 : w'.avail = w.avail) (h5 : w'.inQ = w.inQ) (h6 : w'.queue = w.queue) : QD w' :=
  ⟨h.d.of_fields h1 h2 h3 h4 h5, h.q.of_fields h3 h6⟩

/-- reporting a slot as available makes the deque sound for it -/
theorem availChange_true_dinv (w : W) (wid : Nat) (ex : List Nat) (d : DInv ex w) :
    DInv (ex.filter (· != wid)) (w.availChange wid true) := by
  unfold W.availChange
  simp only [if_true]
  split
  · rename_i hc
    refine ⟨d.cfg, d.nodupW, d.nodupQ, d.sub, ?_⟩
    intro p hp hne ha
    by_cases hw : p.wid = wid
    · rw [hw]; simpa using hc
    · exact d.d1 p hp (fun hin => hne (List.mem_filter.mpr ⟨hin, by simpa using hw⟩)) ha
  · rename_i hc
    have hnot : wid ∉ w.inQ := by simpa using hc
    refine ⟨d.cfg, d.nodupW, List.nodup_cons.mpr ⟨hnot, d.nodupQ⟩, ?_, ?_⟩
    · intro x hx
      rcases List.mem_cons.mp hx with h | h
      · subst h; exact List.mem_append_right _ (List.mem_singleton.mpr rfl)
      · exact List.mem_append_left _ (d.sub x h)
    · intro p hp hne ha
      by_cases hw : p.wid = wid
      · rw [hw]; exact List.mem_cons_self ..
      · exact List.mem_cons_of_mem _ (d.d1 p hp (fun hin => hne (List.mem_filter.mpr ⟨hin, by simpa using hw⟩)) ha)

/-- the end of `worker_finished_job` / `handle_supervisor_evt`: the slot is reported if it is idle -/
theorem reportQ (w : W) (wid : Nat) (d : DInv [wid] w) (q : QInv [] w) :
    QD (if availP w.pool wid = true then w.availChange wid true else w) := by
  split
  · have d' := availChange_true_dinv w wid [wid] d
    have hnil : ([wid].filter (· != wid)) = [] := by simp
    rw [hnil] at d'
    exact ⟨d', q.of_fields (availChange_frame _ _ _).pool (availChange_frame _ _ _).queue⟩
  · rename_i hc
    have hb : availP w.pool wid = false := by simpa using hc
    have d' := d.drop_busy wid hb
    have hnil : ([wid].filter (· != wid)) = [] := by simp
    rw [hnil] at d'
    exact ⟨d', q⟩

/-- a slot's record is replaced: the deque is sound for everybody else -/
theorem setW_dinv {w w1 : W} {ex : List Nat} (d : DInv ex w) {wid : Nat} {p p' : WP} (hg : getW w.pool wid = some p)
    (hw : p'.wid = wid) (h1 : w1.cfg = w.cfg) (h2 : w1.rl = w.rl) (h3 : w1.pool = setW w.pool wid p')
    (h4 : w1.avail = w.avail) (h5 : w1.inQ = w.inQ) : DInv (wid :: ex) w1 := by
  refine ⟨by rw [h1]; exact d.cfg, by rw [h3]; exact nodupW_setW hw d.nodupW,
    by rw [h5]; exact d.nodupQ, by rw [h5, h4]; exact d.sub, ?_⟩
  intro x hx hne ha
  rw [h3] at hx
  rw [h5]
  rcases mem_setW_ne d.nodupW hg hw hx with h | ⟨hm, hxw⟩
  · subst h; exact absurd (by rw [hw]; exact List.mem_cons_self ..) hne
  · exact d.d1 x hm (fun hin => hne (List.mem_cons_of_mem _ hin)) ha

theorem setW_qinv {w w1 : W} {ex : List Nat} (q : QInv ex w) (hn : NodupW w.pool) {wid : Nat} {p p' : WP}
    (hg : getW w.pool wid = some p) (hw : p'.wid = wid) (h3 : w1.pool = setW w.pool wid p')
    (h6 : w1.queue = w.queue) : QInv (wid :: ex) w1 := by
  intro hq x hx hne
  rw [h3] at hx
  rcases mem_setW_ne hn hg hw hx with h | ⟨hm, hxw⟩
  · subst h; exact absurd (by rw [hw]; exact List.mem_cons_self ..) hne
  · exact q (by rw [← h6]; exact hq) x hm (fun hin => hne (List.mem_cons_of_mem _ hin))

theorem mem_removeW_ne {pool : List WP} {wid : Nat} {x : WP} (hn : NodupW pool) (hx : x ∈ removeW pool wid) :
    x ∈ pool ∧ x.wid ≠ wid := by
  refine ⟨mem_removeW hx, ?_⟩
  intro heq
  exact wid_not_mem_removeW (wid := wid) hn (List.mem_map.mpr ⟨x, hx, heq⟩)

/-- a slot is dropped from the pool: no exemption is needed for it any more -/
theorem removeW_dinv {w w1 : W} {ex : List Nat} (d : DInv ex w) (wid : Nat) (h1 : w1.cfg = w.cfg) (h2 : w1.rl = w.rl)
    (h3 : w1.pool = removeW w.pool wid) (h4 : w1.avail = w.avail) (h5 : w1.inQ = w.inQ) :
    DInv (ex.filter (· != wid)) w1 := by
  refine ⟨by rw [h1]; exact d.cfg, by rw [h3]; exact nodupW_removeW wid d.nodupW,
    by rw [h5]; exact d.nodupQ, by rw [h5, h4]; exact d.sub, ?_⟩
  intro x hx hne ha
  rw [h3] at hx
  rw [h5]
  obtain ⟨hm, hxw⟩ := mem_removeW_ne d.nodupW hx
  exact d.d1 x hm (fun hin => hne (List.mem_filter.mpr ⟨hin, by simpa using hxw⟩)) ha

theorem removeW_qinv {w w1 : W} {ex : List Nat} (q : QInv ex w) (hn : NodupW w.pool) (wid : Nat)
    (h3 : w1.pool = removeW w.pool wid) (h6 : w1.queue = w.queue) : QInv (ex.filter (· != wid)) w1 := by
  intro hq x hx hne
  rw [h3] at hx
  obtain ⟨hm, hxw⟩ := mem_removeW_ne hn hx
  exact q (by rw [← h6]; exact hq) x hm (fun hin => hne (List.mem_filter.mpr ⟨hin, by simpa using hxw⟩))

theorem filter_self_nil (wid : Nat) : ([wid].filter (· != wid)) = [] := by simp

/-- the exempt slot is dropped from the pool -/
theorem removeW_qd {w w1 : W} {wid : Nat} (d : DInv [wid] w) (q : QInv [wid] w) (h1 : w1.cfg = w.cfg) (h2 : w1.rl = w.rl)
    (h3 : w1.pool = removeW w.pool wid) (h4 : w1.avail = w.avail) (h5 : w1.inQ = w.inQ) (h6 : w1.queue = w.queue) :
    QD w1 := by
  have d2 := removeW_dinv d wid h1 h2 h3 h4 h5
  have q2 := removeW_qinv q d.nodupW wid h3 h6
  rw [filter_self_nil] at d2 q2
  exact ⟨d2, q2⟩

theorem qd_workerFinishedJob (w : W) (who key : Nat) (h : QD w) : QD (w.workerFinishedJob who key) := by
  unfold W.workerFinishedJob
  cases hg : getW w.pool who with
  | some p =>
    simp only
    have hwid : (p.workerComplete w.env key).1.wid = who := by rw [workerComplete_wid]; exact getW_wid hg
    cases hwc : p.workerComplete w.env key with
    | mk p' e' =>
      rw [hwc] at hwid
      simp only at hwid ⊢
      have d1 : DInv [who] { w with pool := setW w.pool who p', env := e' } :=
        setW_dinv h.d hg hwid rfl rfl rfl rfl rfl
      have q1 : QInv [who] { w with pool := setW w.pool who p', env := e' } :=
        setW_qinv h.q h.d.nodupW hg hwid rfl rfl
      split
      · split
        · -- drained slot: dropped
          exact removeW_qd d1 q1 rfl rfl rfl rfl rfl rfl
        · rename_i hwk
          have hb : availP (setW w.pool who p') who = false := by
            unfold availP; rw [getW_setW_same hg hwid]
            have : p'.isWorking = true := by simpa using hwk
            simpa [WP.isWorking] using this
          have d2 := d1.drop_busy who hb
          rw [filter_self_nil] at d2
          refine ⟨d2, ?_⟩
          intro hq x hx _
          by_cases hxw : x.wid = who
          · have := availP_of_mem d1.nodupW hx
            rw [hxw] at this
            rw [← this]; exact hb
          · exact q1 hq x hx (by simpa using hxw)
      · -- the slot takes the next waiting job, or is reported idle
        obtain ⟨t1, _, t3, _⟩ := tryRouteQ { w with pool := setW w.pool who p', env := e' } (some who) d1
        exact reportQ _ who t1 (t3 (Or.inl q1))
  | none =>
    simp only
    obtain ⟨t1, _, t3, t4⟩ := tryRouteQ w (some who) (h.d.weaken (by simp))
    have q' := t3 (Or.inl (h.q.weaken (by simp)))
    have hb : availP (w.tryRouteNextActiveJob (some who)).pool who = false := by
      unfold availP
      cases hg' : getW (w.tryRouteNextActiveJob (some who)).pool who with
      | none => rfl
      | some p =>
        exfalso
        have h1 : hasW (w.tryRouteNextActiveJob (some who)).pool who = true := by
          rw [hasW_iff_mem]; exact List.mem_map.mpr ⟨p, getW_mem hg', getW_wid hg'⟩
        rw [t4 who, hasW_iff_mem] at h1
        exact getW_none_not_mem hg h1
    have d' := t1.drop_busy who hb
    simp only [Option.toList_some, filter_self_nil] at d'
    exact ⟨d', q'⟩

end Factory

namespace Factory

theorem SamePool.trans {a b c : W} (h1 : SamePool a b) (h2 : SamePool b c) : SamePool a c :=
  ⟨h2.cfg.trans h1.cfg, h2.rl.trans h1.rl, h2.pool.trans h1.pool, h2.avail.trans h1.avail, h2.inQ.trans h1.inQ⟩

theorem shedQueueOldest_samePool (limit fuel : Nat) (w : W) : SamePool w (W.shedQueueOldest limit fuel w) := by
  induction fuel generalizing w with
  | zero => exact ⟨rfl, rfl, rfl, rfl, rfl⟩
  | succ fuel ih =>
    unfold W.shedQueueOldest
    split
    · split
      · apply SamePool.trans _ (ih _)
        exact ⟨rfl, rfl, rfl, rfl, rfl⟩
      · exact ih w
    · exact ⟨rfl, rfl, rfl, rfl, rfl⟩

theorem maybeEnqueue_samePool (w : W) (j : Job) : SamePool w (w.maybeEnqueue j) := by
  unfold W.maybeEnqueue
  split
  · split <;> exact ⟨rfl, rfl, rfl, rfl, rfl⟩
  · dsimp only
    apply SamePool.trans _ (shedQueueOldest_samePool _ _ _)
    exact ⟨rfl, rfl, rfl, rfl, rfl⟩
  · exact ⟨rfl, rfl, rfl, rfl, rfl⟩

theorem qd_dispatch (w : W) (j : Job) (h : QD w) : QD (w.dispatch j) := by
  unfold W.dispatch
  split
  · exact h.of_fields rfl rfl rfl rfl rfl rfl
  · split
    · have hr := routeMessageQ w j none [] h.d
      cases hrm : w.routeMessage j none with
      | mk r w2 =>
        rw [hrm] at hr
        cases r with
        | rateLimited =>
          -- refused by the limiter: reported, nothing routed, nothing queued
          simp only
          obtain ⟨hpool, _⟩ := hr.limited rfl
          refine ⟨⟨hr.dinv.cfg, hr.dinv.nodupW, hr.dinv.nodupQ, hr.dinv.sub, hr.dinv.d1⟩, ?_⟩
          intro hq x hx hne
          simp only at hq hx
          have hx' : x ∈ w.pool := by
            have := hpool; simp only at this; rw [this] at hx; exact hx
          exact h.q (by have := hr.queue; simp only at this; rw [← this]; exact hq) x hx' hne
        | handled =>
          simp only
          refine ⟨hr.dinv, ?_⟩
          -- a worker was available, so nothing was waiting
          obtain ⟨wid, ha1, _, _, _⟩ := hr.handled rfl
          obtain ⟨p, hg, hpa⟩ := availP_true_getW ha1
          intro hq
          exfalso
          have := h.q (by rw [← hr.queue]; exact hq) p (getW_mem hg) (by simp)
          rw [hpa] at this; cases this
        | backlog =>
          simp only
          obtain ⟨hpool, _, hidle⟩ := hr.backlog rfl
          have hs := maybeEnqueue_samePool w2 j
          refine ⟨hr.dinv.of_samePool hs, ?_⟩
          intro _ x hx _
          rw [hs.pool, hpool] at hx
          exact hidle x hx (by simp)
    · exact h.of_fields rfl rfl rfl rfl rfl rfl

/-! ### growing and shrinking -/

/-- a record whose availability did not change needs no exemption -/
theorem dinv_setW_same_avail {w w1 : W} (d : DInv [] w) {wid : Nat} {p p' : WP} (hg : getW w.pool wid = some p)
    (hw : p'.wid = wid) (hav : p'.isAvailable = p.isAvailable) (h1 : w1.cfg = w.cfg) (h2 : w1.rl = w.rl)
    (h3 : w1.pool = setW w.pool wid p') (h4 : w1.avail = w.avail) (h5 : w1.inQ = w.inQ) : DInv [] w1 := by
  have d' := setW_dinv d hg hw h1 h2 h3 h4 h5
  refine ⟨d'.cfg, d'.nodupW, d'.nodupQ, d'.sub, ?_⟩
  intro x hx _ ha
  by_cases hxw : x.wid = wid
  · have hxe : x = p' := by
      rw [h3] at hx
      exact nodupW_eq_of_wid (nodupW_setW hw d.nodupW) hx (mem_setW_self hg) (by rw [hxw, hw])
    have hpa : p.isAvailable = true := by rw [← hav, ← hxe]; exact ha
    have := d.d1 p (getW_mem hg) (by simp) hpa
    rw [h5, hxw, ← getW_wid hg]; exact this
  · exact d'.d1 x hx (by simpa using hxw) ha

theorem qinv_setW_same_avail {w w1 : W} (q : QInv [] w) (hn : NodupW w.pool) {wid : Nat} {p p' : WP}
    (hg : getW w.pool wid = some p) (hw : p'.wid = wid) (hav : p'.isAvailable = p.isAvailable)
    (h3 : w1.pool = setW w.pool wid p') (h6 : w1.queue = w.queue) : QInv [] w1 := by
  have q' := setW_qinv q hn hg hw h3 h6
  intro hq x hx _
  by_cases hxw : x.wid = wid
  · have hxe : x = p' := by
      rw [h3] at hx
      exact nodupW_eq_of_wid (nodupW_setW hw hn) hx (mem_setW_self hg) (by rw [hxw, hw])
    rw [hxe, hav]
    exact q (by rw [← h6]; exact hq) p (getW_mem hg) (by simp)
  · exact q' hq x hx (by simpa using hxw)

theorem dinv_append_new (w : W) (p0 : WP) (nA : Nat) (e : Env) (byA : List (Nat × Nat)) (d : DInv [] w)
    (hg : getW w.pool p0.wid = none) :
    DInv [p0.wid] { w with nextAid := nA, env := e, pool := w.pool ++ [p0], byActor := byA } := by
  refine ⟨d.cfg, nodupW_append_new hg d.nodupW, d.nodupQ, d.sub, ?_⟩
  intro x hx hne ha
  rcases List.mem_append.mp hx with hm | hm
  · exact d.d1 x hm (by simp) ha
  · simp only [List.mem_singleton] at hm; subst hm
    exact absurd (List.mem_singleton.mpr rfl) hne

theorem dinv_growOne (w : W) (wid : Nat) (d : DInv [] w) : DInv [] (w.growOne wid) := by
  unfold W.growOne
  split
  · rename_i p hg
    have hpw : p.wid = wid := getW_wid hg
    have d1 := dinv_setW_same_avail (w1 := { w with pool := setW w.pool wid { p with draining := false } }) d hg
      (p' := { p with draining := false }) hpw rfl rfl rfl rfl rfl rfl
    split
    · have := availChange_true_dinv _ wid [] d1
      simpa using this
    · exact d1
  · rename_i hg
    dsimp only
    have d0 := dinv_append_new w { wid := wid, actor := w.nextAid, disc := w.workerDiscard w.disc, handler := w.handler } (w.nextAid + 1)
      (w.env.spawn wid w.nextAid) (w.byActor ++ [(w.nextAid, wid)]) d hg
    have := availChange_true_dinv _ wid [wid] d0
    rw [filter_self_nil] at this
    exact this

theorem dinv_foldl {f : W → Nat → W} (hf : ∀ w k, DInv [] w → DInv [] (f w k)) (l : List Nat) (w : W) (d : DInv [] w) :
    DInv [] (l.foldl f w) := by
  induction l generalizing w with
  | nil => exact d
  | cons a l ih => exact ih _ (hf _ _ d)

theorem dinv_growPool (w : W) (n : Nat) (d : DInv [] w) : DInv [] (w.growPool n) := by
  unfold W.growPool
  exact dinv_foldl (fun w k hw => dinv_growOne w _ hw) _ w d

theorem dinv_availChange_false (w : W) (wid : Nat) (p : WP) (d : DInv [] w) :
    DInv [wid] (w.availChange wid false) := by
  unfold W.availChange
  simp only [Bool.false_eq_true, if_false]
  refine ⟨d.cfg, d.nodupW, d.nodupQ.erase wid, fun x hx => d.sub x (List.mem_of_mem_erase hx), ?_⟩
  intro x hx hne ha
  have hxw : x.wid ≠ wid := by simpa using hne
  exact (List.mem_erase_of_ne hxw).mpr (d.d1 x hx (by simp) ha)

theorem qd_shrinkOne (w : W) (wid : Nat) (h : QD w) : QD (w.shrinkOne wid) := by
  unfold W.shrinkOne
  split
  · rename_i p hg
    have hpw : p.wid = wid := getW_wid hg
    split
    · -- busy: only the flag changes
      exact ⟨dinv_setW_same_avail h.d hg (p' := { p with draining := true }) hpw rfl rfl rfl rfl rfl rfl,
        qinv_setW_same_avail h.q h.d.nodupW hg (p' := { p with draining := true }) hpw rfl rfl rfl⟩
    · -- idle: unflagged, stopped and dropped
      have hf := availChange_frame w wid false
      have d0 := dinv_availChange_false w wid p h.d
      have q0 : QInv [wid] (w.availChange wid false) := (h.q.of_fields hf.pool hf.queue).weaken (by simp)
      exact removeW_qd d0 q0 rfl rfl rfl rfl rfl rfl
  · exact h

theorem qd_foldl {f : W → Nat → W} (hf : ∀ w k, QD w → QD (f w k)) (l : List Nat) (w : W) (h : QD w) :
    QD (l.foldl f w) := by
  induction l generalizing w with
  | nil => exact h
  | cons a l ih => exact ih _ (hf _ _ h)

theorem qd_shrinkPool (w : W) (n : Nat) (h : QD w) : QD (w.shrinkPool n) := by
  unfold W.shrinkPool
  exact qd_foldl (fun w k hw => qd_shrinkOne w _ hw) _ w h

/-- the backlog flush after a grow: it stops only when the queue is empty or nobody is available -/
theorem qd_flushAfterGrow (fuel : Nat) (w : W) (hf : w.queue.length < fuel) (d : DInv [] w) :
    QD (W.flushAfterGrow fuel w) := by
  induction fuel generalizing w with
  | zero => omega
  | succ fuel ih =>
    unfold W.flushAfterGrow
    simp only
    split
    · rename_i h0
      have : w.queue = [] := by
        cases hq : w.queue with
        | nil => rfl
        | cons _ _ => simp [hq] at h0
      exact ⟨d, fun hq => absurd this hq⟩
    · obtain ⟨t1, t2, t3, _⟩ := tryRouteQ w none d
      simp only [Option.toList_none] at t1 t3
      split
      · rename_i hnp
        exact ⟨t1, t3 (Or.inr hnp)⟩
      · rename_i hp
        exact ih _ (by omega) t1

theorem qd_resizePool (w : W) (n : Nat) (h : QD w) : QD (w.resizePool n) := by
  unfold W.resizePool
  split
  · exact h
  · simp only
    split
    · apply qd_flushAfterGrow _ _ (by simp only; omega)
      exact (dinv_growPool w _ h.d).of_fields rfl rfl rfl rfl rfl
    · split
      · exact (qd_shrinkPool w _ h).of_fields rfl rfl rfl rfl rfl rfl
      · exact h.of_fields rfl rfl rfl rfl rfl rfl

end Factory

namespace Factory

theorem qd_map_disc (w w1 : W) (dsc : Option (Nat × Mode)) (h : QD w) (h1 : w1.cfg = w.cfg) (h2 : w1.rl = w.rl)
    (h3 : w1.pool = w.pool.map fun p => { p with disc := dsc }) (h4 : w1.avail = w.avail) (h5 : w1.inQ = w.inQ)
    (h6 : w1.queue = w.queue) : QD w1 := by
  refine ⟨⟨by rw [h1]; exact h.d.cfg, ?_, by rw [h5]; exact h.d.nodupQ,
    by rw [h5, h4]; exact h.d.sub, ?_⟩, ?_⟩
  · rw [h3]; unfold NodupW; rw [List.map_map]; exact h.d.nodupW
  · intro x hx _ ha
    rw [h3] at hx
    obtain ⟨y, hy, rfl⟩ := List.mem_map.mp hx
    rw [h5]
    exact h.d.d1 y hy (by simp) ha
  · intro hq x hx _
    rw [h3] at hx
    obtain ⟨y, hy, rfl⟩ := List.mem_map.mp hx
    exact h.q (by rw [← h6]; exact hq) y hy (by simp)

theorem qd_setHandler (w : W) (hd : Option Nat) (h : QD w) : QD (w.setHandler hd) := by
  refine ⟨⟨h.d.cfg, ?_, h.d.nodupQ, h.d.sub, ?_⟩, ?_⟩
  · show NodupW (w.pool.map _)
    unfold NodupW; rw [List.map_map]; exact h.d.nodupW
  · intro x hx _ ha
    obtain ⟨y, hy, rfl⟩ := List.mem_map.mp hx
    exact h.d.d1 y hy (by simp) ha
  · intro hq x hx _
    obtain ⟨y, hy, rfl⟩ := List.mem_map.mp hx
    exact h.q hq y hy (by simp)

theorem qd_updateSettings (w : W) (d : Option (Option (Nat × Mode))) (n : Option Nat) (h : QD w) :
    QD (w.updateSettings d n) := by
  unfold W.updateSettings
  have h1 : QD (match d with
      | some d => { w with pool := w.pool.map (fun p => { p with disc := w.workerDiscard d }), disc := d }
      | none => w) := by
    cases d with
    | none => exact h
    | some d => exact qd_map_disc w _ _ h rfl rfl rfl rfl rfl rfl
  cases n with
  | none => exact h1
  | some n => exact qd_resizePool _ n h1

theorem qd_afterReplace (w : W) (wid : Nat) (d : DInv [wid] w) (q : QInv [wid] w) : QD (w.afterReplace wid) := by
  unfold W.afterReplace
  cases hret : w.retireIdleDrainingWorker wid with
  | some w2 =>
    simp only
    unfold W.retireIdleDrainingWorker at hret
    split at hret
    · split at hret
      · simp only [Option.some.injEq] at hret; subst hret
        exact removeW_qd d q rfl rfl rfl rfl rfl rfl
      · simp at hret
    · simp at hret
  | none =>
    simp only
    obtain ⟨t1, _, t3, _⟩ := tryRouteQ w (some wid) d
    exact reportQ _ wid t1 (t3 (Or.inl q))

theorem qd_handleSupervisorEvt (w : W) (who : Nat) (h : QD w) : QD (w.handleSupervisorEvt who) := by
  unfold W.handleSupervisorEvt
  split
  · exact h
  · rename_i wid _
    cases hg : getW w.pool wid with
    | none => exact h
    | some p =>
      simp only
      have hwid : (p.replaceWorker (w.env.spawn wid w.nextAid) w.nextAid).1.wid = wid := by
        rw [replaceWorker_wid]; exact getW_wid hg
      cases hrw : p.replaceWorker (w.env.spawn wid w.nextAid) w.nextAid with
      | mk p' e' =>
        rw [hrw] at hwid
        simp only at hwid ⊢
        apply qd_afterReplace
        · exact setW_dinv h.d hg hwid rfl rfl rfl rfl rfl
        · exact setW_qinv h.q h.d.nodupW hg hwid rfl rfl

theorem qd_removeExpired (w : W) (h : QD w) : QD w.removeExpired := by
  unfold W.removeExpired
  split
  · refine ⟨h.d.of_fields rfl rfl rfl rfl rfl, ?_⟩
    intro hq
    apply h.q
    intro hnil
    simp only [hnil, List.filter_nil] at hq
    exact hq rfl
  · exact h

theorem qd_calcRest (w : W) (h : QD w) : QD w.calcRest := by
  unfold W.calcRest
  exact (qd_removeExpired w h).of_fields rfl rfl rfl rfl rfl rfl

theorem qd_postStop (w : W) (h : QD w) : QD w.postStop := by
  unfold W.postStop
  simp only
  exact ⟨⟨h.d.cfg, List.nodup_nil, h.d.nodupQ, h.d.sub, fun p hp => absurd hp List.not_mem_nil⟩,
    fun hq => absurd rfl hq⟩

theorem qd_tryFinishStop (w : W) (h : QD w) : QD w.tryFinishStop := by
  unfold W.tryFinishStop
  split
  · exact h.of_fields rfl rfl rfl rfl rfl rfl
  · exact h

theorem qd_handleMsg (w : W) (m : FMsg) (h : QD w) : QD (w.handleMsg m) := by
  cases m with
  | dispatch j => exact qd_dispatch w j h
  | finished who key => exact qd_workerFinishedJob w who key h
  | adjust n => exact qd_resizePool w n h
  | updateSettings d n => exact qd_updateSettings w d n h
  | setHandler hd => exact qd_setHandler w hd h
  | drainRequests => exact h.of_fields rfl rfl rfl rfl rfl rfl
  | calculate =>
    show QD (if w.cfg.hasCC && w.armed then { w with armed := false, blocked := true } else w.calcRest)
    split
    · exact h.of_fields rfl rfl rfl rfl rfl rfl
    · exact qd_calcRest w h
  | getQueueDepth => exact h.of_fields rfl rfl rfl rfl rfl rfl
  | getNumActiveWorkers => exact h.of_fields rfl rfl rfl rfl rfl rfl
  | getAvailableCapacity => exact h.of_fields rfl rfl rfl rfl rfl rfl

theorem isDrained_fields (w : W) :
    w.isDrained.2.cfg = w.cfg ∧ w.isDrained.2.rl = w.rl ∧ w.isDrained.2.pool = w.pool ∧
    w.isDrained.2.avail = w.avail ∧ w.isDrained.2.inQ = w.inQ ∧ w.isDrained.2.queue = w.queue := by
  unfold W.isDrained
  split
  · exact ⟨rfl, rfl, rfl, rfl, rfl, rfl⟩
  · exact ⟨rfl, rfl, rfl, rfl, rfl, rfl⟩
  · split <;> exact ⟨rfl, rfl, rfl, rfl, rfl, rfl⟩

theorem qd_afterHandle (w : W) (h : QD w) : QD w.afterHandle := by
  unfold W.afterHandle
  split
  · exact h
  · obtain ⟨f1, f2, f3, f4, f5, f6⟩ := isDrained_fields w
    cases hd : w.isDrained with
    | mk d w2 =>
      rw [hd] at f1 f2 f3 f4 f5 f6
      simp only at f1 f2 f3 f4 f5 f6 ⊢
      have h2 : QD w2 := h.of_fields f1 f2 f3 f4 f5 f6
      split
      · exact h2.of_fields rfl rfl rfl rfl rfl rfl
      · exact h2

theorem qd_loopStep (w w' : W) (h : QD w) (hl : w.loopStep = some w') : QD w' := by
  unfold W.loopStep at hl
  split at hl
  · simp at hl
  · split at hl
    · simp only [Option.some.injEq] at hl; subst hl; exact qd_postStop w h
    · split at hl
      · simp only [Option.some.injEq] at hl; subst hl
        exact qd_handleSupervisorEvt _ _ (h.of_fields rfl rfl rfl rfl rfl rfl)
      · split at hl
        · simp only [Option.some.injEq] at hl; subst hl
          exact qd_afterHandle _ (qd_handleMsg _ _ (h.of_fields rfl rfl rfl rfl rfl rfl))
        · simp at hl

theorem qd_runQ (fuel : Nat) (w : W) (h : QD w) : QD (W.runQ fuel w) := by
  induction fuel generalizing w with
  | zero => exact h
  | succ fuel ih =>
    unfold W.runQ
    cases hl : w.loopStep with
    | some w' => simp only; exact ih _ (qd_loopStep w w' h hl)
    | none =>
      simp only
      have hs : QD (W.tryFinishStop { w with env := w.env.settle }) :=
        qd_tryFinishStop _ (h.of_fields rfl rfl rfl rfl rfl rfl)
      split
      · exact hs
      · exact ih _ hs

theorem qd_send (w : W) (m : FMsg) (h : QD w) : QD (w.send m) := by
  unfold W.send; split
  · exact h
  · exact h.of_fields rfl rfl rfl rfl rfl rfl

theorem qd_advanceTo (t fuel : Nat) (w : W) (h : QD w) : QD (W.advanceTo t fuel w) := by
  induction fuel generalizing w with
  | zero => exact h.of_fields rfl rfl rfl rfl rfl rfl
  | succ fuel ih =>
    unfold W.advanceTo
    split
    · simp only
      apply ih
      apply qd_runQ
      apply qd_send
      exact h.of_fields rfl rfl rfl rfl rfl rfl
    · exact h.of_fields rfl rfl rfl rfl rfl rfl

theorem qd_finish (w : W) (aid : Nat) (ok : Bool) (h : QD w) : QD (w.finish aid ok) := by
  unfold W.finish
  cases ha : w.env.getActor aid with
  | none => exact h
  | some a =>
    simp only
    cases hr : a.running with
    | none => exact h
    | some j =>
      simp only
      split
      · exact h
      · split
        · exact h.of_fields rfl rfl rfl rfl rfl rfl
        · have h1 : QD (W.send { w with env := (w.env.emit (.finishOk aid)).emit (.handled aid j.id) } (.finished a.wid j.key)) :=
            qd_send _ _ (h.of_fields rfl rfl rfl rfl rfl rfl)
          exact h1.of_fields rfl rfl rfl rfl rfl rfl

theorem qd_applyOp (w : W) (op : Op) (h : QD w) : QD (w.applyOp op) := by
  cases op with
  | dispatch id key hash ttl acc =>
    simp only [W.applyOp]
    split
    · exact h
    · exact qd_send _ _ (h.of_fields rfl rfl rfl rfl rfl rfl)
  | finish aid ok => exact qd_finish w aid ok h
  | kill aid => exact h.of_fields rfl rfl rfl rfl rfl rfl
  | resize n => exact qd_send _ _ (h.of_fields rfl rfl rfl rfl rfl rfl)
  | settings d n =>
    simp only [W.applyOp]
    apply qd_send
    cases d with
    | none => cases n with
      | none => exact h
      | some n => exact h.of_fields rfl rfl rfl rfl rfl rfl
    | some d => cases n with
      | none => exact h.of_fields rfl rfl rfl rfl rfl rfl
      | some n => exact h.of_fields rfl rfl rfl rfl rfl rfl
  | drain => exact qd_send _ _ (h.of_fields rfl rfl rfl rfl rfl rfl)
  | setHandler hd => exact qd_send _ _ (h.of_fields rfl rfl rfl rfl rfl rfl)
  | advance => exact h
  | block => exact h.of_fields rfl rfl rfl rfl rfl rfl
  | release n =>
    simp only [W.applyOp]
    split
    · apply qd_afterHandle
      apply qd_calcRest
      split
      · exact qd_resizePool _ _ (h.of_fields rfl rfl rfl rfl rfl rfl)
      · exact h.of_fields rfl rfl rfl rfl rfl rfl
    · exact h
  | nop => exact h

theorem qd_ask (w : W) (m : FMsg) (h : QD w) : QD (w.ask m) := by
  unfold W.ask
  split
  · exact h.of_fields rfl rfl rfl rfl rfl rfl
  · simp only
    have h1 := qd_runQ RUN_FUEL _ (qd_send w m h)
    split
    · exact h1.of_fields rfl rfl rfl rfl rfl rfl
    · exact h1

theorem qd_queries (w : W) (h : QD w) : QD w.queries := by
  unfold W.queries
  split
  · exact h.of_fields rfl rfl rfl rfl rfl rfl
  · exact qd_ask _ _ (qd_ask _ _ (qd_ask _ _ (h.of_fields rfl rfl rfl rfl rfl rfl)))

theorem qd_stepOp (w : W) (op : Op) (t0 tq te : Nat) (h : QD w) : QD (w.stepOp op t0 tq te) := by
  unfold W.stepOp
  simp only
  generalize hw1 : W.advanceTo t0 (advanceFuel w t0) w = w1
  have h1 : QD w1 := by rw [← hw1]; exact qd_advanceTo _ _ _ h
  generalize hw2 : W.runQ RUN_FUEL (w1.applyOp op) = w2
  have h2 : QD w2 := by rw [← hw2]; exact qd_runQ _ _ (qd_applyOp _ _ h1)
  generalize hw3 : W.advanceTo tq (advanceFuel w2 tq) w2 = w3
  have h3 : QD w3 := by rw [← hw3]; exact qd_advanceTo _ _ _ h2
  generalize hw4 : w3.queries = w4
  have h4 : QD w4 := by rw [← hw4]; exact qd_queries _ h3
  generalize hw5 : W.advanceTo te (advanceFuel w4 te) w4 = w5
  have h5 : QD w5 := by rw [← hw5]; exact qd_advanceTo _ _ _ h4
  exact h5.of_fields rfl rfl rfl rfl rfl rfl

theorem qd_runSteps (w : W) (steps : List Step) (h : QD w) : QD (w.runSteps steps) := by
  induction steps generalizing w with
  | nil => exact h
  | cons s rest ih => exact ih _ (qd_stepOp w s.op s.t0 s.tq s.te h)

theorem qd_init (c : CaseCfg) (hr : c.cfg.router = .q) : QD (init c) := by
  unfold init
  simp only
  have hd := dinv_growPool
    ({ cfg := c.cfg, poolSize := 0, pool := [], byActor := [], avail := [], inQ := [], last := 0,
       rl := c.rl.map fun (r : Nat × Nat × Nat × Nat) =>
          let lc : LeakyBucket.Cfg := ⟨r.1, r.2.1, r.2.2.1, 10 ^ 40⟩
          (lc, LeakyBucket.new lc (some r.2.2.2) 0),
       queue := [], disc := c.disc, drain := .notDraining,
       handler := if c.cfg.hasHandler then some 0 else none,
       env := { actors := [], log := [], now := 0, sup := [] },
       nextAid := 0, stopSignal := false, stopped := false, inbox := [], blocked := false, armed := false,
       nextCalc := CALCULATE_FREQUENCY, answers := [], lastWq := none } : W) c.n
    ⟨hr, List.nodup_nil, List.nodup_nil, fun x hx => absurd hx List.not_mem_nil,
     fun p hp => absurd hp List.not_mem_nil⟩
  refine ⟨hd.of_fields rfl rfl rfl rfl rfl, ?_⟩
  intro hq
  exfalso
  apply hq
  show (W.growPool _ c.n).queue = []
  have : ∀ (w : W) (n : Nat), (w.growPool n).queue = w.queue := by
    intro w n
    unfold W.growPool
    generalize List.range n = l
    induction l generalizing w with
    | nil => rfl
    | cons a l ih =>
      rw [List.foldl_cons, ih]
      unfold W.growOne
      split
      · split
        · exact (availChange_frame _ _ _).queue
        · rfl
      · exact (availChange_frame _ _ _).queue
  rw [this]

end Factory
