import RactorModel.Lemmas.FactoryKeyOrder
import RactorModel.Lemmas.FactoryNoStart

/-!
# Jobs of one key START in submission order (key-persistent routing, no stale completion)

`FactoryKeyOrder.lean` orders the jobs that wait in queues. Here the worker's mailbox joins the picture: the
"worker pipeline" of a slot is `wq p e` = mailbox of its actor ++ its own queue, and `S k` is the list of ids of
the jobs of key `k` that have started so far (from the log). Invariant: every started id of key `k` is smaller than
every waiting id of key `k`, and `S k` is increasing. A start takes the head of a worker pipeline; by the pipeline
order and key-persistent affinity (through the coupling invariant `Core`) it is the oldest waiting job of its key.
-/

namespace Factory

/-- the jobs in the mailbox of actor `aid` -/
def mbox (e : Env) (aid : Nat) : List Job :=
  match e.getActor aid with
  | some a => if a.alive then a.mailbox else []
  | none => []

/-- the worker pipeline of a slot: what its actor has in the mailbox, then the worker's own queue -/
def wq (p : WP) (e : Env) : List Job := mbox e p.actor ++ p.mq

theorem mbox_of_actors {e e' : Env} (h : e'.actors = e.actors) (aid : Nat) : mbox e' aid = mbox e aid := by
  unfold mbox Env.getActor; rw [h]

theorem mbox_emit (e : Env) (ev : Ev) (aid : Nat) : mbox (e.emit ev) aid = mbox e aid := rfl

/-- `dispatch_job`: the job is appended to the actor's mailbox, or (closed actor) put back at the queue head —
either way it sits between the mailbox and the rest of the queue -/
theorem wq_dispatchJob (p : WP) (e : Env) (j : Job) :
    (p.dispatchJob e j).1.actor = p.actor ∧
    wq (p.dispatchJob e j).1 (p.dispatchJob e j).2 = mbox e p.actor ++ j :: p.mq ∧
    ∀ b, b ≠ p.actor → mbox (p.dispatchJob e j).2 b = mbox e b := by
  unfold WP.dispatchJob Env.cast
  cases g : e.getActor p.actor with
  | none =>
    refine ⟨rfl, ?_, fun _ _ => rfl⟩
    simp only [wq, mbox, g]
  | some a =>
    have haid := getActor_aid g
    by_cases hal : a.alive = true
    · have hn : ¬ ((!a.alive) = true) := by rw [hal]; exact Bool.false_ne_true
      simp only [if_neg hn]
      generalize ha' : ({ a with mailbox := a.mailbox ++ [j] } : Actor) = a'
      have haid' : a'.aid = p.actor := by subst ha'; exact haid
      have g' : e.getActor a'.aid = some a := by rw [haid']; exact g
      have gs := getActor_setActor_self e a a' g'
      rw [haid'] at gs
      refine ⟨trivial, ?_, ?_⟩
      · simp only [wq, mbox, gs, g]
        subst ha'
        simp only [hal, if_true, List.append_assoc, List.singleton_append]
      · intro b hb
        unfold mbox
        rw [getActor_setActor_other e a' b (by rw [haid']; exact hb)]
    · have hal' : a.alive = false := by simpa using hal
      have hn : (!a.alive) = true := by rw [hal']; rfl
      simp only [if_pos hn]
      exact ⟨trivial, by simp only [wq], fun _ _ => trivial⟩

theorem getNext_mbox (p : WP) (e : Env) (aid : Nat) : mbox (p.getNext e).2.2 aid = mbox e aid :=
  mbox_of_actors (getNext_actors p e) aid

/-- the tail of `worker_complete` / `replace_worker`: the pipeline only loses (expired) jobs -/
theorem wq_nextJob (p : WP) (e : Env) :
    (p.nextJob e).1.actor = p.actor ∧ (wq (p.nextJob e).1 (p.nextJob e).2).Sublist (wq p e) ∧
    ∀ b, b ≠ p.actor → mbox (p.nextJob e).2 b = mbox e b := by
  obtain ⟨sk, hsk⟩ := getNext_split p e
  have hmb := getNext_mbox p e
  have hact := getNext_actor p e
  unfold WP.nextJob
  cases hg : p.getNext e with
  | mk r pe =>
    obtain ⟨p2, e2⟩ := pe
    rw [hg] at hsk hmb hact
    simp only at hsk hmb hact ⊢
    cases r with
    | none =>
      simp only [Option.toList_none, List.nil_append] at hsk
      refine ⟨hact, ?_, fun b _ => hmb b⟩
      unfold wq
      rw [hact, hmb, hsk]
      exact List.Sublist.append (List.Sublist.refl _) (List.sublist_append_right _ _)
    | some j =>
      simp only [Option.toList_some, List.cons_append, List.nil_append] at hsk
      obtain ⟨d1, d2, d3⟩ := wq_dispatchJob p2 e2 j
      refine ⟨d1.trans hact, ?_, fun b hb => (d3 b (by rw [hact]; exact hb)).trans (hmb b)⟩
      rw [d2, hact, hmb]
      unfold wq
      rw [hsk]
      exact List.Sublist.append (List.Sublist.refl _) (List.sublist_append_right _ _)

theorem shedOldest_mbox (limit fuel : Nat) (p : WP) (e : Env) (aid : Nat) : mbox (shedOldest limit fuel p e).2 aid = mbox e aid :=
  mbox_of_actors (shedOldest_envEq limit fuel p e).actors aid

/-- `enqueue_job`: the pipeline only loses jobs, and gains the new one at its very end -/
theorem wq_enqueueJob (p : WP) (e : Env) (j : Job) :
    (p.enqueueJob e j).1.actor = p.actor ∧
    (wq (p.enqueueJob e j).1 (p.enqueueJob e j).2).Sublist (wq p e ++ [{ j with port := false }]) ∧
    ∀ b, b ≠ p.actor → mbox (p.enqueueJob e j).2 b = mbox e b := by
  unfold WP.enqueueJob
  split
  · refine ⟨rfl, ?_, fun b _ => mbox_of_actors ((envEq_discard e _ _ j).trans (envEq_reject _ j)).actors b⟩
    have : wq p ((e.discard p.handler .loadshed j).reject j) = wq p e := by
      unfold wq; rw [mbox_of_actors ((envEq_discard e _ _ j).trans (envEq_reject _ j)).actors]
    show (wq p ((e.discard p.handler .loadshed j).reject j)).Sublist _
    rw [this]
    exact List.sublist_append_left _ _
  · generalize ({ j with port := false } : Job) = j1
    have hm1 : (p.track j.key).mq = p.mq := rfl
    have ha1 : (p.track j.key).actor = p.actor := rfl
    generalize p.track j.key = p1 at hm1 ha1
    have he1 : ∀ b, mbox (e.accept j) b = mbox e b := fun b => mbox_of_actors (envEq_accept e j).actors b
    generalize e.accept j = e1 at he1
    have hwq1 : wq p1 e1 = wq p e := by unfold wq; rw [ha1, he1, hm1]
    rw [← hwq1, ← ha1]
    have goal : (p1.enqueueAccepted e1 j1).1.actor = p1.actor ∧
        (wq (p1.enqueueAccepted e1 j1).1 (p1.enqueueAccepted e1 j1).2).Sublist (wq p1 e1 ++ [j1]) ∧
        ∀ b, b ≠ p1.actor → mbox (p1.enqueueAccepted e1 j1).2 b = mbox e1 b := by
      unfold WP.enqueueAccepted
      split
      · obtain ⟨sk, hsk⟩ := getNext_split p1 e1
        have hmb := getNext_mbox p1 e1
        have hact := getNext_actor p1 e1
        cases hg : p1.getNext e1 with
        | mk r pe =>
          obtain ⟨p2, e2⟩ := pe
          rw [hg] at hsk hmb hact
          simp only at hsk hmb hact ⊢
          cases r with
          | none =>
            simp only [Option.toList_none, List.nil_append] at hsk
            simp only
            obtain ⟨d1, d2, d3⟩ := wq_dispatchJob p2 e2 j1
            refine ⟨d1.trans hact, ?_, fun b hb => (d3 b (by rw [hact]; exact hb)).trans (hmb b)⟩
            rw [d2, hact, hmb]
            have hnil : p2.mq = [] := by
              have h1 : (p1.getNext e1).1 = none := by rw [hg]
              have := getNextNonExpired_none_nil (hd := p1.handler) p1.mq p1.pending e1 h1
              have h2 : (p1.getNext e1).2.1.mq = [] := this
              rw [hg] at h2; exact h2
            rw [hnil]
            unfold wq
            exact List.Sublist.append (List.sublist_append_left _ _) (List.Sublist.refl _)
          | some older =>
            simp only [Option.toList_some, List.cons_append, List.nil_append] at hsk
            simp only
            obtain ⟨d1, d2, d3⟩ := wq_dispatchJob { p2 with mq := p2.mq ++ [j1] } e2 older
            refine ⟨d1.trans hact, ?_, fun b hb => (d3 b (by show b ≠ p2.actor; rw [hact]; exact hb)).trans (hmb b)⟩
            rw [d2]
            show (mbox e2 p2.actor ++ older :: (p2.mq ++ [j1])).Sublist (wq p1 e1 ++ [j1])
            rw [hact, hmb]
            unfold wq
            rw [hsk]
            have : mbox e1 p1.actor ++ older :: (p2.mq ++ [j1]) = (mbox e1 p1.actor ++ older :: p2.mq) ++ [j1] := by simp
            rw [this]
            refine List.Sublist.append ?_ (List.Sublist.refl _)
            exact List.Sublist.append (List.Sublist.refl _) (List.sublist_append_right _ _)
      · simp only
        split
        · refine ⟨shedOldest_actor _ _ _ _, ?_, fun b _ => shedOldest_mbox _ _ _ _ b⟩
          unfold wq
          rw [shedOldest_actor, shedOldest_mbox]
          have := shedOldest_mq_sublist (by assumption) ({ p1 with mq := p1.mq ++ [j1] }.mq.length + 1) { p1 with mq := p1.mq ++ [j1] } e1
          simp only at this
          have h2 : mbox e1 p1.actor ++ (p1.mq ++ [j1]) = (mbox e1 p1.actor ++ p1.mq) ++ [j1] := by simp
          rw [← h2]
          exact List.Sublist.append (List.Sublist.refl _) this
        · refine ⟨rfl, ?_, fun _ _ => rfl⟩
          unfold wq
          simp only [List.append_assoc]
          exact List.Sublist.refl _
    exact ⟨goal.1, goal.2.1, fun b hb => (goal.2.2 b hb).trans (he1 b)⟩


/-! ## mailboxes under `stop` and `spawn` -/

theorem mbox_stop (e : Env) (aid b : Nat) : mbox (e.stop aid) b = mbox e b := by
  obtain ⟨st, hself⟩ := stop_spec e aid
  by_cases hb : b = aid
  · subst hb
    unfold Env.stop
    cases g : e.getActor b with
    | none => rfl
    | some a =>
      simp only
      split
      · rfl
      · have haid := getActor_aid g
        generalize ha' : ({ a with stopReq := true } : Actor) = a'
        have haid' : a'.aid = b := by subst ha'; exact haid
        have gs := getActor_setActor_self e a a' (by rw [haid']; exact g)
        rw [haid'] at gs
        unfold mbox
        rw [gs, g]
        subst ha'; rfl
  · unfold mbox; rw [st.other b hb]

theorem mbox_spawn_old (e : Env) (wid aid b : Nat) (h : b ≠ aid ∨ (e.getActor b).isSome) : mbox (e.spawn wid aid) b = mbox e b := by
  unfold mbox
  cases g : e.getActor b with
  | some a => rw [getActor_spawn_old e wid aid b a g]
  | none =>
    rcases h with h | h
    · cases g' : (e.spawn wid aid).getActor b with
      | none => rfl
      | some a' =>
        rcases getActor_spawn_inv _ _ _ _ _ g' with h1 | ⟨_, h1, _⟩
        · rw [g] at h1; cases h1
        · exact absurd h1 h
    · rw [g] at h; cases h

theorem mbox_spawn_new (e : Env) (wid aid : Nat) (h : e.getActor aid = none) : mbox (e.spawn wid aid) aid = [] := by
  unfold mbox; rw [getActor_spawn_new e wid aid h]; rfl

/-! ## the order invariant with mailboxes and started jobs -/

structure OrdW (I : List Job) (S : Nat → List Nat) (w : W) : Prop where
  q : w.queue.Pairwise KO
  m : ∀ p ∈ w.pool, (wq p w.env).Pairwise KO
  qi : ∀ x ∈ w.queue, ∀ y ∈ I, KO x y
  mq : ∀ p ∈ w.pool, ∀ x ∈ wq p w.env, ∀ y ∈ w.queue, KO x y
  mi : ∀ p ∈ w.pool, ∀ x ∈ wq p w.env, ∀ y ∈ I, KO x y
  /-- every job of key `k` that has started is older than every waiting job of key `k` -/
  sq : ∀ x ∈ w.queue, ∀ s ∈ S x.key, s < x.id
  sm : ∀ p ∈ w.pool, ∀ x ∈ wq p w.env, ∀ s ∈ S x.key, s < x.id

def PoolSubW (w w' : W) : Prop := ∀ p' ∈ w'.pool, ∃ p ∈ w.pool, (wq p' w'.env).Sublist (wq p w.env)

variable {I : List Job} {S : Nat → List Nat} {fk : Nat → List Nat}

theorem OrdW.sub {w w' : W} (h : OrdW I S w) (hq : w'.queue.Sublist w.queue) (hp : PoolSubW w w') : OrdW I S w' := by
  refine ⟨h.q.sublist hq, ?_, ?_, ?_, ?_, ?_, ?_⟩
  · intro p' hp'
    obtain ⟨p, hpm, hs⟩ := hp p' hp'
    exact (h.m p hpm).sublist hs
  · intro x hx y hy; exact h.qi x (hq.subset hx) y hy
  · intro p' hp' x hx y hy
    obtain ⟨p, hpm, hs⟩ := hp p' hp'
    exact h.mq p hpm x (hs.subset hx) y (hq.subset hy)
  · intro p' hp' x hx y hy
    obtain ⟨p, hpm, hs⟩ := hp p' hp'
    exact h.mi p hpm x (hs.subset hx) y hy
  · intro x hx s hs; exact h.sq x (hq.subset hx) s hs
  · intro p' hp' x hx s hs
    obtain ⟨p, hpm, hsub⟩ := hp p' hp'
    exact h.sm p hpm x (hsub.subset hx) s hs

theorem PoolSubW.of_eq {w w' : W} (hp : w'.pool = w.pool) (he : ∀ aid, mbox w'.env aid = mbox w.env aid) : PoolSubW w w' := by
  intro p' hp'
  refine ⟨p', by rw [← hp]; exact hp', ?_⟩
  unfold wq; rw [he]; exact List.Sublist.refl _

theorem OrdW.of_eq {w w' : W} (h : OrdW I S w) (hq : w'.queue = w.queue) (hp : w'.pool = w.pool)
    (he : ∀ aid, mbox w'.env aid = mbox w.env aid) : OrdW I S w' :=
  h.sub (by rw [hq]; exact List.Sublist.refl _) (PoolSubW.of_eq hp he)

theorem OrdW.of_actors {w w' : W} (h : OrdW I S w) (hq : w'.queue = w.queue) (hp : w'.pool = w.pool)
    (he : w'.env.actors = w.env.actors) : OrdW I S w' :=
  h.of_eq hq hp (fun aid => mbox_of_actors he aid)

/-- what the order argument needs from the coupling invariant: one record per slot, one actor per slot -/
structure Lite (w : W) : Prop where
  nodup : NodupW w.pool
  inj : ∀ p ∈ w.pool, ∀ q ∈ w.pool, p.actor = q.actor → p = q

theorem Core.lite {w : W} (h : Core fk w) : Lite w := ⟨h.nodupW, fun _ hp _ hq ha => h.actor_inj hp hq ha⟩

theorem Lite.of_pool {w w' : W} (h : Lite w) (hp : w'.pool = w.pool) : Lite w' := by
  refine ⟨by rw [hp]; exact h.nodup, ?_⟩
  intro p hpm q hq; rw [hp] at hpm hq; exact h.inj p hpm q hq

theorem lite_setW {w w' : W} {wid : Nat} {p p' : WP} (h : Lite w) (hg : getW w.pool wid = some p)
    (ha : p'.actor = p.actor) (hw : p'.wid = p.wid) (h1 : w'.pool = setW w.pool wid p') : Lite w' := by
  have hpw : p.wid = wid := getW_wid hg
  have hpm := getW_mem hg
  refine ⟨by rw [h1]; exact nodupW_setW (hw.trans hpw) h.nodup, ?_⟩
  intro x hx y hy hxy
  rw [h1] at hx hy
  rcases mem_setW_ne h.nodup hg (hw.trans hpw) hx with hx | ⟨hx, hxne⟩
  · rcases mem_setW_ne h.nodup hg (hw.trans hpw) hy with hy | ⟨hy, hyne⟩
    · rw [hx, hy]
    · have hya : y.actor = p.actor := by rw [← hxy, hx, ha]
      have := h.inj y hy p hpm hya
      rw [this] at hyne; exact absurd hpw hyne
  · rcases mem_setW_ne h.nodup hg (hw.trans hpw) hy with hy | ⟨hy, hyne⟩
    · have hxa : x.actor = p.actor := by rw [hxy, hy, ha]
      have := h.inj x hx p hpm hxa
      rw [this] at hxne; exact absurd hpw hxne
    · exact h.inj x hx y hy hxy

theorem lite_removeW {w w' : W} {wid : Nat} (h : Lite w) (h1 : w'.pool = removeW w.pool wid) : Lite w' := by
  refine ⟨by rw [h1]; exact nodupW_removeW wid h.nodup, ?_⟩
  intro x hx y hy hxy
  rw [h1] at hx hy
  exact h.inj x (mem_removeW hx) y (mem_removeW hy) hxy

/-- one slot's record and (only) its actor changed -/
theorem poolSubW_setW {w w' : W} {wid : Nat} {p p' : WP} (hc : Lite w) (hg : getW w.pool wid = some p)
    (ha : p'.actor = p.actor) (hw : p'.wid = p.wid) (hs : (wq p' w'.env).Sublist (wq p w.env))
    (ho : ∀ b, b ≠ p.actor → mbox w'.env b = mbox w.env b) (h1 : w'.pool = setW w.pool wid p') : PoolSubW w w' := by
  have hpw : p.wid = wid := getW_wid hg
  have hpm := getW_mem hg
  intro x hx
  rw [h1] at hx
  rcases mem_setW_ne hc.nodup hg (hw.trans hpw) hx with h | ⟨h, hne⟩
  · subst h; exact ⟨p, hpm, hs⟩
  · refine ⟨x, h, ?_⟩
    have hxa : x.actor ≠ p.actor := by
      intro hxa
      have := hc.inj x h p hpm hxa
      subst this; exact hne hpw
    unfold wq; rw [ho _ hxa]; exact List.Sublist.refl _

/-- the same, with a job `j'` joining the end of that slot's pipeline -/
theorem ordW_slot_push {w w' : W} {wid : Nat} {p p' : WP} {j j' : Job} (hc : Lite w) (h : OrdW I S w)
    (hjk : j'.key = j.key) (hji : j'.id = j.id)
    (hg : getW w.pool wid = some p) (ha : p'.actor = p.actor) (hw : p'.wid = p.wid)
    (hs : (wq p' w'.env).Sublist (wq p w.env ++ [j']))
    (ho : ∀ b, b ≠ p.actor → mbox w'.env b = mbox w.env b)
    (h1 : w'.pool = setW w.pool wid p') (h2 : w'.queue = w.queue)
    (hj1 : ∀ q ∈ w.pool, ∀ x ∈ wq q w.env, KO x j) (hj2 : ∀ y ∈ w.queue, KO j y) (hj3 : ∀ y ∈ I, KO j y)
    (hjs : ∀ s ∈ S j.key, s < j.id) : OrdW I S w' := by
  have hpw : p.wid = wid := getW_wid hg
  have hpm := getW_mem hg
  have hko : ∀ x, KO x j' ↔ KO x j := fun x => by unfold KO; rw [hjk, hji]
  have hko' : ∀ y, KO j' y ↔ KO j y := fun y => by unfold KO; rw [hjk, hji]
  have hpw' : (wq p w.env ++ [j']).Pairwise KO := by
    refine List.pairwise_append.mpr ⟨h.m p hpm, List.pairwise_singleton _ _, ?_⟩
    intro a ha' b hb
    simp only [List.mem_singleton] at hb; subst hb
    exact (hko a).mpr (hj1 p hpm a ha')
  have hmem : ∀ x, x ∈ w'.pool → (x = p' ∨ (x ∈ w.pool ∧ x.wid ≠ wid ∧ wq x w'.env = wq x w.env)) := by
    intro x hx
    rw [h1] at hx
    rcases mem_setW_ne hc.nodup hg (hw.trans hpw) hx with hx | ⟨hx, hne⟩
    · exact Or.inl hx
    · refine Or.inr ⟨hx, hne, ?_⟩
      have hxa : x.actor ≠ p.actor := by
        intro hxa
        have := hc.inj x hx p hpm hxa
        subst this; exact hne hpw
      unfold wq; rw [ho _ hxa]
  refine ⟨by rw [h2]; exact h.q, ?_, ?_, ?_, ?_, ?_, ?_⟩
  · intro x hx
    rcases hmem x hx with hx | ⟨hx, _, he⟩
    · subst hx; exact hpw'.sublist hs
    · rw [he]; exact h.m x hx
  · intro x hx y hy; rw [h2] at hx; exact h.qi x hx y hy
  · intro x hx a ha' y hy
    rw [h2] at hy
    rcases hmem x hx with hx | ⟨hx, _, he⟩
    · subst hx
      rcases List.mem_append.mp (hs.subset ha') with ha' | ha'
      · exact h.mq p hpm a ha' y hy
      · simp only [List.mem_singleton] at ha'; subst ha'
        exact (hko' y).mpr (hj2 y hy)
    · rw [he] at ha'; exact h.mq x hx a ha' y hy
  · intro x hx a ha' y hy
    rcases hmem x hx with hx | ⟨hx, _, he⟩
    · subst hx
      rcases List.mem_append.mp (hs.subset ha') with ha' | ha'
      · exact h.mi p hpm a ha' y hy
      · simp only [List.mem_singleton] at ha'; subst ha'
        exact (hko' y).mpr (hj3 y hy)
    · rw [he] at ha'; exact h.mi x hx a ha' y hy
  · intro x hx s hs'; rw [h2] at hx; exact h.sq x hx s hs'
  · intro x hx a ha' s hs'
    rcases hmem x hx with hx | ⟨hx, _, he⟩
    · subst hx
      rcases List.mem_append.mp (hs.subset ha') with ha' | ha'
      · exact h.sm p hpm a ha' s hs'
      · simp only [List.mem_singleton] at ha'; subst ha'
        rw [hji]; rw [hjk] at hs'; exact hjs s hs'
    · rw [he] at ha'; exact h.sm x hx a ha' s hs'


/-! ## through the routing functions -/

theorem RouterFrame.mbox {w w' : W} (f : RouterFrame w w') (aid : Nat) : mbox w'.env aid = mbox w.env aid := by
  rw [f.env]

theorem ordW_routeInner (w : W) (j : Job) (hint : Option Nat) (hc : Lite w) (h : OrdW I S w)
    (hj1 : ∀ p ∈ w.pool, ∀ x ∈ wq p w.env, KO x j) (hj2 : w.pool ≠ [] → ∀ y ∈ w.queue, KO j y) (hj3 : ∀ y ∈ I, KO j y)
    (hjs : ∀ s ∈ S j.key, s < j.id) : OrdW I S (w.routeInner j hint).2 := by
  unfold W.routeInner
  have hs := chooseTargetWorker_frame w j hint
  cases hch : w.chooseTargetWorker j hint with
  | mk t w1 =>
    rw [hch] at hs
    simp only at hs ⊢
    have h1 : OrdW I S w1 := h.of_eq hs.queue hs.pool hs.mbox
    have hc1 : Lite w1 := hc.of_pool hs.pool
    cases t with
    | none => exact h1
    | some wid =>
      simp only
      cases hg : getW w1.pool wid with
      | none => exact h1
      | some p =>
        simp only
        have hpm : p ∈ w.pool := by rw [← hs.pool]; exact getW_mem hg
        have hne : w.pool ≠ [] := fun hcc => by rw [hcc] at hpm; cases hpm
        obtain ⟨e1, e2, e3⟩ := wq_enqueueJob p w1.env j
        have hwid := enqueueJob_wid p w1.env j
        cases he : p.enqueueJob w1.env j with
        | mk p' e' =>
          rw [he] at e1 e2 e3 hwid
          simp only at e1 e2 e3 hwid ⊢
          exact ordW_slot_push (w := w1) (w' := { w1 with pool := setW w1.pool wid p', env := e' })
            (j := j) (j' := { j with port := false }) hc1 h1 rfl rfl hg e1 hwid e2 e3 rfl rfl
            (fun q hq x hx => hj1 q (by rw [← hs.pool]; exact hq) x (by
              have : wq q w1.env = wq q w.env := by unfold wq; rw [hs.mbox]
              rw [← this]; exact hx))
            (fun y hy => hj2 hne y (by rw [← hs.queue]; exact hy)) hj3 hjs

theorem ordW_routeLimited (w : W) (j : Job) (hint : Option Nat) (hc : Lite w) (h : OrdW I S w)
    (hj1 : ∀ p ∈ w.pool, ∀ x ∈ wq p w.env, KO x j) (hj2 : w.pool ≠ [] → ∀ y ∈ w.queue, KO j y) (hj3 : ∀ y ∈ I, KO j y)
    (hjs : ∀ s ∈ S j.key, s < j.id) : OrdW I S (w.routeLimited j hint).2 := by
  unfold W.routeLimited
  split
  · exact ordW_routeInner w j hint hc h hj1 hj2 hj3 hjs
  · rename_i c lb _
    simp only
    have h0 : OrdW I S { w with rl := some (c, (LeakyBucket.check c lb w.env.now).1) } := h.of_actors rfl rfl rfl
    have hc0 : Lite { w with rl := some (c, (LeakyBucket.check c lb w.env.now).1) } := hc.of_pool rfl
    split
    · split
      · split
        · rename_i hh _
          have hf := availChange_frame ({ w with rl := some (c, (LeakyBucket.check c lb w.env.now).1) } : W) hh true
          exact h0.of_eq hf.queue hf.pool hf.mbox
        · exact h0
      · exact h0
    · have hi := ordW_routeInner _ j hint hc0 h0 hj1 hj2 hj3 hjs
      cases hr : W.routeInner { w with rl := some (c, (LeakyBucket.check c lb w.env.now).1) } j hint with
      | mk r w2 =>
        rw [hr] at hi
        simp only at hi ⊢
        split
        · exact hi.of_actors rfl rfl rfl
        · exact hi

theorem ordW_routeMessage (w : W) (j : Job) (hint : Option Nat) (hc : Lite w) (h : OrdW I S w)
    (hj1 : ∀ p ∈ w.pool, ∀ x ∈ wq p w.env, KO x j) (hj2 : w.pool ≠ [] → ∀ y ∈ w.queue, KO j y) (hj3 : ∀ y ∈ I, KO j y)
    (hjs : ∀ s ∈ S j.key, s < j.id) : OrdW I S (w.routeMessage j hint).2 := by
  unfold W.routeMessage
  have hi := ordW_routeLimited w j hint hc h hj1 hj2 hj3 hjs
  cases hr : w.routeLimited j hint with
  | mk r w2 => rw [hr] at hi; exact hi.of_actors rfl rfl rfl

theorem lite_routeInner (w : W) (j : Job) (hint : Option Nat) (h : Lite w) : Lite (w.routeInner j hint).2 := by
  unfold W.routeInner
  have hs := chooseTargetWorker_frame w j hint
  cases hch : w.chooseTargetWorker j hint with
  | mk t w1 =>
    rw [hch] at hs
    simp only at hs ⊢
    have h1 : Lite w1 := h.of_pool hs.pool
    cases t with
    | none => exact h1
    | some wid =>
      simp only
      cases hg : getW w1.pool wid with
      | none => exact h1
      | some p =>
        simp only
        obtain ⟨e1, _, _⟩ := wq_enqueueJob p w1.env j
        exact lite_setW h1 hg e1 (enqueueJob_wid p w1.env j) rfl

theorem lite_routeLimited (w : W) (j : Job) (hint : Option Nat) (h : Lite w) : Lite (w.routeLimited j hint).2 := by
  unfold W.routeLimited
  split
  · exact lite_routeInner w j hint h
  · rename_i c lb _
    simp only
    have h0 : Lite { w with rl := some (c, (LeakyBucket.check c lb w.env.now).1) } := h.of_pool rfl
    split
    · split
      · split
        · rename_i hh _
          exact h0.of_pool (availChange_frame ({ w with rl := some (c, (LeakyBucket.check c lb w.env.now).1) } : W) hh true).pool
        · exact h0
      · exact h0
    · have hi := lite_routeInner _ j hint h0
      cases hr : W.routeInner { w with rl := some (c, (LeakyBucket.check c lb w.env.now).1) } j hint with
      | mk r w2 =>
        rw [hr] at hi
        simp only at hi ⊢
        split
        · exact hi.of_pool rfl
        · exact hi

theorem lite_routeMessage (w : W) (j : Job) (hint : Option Nat) (h : Lite w) : Lite (w.routeMessage j hint).2 := by
  unfold W.routeMessage
  have hi := lite_routeLimited w j hint h
  cases hr : w.routeLimited j hint with
  | mk r w2 => rw [hr] at hi; exact hi.of_pool rfl

theorem dropExpiredHead_actors (fuel : Nat) (w : W) : (W.dropExpiredHead fuel w).env.actors = w.env.actors :=
  (dropExpiredHead_act fuel w).env.actors

theorem ordW_routeLoop (hint : Option Nat) (fuel : Nat) (w : W) (hc : Lite w) (h : OrdW I S w) :
    OrdW I S (W.routeLoop hint fuel w) := by
  induction fuel generalizing w with
  | zero => exact h
  | succ fuel ih =>
    unfold W.routeLoop
    split
    · exact h
    · rename_i j _
      have hs := chooseTargetWorker_frame w j hint
      cases hch : w.chooseTargetWorker j hint with
      | mk t w1 =>
        rw [hch] at hs
        simp only at hs ⊢
        have h1 : OrdW I S w1 := h.of_eq hs.queue hs.pool hs.mbox
        have hc1 : Lite w1 := hc.of_pool hs.pool
        cases t with
        | none => exact h1
        | some worker =>
          simp only
          cases hp : qPopFront w1.cfg w1.queue with
          | none => exact h1
          | some jq =>
            obtain ⟨j', q'⟩ := jq
            simp only
            obtain ⟨_, _, _, _, pre, post, e1, e2, e3⟩ :=
              popByPrio_spec (show popByPrio w1.cfg prioUp w1.queue = some (j', q') from hp)
            have hsub : q'.Sublist w1.queue := by
              rw [e1, e2]; exact List.Sublist.append (List.Sublist.refl _) (List.sublist_cons_self _ _)
            have h2 : OrdW I S ({ w1 with queue := q' } : W) := h1.sub hsub (PoolSubW.of_eq rfl (fun _ => rfl))
            have hc2 : Lite ({ w1 with queue := q' } : W) := hc1.of_pool rfl
            have hjm : j' ∈ w1.queue := by rw [e1]; exact List.mem_append_right _ (List.mem_cons_self ..)
            have hr := ordW_routeMessage ({ w1 with queue := q' } : W) j' (some worker) hc2 h2
              (fun p hp x hx => h1.mq p hp x hx j' hjm)
              (fun _ y hy => by
                simp only at hy
                rw [e2] at hy
                rcases List.mem_append.mp hy with hy | hy
                · intro hk
                  exact absurd (prioOf_key w1.cfg y j' hk.symm) (e3 y hy)
                · have hq := h1.q
                  rw [e1] at hq
                  exact (List.pairwise_cons.mp (List.pairwise_append.mp hq).2.1).1 y hy)
              (fun y hy => h1.qi j' hjm y hy)
              (fun s hs' => h1.sq j' hjm s hs')
            have hcr := lite_routeMessage ({ w1 with queue := q' } : W) j' (some worker) hc2
            cases hrm : W.routeMessage { w1 with queue := q' } j' (some worker) with
            | mk r w2 =>
              rw [hrm] at hr hcr
              cases r with
              | handled => exact hr
              | rateLimited =>
                exact ih _ (hcr.of_pool rfl)
                  (hr.of_actors rfl rfl ((envEq_discard _ _ _ _).trans (envEq_reject _ _)).actors)
              | backlog => exact hr.of_actors rfl rfl ((envEq_emit _ _).trans (envEq_emit _ _)).actors

theorem ordW_tryRoute (w : W) (hint : Option Nat) (hc : Lite w) (h : OrdW I S w) :
    OrdW I S (w.tryRouteNextActiveJob hint) := by
  unfold W.tryRouteNextActiveJob
  apply ordW_routeLoop _ _ _ (hc.of_pool (dropExpiredHead_pool _ w))
  exact h.sub (qsub_dropExpiredHead _ w).queue
    (PoolSubW.of_eq (dropExpiredHead_pool _ w) (fun aid => mbox_of_actors (dropExpiredHead_actors _ w) aid))

theorem shedQueueOldest_actors (limit fuel : Nat) (w : W) : (W.shedQueueOldest limit fuel w).env.actors = w.env.actors :=
  (shedQueueOldest_act limit fuel w).env.actors

theorem maybeEnqueue_actors (w : W) (j : Job) : (w.maybeEnqueue j).env.actors = w.env.actors :=
  (maybeEnqueue_act w j).env.actors

theorem routeInner_backlog_env (w : W) (j : Job) (hint : Option Nat) (hb : (w.routeInner j hint).1 = .backlog) :
    (w.routeInner j hint).2.env = w.env := by
  unfold W.routeInner at hb ⊢
  have hs := chooseTargetWorker_frame w j hint
  cases hc : w.chooseTargetWorker j hint with
  | mk t w1 =>
    rw [hc] at hs hb
    simp only at hs hb ⊢
    cases t with
    | none => exact hs.env
    | some wid =>
      simp only at hb ⊢
      cases hg : getW w1.pool wid with
      | none => simp only; exact hs.env
      | some p => rw [hg] at hb; simp at hb

theorem routeMessage_backlog_env (w : W) (j : Job) (hint : Option Nat) (hb : (w.routeMessage j hint).1 = .backlog) :
    (w.routeMessage j hint).2.env = w.env := by
  unfold W.routeMessage W.routeLimited at hb ⊢
  cases hrl : w.rl with
  | none =>
    simp only [hrl] at hb ⊢
    have := routeInner_backlog_env w j hint
    cases hri : w.routeInner j hint with
    | mk r w2 =>
      rw [hri] at this hb
      simp only at this hb ⊢
      exact this hb
  | some cl =>
    obtain ⟨c, lb⟩ := cl
    simp only [hrl] at hb ⊢
    split at hb
    · simp at hb
    · rename_i hok
      simp only [hok, Bool.false_eq_true, if_false]
      have := routeInner_backlog_env ({ w with rl := some (c, (LeakyBucket.check c lb w.env.now).1) } : W) j hint
      cases hri : W.routeInner { w with rl := some (c, (LeakyBucket.check c lb w.env.now).1) } j hint with
      | mk r w2 =>
        rw [hri] at this hb
        simp only at this hb ⊢
        split at hb
        · rename_i hh
          have : r = .handled := by simpa using hh
          subst this; simp at hb
        · rename_i hh
          simp only [hh, Bool.false_eq_true, if_false]
          exact this hb

theorem ordW_dispatch (w : W) (j : Job) (hc : Lite w) (h : OrdW I S w) (hnb : w.pool ≠ [] → w.queue = [])
    (hjq : ∀ x ∈ w.queue, KO x j) (hj1 : ∀ p ∈ w.pool, ∀ x ∈ wq p w.env, KO x j) (hj3 : ∀ y ∈ I, KO j y)
    (hjs : ∀ s ∈ S j.key, s < j.id) : OrdW I S (w.dispatch j) := by
  unfold W.dispatch
  split
  · exact h.of_actors rfl rfl ((envEq_discard _ _ _ _).trans (envEq_reject _ _)).actors
  · split
    · have hf := routeMessage_frame w j none
      have hr := ordW_routeMessage w j none hc h hj1 (fun hne y hy => by rw [hnb hne] at hy; cases hy) hj3 hjs
      have hps := routeMessage_backlog_pool w j none
      have hpe := routeMessage_backlog_env w j none
      cases hrm : w.routeMessage j none with
      | mk r w2 =>
        rw [hrm] at hf hr hps hpe
        simp only at hf hr hps hpe ⊢
        cases r with
        | handled => exact hr
        | rateLimited => exact hr.of_actors rfl rfl ((envEq_discard _ _ _ _).trans (envEq_reject _ _)).actors
        | backlog =>
          obtain ⟨ms, mp⟩ := maybeEnqueue_sublist w2 j
          have ma := maybeEnqueue_actors w2 j
          have hwqe : ∀ p, wq p (w2.maybeEnqueue j).env = wq p w2.env := fun p => by
            unfold wq; rw [mbox_of_actors ma]
          have hq2 : (w2.queue ++ [({ j with port := false } : Job)]).Pairwise KO := by
            refine List.pairwise_append.mpr ⟨hr.q, List.pairwise_singleton _ _, ?_⟩
            intro a ha b hb
            simp only [List.mem_singleton] at hb; subst hb
            exact hjq a (by rw [← hf.queue]; exact ha)
          -- in this branch nothing was routed: the worker pipelines are those of `w`
          have hroute_noop : ∀ p ∈ w2.pool, ∀ x ∈ wq p w2.env, KO x j := by
            intro p hp x hx
            rw [hps rfl] at hp
            rw [hpe rfl] at hx
            exact hj1 p hp x hx
          refine ⟨hq2.sublist ms, ?_, ?_, ?_, ?_, ?_, ?_⟩
          · intro p hp; rw [mp] at hp; rw [hwqe]; exact hr.m p hp
          · intro x hx y hy
            rcases List.mem_append.mp (ms.subset hx) with hx | hx
            · exact hr.qi x hx y hy
            · simp only [List.mem_singleton] at hx; subst hx; exact hj3 y hy
          · intro p hp x hx y hy
            rw [mp] at hp; rw [hwqe] at hx
            rcases List.mem_append.mp (ms.subset hy) with hy | hy
            · exact hr.mq p hp x hx y hy
            · simp only [List.mem_singleton] at hy; subst hy
              exact hroute_noop p hp x hx
          · intro p hp x hx y hy; rw [mp] at hp; rw [hwqe] at hx; exact hr.mi p hp x hx y hy
          · intro x hx s hs'
            rcases List.mem_append.mp (ms.subset hx) with hx | hx
            · exact hr.sq x hx s hs'
            · simp only [List.mem_singleton] at hx; subst hx; exact hjs s hs'
          · intro p hp x hx s hs'; rw [mp] at hp; rw [hwqe] at hx; exact hr.sm p hp x hx s hs'
    · exact h.of_actors rfl rfl ((envEq_discard _ _ _ _).trans (envEq_reject _ _)).actors


/-! ## through the other handlers -/

theorem ordW_growOne (w : W) (wid : Nat) (hc : Core fk w) (h : OrdW I S w) : OrdW I S (w.growOne wid) := by
  unfold W.growOne
  split
  · rename_i p hg
    dsimp only
    have h1 : OrdW I S ({ w with pool := setW w.pool wid { p with draining := false } } : W) :=
      h.sub (List.Sublist.refl _) (poolSubW_setW (p' := { p with draining := false }) hc.lite hg rfl rfl
        (List.Sublist.refl _) (fun _ _ => rfl) rfl)
    split
    · have hf := availChange_frame ({ w with pool := setW w.pool wid { p with draining := false } } : W) wid true
      exact h1.of_eq hf.queue hf.pool hf.mbox
    · exact h1
  · dsimp only
    have hnone : w.env.getActor w.nextAid = none := by
      cases hx : w.env.getActor w.nextAid with
      | none => rfl
      | some x => exact absurd (hc.aidLt _ x hx) (Nat.lt_irrefl _)
    have hf := availChange_frame ({ w with
        nextAid := w.nextAid + 1
        env := w.env.spawn wid w.nextAid
        pool := w.pool ++ [({ wid := wid, actor := w.nextAid, disc := w.workerDiscard w.disc, handler := w.handler } : WP)]
        byActor := w.byActor ++ [(w.nextAid, wid)] } : W) wid true
    refine OrdW.of_eq ?_ hf.queue hf.pool hf.mbox
    have hold : ∀ q ∈ w.pool, wq q (w.env.spawn wid w.nextAid) = wq q w.env := by
      intro q hq
      obtain ⟨a, g, _⟩ := hc.sa q hq
      unfold wq
      rw [mbox_spawn_old _ _ _ _ (Or.inr (by rw [g]; rfl))]
    have hnew : wq ({ wid := wid, actor := w.nextAid, disc := w.workerDiscard w.disc, handler := w.handler } : WP)
        (w.env.spawn wid w.nextAid) = [] := by
      unfold wq
      simp only [List.append_nil]
      exact mbox_spawn_new _ _ _ hnone
    refine ⟨h.q, ?_, h.qi, ?_, ?_, h.sq, ?_⟩
    · intro p hp
      rcases List.mem_append.mp hp with hp | hp
      · simp only; rw [hold p hp]; exact h.m p hp
      · simp only [List.mem_singleton] at hp; subst hp; simp only; rw [hnew]; exact List.Pairwise.nil
    · intro p hp x hx y hy
      rcases List.mem_append.mp hp with hp | hp
      · simp only at hx; rw [hold p hp] at hx; exact h.mq p hp x hx y hy
      · simp only [List.mem_singleton] at hp; subst hp; simp only at hx; rw [hnew] at hx; cases hx
    · intro p hp x hx y hy
      rcases List.mem_append.mp hp with hp | hp
      · simp only at hx; rw [hold p hp] at hx; exact h.mi p hp x hx y hy
      · simp only [List.mem_singleton] at hp; subst hp; simp only at hx; rw [hnew] at hx; cases hx
    · intro p hp x hx s hs
      rcases List.mem_append.mp hp with hp | hp
      · simp only at hx; rw [hold p hp] at hx; exact h.sm p hp x hx s hs
      · simp only [List.mem_singleton] at hp; subst hp; simp only at hx; rw [hnew] at hx; cases hx

theorem ordW_foldl {f : W → Nat → W} (hf : ∀ w k, Core fk w → OrdW I S w → OrdW I S (f w k))
    (hcf : ∀ w k, Core fk w → Core fk (f w k)) (l : List Nat) (w : W)
    (hc : Core fk w) (h : OrdW I S w) : OrdW I S (l.foldl f w) := by
  induction l generalizing w with
  | nil => exact h
  | cons a l ih => exact ih _ (hcf _ _ hc) (hf _ _ hc h)

theorem ordW_growPool (w : W) (n : Nat) (hc : Core fk w) (h : OrdW I S w) : OrdW I S (w.growPool n) := by
  unfold W.growPool
  exact ordW_foldl (fun w k hcw hw => ordW_growOne w _ hcw hw) (fun w k hcw => core_growOne w _ hcw) _ w hc h

theorem poolSubW_removeW_stop {w w' : W} {wid aid : Nat} (h1 : w'.pool = removeW w.pool wid) (h2 : w'.env = w.env.stop aid) :
    PoolSubW w w' := by
  intro x hx
  rw [h1] at hx
  refine ⟨x, mem_removeW hx, ?_⟩
  unfold wq; rw [h2, mbox_stop]; exact List.Sublist.refl _

theorem ordW_shrinkOne (w : W) (wid : Nat) (hc : Core fk w) (h : OrdW I S w) : OrdW I S (w.shrinkOne wid) := by
  unfold W.shrinkOne
  split
  · rename_i p hg
    split
    · exact h.sub (List.Sublist.refl _) (poolSubW_setW (p' := { p with draining := true }) hc.lite hg rfl rfl
        (List.Sublist.refl _) (fun _ _ => rfl) rfl)
    · have hf := availChange_frame w wid false
      have h1 : OrdW I S (w.availChange wid false) := h.of_eq hf.queue hf.pool hf.mbox
      exact h1.sub (List.Sublist.refl _) (poolSubW_removeW_stop rfl rfl)
  · exact h

theorem ordW_shrinkPool (w : W) (n : Nat) (hc : Core fk w) (h : OrdW I S w) : OrdW I S (w.shrinkPool n) := by
  unfold W.shrinkPool
  exact ordW_foldl (fun w k hcw hw => ordW_shrinkOne w _ hcw hw) (fun w k hcw => core_shrinkOne w _ hcw) _ w hc h

theorem ordW_flushAfterGrow (fuel : Nat) (w : W) (hc : Core fk w) (h : OrdW I S w) : OrdW I S (W.flushAfterGrow fuel w) := by
  induction fuel generalizing w with
  | zero => exact h
  | succ fuel ih =>
    unfold W.flushAfterGrow
    simp only
    split
    · exact h
    · split
      · exact ordW_tryRoute w none hc.lite h
      · exact ih _ (core_tryRoute w none hc) (ordW_tryRoute w none hc.lite h)

theorem ordW_resizePool (w : W) (n : Nat) (hc : Core fk w) (h : OrdW I S w) : OrdW I S (w.resizePool n) := by
  unfold W.resizePool
  split
  · exact h
  · simp only
    split
    · exact ordW_flushAfterGrow _ _ ((core_growPool w _ hc).frame ⟨rfl, rfl, rfl, EnvEq.refl _⟩)
        ((ordW_growPool w _ hc h).of_actors rfl rfl rfl)
    · split
      · exact (ordW_shrinkPool w _ hc h).of_actors rfl rfl rfl
      · exact h.of_actors rfl rfl rfl

theorem ordW_ite (c : Prop) [Decidable c] (a b : W) (ha : OrdW I S a) (hb : OrdW I S b) : OrdW I S (if c then a else b) := by
  split <;> assumption

theorem wq_workerComplete (p : WP) (e : Env) (key : Nat) :
    (p.workerComplete e key).1.actor = p.actor ∧ (wq (p.workerComplete e key).1 (p.workerComplete e key).2).Sublist (wq p e) ∧
    ∀ b, b ≠ p.actor → mbox (p.workerComplete e key).2 b = mbox e b := by
  unfold WP.workerComplete
  split
  · exact wq_nextJob { p with curr := p.curr.filter (fun x => x.1 != key), pending := p.pending.erase key } e
  · exact ⟨rfl, List.Sublist.refl _, fun _ _ => rfl⟩

theorem ordW_workerFinishedJob (w : W) (who key : Nat) (hl : Lite w) (h : OrdW I S w) :
    OrdW I S (w.workerFinishedJob who key) := by
  unfold W.workerFinishedJob
  split
  · rename_i p hg
    obtain ⟨c1, c2, c3⟩ := wq_workerComplete p w.env key
    have cw := workerComplete_wid p w.env key
    cases hwc : p.workerComplete w.env key with
    | mk p' e' =>
      rw [hwc] at c1 c2 c3 cw
      simp only at c1 c2 c3 cw ⊢
      have h1 : OrdW I S ({ w with pool := setW w.pool who p', env := e' } : W) :=
        h.sub (List.Sublist.refl _) (poolSubW_setW (w' := { w with pool := setW w.pool who p', env := e' }) hl hg c1 cw c2 c3 rfl)
      have hl1 : Lite ({ w with pool := setW w.pool who p', env := e' } : W) := lite_setW hl hg c1 cw rfl
      split
      · split
        · exact h1.sub (List.Sublist.refl _) (poolSubW_removeW_stop rfl rfl)
        · exact h1
      · apply ordW_ite
        · have hf := availChange_frame (W.tryRouteNextActiveJob { w with pool := setW w.pool who p', env := e' } (some who)) who true
          exact (ordW_tryRoute _ _ hl1 h1).of_eq hf.queue hf.pool hf.mbox
        · exact ordW_tryRoute _ _ hl1 h1
  · exact ordW_tryRoute w _ hl h

theorem ordW_removeExpired (w : W) (h : OrdW I S w) : OrdW I S w.removeExpired := by
  unfold W.removeExpired
  split
  · refine h.sub List.filter_sublist (PoolSubW.of_eq rfl ?_)
    intro aid
    apply mbox_of_actors
    simp only
    generalize expiredInOrder w.cfg w.env.now w.queue = ex
    generalize w.env = e
    induction ex generalizing e with
    | nil => rfl
    | cons x xs ih => simp only [List.foldl_cons]; rw [ih]; rfl
  · exact h

theorem ordW_calcRest (w : W) (h : OrdW I S w) : OrdW I S w.calcRest := by
  unfold W.calcRest
  exact (ordW_removeExpired w h).of_actors rfl rfl rfl

theorem poolSubW_map {w w' : W} (f : WP → WP) (hm : ∀ p, (f p).mq = p.mq) (ha : ∀ p, (f p).actor = p.actor)
    (h1 : w'.pool = w.pool.map f) (h2 : ∀ aid, mbox w'.env aid = mbox w.env aid) : PoolSubW w w' := by
  intro x hx
  rw [h1] at hx
  obtain ⟨y, hy, rfl⟩ := List.mem_map.mp hx
  refine ⟨y, hy, ?_⟩
  unfold wq; rw [hm, ha, h2]; exact List.Sublist.refl _

theorem ordW_updateSettings (w : W) (d : Option (Option (Nat × Mode))) (n : Option Nat) (hc : Core fk w) (h : OrdW I S w) :
    OrdW I S (w.updateSettings d n) := by
  have hc1 := core_updateSettings w d none hc
  have h1 : OrdW I S (w.updateSettings d none) := by
    unfold W.updateSettings
    cases d with
    | none => exact h
    | some d =>
      exact h.sub (List.Sublist.refl _)
        (poolSubW_map (fun p => { p with disc := w.workerDiscard d }) (fun _ => rfl) (fun _ => rfl) rfl (fun _ => rfl))
  cases n with
  | none => exact h1
  | some n =>
    have : w.updateSettings d (some n) = (w.updateSettings d none).resizePool n := by unfold W.updateSettings; rfl
    rw [this]
    exact ordW_resizePool _ n hc1 h1

theorem ordW_afterReplace (w : W) (wid : Nat) (hl : Lite w) (h : OrdW I S w) : OrdW I S (w.afterReplace wid) := by
  unfold W.afterReplace
  cases hret : w.retireIdleDrainingWorker wid with
  | some w2 =>
    simp only
    unfold W.retireIdleDrainingWorker at hret
    split at hret
    · split at hret
      · simp only [Option.some.injEq] at hret; subst hret
        exact h.sub (List.Sublist.refl _) (poolSubW_removeW_stop rfl rfl)
      · simp at hret
    · simp at hret
  | none =>
    simp only
    apply ordW_ite
    · have hf := availChange_frame (w.tryRouteNextActiveJob (some wid)) wid true
      exact (ordW_tryRoute _ _ hl h).of_eq hf.queue hf.pool hf.mbox
    · exact ordW_tryRoute _ _ hl h


theorem nextJob_wid (p : WP) (e : Env) : (p.nextJob e).1.wid = p.wid := by
  unfold WP.nextJob
  cases hg : p.getNext e with
  | mk r pe =>
    obtain ⟨p2, e2⟩ := pe
    have hw : p2.wid = p.wid := by have := getNext_wid p e; rw [hg] at this; exact this
    cases r with
    | none => exact hw
    | some j => simp only; rw [dispatchJob_wid]; exact hw

theorem ordW_handleSupervisorEvt (w0 : W) (who : Nat) (rest : List Nat) (hc : Core fk w0) (h : OrdW I S w0) :
    OrdW I S (({ w0 with env := { w0.env with sup := rest } } : W).handleSupervisorEvt who) := by
  have h0 : OrdW I S ({ w0 with env := { w0.env with sup := rest } } : W) := h.of_actors rfl rfl rfl
  unfold W.handleSupervisorEvt
  simp only
  split
  · exact h0
  · rename_i x wid hf
    cases hg : getW w0.pool wid with
    | none => simp only; exact h0
    | some p =>
      simp only
      rw [replaceWorker_eq]
      generalize hp1 : ({ p with curr := [], pending := p.curr.foldl (fun acc x => acc.erase x.1) p.pending, actor := w0.nextAid } : WP) = p1
      have hp1w : p1.wid = p.wid := by subst hp1; rfl
      have hp1a : p1.actor = w0.nextAid := by subst hp1; rfl
      have hp1m : p1.mq = p.mq := by subst hp1; rfl
      generalize he1 : (({ w0.env with sup := rest } : Env).spawn wid w0.nextAid) = e1
      have hpm := getW_mem hg
      have hnone : ({ w0.env with sup := rest } : Env).getActor w0.nextAid = none := by
        show w0.env.getActor w0.nextAid = none
        cases hx : w0.env.getActor w0.nextAid with
        | none => rfl
        | some a => exact absurd (hc.aidLt _ a hx) (Nat.lt_irrefl _)
      have hnew : mbox e1 w0.nextAid = [] := by rw [← he1]; exact mbox_spawn_new _ _ _ hnone
      have hold : ∀ q ∈ w0.pool, mbox e1 q.actor = mbox w0.env q.actor ∧ q.actor ≠ w0.nextAid := by
        intro q hq
        obtain ⟨a, g, _⟩ := hc.sa q hq
        refine ⟨?_, fun hcc => Nat.lt_irrefl _ (by have := hc.aidLt _ a g; rw [hcc] at this; exact this)⟩
        rw [← he1]
        have g' : ({ w0.env with sup := rest } : Env).getActor q.actor = some a := g
        rw [mbox_spawn_old _ _ _ _ (Or.inr (by rw [g']; rfl))]
        rfl
      obtain ⟨n1, n2, n3⟩ := wq_nextJob p1 e1
      have nw := nextJob_wid p1 e1
      cases hnj : p1.nextJob e1 with
      | mk p' e' =>
        rw [hnj] at n1 n2 n3 nw
        simp only at n1 n2 n3 nw ⊢
        have hsub : (wq p' e').Sublist (wq p w0.env) := by
          refine n2.trans ?_
          unfold wq
          rw [hp1a, hnew, hp1m]
          simp only [List.nil_append]
          exact List.sublist_append_right _ _
        have hpw : p.wid = wid := getW_wid hg
        -- the world with the replacement installed
        have hmem : ∀ q, q ∈ setW w0.pool wid p' → q = p' ∨ (q ∈ w0.pool ∧ q.wid ≠ wid) := by
          intro q hq
          exact mem_setW_ne hc.nodupW hg ((nw.trans hp1w).trans hpw) hq
        have hps : PoolSubW w0 ({ w0 with
            nextAid := w0.nextAid + 1, env := e', pool := setW w0.pool wid p'
            byActor := w0.byActor.filter (fun (y : Nat × Nat) => y.1 != who) ++ [(w0.nextAid, wid)] } : W) := by
          intro q hq
          rcases hmem q hq with hq | ⟨hq, _⟩
          · subst hq; exact ⟨p, hpm, hsub⟩
          · refine ⟨q, hq, ?_⟩
            obtain ⟨o1, o2⟩ := hold q hq
            unfold wq
            simp only
            rw [n3 _ (by rw [hp1a]; exact o2), o1]
            exact List.Sublist.refl _
        have hlm : Lite ({ w0 with
            nextAid := w0.nextAid + 1, env := e', pool := setW w0.pool wid p'
            byActor := w0.byActor.filter (fun (y : Nat × Nat) => y.1 != who) ++ [(w0.nextAid, wid)] } : W) := by
          refine ⟨nodupW_setW ((nw.trans hp1w).trans hpw) hc.nodupW, ?_⟩
          intro a ha b hb hab
          simp only at ha hb
          rcases hmem a ha with ha | ⟨ha, _⟩
          · rcases hmem b hb with hb | ⟨hb, _⟩
            · rw [ha, hb]
            · exact absurd (by rw [← hab, ha, n1, hp1a]) (hold b hb).2
          · rcases hmem b hb with hb | ⟨hb, _⟩
            · exact absurd (by rw [hab, hb, n1, hp1a]) (hold a ha).2
            · exact hc.actor_inj ha hb hab
        apply ordW_afterReplace _ _ hlm
        exact h.sub (List.Sublist.refl _) hps


/-! ## started jobs -/

/-- ids of the jobs of key `k` that have started, in start order -/
def startedIds (log : List Ev) (k : Nat) : List Nat := ((startsOf log).filter (fun x => x.2 == k)).map (·.1)

theorem startedIds_of_starts {l l' : List Ev} (h : startsOf l' = startsOf l) (k : Nat) : startedIds l' k = startedIds l k := by
  unfold startedIds; rw [h]

theorem startedIds_start (log : List Ev) (aid id key k : Nat) :
    startedIds (log ++ [Ev.start aid id key]) k = startedIds log k ++ (if key = k then [id] else []) := by
  unfold startedIds
  rw [startsOf_append]
  simp only [startsOf, List.filterMap_cons, List.filterMap_nil, List.filter_append, List.map_append]
  by_cases hk : key = k
  · simp [hk]
  · have : (key == k) = false := by simpa using hk
    simp [hk, this]

/-- the invariant of a run (while the factory has not entered `post_stop`) -/
structure SO (lo : Nat) (w : W) : Prop where
  ord : OrdW (inboxJobs w.inbox) (startedIds w.env.log) w
  i : (inboxJobs w.inbox).Pairwise KO
  si : ∀ x ∈ inboxJobs w.inbox, ∀ s ∈ startedIds w.env.log x.key, s < x.id
  inc : ∀ k, (startedIds w.env.log k).Pairwise (· < ·)
  /-- ids from `lo` on have not been handed out yet: they are nowhere, and no such job has started -/
  z : ∀ i, lo ≤ i → total i w = 0
  sb : ∀ k, ∀ s ∈ startedIds w.env.log k, s < lo

theorem unique_pending_slot {pool : List WP} {k : Nat} (h : pendCount k pool ≤ 1) {p1 p2 : WP}
    (h1 : p1 ∈ pool) (h2 : p2 ∈ pool) (hk1 : p1.hasPendingKey k = true) (hk2 : p2.hasPendingKey k = true) : p1 = p2 :=
  pendCount_unique h h1 h2 hk1 hk2

/-- key-persistent: a key that is booked in flight or queued on two slots — they are one slot -/
theorem kp_one_slot_per_key {w : W} (ha : AffInv w) (hs : PoolAll SlotOk w) {p1 p2 : WP} {k : Nat}
    (h1 : p1 ∈ w.pool) (h2 : p2 ∈ w.pool) (hk1 : k ∈ keysCurr p1 ++ keysMq p1) (hk2 : k ∈ keysCurr p2 ++ keysMq p2) :
    p1 = p2 := by
  have t1 := (hs p1 h1).tracks k
  have t2 := (hs p2 h2).tracks k
  have c1 : 0 < (keysCurr p1 ++ keysMq p1).count k := List.count_pos_iff.mpr hk1
  have c2 : 0 < (keysCurr p2 ++ keysMq p2).count k := List.count_pos_iff.mpr hk2
  rw [List.count_append] at c1 c2
  apply unique_pending_slot (ha.aff k) h1 h2
  · rw [hasPending_iff]; exact List.count_pos_iff.mp (by omega)
  · rw [hasPending_iff]; exact List.count_pos_iff.mp (by omega)

/-- a job in a slot's pipeline has its key booked on that slot (in flight or queued) -/
theorem wq_key_booked {w : W} (hc : Core fk w) {p : WP} (hp : p ∈ w.pool) {x : Job} (hx : x ∈ wq p w.env) :
    x.key ∈ keysCurr p ++ keysMq p := by
  unfold wq at hx
  rcases List.mem_append.mp hx with hx | hx
  · -- in the mailbox of the slot's actor
    obtain ⟨a, g, _, _, _⟩ := hc.sa p hp
    unfold mbox at hx
    rw [g] at hx
    simp only at hx
    have hal : a.alive = true := by
      cases hal : a.alive with
      | true => rfl
      | false => rw [hal] at hx; simp at hx
    rw [hal] at hx
    simp only [if_true] at hx
    have hheld : x ∈ a.heldJobs := by
      unfold Actor.heldJobs; exact List.mem_append_right _ hx
    obtain ⟨_, q, hq, hqa, _, hkc, _⟩ := hc.held_booked g hal hheld
    have : q = p := hc.actor_inj hq hp hqa
    subst this
    exact List.mem_append_left _ (by unfold keysCurr; rw [hkc]; exact List.mem_singleton_self _)
  · exact List.mem_append_right _ (List.mem_map.mpr ⟨x, hx, rfl⟩)


/-! ## a worker task runs: the start event -/

variable {lo : Nat}

theorem SO.same {w w' : W} (h : SO lo w) (hq : w'.queue = w.queue) (hp : w'.pool = w.pool)
    (he : ∀ aid, mbox w'.env aid = mbox w.env aid) (hl : startsOf w'.env.log = startsOf w.env.log)
    (hi : w'.inbox = w.inbox) (hz : ∀ i, total i w' = total i w) : SO lo w' := by
  have hS : startedIds w'.env.log = startedIds w.env.log := by funext k; exact startedIds_of_starts hl k
  refine ⟨?_, by rw [hi]; exact h.i, ?_, ?_, ?_, ?_⟩
  · rw [hi, hS]; exact h.ord.of_eq hq hp he
  · rw [hi, hS]; exact h.si
  · rw [hS]; exact h.inc
  · intro i hi'; rw [hz]; exact h.z i hi'
  · rw [hS]; exact h.sb

theorem total_pos_of_held {w : W} {aid : Nat} {a : Actor} {j : Job} (g : w.env.getActor aid = some a)
    (hj : j ∈ a.heldJobs) : 0 < total j.id w := by
  have h1 := cj_pos_of_mem hj
  have hm : a ∈ w.env.actors := List.mem_of_find?_eq_some g
  have : cj j.id a.heldJobs ≤ cActors j.id w.env.actors := by
    unfold cActors
    exact le_sum_of_mem (List.mem_map.mpr ⟨a, hm, rfl⟩)
  unfold total cEnv
  omega

theorem mbox_die_other (e : Env) (aid b : Nat) (hb : b ≠ aid) : mbox (e.die aid) b = mbox e b := by
  by_cases hnoop : ∀ a, e.getActor aid = some a → a.alive = false
  · rw [die_noop e aid hnoop]
  · have : ∃ a, e.getActor aid = some a ∧ a.alive = true := by
      apply Classical.byContradiction
      intro hc
      apply hnoop
      intro a ha
      cases hx : a.alive with
      | false => rfl
      | true => exact absurd ⟨a, ha, hx⟩ hc
    obtain ⟨a, g, hal⟩ := this
    obtain ⟨_, hoth, _⟩ := die_spec e aid a g hal
    unfold mbox; rw [hoth b hb]

theorem so_settleOne (w : W) (aid : Nat) (hc : Core fk w) (ha : AffInv w) (h : SO lo w) :
    SO lo ({ w with env := w.env.settleOne aid } : W) := by
  have hzz : ∀ i, total i ({ w with env := w.env.settleOne aid } : W) = total i w := by
    intro i; simp only [total, cEnv_settleOne]
  unfold Env.settleOne
  cases g : w.env.getActor aid with
  | none => exact h
  | some a =>
    simp only
    have haid := getActor_aid g
    split
    · exact h
    · rename_i hcond
      have hal : a.alive = true := by
        cases hx : a.alive with
        | true => rfl
        | false => simp [hx] at hcond
      have hrun : a.running = none := by
        cases hx : a.running with
        | none => rfl
        | some j => simp [hx] at hcond
      split
      · -- a retired worker exits: it is no slot's worker, nothing changes for the slots
        rename_i hstop
        have hns : ∀ q ∈ w.pool, q.actor ≠ aid := by
          intro q hq hqa
          obtain ⟨x, gx, _, hxa, _⟩ := hc.sa q hq
          rw [hqa, g] at gx; cases gx
          have := (hxa hal).1
          rw [hstop] at this; cases this
        have hzd : ∀ i, total i ({ w with env := w.env.die aid } : W) = total i w := by
          intro i; simp only [total, cEnv_die]
        refine ⟨?_, h.i, ?_, ?_, fun i hi => by rw [hzd]; exact h.z i hi, ?_⟩
        rotate_right
        · intro k s hs
          have hS := startedIds_of_starts (sameE_die w.env aid) k
          simp only at hs
          rw [hS] at hs
          exact h.sb k s hs
        · have hS : startedIds (w.env.die aid).log = startedIds w.env.log := by
            funext k; exact startedIds_of_starts (sameE_die w.env aid) k
          show OrdW _ (startedIds (w.env.die aid).log) _
          rw [hS]
          refine h.ord.sub (List.Sublist.refl _) ?_
          intro q hq
          refine ⟨q, hq, ?_⟩
          unfold wq
          simp only
          rw [mbox_die_other _ _ _ (hns q hq)]
          exact List.Sublist.refl _
        · intro x hx s hs
          have hS := startedIds_of_starts (sameE_die w.env aid) x.key
          simp only at hs
          rw [hS] at hs
          exact h.si x hx s hs
        · intro k
          have hS := startedIds_of_starts (sameE_die w.env aid) k
          simp only
          rw [hS]; exact h.inc k
      · cases hm : a.mailbox with
        | nil => simp only [hm]; exact h
        | cons j rest =>
          simp only [hm]
          -- the actor holds `j`: it is the worker of a slot that books exactly this job
          have hheld : a.heldJobs = j :: rest := by simp only [Actor.heldJobs, hrun, hm, List.nil_append]
          obtain ⟨h1, p, hp, hpa, _, hkc, _⟩ := hc.held_booked g hal (j := j) (by rw [hheld]; exact List.mem_cons_self ..)
          have hrest : rest = [] := by
            rw [hheld] at h1
            simpa using h1
          subst hrest
          generalize ha' : ({ a with running := some j, mailbox := [] } : Actor) = a'
          have haid' : a'.aid = aid := by subst ha'; exact haid
          have g' : w.env.getActor a'.aid = some a := by rw [haid']; exact g
          have gs := getActor_setActor_self w.env a a' g'
          rw [haid'] at gs
          generalize he' : (w.env.setActor a').emit (Ev.start aid j.id j.key) = e'
          have hmb_self : mbox e' aid = [] := by
            subst he'
            unfold mbox
            show (match (w.env.setActor a').getActor aid with | some a => if a.alive then a.mailbox else [] | none => []) = []
            rw [gs]; subst ha'; simp [hal]
          have hmb_other : ∀ b, b ≠ aid → mbox e' b = mbox w.env b := by
            intro b hb
            subst he'
            unfold mbox
            show (match (w.env.setActor a').getActor b with | some a => if a.alive then a.mailbox else [] | none => []) = _
            rw [getActor_setActor_other w.env a' b (by rw [haid']; exact hb)]
          have hwq_p : wq p w.env = j :: p.mq := by
            unfold wq mbox; rw [hpa, g]; simp [hal, hm]
          have hwq_p' : wq p e' = p.mq := by unfold wq; rw [hpa, hmb_self]; rfl
          have hwq_o : ∀ q ∈ w.pool, q ≠ p → wq q e' = wq q w.env := by
            intro q hq hne
            have : q.actor ≠ aid := fun hqa => hne (hc.actor_inj hq hp (hqa.trans hpa.symm))
            unfold wq; rw [hmb_other _ this]
          have hlog : e'.log = w.env.log ++ [Ev.start aid j.id j.key] := by subst he'; rfl
          have hS : ∀ k, startedIds e'.log k = startedIds w.env.log k ++ (if j.key = k then [j.id] else []) := by
            intro k; rw [hlog]; exact startedIds_start _ _ _ _ _
          have hjp : j ∈ wq p w.env := by rw [hwq_p]; exact List.mem_cons_self ..
          have hpw := h.ord.m p hp
          rw [hwq_p] at hpw
          have hpw2 := List.pairwise_cons.mp hpw
          -- membership in the new started list
          have hmemS : ∀ k s, s ∈ startedIds e'.log k → s ∈ startedIds w.env.log k ∨ (j.key = k ∧ s = j.id) := by
            intro k s hs
            rw [hS] at hs
            rcases List.mem_append.mp hs with hs | hs
            · exact Or.inl hs
            · split at hs
              · rename_i hk; simp only [List.mem_singleton] at hs; exact Or.inr ⟨hk, hs⟩
              · cases hs
          -- a job of `j`'s key in another slot's pipeline: impossible (affinity)
          have hother : ∀ q ∈ w.pool, q ≠ p → ∀ x ∈ wq q w.env, x.key ≠ j.key := by
            intro q hq hne x hx hk
            have b1 := wq_key_booked hc hq hx
            have b2 := wq_key_booked hc hp hjp
            rw [hk] at b1
            exact hne (kp_one_slot_per_key ha hc.slot hq hp b1 b2)
          have hjlo : j.id < lo := by
            apply Classical.byContradiction
            intro hge
            have hp0 := total_pos_of_held (w := w) g (j := j) (by rw [hheld]; exact List.mem_cons_self ..)
            have := h.z j.id (by omega)
            omega
          have hzs : ∀ i, total i ({ w with env := e' } : W) = total i w := by
            intro i
            have hh : a'.heldJobs = a.heldJobs := by
              subst ha'; simp only [Actor.heldJobs, hrun, hm, List.nil_append, List.append_nil]
            have hset := cEnv_setActor i w.env a a' g'
            rw [hh] at hset
            subst he'
            simp only [total]
            rw [cEnv_emit _ _ _ rfl]
            omega
          refine ⟨⟨h.ord.q, ?_, h.ord.qi, ?_, ?_, ?_, ?_⟩, h.i, ?_, ?_, fun i hi => by rw [hzs]; exact h.z i hi, ?_⟩
          rotate_right
          · intro k s hs
            simp only at hs
            rcases hmemS _ _ hs with hs | ⟨_, hs⟩
            · exact h.sb k s hs
            · rw [hs]; exact hjlo
          · intro q hq
            simp only
            by_cases hqp : q = p
            · subst hqp; rw [hwq_p']; exact hpw2.2
            · rw [hwq_o q hq hqp]; exact h.ord.m q hq
          · intro q hq x hx y hy
            simp only at hx hy
            by_cases hqp : q = p
            · subst hqp; rw [hwq_p'] at hx
              exact h.ord.mq q hq x (by rw [hwq_p]; exact List.mem_cons_of_mem _ hx) y hy
            · rw [hwq_o q hq hqp] at hx; exact h.ord.mq q hq x hx y hy
          · intro q hq x hx y hy
            simp only at hx
            by_cases hqp : q = p
            · subst hqp; rw [hwq_p'] at hx
              exact h.ord.mi q hq x (by rw [hwq_p]; exact List.mem_cons_of_mem _ hx) y hy
            · rw [hwq_o q hq hqp] at hx; exact h.ord.mi q hq x hx y hy
          · intro x hx s hs
            simp only at hx hs
            rcases hmemS _ _ hs with hs | ⟨hk, hs⟩
            · exact h.ord.sq x hx s hs
            · rw [hs]; exact h.ord.mq p hp j hjp x hx hk
          · intro q hq x hx s hs
            simp only at hx hs
            rcases hmemS _ _ hs with hs | ⟨hk, hs⟩
            · by_cases hqp : q = p
              · subst hqp; rw [hwq_p'] at hx
                exact h.ord.sm q hq x (by rw [hwq_p]; exact List.mem_cons_of_mem _ hx) s hs
              · rw [hwq_o q hq hqp] at hx; exact h.ord.sm q hq x hx s hs
            · rw [hs]
              by_cases hqp : q = p
              · subst hqp; rw [hwq_p'] at hx
                exact hpw2.1 x hx hk
              · rw [hwq_o q hq hqp] at hx
                exact absurd hk.symm (hother q hq hqp x hx)
          · intro x hx s hs
            simp only at hs
            rcases hmemS _ _ hs with hs | ⟨hk, hs⟩
            · exact h.si x hx s hs
            · rw [hs]; exact h.ord.mi p hp j hjp x hx hk
          · intro k
            simp only
            rw [hS]
            split
            · rename_i hk
              refine List.pairwise_append.mpr ⟨h.inc k, List.pairwise_singleton _ _, ?_⟩
              intro s hs b hb
              simp only [List.mem_singleton] at hb; subst hb
              rw [← hk] at hs
              exact h.ord.sm p hp j hjp s hs
            · simp only [List.append_nil]; exact h.inc k


/-! ## the factory actor's loop -/

theorem starts_handleMsg (w : W) (m : FMsg) : startsOf (w.handleMsg m).env.log = startsOf w.env.log := by
  cases m with
  | dispatch j => exact (sames_dispatch w j).starts
  | finished who key => exact (sames_workerFinishedJob w who key).starts
  | adjust n => exact (sames_resizePool w n).starts
  | updateSettings d n => exact (sames_updateSettings w d n).starts
  | setHandler hd => exact sameE_emit w.env _ rfl
  | drainRequests => exact sameE_emit w.env _ rfl
  | calculate =>
    show startsOf (if w.cfg.hasCC && w.armed then { w with armed := false, blocked := true } else w.calcRest).env.log = _
    split
    · rfl
    · exact (sames_calcRest w).starts
  | getQueueDepth => rfl
  | getNumActiveWorkers => rfl
  | getAvailableCapacity => rfl

theorem ordW_weaken {I' : List Job} {w : W} (h : OrdW I S w) (hs : ∀ y ∈ I', y ∈ I) : OrdW I' S w :=
  ⟨h.q, h.m, fun x hx y hy => h.qi x hx y (hs y hy), h.mq, fun p hp x hx y hy => h.mi p hp x hx y (hs y hy), h.sq, h.sm⟩

/-- handling one message (the dispatch at the head of the mailbox, or any other message) -/
theorem ordW_handleMsg (w : W) (m : FMsg) (rest : List FMsg) (hc : Core fk w) (hnb : w.pool ≠ [] → w.queue = [])
    (h : OrdW (inboxJobs (m :: rest)) S w) (hi : (inboxJobs (m :: rest)).Pairwise KO)
    (hsi : ∀ x ∈ inboxJobs (m :: rest), ∀ s ∈ S x.key, s < x.id) :
    OrdW (inboxJobs rest) S (w.handleMsg m) := by
  cases m with
  | dispatch j =>
    simp only [inboxJobs] at h hi hsi
    have h0 : OrdW (inboxJobs rest) S w := ordW_weaken h (fun y hy => List.mem_cons_of_mem _ hy)
    exact ordW_dispatch w j hc.lite h0 hnb
      (fun x hx => h.qi x hx j (List.mem_cons_self ..))
      (fun p hp x hx => h.mi p hp x hx j (List.mem_cons_self ..))
      (fun y hy => (List.pairwise_cons.mp hi).1 y hy)
      (fun s hs => hsi j (List.mem_cons_self ..) s hs)
  | finished who key => exact ordW_workerFinishedJob w who key hc.lite h
  | adjust n => exact ordW_resizePool w n hc h
  | updateSettings d n => exact ordW_updateSettings w d n hc h
  | setHandler hd =>
    exact h.sub (List.Sublist.refl _)
      (poolSubW_map (fun p => { p with handler := hd }) (fun _ => rfl) (fun _ => rfl) rfl (fun _ => rfl))
  | drainRequests => exact h.of_actors rfl rfl rfl
  | calculate =>
    show OrdW _ S (if w.cfg.hasCC && w.armed then { w with armed := false, blocked := true } else w.calcRest)
    split
    · exact h.of_actors rfl rfl rfl
    · exact ordW_calcRest w h
  | getQueueDepth => exact h.of_actors rfl rfl rfl
  | getNumActiveWorkers => exact h.of_actors rfl rfl rfl
  | getAvailableCapacity => exact h.of_actors rfl rfl rfl

/-- everything the start-order argument carries along a run -/
structure TI (lo : Nat) (w : W) : Prop where
  ki : KI w
  j : J w
  aff : AffInv w
  so : w.stopped = true ∨ SO lo w

theorem ti_loopStep (w w' : W) (h : TI lo w) (hl : w.loopStep = some w') : TI lo w' := by
  refine ⟨ki_loopStep w w' h.ki hl, j_loopStep w w' h.j hl, affInv_loopStep w w' h.aff hl, ?_⟩
  have hzz : ∀ i, total i w' = total i w := fun i => total_loopStep i w w' hl
  unfold W.loopStep at hl
  split at hl
  · simp at hl
  · rename_i hsb
    have hst : w.stopped = false := by
      cases hx : w.stopped with
      | false => rfl
      | true => simp [hx] at hsb
    have hso : SO lo w := by
      rcases h.so with hs | hs
      · rw [hst] at hs; cases hs
      · exact hs
    have hc := h.j.core hst
    split at hl
    · simp only [Option.some.injEq] at hl; subst hl; left; rfl
    · split at hl
      · rename_i who rest hsup
        simp only [Option.some.injEq] at hl
        subst hl
        right
        have hi := (ctl_handleSupervisorEvt ({ w with env := { w.env with sup := rest } } : W) who).inbox
        have hs := (sames_handleSupervisorEvt ({ w with env := { w.env with sup := rest } } : W) who).starts
        have ho := ordW_handleSupervisorEvt w who rest hc hso.ord
        have hS : startedIds (W.handleSupervisorEvt { w with env := { w.env with sup := rest } } who).env.log = startedIds w.env.log := by
          funext k; exact startedIds_of_starts hs k
        refine ⟨by rw [hi, hS]; exact ho, by rw [hi]; exact hso.i, by rw [hi, hS]; exact hso.si, by rw [hS]; exact hso.inc,
          fun i hi' => by rw [hzz]; exact hso.z i hi', by rw [hS]; exact hso.sb⟩
      · split at hl
        · rename_i m rest hin
          simp only [Option.some.injEq] at hl
          subst hl
          right
          obtain ⟨f, fi, _⟩ := afterHandle_act (W.handleMsg { w with inbox := rest } m)
          have hib : (W.handleMsg { w with inbox := rest } m).afterHandle.inbox = rest := by
            rw [fi, handleMsg_inbox]
          have hs1 := starts_handleMsg ({ w with inbox := rest } : W) m
          have hs2 := (sames_afterHandle (W.handleMsg { w with inbox := rest } m)).starts
          have hS : startedIds (W.handleMsg { w with inbox := rest } m).afterHandle.env.log = startedIds w.env.log := by
            funext k; exact startedIds_of_starts (hs2.trans hs1) k
          have hord := hso.ord
          have hii := hso.i
          have hsi := hso.si
          rw [hin] at hord hii hsi
          have hcr : Core (fkOf (m :: rest)) ({ w with inbox := rest } : W) := by
            have := hc; rw [hin] at this; exact this.frame ⟨rfl, rfl, rfl, EnvEq.refl _⟩
          have hnb : ({ w with inbox := rest } : W).pool ≠ [] → ({ w with inbox := rest } : W).queue = [] := h.ki.k.empty_queue
          have ho := ordW_handleMsg ({ w with inbox := rest } : W) m rest hcr hnb (hord.of_actors rfl rfl rfl) hii hsi
          have hsub : ∀ y ∈ inboxJobs rest, y ∈ inboxJobs (m :: rest) := by
            intro y hy
            cases m <;> simp only [inboxJobs] <;> first | exact List.mem_cons_of_mem _ hy | exact hy
          have hi2 : (inboxJobs rest).Pairwise KO := by
            cases m <;> simp only [inboxJobs] at hii <;> first | exact (List.pairwise_cons.mp hii).2 | exact hii
          refine ⟨?_, by rw [hib]; exact hi2, ?_, by rw [hS]; exact hso.inc, fun i hi' => by rw [hzz]; exact hso.z i hi',
            by rw [hS]; exact hso.sb⟩
          · rw [hib, hS]
            exact ho.of_actors (afterHandle_fields _).1 f.pool f.env.actors
          · rw [hib, hS]
            intro x hx s hs
            exact hsi x (hsub x hx) s hs
        · simp at hl


theorem so_settle (w : W) (hc : Core fk w) (ha : AffInv w) (h : SO lo w) : SO lo ({ w with env := w.env.settle } : W) := by
  unfold Env.settle
  generalize w.env.actors.map (·.aid) = l
  have : ∀ (l : List Nat) (w : W), Core fk w → AffInv w → SO lo w → SO lo ({ w with env := l.foldl Env.settleOne w.env } : W) := by
    intro l
    induction l with
    | nil => intro w _ _ h; exact h
    | cons x xs ih =>
      intro w hc ha h
      exact ih _ (core_settleOne w x hc) (ha.of_pool rfl rfl) (so_settleOne w x hc ha h)
  exact this l w hc ha h

theorem TI.frame {w w' : W} (h : TI lo w) (hq : w'.queue = w.queue) (hp : w'.pool = w.pool) (hs : w'.poolSize = w.poolSize)
    (hc : w'.cfg = w.cfg) (hi : w'.inbox = w.inbox) (hb : w'.byActor = w.byActor) (hn : w'.nextAid = w.nextAid)
    (he : EnvEq w.env w'.env) (hl : startsOf w'.env.log = startsOf w.env.log) (hst : w'.stopped = w.stopped)
    (hz : ∀ i, total i w' = total i w) : TI lo w' := by
  refine ⟨h.ki.same hq hp hs hc hi, j_frame h.j ⟨hp, hb, hn, he⟩ hi hst, h.aff.of_pool hc hp, ?_⟩
  rcases h.so with hs' | hs'
  · left; rw [hst]; exact hs'
  · right; exact hs'.same hq hp (fun aid => mbox_of_actors he.actors aid) hl hi hz

theorem ti_runQ (fuel : Nat) (w : W) (h : TI lo w) : TI lo (W.runQ fuel w) := by
  induction fuel generalizing w with
  | zero => exact h
  | succ fuel ih =>
    unfold W.runQ
    cases hl : w.loopStep with
    | some w' => simp only; exact ih _ (ti_loopStep w w' h hl)
    | none =>
      simp only
      have hs : TI lo (W.tryFinishStop { w with env := w.env.settle }) := by
        have hk : KI (W.tryFinishStop { w with env := w.env.settle }) := by
          have := ki_runQ 1 w h.ki
          unfold W.runQ at this
          simp only [hl] at this
          unfold W.runQ at this
          split at this <;> exact this
        have hj : J (W.tryFinishStop { w with env := w.env.settle }) := by
          have := j_runQ 1 w h.j
          unfold W.runQ at this
          simp only [hl] at this
          unfold W.runQ at this
          split at this <;> exact this
        have haf : AffInv (W.tryFinishStop { w with env := w.env.settle }) := by
          unfold W.tryFinishStop
          split
          · exact h.aff.of_pool rfl rfl
          · exact h.aff.of_pool rfl rfl
        refine ⟨hk, hj, haf, ?_⟩
        by_cases hst : w.stopped = true
        · left
          unfold W.tryFinishStop
          split <;> exact hst
        · have hst' : w.stopped = false := by simpa using hst
          right
          have hso : SO lo w := by
            rcases h.so with hs | hs
            · rw [hst'] at hs; cases hs
            · exact hs
          have := so_settle w (h.j.core hst') h.aff hso
          unfold W.tryFinishStop
          have hcond : (({ w with env := w.env.settle } : W).stopped && !({ w with env := w.env.settle } : W).exited &&
              ({ w with env := w.env.settle } : W).awaiting.all (fun aid => !(({ w with env := w.env.settle } : W).env.getActor aid).any (·.alive))) = false := by
            simp [hst']
          simp only [hcond, Bool.false_eq_true, if_false]
          exact this
      split
      · exact hs
      · exact ih _ hs


/-! ## harness operations -/

theorem SO.mono {lo lo' : Nat} {w : W} (h : SO lo w) (hle : lo ≤ lo') : SO lo' w :=
  ⟨h.ord, h.i, h.si, h.inc, fun i hi => h.z i (Nat.le_trans hle hi), fun k s hs => Nat.lt_of_lt_of_le (h.sb k s hs) hle⟩

theorem TI.mono {lo lo' : Nat} {w : W} (h : TI lo w) (hle : lo ≤ lo') : TI lo' w := by
  refine ⟨h.ki, h.j, h.aff, ?_⟩
  rcases h.so with hs | hs
  · exact Or.inl hs
  · exact Or.inr (hs.mono hle)

theorem ti_send (w : W) (m : FMsg) (hm : ∀ j, m ≠ .dispatch j) (hf : ∀ x, finKeys x [m] = []) (h : TI lo w) : TI lo (w.send m) := by
  refine ⟨ki_send w m hm h.ki, j_send w m hf h.j, affInv_send w m h.aff, ?_⟩
  unfold W.send
  split
  · exact h.so
  · rename_i hst
    rcases h.so with hs | hs
    · exact absurd hs hst
    · right
      have hI : inboxJobs (w.inbox ++ [m]) = inboxJobs w.inbox := by
        rw [inboxJobs_append]
        cases m <;> first | exact absurd rfl (hm _) | simp [inboxJobs]
      have hd : ∀ i, isDispatchOf i m = false := by
        intro i; cases m <;> first | exact absurd rfl (hm _) | rfl
      refine ⟨?_, ?_, ?_, hs.inc, ?_, hs.sb⟩
      · show OrdW (inboxJobs (w.inbox ++ [m])) _ _
        rw [hI]; exact hs.ord.of_actors rfl rfl rfl
      · show (inboxJobs (w.inbox ++ [m])).Pairwise KO
        rw [hI]; exact hs.i
      · show ∀ x ∈ inboxJobs (w.inbox ++ [m]), _
        rw [hI]; exact hs.si
      · intro i hi
        have := total_send i w m (hd i)
        unfold W.send at this
        rw [if_neg hst] at this
        rw [this]; exact hs.z i hi

theorem ti_advanceTo (t fuel : Nat) (w : W) (h : TI lo w) : TI lo (W.advanceTo t fuel w) := by
  induction fuel generalizing w with
  | zero => exact h.frame rfl rfl rfl rfl rfl rfl rfl ⟨rfl, rfl⟩ rfl rfl (fun _ => rfl)
  | succ fuel ih =>
    unfold W.advanceTo
    split
    · simp only
      apply ih
      apply ti_runQ
      apply ti_send _ _ (fun _ hc => by cases hc) (fun _ => rfl)
      exact h.frame rfl rfl rfl rfl rfl rfl rfl ⟨rfl, rfl⟩ rfl rfl (fun _ => rfl)
    · exact h.frame rfl rfl rfl rfl rfl rfl rfl ⟨rfl, rfl⟩ rfl rfl (fun _ => rfl)

/-- every job anywhere in the factory has an id below `lo` -/
theorem SO.waiting_lt {w : W} (h : SO lo w) :
    (∀ x ∈ inboxJobs w.inbox, x.id < lo) ∧ (∀ x ∈ w.queue, x.id < lo) ∧ (∀ p ∈ w.pool, ∀ x ∈ wq p w.env, x.id < lo) := by
  have key : ∀ x : Job, 0 < total x.id w → x.id < lo := by
    intro x hp
    apply Classical.byContradiction
    intro hge
    have := h.z x.id (by omega)
    omega
  refine ⟨?_, ?_, ?_⟩
  · intro x hx
    exact key x (total_pos_of_waiting (List.mem_append_left _ (List.mem_append_left _ hx)))
  · intro x hx
    exact key x (total_pos_of_waiting (List.mem_append_left _ (List.mem_append_right _ hx)))
  · intro p hp x hx
    unfold wq at hx
    rcases List.mem_append.mp hx with hx | hx
    · unfold mbox at hx
      cases g : w.env.getActor p.actor with
      | none => rw [g] at hx; cases hx
      | some a =>
        rw [g] at hx
        simp only at hx
        split at hx
        · exact key x (total_pos_of_held g (by unfold Actor.heldJobs; exact List.mem_append_right _ hx))
        · cases hx
    · exact key x (total_pos_of_waiting (List.mem_append_right _ (List.mem_flatMap.mpr ⟨p, hp, hx⟩)))

theorem ti_dispatchOp (w : W) (id key hash : Nat) (ttl : Option Nat) (acc : Bool) (hle : lo ≤ id) (h : TI lo w) :
    TI (id + 1) (w.applyOp (.dispatch id key hash ttl acc)) := by
  have hj := j_applyOp w (.dispatch id key hash ttl acc) h.j rfl
  have haf := affInv_applyOp w (.dispatch id key hash ttl acc) h.aff
  have htot := total_applyOp
  by_cases hst : w.stopped = true
  · have : w.applyOp (.dispatch id key hash ttl acc) = w := by simp only [W.applyOp, hst, if_true]
    rw [this]
    exact ⟨h.ki, h.j, h.aff, Or.inl hst⟩
  · have hso : SO lo w := by
      rcases h.so with hs | hs
      · exact absurd hs hst
      · exact hs
    obtain ⟨w1, w2, w3⟩ := hso.waiting_lt
    have hkf : opFresh w (.dispatch id key hash ttl acc) := by
      simp only [opFresh]
      intro x hx _
      unfold waiting at hx
      rcases List.mem_append.mp hx with hx | hx
      · rcases List.mem_append.mp hx with hx | hx
        · exact Nat.lt_of_lt_of_le (w1 x hx) hle
        · exact Nat.lt_of_lt_of_le (w2 x hx) hle
      · obtain ⟨p, hp, hx'⟩ := List.mem_flatMap.mp hx
        exact Nat.lt_of_lt_of_le (w3 p hp x (by unfold wq; exact List.mem_append_right _ hx')) hle
    refine ⟨ki_applyOp w _ hkf h.ki, hj, haf, ?_⟩
    right
    have hz' : ∀ i, id + 1 ≤ i → total i (w.applyOp (.dispatch id key hash ttl acc)) = 0 := by
      intro i hi
      rw [htot]
      have := hso.z i (by omega)
      simp only [opFresh, opAdds]
      have hne : (id == i) = false := by simp; omega
      simp [this, hne]
    simp only [W.applyOp] at hz' ⊢
    rw [if_neg hst] at hz' ⊢
    unfold W.send at hz' ⊢
    have hst2 : ¬ ((w.emit (.dispatched id key acc)).stopped = true) := hst
    rw [if_neg hst2] at hz' ⊢
    generalize hjj : ({ id := id, key := key, hash := hash, expiry := ttl.map (w.env.now + ·), port := acc } : Job) = j at hz' ⊢
    have hjid : j.id = id := by subst hjj; rfl
    have hI : inboxJobs ((w.emit (.dispatched id key acc)).inbox ++ [FMsg.dispatch j]) = inboxJobs w.inbox ++ [j] := by
      rw [inboxJobs_append]; rfl
    have hlogS : ∀ k, startedIds (w.emit (.dispatched id key acc)).env.log k = startedIds w.env.log k := by
      intro k; exact startedIds_of_starts (sameE_emit w.env _ rfl) k
    have hSf : startedIds (w.emit (.dispatched id key acc)).env.log = startedIds w.env.log := funext hlogS
    have hwqe : ∀ p, wq p (w.emit (.dispatched id key acc)).env = wq p w.env := fun p => rfl
    refine ⟨?_, ?_, ?_, ?_, hz', ?_⟩
    · show OrdW (inboxJobs ((w.emit (.dispatched id key acc)).inbox ++ [FMsg.dispatch j])) (startedIds (w.emit (.dispatched id key acc)).env.log) _
      rw [hI, hSf]
      refine ⟨hso.ord.q, hso.ord.m, ?_, hso.ord.mq, ?_, hso.ord.sq, hso.ord.sm⟩
      · intro x hx y hy
        rcases List.mem_append.mp hy with hy | hy
        · exact hso.ord.qi x hx y hy
        · simp only [List.mem_singleton] at hy; subst hy
          intro _; rw [hjid]; exact Nat.lt_of_lt_of_le (w2 x hx) hle
      · intro p hp x hx y hy
        rcases List.mem_append.mp hy with hy | hy
        · exact hso.ord.mi p hp x hx y hy
        · simp only [List.mem_singleton] at hy; subst hy
          intro _; rw [hjid]; exact Nat.lt_of_lt_of_le (w3 p hp x hx) hle
    · show (inboxJobs ((w.emit (.dispatched id key acc)).inbox ++ [FMsg.dispatch j])).Pairwise KO
      rw [hI]
      refine List.pairwise_append.mpr ⟨hso.i, List.pairwise_singleton _ _, ?_⟩
      intro a ha b hb
      simp only [List.mem_singleton] at hb; subst hb
      intro _; rw [hjid]; exact Nat.lt_of_lt_of_le (w1 a ha) hle
    · show ∀ x ∈ inboxJobs ((w.emit (.dispatched id key acc)).inbox ++ [FMsg.dispatch j]), ∀ s ∈ startedIds (w.emit (.dispatched id key acc)).env.log x.key, s < x.id
      rw [hI, hSf]
      intro x hx s hs
      rcases List.mem_append.mp hx with hx | hx
      · exact hso.si x hx s hs
      · simp only [List.mem_singleton] at hx; subst hx
        rw [hjid]; exact Nat.lt_of_lt_of_le (hso.sb _ s hs) hle
    · intro k
      show (startedIds (w.emit (.dispatched id key acc)).env.log k).Pairwise _
      rw [hlogS]; exact hso.inc k
    · intro k s hs
      have : s ∈ startedIds w.env.log k := by rw [← hlogS]; exact hs
      exact Nat.lt_of_lt_of_le (hso.sb k s this) (by omega)


theorem mbox_die_sublist (e : Env) (aid b : Nat) : (mbox (e.die aid) b).Sublist (mbox e b) := by
  by_cases hb : b = aid
  · subst hb
    by_cases hnoop : ∀ a, e.getActor b = some a → a.alive = false
    · rw [die_noop e b hnoop]; exact List.Sublist.refl _
    · have : ∃ a, e.getActor b = some a ∧ a.alive = true := by
        apply Classical.byContradiction
        intro hc
        apply hnoop
        intro a ha
        cases hx : a.alive with
        | false => rfl
        | true => exact absurd ⟨a, ha, hx⟩ hc
      obtain ⟨a, g, hal⟩ := this
      obtain ⟨_, _, a', g', hd', _⟩ := die_spec e b a g hal
      have : mbox (e.die b) b = [] := by unfold mbox; rw [g']; simp [hd']
      rw [this]; exact List.nil_sublist _
  · rw [mbox_die_other e aid b hb]; exact List.Sublist.refl _

theorem so_die (w : W) (aid : Nat) (h : SO lo w) : SO lo ({ w with env := w.env.die aid } : W) := by
  have hS : startedIds (w.env.die aid).log = startedIds w.env.log := by
    funext k; exact startedIds_of_starts (sameE_die w.env aid) k
  refine ⟨?_, h.i, ?_, ?_, ?_, ?_⟩
  · show OrdW _ (startedIds (w.env.die aid).log) _
    rw [hS]
    refine h.ord.sub (List.Sublist.refl _) ?_
    intro q hq
    exact ⟨q, hq, List.Sublist.append (mbox_die_sublist _ _ _) (List.Sublist.refl _)⟩
  · intro x hx s hs
    simp only at hs
    rw [hS] at hs
    exact h.si x hx s hs
  · intro k; show (startedIds (w.env.die aid).log k).Pairwise _; rw [hS]; exact h.inc k
  · intro i hi
    have : total i ({ w with env := w.env.die aid } : W) = total i w := by simp only [total, cEnv_die]
    rw [this]; exact h.z i hi
  · intro k s hs
    simp only at hs
    rw [hS] at hs
    exact h.sb k s hs

theorem so_emit (w : W) (ev : Ev) (hev : isStart ev = false) (hterm : ∀ i, isTerm i ev = false) (h : SO lo w) : SO lo (w.emit ev) :=
  h.same rfl rfl (fun _ => rfl) (sameE_emit w.env ev hev) rfl (fun i => total_emit i w ev (hterm i))

theorem ti_emit (w : W) (ev : Ev) (hev : isStart ev = false) (hterm : ∀ i, isTerm i ev = false) (h : TI lo w) : TI lo (w.emit ev) :=
  h.frame rfl rfl rfl rfl rfl rfl rfl (envEq_emit _ _) (sameE_emit w.env ev hev) rfl (fun i => total_emit i w ev (hterm i))

theorem ti_finish (w : W) (aid : Nat) (ok : Bool) (h : TI lo w) : TI lo (w.finish aid ok) := by
  refine ⟨ki_finish w aid ok h.ki, j_finish w aid ok h.j, affInv_finish w aid ok h.aff, ?_⟩
  have hstp : (w.finish aid ok).stopped = w.stopped := by
    unfold W.finish
    cases g : w.env.getActor aid with
    | none => rfl
    | some a =>
      simp only
      cases hr : a.running with
      | none => rfl
      | some j =>
        simp only
        split
        · rfl
        · split
          · rfl
          · simp only; unfold W.send; split <;> rfl
  by_cases hst : w.stopped = true
  · left; rw [hstp]; exact hst
  · have hst' : w.stopped = false := by simpa using hst
    have hso : SO lo w := by
      rcases h.so with hs | hs
      · exact absurd hs hst
      · exact hs
    have hc := h.j.core hst'
    right
    generalize hfw : w.finish aid ok = wf
    have hzf : ∀ i, total i wf = total i w := fun i => by rw [← hfw]; exact total_finish i w aid ok
    unfold W.finish at hfw
    cases g : w.env.getActor aid with
    | none => simp only [g] at hfw; subst hfw; exact hso
    | some a =>
      simp only [g] at hfw
      cases hr : a.running with
      | none => simp only [hr] at hfw; subst hfw; exact hso
      | some j =>
        simp only [hr] at hfw
        by_cases hal0 : (!a.alive) = true
        · rw [if_pos hal0] at hfw; subst hfw; exact hso
        · rw [if_neg hal0] at hfw
          have hal : a.alive = true := by simpa using hal0
          cases ok with
          | false =>
            -- the worker fails
            simp only [Bool.not_false, if_true] at hfw
            subst hfw
            have h1 : SO lo (w.emit (.died aid)) := so_emit w _ rfl (fun _ => rfl) hso
            exact so_die (w.emit (.died aid)) aid h1
          | true =>
            -- the worker returns Ok: its mailbox is empty (one job at a time), its own task has nothing to take
            simp only [Bool.not_true, Bool.false_eq_true, if_false] at hfw
            have hheld : a.heldJobs = j :: a.mailbox := by simp only [Actor.heldJobs, hr, List.cons_append, List.nil_append]
            obtain ⟨h1, p, hp, hpa, _, _, _⟩ := hc.held_booked g hal (j := j) (by rw [hheld]; exact List.mem_cons_self ..)
            have hmb : a.mailbox = [] := by rw [hheld] at h1; simpa using h1
            obtain ⟨x, gx, _, hxa, _⟩ := hc.sa p hp
            rw [hpa, g] at gx; cases gx
            have hstop := (hxa hal).1
            have haid := getActor_aid g
            unfold W.send at hfw
            simp only [hst', Bool.false_eq_true, if_false] at hfw
            generalize ha' : ({ a with running := none } : Actor) = a' at hfw
            have haid' : a'.aid = aid := by subst ha'; exact haid
            generalize he1 : (w.env.emit (.finishOk aid)).emit (.handled aid j.id) = e1 at hfw
            have ge1 : e1.getActor a'.aid = some a := by subst he1; rw [haid']; exact g
            have gs := getActor_setActor_self e1 a a' ge1
            rw [haid'] at gs
            have hsettle : (e1.setActor a').settleOne aid = e1.setActor a' := by
              unfold Env.settleOne
              rw [gs]
              have h1' : a'.alive = true := by subst ha'; exact hal
              have h2' : a'.running = none := by subst ha'; rfl
              have h3' : a'.stopReq = false := by subst ha'; exact hstop
              have h4' : a'.mailbox = [] := by subst ha'; exact hmb
              simp [h1', h2', h3', h4']
            rw [hsettle] at hfw
            subst hfw
            have hmbx : ∀ b, mbox (e1.setActor a') b = mbox w.env b := by
              intro b
              by_cases hb : b = aid
              · subst hb
                unfold mbox
                rw [gs, g]
                subst ha'; rfl
              · unfold mbox
                rw [getActor_setActor_other e1 a' b (by rw [haid']; exact hb)]
                subst he1; rfl
            have hlog : startsOf (e1.setActor a').log = startsOf w.env.log := by
              show startsOf e1.log = _
              subst he1
              exact (sameE_emit w.env _ rfl).trans (sameE_emit (w.env.emit (.finishOk aid)) _ rfl)
            have hS : startedIds (e1.setActor a').log = startedIds w.env.log := by
              funext k; exact startedIds_of_starts hlog k
            have hI : inboxJobs (w.inbox ++ [FMsg.finished a.wid j.key]) = inboxJobs w.inbox := by
              rw [inboxJobs_append]; simp [inboxJobs]
            refine ⟨?_, ?_, ?_, ?_, fun i hi => by rw [hzf]; exact hso.z i hi, ?_⟩
            · show OrdW (inboxJobs (w.inbox ++ [FMsg.finished a.wid j.key])) (startedIds (e1.setActor a').log) _
              rw [hI, hS]; exact hso.ord.of_eq rfl rfl hmbx
            · show (inboxJobs (w.inbox ++ [FMsg.finished a.wid j.key])).Pairwise KO
              rw [hI]; exact hso.i
            · intro x hx s hs
              simp only at hx hs
              rw [hI] at hx
              rw [hS] at hs
              exact hso.si x hx s hs
            · intro k; show (startedIds (e1.setActor a').log k).Pairwise _; rw [hS]; exact hso.inc k
            · intro k s hs
              simp only at hs
              rw [hS] at hs
              exact hso.sb k s hs


theorem SO.step {w w' : W} (h : SO lo w) (ho : OrdW (inboxJobs w.inbox) (startedIds w.env.log) w') (hi : w'.inbox = w.inbox)
    (hl : startsOf w'.env.log = startsOf w.env.log) (hz : ∀ i, total i w' = total i w) : SO lo w' := by
  have hS : startedIds w'.env.log = startedIds w.env.log := by funext k; exact startedIds_of_starts hl k
  refine ⟨by rw [hi, hS]; exact ho, by rw [hi]; exact h.i, by rw [hi, hS]; exact h.si, by rw [hS]; exact h.inc,
    fun i hi' => by rw [hz]; exact h.z i hi', by rw [hS]; exact h.sb⟩

theorem so_release_tail (w0 : W) (n : Nat) (hc : Core fk w0) (h : SO lo w0) :
    SO lo ((if w0.poolSize != n then w0.resizePool n else w0).calcRest.afterHandle) := by
  have h1 : SO lo (if w0.poolSize != n then w0.resizePool n else w0) := by
    split
    · exact h.step (ordW_resizePool w0 n hc h.ord) (ctl_resizePool w0 n).inbox (sames_resizePool w0 n).starts
        (fun i => total_resizePool i w0 n)
    · exact h
  generalize (if w0.poolSize != n then w0.resizePool n else w0) = w1 at h1
  have h2 : SO lo w1.calcRest :=
    h1.step (ordW_calcRest w1 h1.ord) (ctl_calcRest w1).inbox (sames_calcRest w1).starts (fun i => total_calcRest i w1)
  obtain ⟨f, fi, _⟩ := afterHandle_act w1.calcRest
  exact h2.step (h2.ord.of_actors (afterHandle_fields _).1 f.pool f.env.actors) fi (sames_afterHandle _).starts
    (fun i => total_afterHandle i _)

/-- every operation but a dispatch -/
theorem ti_applyOp (w : W) (op : Op) (hd : ∀ id key hash ttl acc, op ≠ .dispatch id key hash ttl acc)
    (hns : op.isStaleAt w = false) (h : TI lo w) : TI lo (w.applyOp op) := by
  have hf : opFresh w op := by
    cases op <;> first | exact absurd rfl (hd _ _ _ _ _) | trivial
  refine ⟨ki_applyOp w op hf h.ki, j_applyOp w op h.j hns, affInv_applyOp w op h.aff, ?_⟩
  cases op with
  | dispatch id key hash ttl acc => exact absurd rfl (hd _ _ _ _ _)
  | finish aid ok => exact (ti_finish w aid ok h).so
  | kill aid =>
    simp only [W.applyOp]
    rcases h.so with hs | hs
    · exact Or.inl hs
    · exact Or.inr (so_die (w.emit (.died aid)) aid (so_emit w _ rfl (fun _ => rfl) hs))
  | resize n => exact (ti_send _ _ (fun _ hc => by cases hc) (fun _ => rfl) (ti_emit w _ rfl (fun _ => rfl) h)).so
  | settings d n =>
    simp only [W.applyOp]
    refine (ti_send _ _ (fun _ hc => by cases hc) (fun _ => rfl) ?_).so
    cases d with
    | none => cases n with
      | none => exact h
      | some n => exact ti_emit w _ rfl (fun _ => rfl) h
    | some d => cases n with
      | none => exact ti_emit w _ rfl (fun _ => rfl) h
      | some n => exact ti_emit _ _ rfl (fun _ => rfl) (ti_emit w _ rfl (fun _ => rfl) h)
  | drain => exact (ti_send _ _ (fun _ hc => by cases hc) (fun _ => rfl) (ti_emit w _ rfl (fun _ => rfl) h)).so
  | setHandler hd' => exact (ti_send _ _ (fun _ hc => by cases hc) (fun _ => rfl) (ti_emit w _ rfl (fun _ => rfl) h)).so
  | advance => exact h.so
  | block => exact (h.frame (w' := { w with armed := true }) rfl rfl rfl rfl rfl rfl rfl (EnvEq.refl _) rfl rfl (fun _ => rfl)).so
  | release n =>
    simp only [W.applyOp]
    split
    · by_cases hst : w.stopped = true
      · left
        have h1 := (ctl_resizePool ({ w.emit (.released n) with blocked := false } : W) n).stopped
        have : ((if ({ w.emit (.released n) with blocked := false } : W).poolSize != n
            then ({ w.emit (.released n) with blocked := false } : W).resizePool n
            else ({ w.emit (.released n) with blocked := false } : W)).calcRest.afterHandle).stopped = w.stopped := by
          rw [(afterHandle_act _).2.2, (ctl_calcRest _).stopped]
          split
          · exact h1
          · rfl
        rw [this]; exact hst
      · have hst' : w.stopped = false := by simpa using hst
        right
        have hso : SO lo w := by
          rcases h.so with hs | hs
          · exact absurd hs hst
          · exact hs
        have hc := h.j.core hst'
        have h0 : SO lo ({ w.emit (.released n) with blocked := false } : W) :=
          (so_emit w _ rfl (fun _ => rfl) hso).same rfl rfl (fun _ => rfl) rfl rfl (fun _ => rfl)
        have hc0 : Core (fkOf w.inbox) ({ w.emit (.released n) with blocked := false } : W) :=
          hc.frame ⟨rfl, rfl, rfl, envEq_emit _ _⟩
        exact so_release_tail _ n hc0 h0
    · exact h.so
  | nop => exact h.so


theorem ti_ask (w : W) (m : FMsg) (hm : ∀ j, m ≠ .dispatch j) (hf : ∀ x, finKeys x [m] = []) (h : TI lo w) : TI lo (w.ask m) := by
  unfold W.ask
  split
  · exact h.frame rfl rfl rfl rfl rfl rfl rfl (EnvEq.refl _) rfl rfl (fun _ => rfl)
  · simp only
    have h1 := ti_runQ RUN_FUEL _ (ti_send w m hm hf h)
    split
    · exact h1.frame rfl rfl rfl rfl rfl rfl rfl (EnvEq.refl _) rfl rfl (fun _ => rfl)
    · exact h1

theorem ti_queries (w : W) (h : TI lo w) : TI lo w.queries := by
  unfold W.queries
  split
  · exact h.frame rfl rfl rfl rfl rfl rfl rfl (EnvEq.refl _) rfl rfl (fun _ => rfl)
  · exact ti_ask _ _ (fun _ hc => by cases hc) (fun _ => rfl) (ti_ask _ _ (fun _ hc => by cases hc) (fun _ => rfl)
      (ti_ask _ _ (fun _ hc => by cases hc) (fun _ => rfl)
        (h.frame rfl rfl rfl rfl rfl rfl rfl (EnvEq.refl _) rfl rfl (fun _ => rfl))))

/-- the bound on the ids handed out so far, after an operation -/
def nextLo (lo : Nat) : Op → Nat
  | .dispatch id _ _ _ _ => id + 1
  | _ => lo

/-- the operation respects the numbering: a dispatch uses an id not used before -/
def opAscending (lo : Nat) : Op → Bool
  | .dispatch id _ _ _ _ => decide (lo ≤ id)
  | _ => true

theorem ti_stepOp (w : W) (op : Op) (t0 tq te : Nat) (h : TI lo w) (hasc : opAscending lo op = true)
    (hns : op.isStaleAt (W.advanceTo t0 (advanceFuel w t0) w) = false) : TI (nextLo lo op) (w.stepOp op t0 tq te) := by
  unfold W.stepOp
  simp only
  generalize hw1 : W.advanceTo t0 (advanceFuel w t0) w = w1 at hns
  have h1 : TI lo w1 := by rw [← hw1]; exact ti_advanceTo _ _ _ h
  have h1' : TI (nextLo lo op) (w1.applyOp op) := by
    cases op with
    | dispatch id key hash ttl acc =>
      simp only [opAscending, decide_eq_true_eq] at hasc
      exact ti_dispatchOp w1 id key hash ttl acc hasc h1
    | finish aid ok => exact ti_applyOp w1 _ (fun _ _ _ _ _ hc => by cases hc) hns h1
    | kill aid => exact ti_applyOp w1 _ (fun _ _ _ _ _ hc => by cases hc) hns h1
    | resize n => exact ti_applyOp w1 _ (fun _ _ _ _ _ hc => by cases hc) hns h1
    | settings d n => exact ti_applyOp w1 _ (fun _ _ _ _ _ hc => by cases hc) hns h1
    | drain => exact ti_applyOp w1 _ (fun _ _ _ _ _ hc => by cases hc) hns h1
    | setHandler hd => exact ti_applyOp w1 _ (fun _ _ _ _ _ hc => by cases hc) hns h1
    | advance => exact ti_applyOp w1 _ (fun _ _ _ _ _ hc => by cases hc) hns h1
    | block => exact ti_applyOp w1 _ (fun _ _ _ _ _ hc => by cases hc) hns h1
    | release n => exact ti_applyOp w1 _ (fun _ _ _ _ _ hc => by cases hc) hns h1
    | nop => exact ti_applyOp w1 _ (fun _ _ _ _ _ hc => by cases hc) hns h1
  generalize hw2 : W.runQ RUN_FUEL (w1.applyOp op) = w2
  have h2 : TI (nextLo lo op) w2 := by rw [← hw2]; exact ti_runQ _ _ h1'
  generalize hw3 : W.advanceTo tq (advanceFuel w2 tq) w2 = w3
  have h3 : TI (nextLo lo op) w3 := by rw [← hw3]; exact ti_advanceTo _ _ _ h2
  generalize hw4 : w3.queries = w4
  have h4 : TI (nextLo lo op) w4 := by rw [← hw4]; exact ti_queries _ h3
  generalize hw5 : W.advanceTo te (advanceFuel w4 te) w4 = w5
  have h5 : TI (nextLo lo op) w5 := by rw [← hw5]; exact ti_advanceTo _ _ _ h4
  exact (ti_emit { w5 with lastWq := none } _ rfl (fun _ => rfl)
    (h5.frame rfl rfl rfl rfl rfl rfl rfl (EnvEq.refl _) rfl rfl (fun _ => rfl)))

/-- the submitter numbers its jobs in increasing order, starting above `lo` -/
def idsAscending : Nat → List Step → Bool
  | _, [] => true
  | lo, s :: rest => opAscending lo s.op && idsAscending (nextLo lo s.op) rest

/-- the bound after a whole run -/
def finalLo : Nat → List Step → Nat
  | lo, [] => lo
  | lo, s :: rest => finalLo (nextLo lo s.op) rest

theorem ti_runSteps (w : W) (steps : List Step) (h : TI lo w) (hasc : idsAscending lo steps = true)
    (hns : noStaleRun w steps = true) : TI (finalLo lo steps) (w.runSteps steps) := by
  induction steps generalizing w lo with
  | nil => exact h
  | cons s rest ih =>
    unfold idsAscending at hasc
    unfold noStaleRun at hns
    simp only [Bool.and_eq_true, Bool.not_eq_eq_eq_not, Bool.not_true] at hasc hns
    unfold W.runSteps finalLo
    exact ih _ (ti_stepOp w s.op s.t0 s.tq s.te h hasc.1 hns.1) hasc.2 hns.2

theorem ti_init (c : CaseCfg) (hr : c.cfg.router = .kp) : TI 0 (init c) := by
  have hq : isFactoryQueueing c.cfg.router = false := by rw [hr]; rfl
  have hki := ki_init c hq
  have hj := j_init c
  refine ⟨hki, hj, affInv_init c (Or.inl hr), Or.inr ?_⟩
  obtain ⟨_, f2, f3, _⟩ := init_fields c
  have hlog : startsOf (init c).env.log = [] := by
    unfold init
    simp only
    have hq2 := sames_growPool
      ({ cfg := c.cfg, poolSize := 0, pool := [], byActor := [], avail := [], inQ := [], last := 0,
         rl := c.rl.map fun (r : Nat × Nat × Nat × Nat) =>
            let lc : LeakyBucket.Cfg := ⟨r.1, r.2.1, r.2.2.1, 10 ^ 40⟩
            (lc, LeakyBucket.new lc (some r.2.2.2) 0),
         queue := [], disc := c.disc, drain := .notDraining,
         handler := if c.cfg.hasHandler then some 0 else none,
         env := { actors := [], log := [], now := 0, sup := [] },
         nextAid := 0, stopSignal := false, stopped := false, inbox := [], blocked := false, armed := false,
         nextCalc := CALCULATE_FREQUENCY, answers := [], lastWq := none } : W) c.n
    simp only [W.emit, Env.emit, startsOf_append]
    rw [hq2.starts]
    simp [startsOf]
  have hS : ∀ k, startedIds (init c).env.log k = [] := by
    intro k; unfold startedIds; rw [hlog]; rfl
  -- every pipeline is empty: no job has been submitted
  have hz : ∀ i, total i (init c) = 0 := fun i => total_init i c
  have hwq : ∀ p ∈ (init c).pool, wq p (init c).env = [] := by
    intro p hp
    apply Classical.byContradiction
    intro hne
    cases hx : wq p (init c).env with
    | nil => exact hne hx
    | cons x xs =>
      have hxm : x ∈ wq p (init c).env := by rw [hx]; exact List.mem_cons_self ..
      unfold wq at hxm
      rcases List.mem_append.mp hxm with hxm | hxm
      · unfold mbox at hxm
        cases g : (init c).env.getActor p.actor with
        | none => rw [g] at hxm; cases hxm
        | some a =>
          rw [g] at hxm
          simp only at hxm
          split at hxm
          · have := total_pos_of_held g (j := x) (by unfold Actor.heldJobs; exact List.mem_append_right _ hxm)
            rw [hz] at this; cases this
          · cases hxm
      · have := total_pos_of_waiting (w := init c) (x := x)
          (List.mem_append_right _ (List.mem_flatMap.mpr ⟨p, hp, hxm⟩))
        rw [hz] at this; cases this
  refine ⟨?_, by rw [f3]; exact List.Pairwise.nil, ?_, ?_, fun i _ => hz i, ?_⟩
  · rw [f3]
    refine ⟨by rw [f2]; exact List.Pairwise.nil, ?_, ?_, ?_, ?_, ?_, ?_⟩
    · intro p hp; rw [hwq p hp]; exact List.Pairwise.nil
    · intro x hx; rw [f2] at hx; cases hx
    · intro p hp x hx; rw [hwq p hp] at hx; cases hx
    · intro p hp x hx; rw [hwq p hp] at hx; cases hx
    · intro x hx; rw [f2] at hx; cases hx
    · intro p hp x hx; rw [hwq p hp] at hx; cases hx
  · intro x hx; rw [f3] at hx; cases hx
  · intro k; rw [hS]; exact List.Pairwise.nil
  · intro k s hs; rw [hS] at hs; cases hs

/-- (start order) key-persistent routing, job ids in increasing order, no stale completion: while the factory has
not entered `post_stop`, the jobs of every key have STARTED in increasing order of their ids -/
theorem starts_in_order (c : CaseCfg) (hr : c.cfg.router = .kp) (steps : List Step)
    (hasc : idsAscending 0 steps = true) (hns : noStaleRun (init c) steps = true)
    (hst : ((init c).runSteps steps).stopped = false) (k : Nat) :
    (startedIds ((init c).runSteps steps).env.log k).Pairwise (· < ·) := by
  have h := ti_runSteps (init c) steps (ti_init c hr) hasc hns
  rcases h.so with hs | hs
  · rw [hst] at hs; cases hs
  · exact hs.inc k

end Factory
