import RactorModel.Lemmas.TwoNode
import RactorModel.Lemmas.NodeState

/-!
# C18 — duplicate connections converge on one and the same link

Property theorems only; helper lemmas live in `Lemmas/Election.lean`, `Lemmas/TwoNode.lean`,
the executable model (tied to `ractor_cluster/src/node.rs` by the correspondence check) in
`Model/Election.lean`.
-/

namespace C18
open Election

/-- (order-independence) The elected set does not depend on the order in which the
candidates are examined: permuting the candidate list permutes the result. -/
theorem elect_order_independent (ord : Ordering) {cs cs' : List Cand} (h : cs.Perm cs') :
    (elect ord cs).Perm (elect ord cs') := by
  rw [elect_eq_pipeline, elect_eq_pipeline]
  exact (pipeline_perm ord h).map _

/-- Only candidates are ever elected. -/
theorem elect_subset (ord : Ordering) (cs : List Cand) :
    ∀ i ∈ elect ord cs, ∃ c ∈ cs, c.id = i := by
  intro i hi
  rw [elect_eq_pipeline] at hi
  obtain ⟨c, hc, rfl⟩ := List.mem_map.mp hi
  exact ⟨c, (pipeline_sublist ord cs).subset hc, rfl⟩

/-- The election never closes every connection to a peer. -/
theorem elect_nonempty (ord : Ordering) {cs : List Cand} (h : cs ≠ []) : elect ord cs ≠ [] := by
  rw [elect_eq_pipeline]
  simpa using pipeline_ne_nil ord h


/-- (agreement) For two nodes with distinct names and any non-empty multiset of physical
connections (arbitrary initiators, arbitrary nonces including the legacy `0` and repeats,
session actor ids distinct on each node):

* the symmetric survivors `T` all have one direction and one nonce;
* the accepting node (the one that did not dial the survivors) retains exactly one
  connection `acc ∈ T`, the one with its smallest actor id;
* the initiating node retains exactly `T` — in particular it still holds `acc`.
-/
theorem agreement (o : Ordering) (ho : o ≠ .eq) (cs : List Conn) (hne : cs ≠ [])
    (hA : (cs.map (·.idA)).Nodup) (hB : (cs.map (·.idB)).Nodup) :
    (∃ d, ∀ c ∈ survivors o cs, c.aInit = d) ∧
    (∀ c ∈ survivors o cs, ∀ c' ∈ survivors o cs, nz c.nonce = nz c'.nonce) ∧
    ∃ acc ∈ survivors o cs,
      (acc.aInit = false →
        electA o cs = [acc.idA] ∧ electB o cs = (survivors o cs).map (·.idB) ∧
        ∀ c ∈ survivors o cs, acc.idA ≤ c.idA) ∧
      (acc.aInit = true →
        electB o cs = [acc.idB] ∧ electA o cs = (survivors o cs).map (·.idA) ∧
        ∀ c ∈ survivors o cs, acc.idB ≤ c.idB) := by
  obtain ⟨d, hd⟩ := survivors_same_dir ho cs
  refine ⟨⟨d, hd⟩, survivors_same_nonce o cs, ?_⟩
  have hTne := survivors_ne_nil o hne
  have hsub := survivors_sublist o cs
  cases d with
  | false =>
    -- node A accepted the surviving connections
    have hne' : (survivors o cs).map viewA ≠ [] := by simpa using hTne
    have hall : ∀ c ∈ (survivors o cs).map viewA, c.isServer = true := by
      intro c hc
      obtain ⟨x, hx, rfl⟩ := List.mem_map.mp hc
      simp [viewA, hd x hx]
    have hnd : (((survivors o cs).map viewA).map (·.id)).Nodup := by
      have : ((survivors o cs).map viewA).map (·.id) = (survivors o cs).map (·.idA) := by
        simp [viewA, Function.comp_def]
      rw [this]
      exact (hsub.map _).nodup hA
    obtain ⟨cA, hcA, htb, hmin⟩ := tieBreak_allServer hne' hall hnd
    obtain ⟨acc, hacc, rfl⟩ := List.mem_map.mp hcA
    refine ⟨acc, hacc, fun _ => ⟨?_, ?_, ?_⟩, fun h => ?_⟩
    · rw [electA_eq, htb]; rfl
    · rw [electB_eq, tieBreak_noServer]
      · simp [viewB, Function.comp_def]
      · exact ⟨viewB acc, List.mem_map.mpr ⟨acc, hacc, rfl⟩, by simp [viewB, hd acc hacc]⟩
    · intro c hc
      exact hmin _ (List.mem_map.mpr ⟨c, hc, rfl⟩)
    · rw [hd acc hacc] at h; cases h
  | true =>
    -- node B accepted the surviving connections
    have hne' : (survivors o cs).map viewB ≠ [] := by simpa using hTne
    have hall : ∀ c ∈ (survivors o cs).map viewB, c.isServer = true := by
      intro c hc
      obtain ⟨x, hx, rfl⟩ := List.mem_map.mp hc
      simp [viewB, hd x hx]
    have hnd : (((survivors o cs).map viewB).map (·.id)).Nodup := by
      have : ((survivors o cs).map viewB).map (·.id) = (survivors o cs).map (·.idB) := by
        simp [viewB, Function.comp_def]
      rw [this]
      exact (hsub.map _).nodup hB
    obtain ⟨cB, hcB, htb, hmin⟩ := tieBreak_allServer hne' hall hnd
    obtain ⟨acc, hacc, rfl⟩ := List.mem_map.mp hcB
    refine ⟨acc, hacc, fun h => ?_, fun _ => ⟨?_, ?_, ?_⟩⟩
    · rw [hd acc hacc] at h; cases h
    · rw [electB_eq, htb]; rfl
    · rw [electA_eq, tieBreak_noServer]
      · simp [viewA, Function.comp_def]
      · exact ⟨viewA acc, List.mem_map.mpr ⟨acc, hacc, rfl⟩, by simp [viewA, hd acc hacc]⟩
    · intro c hc
      exact hmin _ (List.mem_map.mpr ⟨c, hc, rfl⟩)


/-- (oracle soundness) The run-time oracle `worldOk`, which `bin/check` evaluates on the
answers the REAL `elect_sessions` gives for both nodes, holds of the model's answers for
every two-node world — so an implementation that agrees with the model passes it, and an
oracle failure on the implementation is a genuine violation of the agreement property. -/
theorem worldOk_model (o : Ordering) (ho : o ≠ .eq) (cs : List Conn) (hne : cs ≠ [])
    (hA : (cs.map (·.idA)).Nodup) (hB : (cs.map (·.idB)).Nodup) :
    worldOk cs (electA o cs) (electB o cs) = true := by
  obtain ⟨⟨d, hd⟩, hn, acc, hacc, h1, h2⟩ := agreement o ho cs hne hA hB
  have hsub := survivors_sublist o cs
  have haccs : acc ∈ cs := hsub.subset hacc
  have hpair : ∀ c ∈ survivors o cs, ∀ c' ∈ survivors o cs,
      c.aInit = c'.aInit ∧ nz c.nonce = nz c'.nonce := by
    intro c hc c' hc'
    exact ⟨by rw [hd c hc, hd c' hc'], hn c hc c' hc'⟩
  unfold worldOk
  cases hai : acc.aInit
  · obtain ⟨eA, eB, _⟩ := h1 hai
    have kA : cs.filter (fun c => (electA o cs).contains c.idA) = [acc] := by
      rw [eA]; exact filter_key_singleton (·.idA) haccs hA
    have kB : cs.filter (fun c => (electB o cs).contains c.idB) = survivors o cs := by
      rw [eB]; exact filter_keys_of_sublist (·.idB) hsub hB
    simp only [kA, kB]
    simp only [eA, eB, hai]
    simp only [Bool.and_eq_true, List.all_eq_true, List.any_eq_true, beq_iff_eq, List.mem_map,
      List.mem_cons, List.mem_append, List.not_mem_nil, or_false, forall_eq, List.length_cons,
      List.length_nil, List.contains_eq_mem, decide_eq_true_eq, Bool.false_eq_true, if_false]
    refine ⟨⟨⟨⟨acc, haccs, rfl⟩, ?_⟩, ?_⟩, trivial, hacc⟩
    · rintro i ⟨c, hc, rfl⟩; exact ⟨c, hsub.subset hc, rfl⟩
    · intro c hc c' hc'
      have hcT : c ∈ survivors o cs := by rcases hc with rfl | h; exact hacc; exact h
      have hcT' : c' ∈ survivors o cs := by rcases hc' with rfl | h; exact hacc; exact h
      exact hpair c hcT c' hcT'
  · obtain ⟨eB, eA, _⟩ := h2 hai
    have kB : cs.filter (fun c => (electB o cs).contains c.idB) = [acc] := by
      rw [eB]; exact filter_key_singleton (·.idB) haccs hB
    have kA : cs.filter (fun c => (electA o cs).contains c.idA) = survivors o cs := by
      rw [eA]; exact filter_keys_of_sublist (·.idA) hsub hA
    simp only [kA, kB]
    simp only [eA, eB]
    cases hT : survivors o cs with
    | nil => rw [hT] at hacc; simp at hacc
    | cons c rest =>
      have hcT : c ∈ survivors o cs := by rw [hT]; simp
      have hca : c.aInit = true := by rw [hd c hcT, ← hd acc hacc, hai]
      rw [hT] at hacc hsub hpair
      simp only [hca, if_true]
      simp only [Bool.and_eq_true, List.all_eq_true, List.any_eq_true, beq_iff_eq, List.mem_map,
        List.mem_cons, List.mem_append, List.not_mem_nil, or_false, forall_eq, List.length_cons,
        List.length_nil, List.contains_eq_mem, decide_eq_true_eq]
      have hmem : ∀ x : Conn, (x = c ∨ x ∈ rest) ∨ x = acc → x ∈ c :: rest := by
        intro x hx
        rcases hx with h | rfl
        · exact List.mem_cons.mpr h
        · exact hacc
      refine ⟨⟨⟨?_, ⟨acc, haccs, rfl⟩⟩, ?_⟩, trivial, List.mem_cons.mp hacc⟩
      · rintro i ⟨x, hx, rfl⟩; exact ⟨x, hsub.subset (List.mem_cons.mpr hx), rfl⟩
      · intro x hx x' hx'
        exact hpair x (hmem x hx) x' (hmem x' hx')

/-- (same link) Whatever each node retains is a surviving connection: same direction — the
dials of the node whose name sorts last when both directions exist — and the least
non-legacy nonce of that direction. Stated by quantifiers over the connections only. -/
theorem survivors_spec (o : Ordering) (cs : List Conn) (c : Conn) :
    c ∈ survivors o cs ↔
      (c ∈ cs ∧ ((∃ x ∈ cs, x.aInit = true) → (∃ y ∈ cs, y.aInit = false) →
          (o = .lt → c.aInit = true) ∧ (o = .gt → c.aInit = false))) ∧
      ∀ c' ∈ dirC o cs, c'.nonce ≠ 0 → c.nonce ≠ 0 ∧ c.nonce ≤ c'.nonce := by
  unfold survivors
  rw [mem_nonceC, mem_dirC]

/-- (unique minimum) If a single connection survives the symmetric part (for instance
because its nonce is the unique minimum), both nodes retain exactly that connection. -/
theorem unique_survivor (o : Ordering) (ho : o ≠ .eq) (cs : List Conn) (hne : cs ≠ [])
    (hA : (cs.map (·.idA)).Nodup) (hB : (cs.map (·.idB)).Nodup) (c : Conn)
    (hT : survivors o cs = [c]) : electA o cs = [c.idA] ∧ electB o cs = [c.idB] := by
  obtain ⟨_, _, acc, hacc, h1, h2⟩ := agreement o ho cs hne hA hB
  rw [hT] at hacc h1 h2
  have : acc = c := by simpa using hacc
  subst this
  cases h : acc.aInit
  · obtain ⟨a, b, _⟩ := h1 h; exact ⟨a, by simpa using b⟩
  · obtain ⟨a, b, _⟩ := h2 h; exact ⟨by simpa using b, a⟩

/-- (convergence / stability) The connection kept by the accepting node is never dropped by
either node's symmetric stages when other connections disappear: for every sub-multiset `R`
of the connections that still contains it, it is still a survivor. Hence once the accepting
node has closed its losers, re-election on the initiating node — over whatever subset is
still open — keeps that same physical connection. -/
theorem survivor_stable (o : Ordering) (cs R : List Conn) (hR : R.Sublist cs) (c : Conn)
    (hc : c ∈ survivors o cs) (hcR : c ∈ R) : c ∈ survivors o R := by
  rw [survivors_spec] at hc ⊢
  obtain ⟨⟨_, hdir⟩, hn⟩ := hc
  refine ⟨⟨hcR, fun ⟨x, hx, hxa⟩ ⟨y, hy, hya⟩ => hdir ⟨x, hR.subset hx, hxa⟩ ⟨y, hR.subset hy, hya⟩⟩, ?_⟩
  intro c' hc' hne
  by_cases hmem : c' ∈ dirC o cs
  · exact hn c' hmem hne
  · -- `c'` passed the direction stage of `R` but not of `cs`: then `cs` has both
    -- directions and `c'` has the wrong one, while `c` has the right one; but then `R`
    -- (which contains both `c` and `c'`) has both directions too — contradiction.
    exfalso
    rw [mem_dirC] at hc' hmem
    obtain ⟨hc'R, hdirR⟩ := hc'
    have hc'cs := hR.subset hc'R
    simp only [hc'cs, true_and, Classical.not_imp] at hmem
    obtain ⟨hx, hy, hbad⟩ := hmem
    have hcdir := hdir hx hy
    cases o with
    | eq => simp at hbad
    | lt =>
      simp only [forall_const, reduceCtorEq, false_imp_iff, and_true] at hbad hcdir
      have hc'f : c'.aInit = false := by simpa using hbad
      have := hdirR ⟨c, hcR, hcdir⟩ ⟨c', hc'R, hc'f⟩
      simp [hc'f] at this
    | gt =>
      simp only [forall_const, reduceCtorEq, false_imp_iff, true_and] at hbad hcdir
      have hc't : c'.aInit = true := by simpa using hbad
      have := hdirR ⟨c', hc'R, hc't⟩ ⟨c, hcR, hcdir⟩
      simp [hc't] at this



/-- (every interleaving of the two nodes' handshakes) Elections are run incrementally: each
time a session authenticates, a node elects among the connections that are authenticated and
still open THERE at that moment — some sub-multiset `R` of all connections `cs`, depending on
the interleaving. Whatever `R` is, as long as it contains the connection `acc` that the
accepting node would keep among all of `cs`, NEITHER node's partial election ever closes
`acc`: the accepting node elects exactly `acc`, the initiating node's elected set contains it.
So no schedule of authentications and closings on the two nodes can lose the final link, and
when everything has authenticated and every loser is closed, what remains on both nodes is
that one connection. -/
theorem winner_survives_every_partial_election (o : Ordering) (ho : o ≠ .eq) (cs R : List Conn)
    (hA : (cs.map (·.idA)).Nodup) (hB : (cs.map (·.idB)).Nodup) (hR : R.Sublist cs)
    (acc : Conn) (hacc : acc ∈ survivors o cs) (haccR : acc ∈ R) :
    (acc.aInit = false → (∀ c ∈ survivors o cs, acc.idA ≤ c.idA) →
        electA o R = [acc.idA] ∧ acc.idB ∈ electB o R) ∧
    (acc.aInit = true → (∀ c ∈ survivors o cs, acc.idB ≤ c.idB) →
        electB o R = [acc.idB] ∧ acc.idA ∈ electA o R) := by
  have hne : R ≠ [] := by intro h; rw [h] at haccR; simp at haccR
  have hA' : (R.map (·.idA)).Nodup := (hR.map _).nodup hA
  have hB' : (R.map (·.idB)).Nodup := (hR.map _).nodup hB
  have haccS : acc ∈ survivors o R := survivor_stable o cs R hR acc hacc haccR
  have hsub := survivors_sub_of_winner ho hR hacc haccR
  obtain ⟨_, _, a', ha', h1, h2⟩ := agreement o ho R hne hA' hB'
  obtain ⟨d, hd⟩ := survivors_same_dir ho R
  constructor
  · intro hai hmin
    have ha'i : a'.aInit = false := by rw [hd a' ha', ← hd acc haccS, hai]
    obtain ⟨eA, eB, hmin'⟩ := h1 ha'i
    -- the acceptor's choice within R is `acc`: both are minimal and ids are distinct
    have hle1 : a'.idA ≤ acc.idA := hmin' acc haccS
    have hle2 : acc.idA ≤ a'.idA := hmin a' (hsub a' ha')
    have heq : a' = acc := by
      have hidx : a'.idA = acc.idA := Nat.le_antisymm hle1 hle2
      exact nodup_map_inj' (·.idA) hA' ((survivors_sublist o R).subset ha') haccR hidx
    subst heq
    exact ⟨eA, by rw [eB]; exact List.mem_map.mpr ⟨a', haccS, rfl⟩⟩
  · intro hai hmin
    have ha'i : a'.aInit = true := by rw [hd a' ha', ← hd acc haccS, hai]
    obtain ⟨eB, eA, hmin'⟩ := h2 ha'i
    have hle1 : a'.idB ≤ acc.idB := hmin' acc haccS
    have hle2 : acc.idB ≤ a'.idB := hmin a' (hsub a' ha')
    have heq : a' = acc := by
      have hidx : a'.idB = acc.idB := Nat.le_antisymm hle1 hle2
      exact nodup_map_inj' (·.idB) hB' ((survivors_sublist o R).subset ha') haccR hidx
    subst heq
    exact ⟨eB, by rw [eA]; exact List.mem_map.mpr ⟨a', haccS, rfl⟩⟩

/-- (convergence) A set of connections `R` that is at rest on both nodes — each node's election
over `R` keeps all of `R` (nothing more will be closed) — and still contains the acceptor's
global choice `acc`, is exactly `[acc]`: both nodes end with the same single physical link. -/
theorem quiescent_set_is_the_single_winner (o : Ordering) (ho : o ≠ .eq) (cs R : List Conn)
    (hA : (cs.map (·.idA)).Nodup) (hB : (cs.map (·.idB)).Nodup) (hR : R.Sublist cs)
    (acc : Conn) (hacc : acc ∈ survivors o cs) (haccR : acc ∈ R)
    (hminA : acc.aInit = false → ∀ c ∈ survivors o cs, acc.idA ≤ c.idA)
    (hminB : acc.aInit = true → ∀ c ∈ survivors o cs, acc.idB ≤ c.idB)
    (hrestA : electA o R = R.map (·.idA)) (hrestB : electB o R = R.map (·.idB)) : R = [acc] := by
  obtain ⟨h1, h2⟩ := winner_survives_every_partial_election o ho cs R hA hB hR acc hacc haccR
  cases hai : acc.aInit
  · obtain ⟨eA, _⟩ := h1 hai (hminA hai)
    rw [hrestA] at eA
    have hl : R.length = 1 := by simpa using congrArg List.length eA
    match R, hl, haccR with
    | [x], _, hm => simp at hm; rw [hm]
  · obtain ⟨eB, _⟩ := h2 hai (hminB hai)
    rw [hrestB] at eB
    have hl : R.length = 1 := by simpa using congrArg List.length eB
    match R, hl, haccR with
    | [x], _, hm => simp at hm; rw [hm]

/-! ### `NodeServerState`: unauthenticated sessions cannot displace or veto -/

/-- (non-interference, commit) Whatever name, direction and nonce an UNAUTHENTICATED session
`u` claims, and wherever it sits in the session table, `commit_authenticated(id)` for
another session elects the same survivor flag and closes the same losers as if `u` did not
exist. -/
theorem unauthenticated_cannot_influence_commit (thisName : String) (l1 l2 : List Session)
    (u : Session) (id : Nat) (hu : u.auth = false) (hid : u.id ≠ id) :
    ((NS.mk thisName (l1 ++ u :: l2)).commit id).map (fun r => (r.2.1, r.2.2)) =
      ((NS.mk thisName (l1 ++ l2)).commit id).map (fun r => (r.2.1, r.2.2)) :=
  commit_insert thisName l1 l2 u id hu hid

/-- (non-interference, status reply) …nor the reply `check_candidate` gives to another session. -/
theorem unauthenticated_cannot_influence_check (thisName : String) (l1 l2 : List Session)
    (u : Session) (id : Nat) (hu : u.auth = false) (hid : u.id ≠ id) :
    (NS.mk thisName (l1 ++ u :: l2)).checkCandidate id =
      (NS.mk thisName (l1 ++ l2)).checkCandidate id :=
  checkCandidate_insert thisName l1 l2 u id hu hid

/-- (non-interference, ready) …nor whether another session is reported ready (`is_elected`). -/
theorem unauthenticated_cannot_influence_ready (thisName : String) (l1 l2 : List Session)
    (u : Session) (id : Nat) (hu : u.auth = false) (hid : u.id ≠ id) :
    (NS.mk thisName (l1 ++ u :: l2)).isElected id = (NS.mk thisName (l1 ++ l2)).isElected id :=
  isElected_insert thisName l1 l2 u id hu hid

/-- (stability) An elected set re-elects itself: a second election closes nothing more. -/
theorem elected_set_is_stable (o : Ordering) (cs : List Cand) :
    elect o (pipeline o cs) = elect o cs := by
  rw [elect_eq_pipeline, elect_eq_pipeline, pipeline_idem]

/-- (one ready session per peer) After `commit_authenticated`, the authenticated sessions of
that peer are exactly the elected set; on the accepting node (all of them server-side) at
most ONE session of that peer is left authenticated — and only authenticated, elected
sessions are ever reported ready or listed. -/
theorem commit_leaves_elected_set (st : NS) (id : Nat) (s : Session) (peer : String)
    (hnd : (st.sessions.map (·.id)).Nodup) (hf : st.find id = some s) (hp : s.peerName = some peer) :
    ∃ st2 surv losers, st.commit id = some (st2, surv, losers) ∧
      st2.candidatesFor peer true =
        pipeline (nameOrd peer st.thisName) ((st.markAuth id).candidatesFor peer true) ∧
      ((∀ c ∈ st2.candidatesFor peer true, c.isServer = true) →
        (st2.candidatesFor peer true).length ≤ 1) := by
  have hnd1 : ((st.markAuth id).sessions.map (·.id)).Nodup := by
    have : (st.markAuth id).sessions.map (·.id) = st.sessions.map (·.id) := by
      simp only [NS.markAuth, List.map_map]
      apply List.map_congr_left
      intro x _; simp only [Function.comp]; split <;> rfl
    rw [this]; exact hnd
  have hthis : (st.markAuth id).thisName = st.thisName := rfl
  have key := deauth_candidates (st.markAuth id) peer (nameOrd peer st.thisName) hnd1
  refine ⟨(st.markAuth id).deauth ((st.markAuth id).losersOf peer
      (elect (nameOrd peer st.thisName) ((st.markAuth id).candidatesFor peer true))),
    (elect (nameOrd peer st.thisName) ((st.markAuth id).candidatesFor peer true)).contains id,
    (st.markAuth id).losersOf peer (elect (nameOrd peer st.thisName) ((st.markAuth id).candidatesFor peer true)),
    ?_, key, ?_⟩
  · unfold NS.commit; rw [hf]; simp only [hp]
  · intro hall
    rw [key] at hall ⊢
    have hCnd : (((st.markAuth id).candidatesFor peer true).map (·.id)).Nodup := by
      have : ((st.markAuth id).candidatesFor peer true).map (·.id) =
          ((st.markAuth id).sessions.filter (fun s => s.peerName == some peer && (!true || s.auth))).map (·.id) := by
        simp [NS.candidatesFor, Session.toCand, Function.comp_def]
      rw [this]
      exact ((List.filter_sublist).map _).nodup hnd1
    exact pipeline_acceptor_unique _ _ hCnd hall

/-- (the winner is not told to leave) Right after authenticating, a session asks
`CheckSession` with its own (peer name, nonce) and stops itself unless the reply lets it
continue. An authenticated, ELECTED session always gets a reply that lets it continue —
also when several sessions share its (name, nonce) — so the election never leaves a peer
with no connection. -/
theorem elected_session_continues (st : NS) (hnd : (st.sessions.map (·.id)).Nodup)
    (hw : ∀ s ∈ st.sessions, s.conn ≠ some 0) (id : Nat) (hel : st.isElected id = true) :
    ∃ r, st.postAuthReply id = some r ∧ r.continues = true :=
  elected_continues st hnd hw id hel

/-- non-vacuity: a state with an authenticated server-side session, a second server-side
duplicate committing, and an unauthenticated spoofer claiming the same name. -/
def exampleNS : NS :=
  { thisName := "b@h",
    sessions := [⟨1, true, some "a@h", some 7, true⟩, ⟨2, true, some "a@h", some 3, false⟩,
                 ⟨3, true, some "a@h", none, false⟩] }
example : (exampleNS.commit 2).map (fun r => (r.2.1, r.2.2)) = some (true, [1]) := by decide
example : ((exampleNS.commit 2).map (fun r => (r.1.candidatesFor "a@h" true).map (·.id))) = some [2] := by decide

/-! ### Non-vacuity: concrete worlds that satisfy the hypotheses -/

/-- Simultaneous dial plus a repeated legacy dial: 3 connections, names differ. -/
def exampleWorld : List Conn :=
  [⟨true, 19, 1, 4⟩, ⟨false, 7, 2, 3⟩, ⟨false, 0, 5, 6⟩]

example : exampleWorld ≠ [] ∧ (exampleWorld.map (·.idA)).Nodup ∧ (exampleWorld.map (·.idB)).Nodup := by
  decide
example : electA .gt exampleWorld = [2] ∧ electB .gt exampleWorld = [3] := by decide
example : electA .lt exampleWorld = [1] ∧ electB .lt exampleWorld = [4] := by decide
/-- repeated nonce, same direction: the accepting node (A) picks one, B keeps both. -/
example : electA .gt [⟨false, 41, 12, 21⟩, ⟨false, 41, 11, 22⟩] = [11]
    ∧ electB .gt [⟨false, 41, 12, 21⟩, ⟨false, 41, 11, 22⟩] = [21, 22] := by decide

end C18

#print axioms C18.elect_order_independent
#print axioms C18.elect_subset
#print axioms C18.elect_nonempty
#print axioms C18.agreement
#print axioms C18.worldOk_model
#print axioms C18.survivors_spec
#print axioms C18.unique_survivor
#print axioms C18.survivor_stable
#print axioms C18.winner_survives_every_partial_election
#print axioms C18.quiescent_set_is_the_single_winner
#print axioms C18.unauthenticated_cannot_influence_commit
#print axioms C18.unauthenticated_cannot_influence_check
#print axioms C18.unauthenticated_cannot_influence_ready
#print axioms C18.elected_set_is_stable
#print axioms C18.commit_leaves_elected_set
#print axioms C18.elected_session_continues
