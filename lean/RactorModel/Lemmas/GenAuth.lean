import RactorModel.Generated.Auth
import RactorModel.Model.Auth

/-!
# GenAuth — abstraction functions from the types `rs2lean` generates out of
`ractor_cluster/src/node/auth.rs` (+ the prost messages restated in the target spec) to the
hand-written model types of `Model/Auth.lean`, with right inverses (every model value is the
image of a generated value, so the equivalence theorems of `Props/C17.lean` cover the whole
model domain).
-/

namespace GenAuth
open Generated.Auth

variable {D : Type}

def absName (n : NameMessage D) : Auth.NameMsg := ⟨n.name, n.connection_string, n.connection_id⟩

/-- `AuthenticationMessage { msg: Option<Msg> }` ↦ model message (`None` ↦ `.empty`) -/
def absMsg (m : AuthenticationMessage D) : Auth.Msg D :=
  match m.msg with
  | none => .empty
  | some (.Name n) => .name (absName n)
  | some (.ServerStatus s) => .serverStatus s.status
  | some (.ClientStatus s) => .clientStatus s.status
  | some (.ServerChallenge c) => .serverChallenge c.name c.connection_string c.challenge
  | some (.ClientChallenge r) => .clientChallenge r.challenge r.digest
  | some (.ServerAck a) => .serverAck a.digest

def absServer : ServerAuthenticationProcess D → Auth.Server D
  | .WaitingOnPeerName => .waitingName
  | .HavePeerName n => .havePeerName (absName n)
  | .WaitingOnClientStatus => .waitingClientStatus
  | .WaitingOnClientChallengeReply c d => .waitingReply c d
  | .Ok d => .ok d
  | .Close => .close

def absClient : ClientAuthenticationProcess D → Auth.Client D
  | .WaitingForServerStatus => .waitingStatus
  | .WaitingForServerChallenge s => .waitingChallenge s.status
  | .WaitingForServerChallengeAck c reply ours expected =>
    .waitingAck c.name c.connection_string c.challenge reply ours expected
  | .Ok => .ok
  | .Close => .close

/-! right inverses -/

def concName (n : Auth.NameMsg) : NameMessage D := ⟨n.name, n.conn, n.connId⟩

def concMsg : Auth.Msg D → AuthenticationMessage D
  | .empty => ⟨none⟩
  | .name n => ⟨some (.Name (concName n))⟩
  | .serverStatus s => ⟨some (.ServerStatus ⟨s⟩)⟩
  | .clientStatus b => ⟨some (.ClientStatus ⟨b⟩)⟩
  | .serverChallenge n cs c => ⟨some (.ServerChallenge ⟨n, c, cs⟩)⟩
  | .clientChallenge c dg => ⟨some (.ClientChallenge ⟨c, dg⟩)⟩
  | .serverAck dg => ⟨some (.ServerAck ⟨dg⟩)⟩

def concServer : Auth.Server D → ServerAuthenticationProcess D
  | .waitingName => .WaitingOnPeerName
  | .havePeerName n => .HavePeerName (concName n)
  | .waitingClientStatus => .WaitingOnClientStatus
  | .waitingReply c d => .WaitingOnClientChallengeReply c d
  | .ok d => .Ok d
  | .close => .Close

def concClient : Auth.Client D → ClientAuthenticationProcess D
  | .waitingStatus => .WaitingForServerStatus
  | .waitingChallenge s => .WaitingForServerChallenge ⟨s⟩
  | .waitingAck n cs c reply ours expected => .WaitingForServerChallengeAck ⟨n, c, cs⟩ reply ours expected
  | .ok => .Ok
  | .close => .Close

theorem absMsg_concMsg (m : Auth.Msg D) : absMsg (concMsg m) = m := by
  cases m <;> rfl

theorem absServer_concServer (s : Auth.Server D) : absServer (concServer s) = s := by
  cases s <;> rfl

theorem absClient_concClient (c : Auth.Client D) : absClient (concClient c) = c := by
  cases c <;> rfl

end GenAuth
