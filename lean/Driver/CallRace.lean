import RactorModel.Model.CallRace
import Driver.Common

/-! Driver for the `CallRace` model (C09, E-THR engine `harness/hcore/src/bin/rpcrace.rs`).

  `case <n> <k>`        → `ok at=call.poll,…`
  `step c<i>`           → `at=<point>` / `at=done ret <res>`
  `rx handle r|d`       → `handled=<id:val|id:drop|-> st=<0|2>`
  `rx kill` / `rx stop` → `handled=- st=2`      (model macro: setStopping, setStopped, dropRx)
  `xkill` / `xstop`     → `at=status.publish`    (the exit sequence parks at its first point)
  `step e`              → `at=<point|callee.idle> st=<0|1|2>`  one point of the real exit sequence;
                          the model steps `setStopping` / `setStopped` / `dropRx` happen at the three
                          points where the code does (table `exitPoints`)
  `end`                 → `c0=<res|pending> … handled=… gone=<0|1> polls=<n,…>`
                          oracle `CallRace.judge` on the implementation's line only -/

namespace Driver.CallRaceD
open Driver _root_.CallRace

/-- the schedule points of the callee's exit sequence after a graceful `stop` (no supervisor,
no children, no cluster feature), in order: `processing_loop`'s `set_status(Stopping)` with its
cleanup block, then `ActorLifecycleGuard::cleanup` (`set_status(Stopping)` again, `terminate`
with its `take_children`, notify, unlink, `set_status(Stopped)` with `notify_stop_listener`),
then the task ends. A `kill` first runs `terminate()` from `handle_signal` (one more `tree.take`).
The step that STARTS at the first `status.publish` publishes `Stopping`; the one that starts at
`status.pg_leave` leaves `set_status` and returns from `processing_loop`, dropping the port set
(the mailbox receiver) — BEFORE the lifecycle cleanup; the one that starts at the third
`status.publish` publishes `Stopped`. The table is an assumption about the code that the differential checks
point by point. -/
def stopPoints : List String :=
  ["status.publish", "status.unreg_pid", "status.unreg_name", "status.pg_demonitor", "status.pg_leave",
   "status.publish", "cleanup.terminate", "tree.take", "cleanup.notify", "cleanup.unlink", "cleanup.stopped",
   "status.publish", "status.notify", "notify.waiters", "notify.one"]
def killPoints : List String := "tree.take" :: stopPoints

structure St where
  s : S := {}
  k : Nat := 0
  /-- the points of the exit sequence still ahead, the first one being where the callee is parked
  (`[]` = no exit under way) -/
  epc : List String := []
  /-- polls granted to caller i after the callee's task ended (model side, for the `end` line) -/
  polls : List Nat := []

def showAt (s : S) (i : Nat) : String :=
  match s.pcs i with
  | .done r => s!"at=done ret {r.show}"
  | pc => s!"at={pc.point}"

def showHandled (l : List (Nat × Option Nat)) : String :=
  if l.isEmpty then "-" else ",".intercalate (l.map fun
    | (p, some v) => s!"{p}:{v}"
    | (p, none) => s!"{p}:drop")

def parseRes? (s : String) : Option (Option Res) :=
  if s == "pending" then some none
  else if s == "senderr" then some (some .sendErr)
  else if s == "sendererror" then some (some .senderError)
  else if s.startsWith "success:" then (s.drop 8).toString.toNat?.map fun v => some (.success v)
  else none

def parseHandled? (s : String) : Option (List (Nat × Option Nat)) :=
  if s == "-" then some [] else (splitOnChar s ',').mapM fun e =>
    match splitOnChar e ':' with
    | [p, "drop"] => p.toNat?.map fun p => (p, none)
    | [p, v] => do pure (← p.toNat?, some (← v.toNat?))
    | _ => none

def field? (ws : List String) (k : String) : Option String :=
  (ws.find? (·.startsWith (k ++ "="))).map fun w => (w.drop (k.length + 1)).toString

/-- the oracle on the implementation's `end` line -/
def oracleEnd (k : Nat) (impl : String) : List String :=
  let ws := words impl
  match (field? ws "handled").bind parseHandled?, (field? ws "gone").bind parseBool?,
        (field? ws "polls").bind natList? with
  | some handled, some gone, some polls =>
    (List.range k).flatMap fun i =>
      match (field? ws s!"c{i}").bind parseRes? with
      | some res =>
        judge res gone (polls.getD i 0) i ((handled.find? (·.1 == i)).map (·.2))
      | none => ["c09.race-unparsable"]
  | _, _, _ => ["c09.race-unparsable"]

def step (st : St) (op impl : String) : St × StepOut :=
  match words op with
  | ["case", _, k] =>
    let k := k.toNat?.getD 1
    ({ s := init, k := k, polls := List.replicate k 0 },
     { model := "ok at=" ++ ",".intercalate ((List.range k).map fun _ => "call.poll") })
  | ["step", "e"] =>
    match st.epc with
    | [] => (st, { model := s!"at=callee.idle st={st.s.status}" })
    | p :: rest =>
      let s' := if p == "status.publish" && st.s.status == 0 then _root_.CallRace.step st.s .setStopping
                else if p == "status.publish" && rest.length == 3 then _root_.CallRace.step st.s .setStopped
                else if p == "status.pg_leave" then _root_.CallRace.step st.s .dropRx
                else st.s
      let atP := rest.headD "callee.idle"
      ({ st with s := s', epc := rest },
       { model := s!"at={atP} st={s'.status}", nontrivial := true,
         key := some s!"e{rest.length} pcs={(List.range st.k).map fun i => (st.s.pcs i).point} q={st.s.queue.length}" })
  | ["end"] =>
    let res := (List.range st.k).map fun i =>
      match st.s.pcs i with
      | .done r => s!"c{i}={r.show}"
      | _ => s!"c{i}=pending"
    let model := s!"{" ".intercalate res} handled={showHandled st.s.handled} gone={if st.s.rxAlive then 0 else 1} polls={showNats st.polls}"
    (st, { model := model, oracle := (oracleEnd st.k impl).eraseDups, nontrivial := true })
  | [how] =>
    if how != "xkill" && how != "xstop" then (st, { model := "bad-op" })
    else if !st.epc.isEmpty then (st, { model := "busy" })
    else if st.s.status != 0 then (st, { model := "at=callee.idle" })     -- already gone: nothing happens
    else
      let pts := if how == "xkill" then killPoints else stopPoints
      ({ st with epc := pts }, { model := s!"at={pts.headD "?"}", nontrivial := true })
  | ["step", c] =>
    match (c.drop 1).toString.toNat? with
    | some i =>
      if i ≥ st.k then (st, { model := "bad-op" }) else
      let wasDone := match st.s.pcs i with | .done _ => true | _ => false
      let s' := _root_.CallRace.step st.s (.c i)
      let polls := if !st.s.rxAlive && st.epc.isEmpty && !wasDone then st.polls.set i (st.polls.getD i 0 + 1) else st.polls
      ({ st with s := s', polls := polls },
       { model := showAt s' i, nontrivial := !wasDone,
         key := some s!"{showAt st.s i}->{showAt s' i} st={st.s.status} rx={st.s.rxAlive} q={st.s.queue.length} cnt={st.s.count}" })
    | none => (st, { model := "bad-op" })
  | ["rx", "handle", m] =>
    if !st.epc.isEmpty then (st, { model := "busy" }) else
    let s' := _root_.CallRace.step st.s (.handle (m == "r"))
    let new := s'.handled.drop st.s.handled.length
    ({ st with s := s' }, { model := s!"handled={showHandled new} st={s'.status}", nontrivial := !new.isEmpty })
  | ["rx", how] =>
    if how != "kill" && how != "stop" then (st, { model := "bad-op" })
    else if !st.epc.isEmpty then (st, { model := "busy" }) else
    let s' := run st.s [.setStopping, .dropRx, .setStopped]
    ({ st with s := s' },
     { model := s!"handled=- st={s'.status}", nontrivial := st.s.rxAlive,
       key := some s!"exit q={st.s.queue.length} pcs={(List.range st.k).map fun i => (st.s.pcs i).point}" })
  | _ => (st, { model := "bad-op" })

def run (ops impl : Array String) : IO Tally := replay ({} : St) step ops impl

end Driver.CallRaceD
