import RactorModel.Lemmas.TimersDeliver

/-! Round 4 (audit): one-step fire lemmas for `exit_after` / `kill_after`, and the POSITIVE half —
once they have acted and the target's task has run, the actor is gone (or in `post_stop`). -/

namespace Timers

/-! ### what the target keeps -/

/-- requests and the exit are never taken back; `post_stop` implies "stopped accepting" -/
structure TMono (T T' : Target) : Prop where
  stopReq : T.stopReq ≠ none → T'.stopReq ≠ none
  killReq : T.killReq = true → T'.killReq = true
  exit : T.exit ≠ none → T'.exit ≠ none
  sc : (T.stopping ≠ none → T.closedAt ≠ none) → (T'.stopping ≠ none → T'.closedAt ≠ none)

theorem TMono.refl (T : Target) : TMono T T := ⟨id, id, id, id⟩

theorem TMono.exitWith (T : Target) (r : Reason) (now : Nat) : TMono T (T.exitWith r now) :=
  ⟨id, id, fun _ => by simp [Target.exitWith], fun _ h => by simp [Target.exitWith] at h⟩

theorem TMono.endLoop (T : Target) (r : Reason) (now : Nat) : TMono T (T.endLoop r now) := by
  unfold Target.endLoop
  split
  · exact ⟨id, id, id, fun _ _ => by simp⟩
  · exact TMono.exitWith T r now

theorem TMono.trans {A B C : Target} (h1 : TMono A B) (h2 : TMono B C) : TMono A C :=
  ⟨fun h => h2.stopReq (h1.stopReq h), fun h => h2.killReq (h1.killReq h), fun h => h2.exit (h1.exit h),
   fun h => h2.sc (h1.sc h)⟩

theorem TMono.run (T : Target) (now : Nat) : TMono T (T.run now) := by
  unfold Target.run
  split
  · exact TMono.refl T
  split
  · exact TMono.exitWith T _ now
  split
  · exact TMono.refl T
  split
  · exact TMono.refl T
  split
  · exact TMono.endLoop T _ now
  · split
    · exact (⟨id, id, id, id⟩ : TMono T { T with handled := _, mbox := [] }).trans (TMono.exitWith _ _ now)
    · dsimp only
      have h0 : TMono T { T with handled := T.handled ++ T.mbox.map (fun m => (m.1, m.2, now)), mbox := [] } :=
        ⟨id, id, id, id⟩
      split
      · exact h0.trans (TMono.endLoop _ _ now)
      · exact h0

theorem TMono.stop (T : Target) (r : Reason) : TMono T (T.stop r) := by
  unfold Target.stop
  split
  · exact TMono.refl T
  · exact ⟨fun _ => by simp, id, id, id⟩

theorem TMono.kill (T : Target) : TMono T T.kill := by
  unfold Target.kill
  split
  · exact TMono.refl T
  · exact ⟨id, fun _ => rfl, id, id⟩

theorem TMono.push (T : Target) (m : Nat × Nat) : TMono T (T.push m) := ⟨id, id, id, id⟩

/-- what a target that has run looks like: a kill has been acted on, a stop request has at least
ended the message loop -/
theorem isSome_ne_none {α} {o : Option α} (h : o.isSome = true) : o ≠ none := by
  cases o with
  | none => simp at h
  | some x => simp

theorem endLoop_settled (T : Target) (r : Reason) (now : Nat) (hk : T.killReq = false) :
    ((T.endLoop r now).killReq = true → (T.endLoop r now).exit ≠ none) ∧
    ((T.endLoop r now).closedAt ≠ none ∨ (T.endLoop r now).exit ≠ none ∨ (T.endLoop r now).starting = true) := by
  unfold Target.endLoop
  split
  · exact ⟨fun h => by simp [hk] at h, .inl (by simp)⟩
  · exact ⟨fun _ => by simp [Target.exitWith], .inl (by simp [Target.exitWith])⟩

theorem run_settled (T : Target) (now : Nat) (hsc : T.stopping ≠ none → T.closedAt ≠ none) :
    ((T.run now).killReq = true → (T.run now).exit ≠ none) ∧
    ((T.run now).stopReq ≠ none →
      (T.run now).closedAt ≠ none ∨ (T.run now).exit ≠ none ∨ (T.run now).starting = true) := by
  unfold Target.run
  by_cases h1 : T.exit.isSome = true
  · simp only [h1, ↓reduceIte]
    exact ⟨fun _ => isSome_ne_none h1, fun _ => .inr (.inl (isSome_ne_none h1))⟩
  · simp only [h1, Bool.false_eq_true, ↓reduceIte]
    by_cases h2 : T.killReq = true
    · simp only [h2, ↓reduceIte]
      exact ⟨fun _ => by simp [Target.exitWith], fun _ => .inr (.inl (by simp [Target.exitWith]))⟩
    · simp only [h2, Bool.false_eq_true, ↓reduceIte]
      have hk : T.killReq = false := by simpa using h2
      by_cases h0 : T.starting = true
      · simp only [h0, ↓reduceIte]
        exact ⟨fun h => absurd h h2, fun _ => .inr (.inr trivial)⟩
      simp only [h0, Bool.false_eq_true, ↓reduceIte]
      by_cases h3 : T.stopping.isSome = true
      · simp only [h3, ↓reduceIte]
        exact ⟨fun h => absurd h h2, fun _ => .inl (hsc (isSome_ne_none h3))⟩
      · simp only [h3, Bool.false_eq_true, ↓reduceIte]
        cases hs : T.stopReq with
        | some r =>
          simp only
          have := endLoop_settled T r now hk
          exact ⟨this.1, fun _ => this.2⟩
        | none =>
          simp only
          cases hpo : T.poison with
          | some n =>
            simp only
            exact ⟨fun _ => by simp [Target.exitWith], fun _ => .inr (.inl (by simp [Target.exitWith]))⟩
          | none =>
          simp only
          by_cases h4 : T.draining = true
          · simp only [h4, ↓reduceIte]
            exact ⟨(endLoop_settled _ _ _ (by simp)).1, fun _ => (endLoop_settled _ _ _ (by simp)).2⟩
          · simp only [h4, Bool.false_eq_true, ↓reduceIte]
            refine ⟨fun h => ?_, fun h => ?_⟩
            · simp_all
            · simp_all

/-! ### one poll of `exit_after` / `kill_after`, in any state -/

theorem exitAfter_fires' {s : State} (h : Inv s) (i : Nat) (τ : Timer) (a : Nat)
    (hi : s.timers[i]? = some τ) (hk : τ.kind = .exitAfter) (hp : τ.res = .pending)
    (ha : τ.armed = some a) (hd : wheelDeadline a τ.period ≤ s.now) :
    (step s (.fire i)).timers[i]? = some ((τ.attempt s.now).finish .ok s.now) ∧ τ.sentAt = [] ∧
      (step s (.fire i)).target = s.target.stop (.exitAfter (asMillis τ.period)) := by
  have hτ : τ ∈ s.timers := List.mem_iff_getElem?.mpr ⟨i, hi⟩
  have hs : τ.sentAt = [] := ((h.tinv τ hτ).shot (by simp [hk, Kind.oneShot])).1 hp
  rw [step_fire_some hi]
  have harm : τ.arm s.now = τ := by cases τ; simp_all [Timer.arm]
  have hdl : τ.deadline a ≤ s.now := by simpa [Timer.deadline, hs] using hd
  have hf : fireOne s.now i τ s.target =
      ((τ.attempt s.now).finish .ok s.now, s.target.stop (.exitAfter (asMillis τ.period))) := by
    unfold fireOne
    simp only [hp, ne_eq, not_true_eq_false, ↓reduceIte, harm, ha, Option.getD_some]
    unfold fireArmed
    simp [hk, hdl]
  rw [hf]
  exact ⟨by simp [getElem?_lt hi], hs, rfl⟩

theorem killAfter_fires' {s : State} (h : Inv s) (i : Nat) (τ : Timer) (a : Nat)
    (hi : s.timers[i]? = some τ) (hk : τ.kind = .killAfter) (hp : τ.res = .pending)
    (ha : τ.armed = some a) (hd : wheelDeadline a τ.period ≤ s.now) :
    (step s (.fire i)).timers[i]? = some ((τ.attempt s.now).finish .ok s.now) ∧ τ.sentAt = [] ∧
      (step s (.fire i)).target = s.target.kill := by
  have hτ : τ ∈ s.timers := List.mem_iff_getElem?.mpr ⟨i, hi⟩
  have hs : τ.sentAt = [] := ((h.tinv τ hτ).shot (by simp [hk, Kind.oneShot])).1 hp
  rw [step_fire_some hi]
  have harm : τ.arm s.now = τ := by cases τ; simp_all [Timer.arm]
  have hdl : τ.deadline a ≤ s.now := by simpa [Timer.deadline, hs] using hd
  have hf : fireOne s.now i τ s.target = ((τ.attempt s.now).finish .ok s.now, s.target.kill) := by
    unfold fireOne
    simp only [hp, ne_eq, not_true_eq_false, ↓reduceIte, harm, ha, Option.getD_some]
    unfold fireArmed
    simp [hk, hdl]
  rw [hf]
  exact ⟨by simp [getElem?_lt hi], hs, rfl⟩

/-- a live, idle target (no request pending, not in `post_stop`, gate open) that is asked to stop
exits with that reason the next time its task runs; a kill always wins -/
theorem stop_then_run (T : Target) (r : Reason) (now : Nat) (he : T.exit = none) (hk : T.killReq = false)
    (hs : T.stopReq = none) (hst : T.stopping = none) (hg : T.psGate = false) (h0 : T.starting = false) :
    ((T.stop r).run now).exit = some (r, now) := by
  have e : T.stop r = { T with stopReq := some r } := by simp [Target.stop, he, hs]
  rw [e]
  simp [Target.run, he, hk, hst, Target.endLoop, hg, Target.exitWith, h0]

theorem kill_then_run (T : Target) (now : Nat) (he : T.exit = none) :
    (T.kill.run now).exit = some (.killed, now) := by
  have e : T.kill = { T with killReq := true } := by simp [Target.kill, he]
  rw [e]
  simp [Target.run, he, Target.exitWith]

/-! ### acted ⇒ requested, for every schedule -/

structure AInv (s : State) : Prop where
  exitA : ∀ τ ∈ s.timers, τ.kind = .exitAfter → τ.sentAt ≠ [] → s.target.stopReq ≠ none ∨ s.target.exit ≠ none
  killA : ∀ τ ∈ s.timers, τ.kind = .killAfter → τ.sentAt ≠ [] → s.target.killReq = true ∨ s.target.exit ≠ none
  sc : s.target.stopping ≠ none → s.target.closedAt ≠ none

theorem AInv.init : AInv init :=
  ⟨(by intro τ h; cases h), (by intro τ h; cases h), (by intro h; exact absurd rfl h)⟩

/-- the timers are the same as far as "has acted" goes, the target only moved forward -/
theorem AInv.of_mono {s s' : State} (h : AInv s) (hm : TMono s.target s'.target)
    (ht : ∀ τ' ∈ s'.timers, τ'.sentAt ≠ [] → ∃ τ ∈ s.timers, τ.kind = τ'.kind ∧ τ.sentAt ≠ []) : AInv s' := by
  refine ⟨?_, ?_, hm.sc h.sc⟩
  · intro τ' hτ' hk hne
    obtain ⟨τ, hτ, e, hn⟩ := ht τ' hτ' hne
    exact (h.exitA τ hτ (e.trans hk) hn).imp hm.stopReq hm.exit
  · intro τ' hτ' hk hne
    obtain ⟨τ, hτ, e, hn⟩ := ht τ' hτ' hne
    exact (h.killA τ hτ (e.trans hk) hn).imp hm.killReq hm.exit

/-- what one poll does to "acted ⇒ requested" for the polled timer -/
structure APoll (T0 : Target) (x : Timer × Target) : Prop where
  mono : TMono T0 x.2
  exitA : x.1.kind = .exitAfter → x.1.sentAt ≠ [] → x.2.stopReq ≠ none ∨ x.2.exit ≠ none
  killA : x.1.kind = .killAfter → x.1.sentAt ≠ [] → x.2.killReq = true ∨ x.2.exit ≠ none

theorem stop_requested (T : Target) (r : Reason) : (T.stop r).stopReq ≠ none ∨ (T.stop r).exit ≠ none := by
  unfold Target.stop
  split
  · rename_i h
    simp only [Bool.or_eq_true] at h
    rcases h with h | h
    · right; cases he : T.exit with
      | none => simp [he] at h
      | some x => simp
    · left; cases hs : T.stopReq with
      | none => simp [hs] at h
      | some x => simp
  · left; simp

theorem kill_requested (T : Target) : T.kill.killReq = true ∨ T.kill.exit ≠ none := by
  unfold Target.kill
  split
  · rename_i h
    right; cases he : T.exit with
    | none => simp [he] at h
    | some x => simp
  · left; rfl

theorem Micro.apoll {now id : Nat} {T0 : Target} {x y : Timer × Target} (m : Micro now id x y)
    (h : APoll T0 x) : APoll T0 y := by
  cases m with
  | arm τ T _ _ _ => exact ⟨h.mono, h.exitA, h.killA⟩
  | panic τ T _ hk _ =>
    exact ⟨h.mono, fun hk' => by simp [hk] at hk', fun hk' => by simp [hk] at hk'⟩
  | prime τ T a _ _ _ _ _ => exact ⟨h.mono, h.exitA, h.killA⟩
  | primeHead τ T a _ hk _ _ _ =>
    exact ⟨h.mono, fun hk' => by simp [hk] at hk', fun hk' => by simp [hk] at hk'⟩
  | ivFail τ T a _ hk _ _ _ =>
    exact ⟨h.mono, fun hk' => by simp [hk] at hk', fun hk' => by simp [hk] at hk'⟩
  | ivHead τ T _ hk _ _ =>
    exact ⟨h.mono, fun hk' => by simp [hk] at hk', fun hk' => by simp [hk] at hk'⟩
  | saErr τ T a _ hk _ _ _ =>
    exact ⟨h.mono, fun hk' => by simp [hk] at hk', fun hk' => by simp [hk] at hk'⟩
  | ivSend τ T a hp hk ha hd hacc =>
    exact ⟨h.mono.trans (TMono.push T _), fun hk' => by simp [hk] at hk', fun hk' => by simp [hk] at hk'⟩
  | saOk τ T a hp hk ha hd hacc =>
    exact ⟨h.mono.trans (TMono.push T _), fun hk' => by simp [hk] at hk', fun hk' => by simp [hk] at hk'⟩
  | exit τ T a hp hk ha hd =>
    exact ⟨h.mono.trans (TMono.stop T _), fun _ _ => stop_requested T _, fun hk' => by simp [hk] at hk'⟩
  | kill τ T a hp hk ha hd =>
    exact ⟨h.mono.trans (TMono.kill T), fun hk' => by simp [hk] at hk', fun _ _ => kill_requested T⟩

theorem AInv.step {s : State} (h : AInv s) (op : Op) : AInv (Timers.step s op) := by
  have same : ∀ τ' ∈ s.timers, τ'.sentAt ≠ [] → ∃ τ ∈ s.timers, τ.kind = τ'.kind ∧ τ.sentAt ≠ [] :=
    fun τ' h1 h2 => ⟨τ', h1, rfl, h2⟩
  have added : ∀ (x : Timer), x.sentAt = [] → ∀ τ' ∈ s.timers ++ [x], τ'.sentAt ≠ [] →
      ∃ τ ∈ s.timers, τ.kind = τ'.kind ∧ τ.sentAt ≠ [] := by
    intro x hx τ' h1 h2
    simp only [List.mem_append, List.mem_singleton] at h1
    rcases h1 with h1 | rfl
    · exact ⟨τ', h1, rfl, h2⟩
    · exact absurd hx h2
  cases op with
  | create k p => exact @AInv.of_mono s _ h (TMono.refl _) (added _ rfl)
  | createX k p => exact @AInv.of_mono s _ h (TMono.refl _) (added _ rfl)
  | tick d => exact @AInv.of_mono s _ h (TMono.refl _) same
  | mark => exact @AInv.of_mono s _ h (TMono.refl _) same
  | dropHandle i => exact @AInv.of_mono s _ h (TMono.refl _) same
  | hold => exact @AInv.of_mono s _ h ⟨id, id, id, id⟩ same
  | startHold => exact @AInv.of_mono s _ h ⟨id, id, id, id⟩ same
  | started => exact @AInv.of_mono s _ h ⟨id, id, id, id⟩ same
  | fail =>
    refine @AInv.of_mono s _ h ?_ same
    show TMono s.target s.target.poisonMsg
    unfold Target.poisonMsg
    split
    · exact ⟨id, id, id, id⟩
    · exact TMono.refl _
  | abort i =>
    cases hτ : s.timers[i]? with
    | none => rw [step_abort_none hτ]; exact h
    | some τ =>
      rw [step_abort_some hτ]
      split
      · refine @AInv.of_mono s _ h (TMono.refl _) ?_
        intro τ' h1 h2
        rcases mem_set_cases h1 with rfl | h1
        · exact ⟨τ, List.mem_iff_getElem?.mpr ⟨i, hτ⟩, rfl, h2⟩
        · exact ⟨τ', h1, rfl, h2⟩
      · exact h
  | stop =>
    refine @AInv.of_mono s _ h ?_ same
    exact (TMono.stop s.target .manual).trans ⟨id, id, id, id⟩
  | kill =>
    refine @AInv.of_mono s _ h ?_ same
    exact (TMono.kill s.target).trans ⟨id, id, id, id⟩
  | drain =>
    refine @AInv.of_mono s _ h ?_ same
    show TMono s.target (s.target.drain s.now)
    unfold Target.drain
    split
    · exact TMono.refl _
    · exact ⟨id, id, id, fun _ _ => by simp⟩
  | psrelease =>
    refine @AInv.of_mono s _ h ?_ same
    show TMono s.target (s.target.release s.now)
    unfold Target.release
    split
    · exact (⟨id, id, id, id⟩ : TMono s.target { s.target with psGate := false }).trans (TMono.exitWith _ _ _)
    · exact ⟨id, id, id, id⟩
  | target => exact @AInv.of_mono s _ h (TMono.run s.target s.now) same
  | fire i =>
    cases hτ : s.timers[i]? with
    | none => rw [step_fire_none hτ]; exact h
    | some τ =>
      rw [step_fire_some hτ]
      have hm : τ ∈ s.timers := List.mem_iff_getElem?.mpr ⟨i, hτ⟩
      have hp : APoll s.target (fireOne s.now i τ s.target) :=
        fireOne_ind s.now i (fun x => APoll s.target x) (fun _ _ m hx => m.apoll hx) τ s.target
          ⟨TMono.refl _, h.exitA τ hm, h.killA τ hm⟩
      generalize fireOne s.now i τ s.target = r at hp
      refine ⟨?_, ?_, hp.mono.sc h.sc⟩
      · intro τ' h1 hk hne
        rcases mem_set_cases h1 with rfl | h1
        · exact hp.exitA hk hne
        · exact (h.exitA τ' h1 hk hne).imp hp.mono.stopReq hp.mono.exit
      · intro τ' h1 hk hne
        rcases mem_set_cases h1 with rfl | h1
        · exact hp.killA hk hne
        · exact (h.killA τ' h1 hk hne).imp hp.mono.killReq hp.mono.exit

theorem AInv.steps {s : State} (h : AInv s) (ops : List Op) : AInv (Timers.steps s ops) := by
  induction ops generalizing s with
  | nil => exact h
  | cons op ops ih => exact ih (h.step op)

/-! ### quiescent points: the target has run since the last request -/

/-- no request is waiting for the target's task -/
def Settled (T : Target) : Prop :=
  (T.killReq = true → T.exit ≠ none) ∧
    (T.stopReq ≠ none → T.closedAt ≠ none ∨ T.exit ≠ none ∨ T.starting = true)

theorem settled_of_tail {s : State} (l : List Op) (ha : AInv s) :
    Settled (Timers.steps s (l ++ [.target, .mark])).target := by
  rw [steps_append]
  have h1 := ha.steps l
  generalize Timers.steps s l = s1 at h1
  exact run_settled s1.target s1.now h1.sc

theorem expand_tail (s : State) (m : MOp) :
    (∃ l, expand s m = l ++ [.target, .mark]) ∨
      (∃ op, expand s m = [op, .mark] ∧ (Timers.step s op).target.killReq = s.target.killReq ∧
        (Timers.step s op).target.stopReq = s.target.stopReq ∧ (Timers.step s op).target.exit = s.target.exit ∧
        (Timers.step s op).target.closedAt = s.target.closedAt ∧
        ((Timers.step s op).target.starting = s.target.starting ∨ (Timers.step s op).target.starting = true)) := by
  cases m with
  | create k p => exact .inl ⟨[.create k p, .fire s.timers.length], rfl⟩
  | createX k p => exact .inl ⟨[.createX k p, .fire s.timers.length], rfl⟩
  | adv d => exact .inl ⟨[.tick d] ++ fireAll s.timers.length, by simp [expand]⟩
  | advAbort d i => exact .inl ⟨[.tick d, .abort i] ++ fireAll s.timers.length, by simp [expand]⟩
  | advStop d => exact .inl ⟨[.tick d, .stop, .target] ++ fireAll s.timers.length, by simp [expand]⟩
  | advKill d => exact .inl ⟨[.tick d, .kill, .target] ++ fireAll s.timers.length, by simp [expand]⟩
  | advDrain d => exact .inl ⟨[.tick d, .drain, .target] ++ fireAll s.timers.length, by simp [expand]⟩
  | advDrop d i => exact .inl ⟨[.tick d, .dropHandle i] ++ fireAll s.timers.length, by simp [expand]⟩
  | stop => exact .inl ⟨[.stop], rfl⟩
  | kill => exact .inl ⟨[.kill], rfl⟩
  | drain => exact .inl ⟨[.drain], rfl⟩
  | psrelease => exact .inl ⟨[.psrelease], rfl⟩
  | fail => exact .inl ⟨[.fail], rfl⟩
  | advFail d => exact .inl ⟨[.tick d, .fail, .target] ++ fireAll s.timers.length, by simp [expand]⟩
  | hold => exact .inr ⟨.hold, rfl, rfl, rfl, rfl, rfl, .inl rfl⟩
  | startHold => exact .inr ⟨.startHold, rfl, rfl, rfl, rfl, rfl, .inr rfl⟩
  | started => exact .inl ⟨[.started], rfl⟩
  | dropHandle i => exact .inr ⟨.dropHandle i, rfl, rfl, rfl, rfl, rfl, .inl rfl⟩
  | abort i =>
    refine .inr ⟨.abort i, rfl, ?_⟩
    cases hτ : s.timers[i]? with
    | none => rw [step_abort_none hτ]; exact ⟨rfl, rfl, rfl, rfl, .inl rfl⟩
    | some τ => rw [step_abort_some hτ]; split <;> exact ⟨rfl, rfl, rfl, rfl, .inl rfl⟩

theorem settled_mstep {s : State} (ha : AInv s) (hs : Settled s.target) (m : MOp) :
    Settled (mstep s m).target := by
  unfold Timers.mstep
  rcases expand_tail s m with ⟨l, e⟩ | ⟨op, e, e1, e2, e3, e4, e5⟩
  · rw [e]; exact settled_of_tail l ha
  · rw [e]
    show Settled (Timers.step (Timers.step s op) .mark).target
    show Settled (Timers.step s op).target
    unfold Settled
    rw [e1, e2, e3, e4]
    refine ⟨hs.1, fun h => ?_⟩
    rcases hs.2 h with a | b | c
    · exact .inl a
    · exact .inr (.inl b)
    · rcases e5 with e5 | e5
      · exact .inr (.inr (e5.trans c))
      · exact .inr (.inr e5)

theorem ainv_mstep {s : State} (ha : AInv s) (m : MOp) : AInv (mstep s m) := ha.steps _

theorem settled_mrun (ms : List MOp) : ∀ {s : State}, AInv s → Settled s.target →
    AInv (mrun s ms) ∧ Settled (mrun s ms).target := by
  induction ms with
  | nil => intro s ha hs; exact ⟨ha, hs⟩
  | cons m ms ih => intro s ha hs; exact ih (ainv_mstep ha m) (settled_mstep ha hs m)

theorem stopsOk_of {s : State} (hi : Inv s) (ha : AInv s) (hs : Settled s.target) :
    s.timers.all (stopsOk s) = true := by
  rw [List.all_eq_true]
  intro τ hτ
  unfold stopsOk
  have hexit_closed : s.target.exit ≠ none → s.target.closedAt ≠ none := by
    intro hne
    cases he : s.target.exit with
    | none => exact absurd he hne
    | some x =>
      obtain ⟨r, te⟩ := x
      obtain ⟨_, ⟨tc, hc, _⟩, _⟩ := hi.exit_ok r te he
      rw [hc]; simp
  have c1 : (!(τ.kind == .killAfter && !τ.sentAt.isEmpty) || s.target.exit.isSome) = true := by
    by_cases hk : τ.kind = .killAfter ∧ τ.sentAt ≠ []
    · have hx : s.target.exit ≠ none := by
        rcases ha.killA τ hτ hk.1 hk.2 with h | h
        · exact hs.1 h
        · exact h
      cases he : s.target.exit with
      | none => exact absurd he hx
      | some x => simp
    · have : (τ.kind == .killAfter && !τ.sentAt.isEmpty) = false := by
        simp only [Bool.and_eq_false_iff, beq_eq_false_iff_ne, ne_eq, Bool.not_eq_false', List.isEmpty_iff]
        by_cases hk1 : τ.kind = .killAfter
        · right
          by_cases hn : τ.sentAt = []
          · exact hn
          · exact absurd ⟨hk1, hn⟩ hk
        · exact .inl hk1
      simp [this]
  have c2 : (!(τ.kind == .exitAfter && !τ.sentAt.isEmpty) || s.target.closedAt.isSome || s.target.starting) = true := by
    by_cases hk : τ.kind = .exitAfter ∧ τ.sentAt ≠ []
    · have hx : s.target.closedAt ≠ none ∨ s.target.starting = true := by
        rcases ha.exitA τ hτ hk.1 hk.2 with h | h
        · rcases hs.2 h with h' | h' | h'
          · exact .inl h'
          · exact .inl (hexit_closed h')
          · exact .inr h'
        · exact .inl (hexit_closed h)
      rcases hx with hx | hx
      · cases he : s.target.closedAt with
        | none => exact absurd he hx
        | some x => simp
      · simp [hx]
    · have : (τ.kind == .exitAfter && !τ.sentAt.isEmpty) = false := by
        simp only [Bool.and_eq_false_iff, beq_eq_false_iff_ne, ne_eq, Bool.not_eq_false', List.isEmpty_iff]
        by_cases hk1 : τ.kind = .exitAfter
        · right
          by_cases hn : τ.sentAt = []
          · exact hn
          · exact absurd ⟨hk1, hn⟩ hk
        · exact .inl hk1
      simp [this]
  rw [c1, c2]; rfl

theorem settled_init : Settled init.target := ⟨(fun h => by cases h), (fun h => absurd rfl h)⟩

theorem or3 {A B C : Prop} (h : A ∨ B) : A ∨ B ∨ C := h.elim .inl (fun b => .inr (.inl b))

end Timers
