#!/usr/bin/env python3
"""
E-SRC: regenerate lean/RactorModel/Extracted.lean from the repo's CURRENT sources.

Only mechanically recognisable tables are extracted (constants, discriminants, the textual
order of select! arms and of cleanup statements, a twin check). `Props/*.lean` contain
obligations `Extracted.x = <what the model assumes> := by decide`, so a change to one of
these tables breaks a proof obligation on the next run. Anything that cannot be found is
emitted as a sentinel (`none` / `[]` / `false`) so the obligation fails rather than the
extractor crashing.

The same run also regenerates `lean/RactorModel/Generated/<Area>.lean` (+ `report.json`) through
`extract/rs2lean.py`: Lean DEFINITIONS translated from selected pure Rust functions, proved equal
to the hand-written model functions in `Props/*.lean` (see notes/XLATE.md).
"""
import argparse
import re
import sys
from pathlib import Path


def strip_comments(src: str) -> str:
    src = re.sub(r"/\*.*?\*/", "", src, flags=re.S)
    return re.sub(r"//[^\n]*", "", src)


def read(repo: Path, rel: str) -> str:
    p = repo / rel
    return p.read_text() if p.exists() else ""


def fn_body(src: str, name: str, start: int = 0):
    """Body (between the outer braces) of the first `fn name` at or after `start`."""
    m = re.search(r"\bfn\s+" + re.escape(name) + r"\b", src[start:])
    if not m:
        return None
    i = src.index("{", start + m.end())
    # skip generic `where` clauses etc.: first `{` after the signature's closing paren
    depth_par = 0
    j = start + m.end()
    while j < len(src):
        c = src[j]
        if c == "(":
            depth_par += 1
        elif c == ")":
            depth_par -= 1
        elif c == "{" and depth_par == 0:
            i = j
            break
        j += 1
    depth = 0
    k = i
    while k < len(src):
        if src[k] == "{":
            depth += 1
        elif src[k] == "}":
            depth -= 1
            if depth == 0:
                return src[i + 1:k]
        k += 1
    return None


def lean_str(s: str) -> str:
    return '"' + s.replace("\\", "\\\\").replace('"', '\\"') + '"'


def lean_strs(xs) -> str:
    return "[" + ", ".join(lean_str(x) for x in xs) + "]"


def opt_nat(x) -> str:
    return "none" if x is None else f"some {x}"


def eval_const(expr: str):
    expr = expr.strip().rstrip(";")
    expr = re.sub(r"(\d)_(?=\d)", r"\1", expr)
    expr = re.sub(r"(\d+)(usize|u64|u32|u8|i64|i32|isize)\b", r"\1", expr)
    if re.fullmatch(r"[\d\s*+\-()<>]+", expr):
        try:
            return int(eval(expr, {"__builtins__": {}}))
        except Exception:
            return None
    return None


def const_value(src: str, name: str):
    m = re.search(r"\bconst\s+" + re.escape(name) + r"\s*:\s*[\w:]+\s*=\s*([^;]+);", src)
    return eval_const(m.group(1)) if m else None



def cluster_session_creation(repo: Path):
    """C17 (round 4): every way a NodeSession is created.
    * client.rs: each `pub async fn connect*` -> (fn, NodeServerMessage variant it casts, is_server literal)
    * node.rs: each arm of NodeServer::handle that calls NodeSession::new -> (arm, cookie argument, is_server argument)"""
    client = strip_comments(read(repo, "ractor_cluster/src/node/client.rs"))
    casts = []
    for m in re.finditer(r"pub async fn (\w+)", client):
        body = fn_body(client, m.group(1), m.start()) or ""
        for c in re.finditer(r"NodeServerMessage::(\w+)\s*\{", body):
            end = body.find(")?;", c.end())
            iss = re.findall(r"is_server:\s*(\w+)", body[c.end(): end if end >= 0 else len(body)])
            casts.append((m.group(1), c.group(1), ",".join(iss) if iss else "?"))
    node = strip_comments(read(repo, "ractor_cluster/src/node.rs"))
    sites = []
    for m in re.finditer(r"Self::Msg::(\w+)\s*\{[^}]*\}\s*=>\s*\{", node):
        # the arm's text up to the next arm
        nxt = re.search(r"\n            Self::Msg::", node[m.end():])
        arm = node[m.end(): m.end() + (nxt.start() if nxt else 0)]
        for c in re.finditer(r"NodeSession::new\(\s*([^,]+),\s*([^,]+),\s*([^,]+),", arm):
            sites.append((m.group(1), c.group(3).strip(), c.group(2).strip()))
    return casts, sites


# ======================================================================================
# C17 (wave 2, agent sess): the guards that keep an unauthenticated NodeSession inert
# ======================================================================================
def cluster_session_guards(repo: Path):
    """C17 (wave 2): where the `monitoring` / `!auth.isOk` guards of `Model/Session.lean` live in
    `ractor_cluster/src/node/node_session.rs` (non-test, non-`verif` part only: the file is cut at the
    first `#[cfg(feature = "verif")]` item / `#[cfg(test)] mod x {`).

    Returns a dict:
    * monitorCalls     [(callee, enclosing fn)]  every call of a `monitor` / `monitor_scope` function
                       (any path; `demonitor*` and definitions excluded)
    * pingLoopStarts   [(callee, enclosing fn)]  every call of `start_ping_loop*`
    * afterAuthCalls   [(enclosing fn, [enclosing block headers, outer -> inner])]  every call of
                       `after_authenticated(` (definition excluded)
    * authArmPrefix    [statement]  the statements of the block holding the call's `if !p_state ..`,
                       before that `if` (where `p_state` comes from)
    * firstGuards      [(fn, condition of the first statement if it is an `if`, its block with string
                       literals blanked)] for handle_node, handle_control
    * handleArms       [(variant, arm guard)] of `match message` in `Actor::handle`
    * networkArms      [(variant, `self.` methods called in the arm)] of `match network_message`
    * supervisorArms   [(variant, arm guard)] of the `match message` of `handle_supervisor_evt`
    Sentinels ("?" / "" / []) when something is not found, so that the obligation fails."""
    full = strip_comments(read(repo, "ractor_cluster/src/node/node_session.rs"))
    cuts = [m.start() for m in (re.search(r'#\[cfg\(\s*feature\s*=\s*"verif"\s*\)\]', full),
                                re.search(r"#\[cfg\(\s*test\s*\)\]\s*(?:#\[[^\]]*\]\s*)*(?:pub(?:\([^)]*\))?\s+)?mod\s+\w+\s*\{", full)) if m]
    src = full[:min(cuts)] if cuts else full
    # same-length copy with string literal contents blanked: brace / paren matching runs on `scan`
    scan = re.sub(r'"(?:\\.|[^"\\])*"', lambda m: '"' + " " * (len(m.group(0)) - 2) + '"', src)

    def norm(s):
        return re.sub(r"\s+", " ", s).strip()

    def close(i):
        """index of the brace closing the `{` at i (or len)"""
        d = 0
        for k in range(i, len(scan)):
            if scan[k] == "{":
                d += 1
            elif scan[k] == "}":
                d -= 1
                if d == 0:
                    return k
        return len(scan)

    # (name, body start `{`, body end `}`) of every fn with a body
    spans = []
    for m in re.finditer(r"\bfn\s+(\w+)", scan):
        d, j = 0, m.end()
        while j < len(scan):
            c = scan[j]
            if c in "([":
                d += 1
            elif c in ")]":
                d -= 1
            elif c == ";" and d == 0:
                j = -1
                break
            elif c == "{" and d == 0:
                break
            j += 1
        if 0 <= j < len(scan):
            spans.append((m.group(1), j, close(j)))

    def enclosing(pos):
        inner = [s for s in spans if s[1] < pos < s[2]]
        return max(inner, key=lambda s: s[1])[0] if inner else "?"

    def span_of(name):
        for s in spans:
            if s[0] == name:
                return s
        return None

    def calls(rx):
        out = []
        for m in re.finditer(rx, scan):
            if re.search(r"\bfn\s+$", scan[:m.start(1)]):
                continue
            out.append((m.group(1), enclosing(m.start(1))))
        return out

    def pattern(p):
        """match-arm pattern -> (variant, guard)"""
        d, g = 0, None
        for k in range(len(p)):
            if p[k] in "([{":
                d += 1
            elif p[k] in ")]}":
                d -= 1
            elif d == 0 and re.match(r"\bif\b", p[k:]) and (k == 0 or not (p[k - 1].isalnum() or p[k - 1] == "_")):
                g = k
                break
        pat, guard = (p[:g], p[g + 2:]) if g is not None else (p, "")
        pat = norm(pat)
        alts = [re.split(r"[({]", a.strip())[0].strip().split("::")[-1] for a in pat.split("|")] if pat else ["?"]
        return "|".join(alts), norm(guard)

    def header_start(p):
        """start of the header text of the block opened by the `{` at p"""
        d, k = 0, p - 1
        while k >= 0:
            c = scan[k]
            if c in ")]":
                d += 1
            elif c in "([":
                d -= 1
                if d < 0:
                    break
            elif d == 0 and c in ";{},":
                break
            k -= 1
        return k + 1

    def header(p):
        """normalised header of the block opened by the `{` at p"""
        h = norm(src[header_start(p):p])
        if h.endswith("=>"):
            v, g = pattern(h[:-2])
            return "arm " + v + (" if " + g if g else "")
        return h

    def path(pos, lo):
        """headers of the blocks open at pos, scanning from lo (a `{` that contains pos)"""
        stack = []
        for k in range(lo + 1, pos):
            if scan[k] == "{":
                stack.append(k)
            elif scan[k] == "}" and stack:
                stack.pop()
        return stack

    def arms(lo, hi):
        """top-level arms of the match block scan[lo+1:hi] -> [(pattern text, body start, body end)]"""
        out, k = [], lo + 1
        while k < hi:
            d, j = 0, k
            while j < hi and not (d == 0 and scan.startswith("=>", j)):
                if scan[j] in "([{":
                    d += 1
                elif scan[j] in ")]}":
                    d -= 1
                j += 1
            if j >= hi:
                break
            pat = src[k:j]
            b = j + 2
            while b < hi and scan[b].isspace():
                b += 1
            if b < hi and scan[b] == "{":
                e = close(b) + 1
            else:
                d, e = 0, b
                while e < hi and not (d == 0 and scan[e] == ","):
                    if scan[e] in "([{":
                        d += 1
                    elif scan[e] in ")]}":
                        d -= 1
                    e += 1
            out.append((pat, b, e))
            k = e
            while k < hi and (scan[k].isspace() or scan[k] == ","):
                k += 1
        return out

    def match_block(fn, scrutinee):
        s = span_of(fn)
        if not s:
            return None
        m = re.search(r"\bmatch\s+" + re.escape(scrutinee) + r"\s*\{", scan[s[1]:s[2]])
        if not m:
            return None
        lo = s[1] + m.end() - 1
        return lo, close(lo)

    res = {}
    res["monitorCalls"] = calls(r"(?<![\w.])((?:\w+::)?monitor(?:_scope)?)\s*\(") + \
        [("." + c, f) for c, f in calls(r"\.\s*(monitor(?:_scope)?)\s*\(")]
    res["pingLoopStarts"] = calls(r"\b(start_ping_loop\w*)\s*\(")
    # ---- after_authenticated call sites ----
    sites, prefix = [], []
    for m in re.finditer(r"\b(after_authenticated)\s*\(", scan):
        if re.search(r"\bfn\s+$", scan[:m.start()]):
            continue
        inner = [s for s in spans if s[1] < m.start() < s[2]]
        if not inner:
            sites.append(("?", []))
            continue
        f = max(inner, key=lambda s: s[1])
        stack = path(m.start(), f[1])
        sites.append((f[0], [header(p) for p in stack]))
        # the block that holds the outermost plain `if` of the path: its statements before that `if`
        for n, p in enumerate(stack):
            h = header(p)
            if h.startswith("if ") and not h.startswith("if let "):
                blk = stack[n - 1] if n > 0 else f[1]
                prefix = [norm(x) for x in src[blk + 1:header_start(p)].split(";") if norm(x)]
                break
    res["afterAuthCalls"] = sites
    res["authArmPrefix"] = prefix
    # ---- first statement of handle_node / handle_control ----
    firsts = []
    for fn in ("handle_node", "handle_control"):
        s = span_of(fn)
        cond, blk = "?", "?"
        if s:
            m = re.match(r"\s*if\b", scan[s[1] + 1:s[2]])
            if m:
                b = scan.index("{", s[1] + 1 + m.end())
                cond = norm(src[s[1] + 1 + m.end():b])
                blk = re.sub(r'"\s*"', '""', norm(scan[b + 1:close(b)]))
                blk = blk if len(blk) <= 160 else blk[:160] + " ..."
        firsts.append((fn, cond, blk))
    res["firstGuards"] = firsts
    # ---- match arms ----
    def arm_table(blk, what):
        if not blk:
            return [("?", "?")]
        out = []
        for pat, b, e in arms(*blk):
            v, g = pattern(pat)
            out.append((v, g if what == "guard" else ",".join(re.findall(r"\bself\s*\.\s*(\w+)\s*\(", scan[b:e]))))
        return out or [("?", "?")]
    res["handleArms"] = arm_table(match_block("handle", "message"), "guard")
    res["networkArms"] = arm_table(match_block("handle", "network_message"), "calls")
    res["supervisorArms"] = arm_table(match_block("handle_supervisor_evt", "message"), "guard")
    return res


def start_drain_gates(repo: Path):
    """Round 4 (agent spawn, C07/C08): the gates of the start-vs-drain window.

    * the guard of `drain()`'s `fetch_update` (which statuses it lifts to Draining),
    * the child-status bound `link()` and `link_starting()` pass to `link_below`,
    * the link call `start` makes (Send and thread-local).
    Sentinels ("" / false) when not found, so that the obligation fails."""
    props = strip_comments(read(repo, "ractor/src/actor/actor_properties.rs"))
    drain = fn_body(props, "drain") or ""
    m = re.search(r"fetch_update\([^|]*\|f\|\s*\{\s*if\s+(.*?)\s*\{\s*Some\(ActorStatus::(\w+)", drain, flags=re.S)
    guard = re.sub(r"\s+", " ", m.group(1)) if m else ""
    lifted = m.group(2) if m else ""
    sup = strip_comments(read(repo, "ractor/src/actor/supervision.rs"))

    def bound(fn):
        b = fn_body(sup, fn) or ""
        mm = re.search(r"link_below\(\s*child\s*,\s*supervisor\s*,\s*(?:super::actor_cell::)?ActorStatus::(\w+)", b)
        return mm.group(1) if mm else ""
    below = fn_body(sup, "link_below") or ""
    below_ok = bool(re.search(r"child\.get_status\(\)\s*>=\s*child_limit\s*\|\|\s*supervisor\.get_status\(\)\s*>=\s*(?:super::actor_cell::)?ActorStatus::Draining", below))
    actor = strip_comments(read(repo, "ractor/src/actor.rs"))
    inner = strip_comments(read(repo, "ractor/src/thread_local/inner.rs"))
    m1 = re.search(r"actor_ref\.(try_link\w*)\(", fn_body(actor, "start") or "")
    m2 = re.search(r"actor_ref\.(try_link\w*)\(", fn_body(inner, "start") or "")
    cell = strip_comments(read(repo, "ractor/src/actor/actor_cell.rs"))
    m3 = re.search(r"SupervisionTree::(\w+)\(", fn_body(cell, "try_link_starting") or "")
    return {
        "drainLiftGuard": guard,
        "drainLiftsTo": lifted,
        "linkChildBound": bound("link"),
        "linkStartingChildBound": bound("link_starting"),
        "linkBelowGate": below_ok,
        "sendStartLinkCall": m1.group(1) if m1 else "",
        "localStartLinkCall": m2.group(1) if m2 else "",
        "tryLinkStartingCalls": m3.group(1) if m3 else "",
    }
def registry_facts(repo: Path):
    """C10 (round 4, agent tree): source facts about the registries.  Returns Lean lines."""
    cell = strip_comments(read(repo, "ractor/src/actor/actor_cell.rs"))
    actor = strip_comments(read(repo, "ractor/src/actor.rs"))
    inner = strip_comments(read(repo, "ractor/src/thread_local/inner.rs"))
    pidreg = strip_comments(read(repo, "ractor/src/registry/pid_registry.rs"))
    out = []
    # every call site of set_status(ActorStatus::Stopped) outside tests, with its enclosing fn
    sites = []
    for rel in ("ractor/src/actor.rs", "ractor/src/actor/actor_cell.rs", "ractor/src/thread_local/inner.rs",
                "ractor/src/actor/actor_ref.rs", "ractor/src/actor/actor_properties.rs",
                "ractor/src/thread_local.rs", "ractor/src/actor/derived_actor.rs"):
        src = strip_comments(read(repo, rel))
        for m in re.finditer(r"\.set_status\(\s*ActorStatus::Stopped\s*\)", src):
            fns = list(re.finditer(r"\bfn\s+(\w+)", src[:m.start()]))
            sites.append((rel.split("/")[-1] + ":" + (fns[-1].group(1) if fns else "?")))
    out.append("/-- every non-test call site of `set_status(ActorStatus::Stopped)`: file:enclosing fn -/")
    out.append(f"def stoppedCallSites : List String := {lean_strs(sites)}")
    # wave 2 (Reg3.disc): who publishes >= Stopping, and on which thread of control
    sites5 = []
    for rel in ("ractor/src/actor.rs", "ractor/src/actor/actor_cell.rs", "ractor/src/thread_local/inner.rs",
                "ractor/src/actor/actor_ref.rs", "ractor/src/actor/actor_properties.rs",
                "ractor/src/thread_local.rs", "ractor/src/actor/derived_actor.rs"):
        src = strip_comments(read(repo, rel))
        for m in re.finditer(r"\.set_status\(\s*ActorStatus::Stopping\s*\)", src):
            fns = list(re.finditer(r"\bfn\s+(\w+)", src[:m.start()]))
            sites5.append((rel.split("/")[-1] + ":" + (fns[-1].group(1) if fns else "?")))
    out.append("/-- every non-test call site of `set_status(ActorStatus::Stopping)`: file:enclosing fn -/")
    out.append(f"def stoppingCallSites : List String := {lean_strs(sites5)}")
    callers = []
    for m in re.finditer(r"\bself\.cleanup\(", actor):
        fns = list(re.finditer(r"\bfn\s+(\w+)", actor[:m.start()]))
        callers.append(fns[-1].group(1) if fns else "?")
    out.append("/-- `ActorLifecycleGuard::cleanup` is private and called from (methods of the guard, which is not `Clone`) -/")
    out.append(f"def cleanupCallers : List String := {lean_strs(callers)}")
    guard_decl = re.search(r"((?:#\[[^\]]*\]\s*)*)pub\(crate\)\s+struct\s+ActorLifecycleGuard\b", actor)
    out.append(f"def lifecycleGuardIsClone : Bool := {str(bool(guard_decl and 'Clone' in guard_decl.group(1))).lower()}")
    # the loop (whose last act is set_status(Stopping)) and `lifecycle.finish` run back to back in ONE spawned task
    def loop_then_finish(src):
        pat = r"async\s+move\s*\{(?:(?!async\s+move).)*?Self::processing_loop\((?:(?!async\s+move).)*?\.await(?:(?!async\s+move).)*?lifecycle\.finish\(evt\)\s*;"
        return len(re.findall(pat, src, re.S)) == 1 and len(re.findall(r"lifecycle\.finish\(", src)) == 1 \
            and len(re.findall(r"Self::processing_loop\(", src)) == 1
    out.append("/-- `start` (Send and thread-local): one task runs `processing_loop(..).await` and then `lifecycle.finish(evt)`; no other call of either -/")
    out.append(f"def loopThenFinishSameTask : List Bool := [{str(loop_then_finish(actor)).lower()}, {str(loop_then_finish(inner)).lower()}]")
    # spawn_linked_remote: the extra set_status(Stopped) comes after `start(...)` has returned an error
    body = fn_body(actor, "spawn_linked_remote") or ""
    i_start = body.find(".start(")
    m = re.search(r"if\s+result\.is_err\(\)\s*\{\s*\w+\.set_status\(\s*ActorStatus::Stopped\s*\)\s*;\s*\}", body)
    out.append("/-- `spawn_linked_remote`: `set_status(Stopped)` only inside `if result.is_err()` after `start(..).await` -/")
    out.append(f"def remoteStoppedAfterFailedStart : Bool := {str(bool(m) and 0 <= i_start < m.start()).lower()}")
    # set_status: registry::unregister(name) guarded by is_local()
    ss = fn_body(cell, "set_status", cell.find("pub(crate) fn set_status")) or ""
    guarded = re.search(r"if\s+self\.get_id\(\)\.is_local\(\)\s*\{\s*crate::registry::unregister\(name\)\s*;\s*\}", ss) is not None
    n_unreg = len(re.findall(r"registry::unregister\(", ss))
    out.append("/-- `set_status`: the one `registry::unregister(name)` sits inside `if self.get_id().is_local()` (fix of F2) -/")
    out.append(f"def unregisterGuardedByIsLocal : Bool := {str(guarded and n_unreg == 1).lower()}")
    nr = fn_body(cell, "new_remote") or ""
    out.append("/-- `ActorCell::new_remote` touches neither registry -/")
    out.append(f"def newRemoteTouchesRegistries : Bool := {str('registry::' in nr).lower()}")
    # ActorCell::new: register ; register_pid ; on Err unregister(name)
    nb = fn_body(cell, "new", cell.find("pub(crate) fn new<TActor>")) or ""
    calls = re.findall(r"registry::(?:pid_registry::)?(register_pid|register|unregister)\(", nb)
    out.append("/-- registry calls of `ActorCell::new` in source order -/")
    out.append(f"def newRegistryCalls : List String := {lean_strs(calls)}")
    rb = re.search(r"if\s+let\s+Err\(err\)\s*=\s*crate::registry::pid_registry::register_pid\([^{}]*?\)\s*\{\s*if\s+let\s+Some\(r_name\)\s*=\s*&name\s*\{\s*crate::registry::unregister\(r_name\)\s*;\s*\}\s*return\s+Err", nb) is not None
    out.append("/-- … and the `unregister` is the rollback inside `if let Err(err) = register_pid(..)`, followed by `return Err` -/")
    out.append(f"def newRollsBackOnPidFailure : Bool := {str(rb).lower()}")
    tl = fn_body(inner, "new_thread_local") or ""
    calls_tl = re.findall(r"registry::(?:pid_registry::)?(register_pid|register|unregister)\(", tl)
    out.append("/-- the thread-local twin of `ActorCell::new` -/")
    out.append(f"def newThreadLocalRegistryCalls : List String := {lean_strs(calls_tl)}")
    # pid registry: every entry point is guarded by is_local(); fan-out after the insert / after the remove
    guards = []
    for f in ("register_pid", "unregister_pid", "where_is_pid"):
        b = (fn_body(pidreg, f) or "").strip()
        guards.append((f, b.startswith("if id.is_local()")))
    out.append("/-- pid registry entry points whose body is `if id.is_local() { … }` -/")
    out.append("def pidRegistryLocalGuards : List (String × Bool) := [" +
               ", ".join(f"({lean_str(k)}, {str(v).lower()})" for k, v in guards) + "]")
    rp = fn_body(pidreg, "register_pid") or ""
    up = fn_body(pidreg, "unregister_pid") or ""
    sp_ok = 0 <= rp.find("v.insert(") < rp.find("PidLifecycleEvent::Spawn") and "Occupied" in rp[:rp.find("v.insert(")]
    tm_ok = 0 <= up.find(".remove(&id)") < up.find("PidLifecycleEvent::Terminate") and up.count("PidLifecycleEvent::") == 1
    out.append("/-- `register_pid`: `Spawn` is sent only in the `Vacant` arm, after the insert; `unregister_pid`: `Terminate` only if `remove` returned an entry -/")
    out.append(f"def pidEventsAfterTableChange : Bool := {str(bool(sp_ok and tm_ok)).lower()}")
    return out


def tree_facts(repo: Path):
    """C05 (round 4, agent tree): source facts about the supervision tree.  Returns Lean lines."""
    sup = strip_comments(read(repo, "ractor/src/actor/supervision.rs"))
    cell = strip_comments(read(repo, "ractor/src/actor/actor_cell.rs"))
    actor = strip_comments(read(repo, "ractor/src/actor.rs"))
    inner = strip_comments(read(repo, "ractor/src/thread_local/inner.rs"))
    out = []
    # terminate: per popped actor first the kill test, then take_children, then the push
    tb = fn_body(cell, "terminate") or ""
    order = [m.group(0) for m in re.finditer(r"get_status\(\)|\.kill\(\)|take_children|pending\.extend|pending\.pop", tb)]
    out.append("/-- `ActorCell::terminate`: the calls of the worklist loop in source order -/")
    out.append(f"def terminateLoopOrder : List String := {lean_strs(order)}")
    # the two link forms and their child limits
    lims = []
    for f in ("link", "link_starting"):
        b = fn_body(sup, f) or ""
        m = re.search(r"link_below\(\s*child\s*,\s*supervisor\s*,\s*super::actor_cell::ActorStatus::(\w+)", b)
        lims.append((f, m.group(1) if m else "?"))
    out.append("/-- child limit each link form passes to `link_below` -/")
    out.append("def linkChildLimits : List (String × String) := [" + ", ".join(f"({lean_str(a)}, {lean_str(b)})" for a, b in lims) + "]")
    lb = fn_body(sup, "link_below") or ""
    m = re.search(r"if\s+child\.get_status\(\)\s*>=\s*child_limit\s*\|\|\s*supervisor\.get_status\(\)\s*>=\s*super::actor_cell::ActorStatus::(\w+)\s*\{\s*return\s+false", lb)
    out.append("/-- `link_below`: `child >= child_limit || supervisor >= <this>` refuses -/")
    out.append(f"def linkSupervisorLimit : String := {lean_str(m.group(1) if m else '?')}")
    starts = []
    for rel, src in (("actor.rs", actor), ("inner.rs", inner)):
        b = fn_body(src, "start", src.find("async fn start")) or ""
        starts.append((rel, "try_link_starting" if "try_link_starting(" in b else ("try_link" if "try_link(" in b else "?")))
    out.append("/-- which link `start` uses (Send runtime, thread-local runtime) -/")
    out.append("def startLinkCalls : List (String × String) := [" + ", ".join(f"({lean_str(a)}, {lean_str(b)})" for a, b in starts) + "]")
    # who takes TREE_MUTATION_LOCK
    locked = []
    for f in ("link_below", "unlink", "take_children", "get_children", "for_each_child", "try_get_supervisor"):
        locked.append((f, "TREE_MUTATION_LOCK" in (fn_body(sup, f) or "")))
    out.append("/-- functions of `supervision.rs` that take `TREE_MUTATION_LOCK` -/")
    out.append("def treeLockUsers : List (String × Bool) := [" + ", ".join(f"({lean_str(a)}, {str(b).lower()})" for a, b in locked) + "]")
    # hand-over: both field guards of the first half are dropped before the old supervisor's set is locked
    i1, i2 = lb.find("drop(current_supervisor)"), lb.find("drop(new_children_guard)")
    i3 = lb.find("previous_supervisor.inner.tree.children.lock()")
    out.append("/-- `link_below`: `drop(current_supervisor); drop(new_children_guard)` precede the lock of the previous supervisor's set -/")
    out.append(f"def linkReleasesBeforeOldParent : Bool := {str(0 <= i1 < i2 < i3).lower()}")
    # unlink: early return unless `supervisor` is the child's current supervisor, before anything is touched
    ub = fn_body(sup, "unlink") or ""
    m = re.search(r"if\s*!\s*current_supervisor\s*\.as_ref\(\)\s*\.is_some_and\(\|current\|\s*current\.get_id\(\)\s*==\s*supervisor\.get_id\(\)\)\s*\{\s*return;\s*\}", ub)
    i_rm = ub.find(".remove(")
    out.append("/-- `unlink`: `if !current_supervisor…is_some_and(|current| current.get_id() == supervisor.get_id()) { return; }` precedes the removal -/")
    out.append(f"def unlinkOnlyCurrentSupervisor : Bool := {str(bool(m) and 0 <= m.end() <= i_rm).lower()}")
    # cleanup: terminate() is called unconditionally (brace depth 0 of the function body, after the `armed` test)
    cb = fn_body(actor, "cleanup", actor.find("impl ActorLifecycleGuard")) or ""
    i_t = cb.find("self.actor.terminate()")
    depth = cb[:i_t].count("{") - cb[:i_t].count("}") if i_t >= 0 else -1
    out.append("/-- `ActorLifecycleGuard::cleanup`: `self.actor.terminate()` is not inside any `if` -/")
    out.append(f"def cleanupTerminatesUnconditionally : Bool := {str(depth == 0).lower()}")
    tk = fn_body(sup, "take_children") or ""
    out.append("/-- `take_children`: the parent's `children` guard is never dropped explicitly (held to the end of the region) -/")
    out.append(f"def takeHoldsParentSet : Bool := {str('children.lock()' in tk and 'drop(children)' not in tk).lower()}")
    return out


def async_std_backend(repo: Path):
    """Round 4 (agent asyncstd): facts about ractor/src/concurrency/async_std_primitives.rs that the models
    (written after the tokio primitives) rely on when ractor is built with `--features async-std`.
    Everything is a normalised piece of source text / a textual order; sentinels ("" / [] / false) when the
    shape is not found, so that the `by decide` obligation fails rather than the extractor.

    * sleep / timeout: the async-std call they forward to, with the duration passed on unchanged, and the
      error mapped to `Timeout`;
    * JoinHandle::abort -> AbortHandle::abort; every spawn form awaits `Abortable::new(future, abort_registration)`
      as the FIRST thing of the task and sets the `is_done` flag after it; JoinHandle::poll maps the three cases;
    * interval: first tick immediately (`next_tick: Instant::now()`), `tick` = read the clock, sleep the
      remaining time only if the tick lies in the future, then `next_tick += dur` (fixed-rate, no drift);
    * JoinSet: futures are polled inline by the joiner (FuturesUnordered), `join_next` never reports a join error;
    * the `verif::controlled` hook wraps the future BEFORE the Abortable wrapper in spawn_local / spawn_named
      (an abort therefore drops the controlled future, exactly as tokio's abort does)."""
    src = strip_comments(read(repo, "ractor/src/concurrency/async_std_primitives.rs"))
    # cut the test module off
    ti = src.find("#[cfg(test)]")
    if ti >= 0:
        src = src[:ti]

    def norm(t):
        return re.sub(r"\s+", "", t or "")

    sleep_body = norm(fn_body(src, "sleep"))
    timeout_body = norm(fn_body(src, "timeout"))
    ji = src.find("impl<T> JoinHandle<T>")
    abort_body = norm(fn_body(src, "abort", ji if ji >= 0 else 0))
    isfin_body = norm(fn_body(src, "is_finished", ji if ji >= 0 else 0))
    # the task bodies handed to async-std: `async move { let r = <X>.await; inner_signal.fetch_or(..); r }`
    tasks = re.findall(r"async move \{\s*let r = (.*?)\.await;\s*(.*?);\s*r\s*\}", src, flags=re.S)
    spawn_awaits = [norm(a) for a, _ in tasks]
    spawn_then = [norm(b) for _, b in tasks]
    spawn_calls = re.findall(r"(async_std::task::spawn_local|async_std::task::spawn|async_std::task::Builder::new\(\))", src)
    pi = src.find("impl<T> async_std::future::Future for JoinHandle<T>")
    poll_body = fn_body(src, "poll", pi if pi >= 0 else 0) or ""
    # the three arms of `match inner_polled_value`: pattern => last expression of the arm
    arms = []
    m = re.search(r"match inner_polled_value\s*\{(.*)\}", poll_body, flags=re.S)
    if m:
        for pat, rest in re.findall(r"(Poll::\w+(?:\([^=]*?\))?)\s*=>\s*(\{.*?\}|[^,]+),?", m.group(1), flags=re.S):
            exprs = [e for e in re.split(r"[;{}]", rest) if e.strip()]
            arms.append(norm(pat) + "=>" + norm(exprs[-1] if exprs else ""))
    m = re.search(r"pub fn interval\(dur: Duration\) -> Interval\s*\{\s*Interval\s*\{(.*?)\}\s*\}", src, flags=re.S)
    interval_init = norm(m.group(1)) if m else ""
    ii = src.find("impl Interval")
    tick = fn_body(src, "tick", ii if ii >= 0 else 0) or ""
    tick_steps = [norm(x) for x in re.findall(
        r"(let now = Instant::now\(\)|if self\.next_tick > now|sleep\(self\.next_tick - now\)\.await|self\.next_tick \+= self\.dur)", tick)]
    tick_stmts = len([x for x in re.split(r"[;{}]", tick) if x.strip()])
    si = src.find("impl<T> JoinSet<T>")
    js_spawn = norm(fn_body(src, "spawn", si if si >= 0 else 0))
    js_next = norm(fn_body(src, "join_next", si if si >= 0 else 0))
    hooks = []
    for f in ("spawn_local", "spawn_named"):
        m = re.search(r"pub fn " + f + r"\b", src)
        b = fn_body(src, f, m.start() if m else 0) or ""
        h = b.find("crate::verif::controlled(")
        a = b.find("AbortHandle::new_pair()")
        if 0 <= h < a and re.search(r'#\[cfg\(feature = "verif"\)\]\s*let future = crate::verif::controlled\((None|name), future\);', b):
            hooks.append(f)
    plain_spawn = norm(fn_body(src, "spawn", src.find("pub fn spawn<F>") if src.find("pub fn spawn<F>") >= 0 else 0))
    # cfg twins in actor_cell.rs: the `#[cfg(feature = "async-std")]` block of listen_in_priority / run_with_signal
    # equals the `#[cfg(not(feature = "async-std"))]` block once `(<e>).fuse()` / `<e>.fuse()` is read as `<e>`
    cell = strip_comments(read(repo, "ractor/src/actor/actor_cell.rs"))

    def cfg_blocks(body):
        out = {}
        for m in re.finditer(r'#\[cfg\((not\()?feature = "async-std"\)?\)\]\s*\{', body or ""):
            i = m.end() - 1
            depth, k = 0, i
            while k < len(body):
                if body[k] == "{":
                    depth += 1
                elif body[k] == "}":
                    depth -= 1
                    if depth == 0:
                        break
                k += 1
            out["tokio" if m.group(1) else "async-std"] = body[i + 1:k]
        return out

    def unfuse(t):
        t = norm(t)
        t = re.sub(r"\((&mutself\.\w+)\)\.fuse\(\)", r"\1", t)
        return t.replace(".fuse()", "")
    twins = []
    for f in ("listen_in_priority", "run_with_signal"):
        b = cfg_blocks(fn_body(cell, f))
        twins.append((f, "tokio" in b and "async-std" in b and unfuse(b["async-std"]) == norm(b["tokio"])
                      and b["async-std"].count(".fuse()") == b["async-std"].count("=>")))
    return {
        "sleep": sleep_body, "timeout": timeout_body, "abort": abort_body, "is_finished": isfin_body,
        "spawn_calls": spawn_calls, "spawn_awaits": spawn_awaits, "spawn_then": spawn_then,
        "poll_arms": arms, "interval_init": interval_init, "tick_steps": tick_steps, "tick_stmts": tick_stmts,
        "js_spawn": js_spawn, "js_next": js_next, "hooks": hooks, "plain_spawn": plain_spawn, "twins": twins,
    }


def remote_wave2_facts(repo: Path):
    """Wave 2 (C20/C19) source facts: statement order of `after_authenticated`, field mapping of the
    proxy's `node::Cast`/`node::Call` literals and of `handle_node`'s `SerializedMessage` literals,
    the arms of `handle_message`'s serialized branch. Sentinels ([] / "") when a pattern is not found."""
    ws = lambda t: re.sub(r"\s+", "", t)
    out = {}
    ns = strip_comments(read(repo, "ractor_cluster/src/node/node_session.rs"))
    body = fn_body(ns, "after_authenticated") or ""
    out["aa_order"] = [m.group(0) for m in re.finditer(
        r"pid_registry::monitor|get_all_pids|Msg::Spawn|pg::monitor_scope|pg::monitor\b|which_scopes_and_groups|Msg::PgJoin|Msg::Ready|set_ready|ReadyState", body)][:8]
    ra = strip_comments(read(repo, "ractor_cluster/src/remote_actor.rs"))
    def alias_env(src, upto):
        """names bound before position `upto` of the function text: `let x = rhs;` (simple identifiers), tuple-variant
        binders `Path::Variant(x) =>` and struct-variant binders `Path::Variant { a, b: c, .. } =>`. The extraction
        compares WHAT flows into a field, not how the locals are called."""
        env = {}
        pre = src[:upto]
        for m in re.finditer(r"\blet\s+(?:mut\s+)?([a-z_]\w*)\s*(?::[^=;]+)?=\s*([^;]+);", pre):
            env[m.group(1)] = ws(m.group(2))
        for m in re.finditer(r"\blet\s+\(\s*([a-z_]\w*)\s*,\s*([a-z_]\w*)\s*\)\s*=\s*([^;]+);", pre):
            env[m.group(1)] = ws(m.group(3)) + ".0"
            env[m.group(2)] = ws(m.group(3)) + ".1"
        for m in re.finditer(r"\bif\s+let\s+Some\(\s*([a-z_]\w*)\s*\)\s*=\s*([^{]+)\{", pre):
            env[m.group(1)] = "some(" + ws(m.group(2)) + ")"
        for m in re.finditer(r"([A-Za-z_][\w:]*)::(\w+)\s*\(\s*([a-z_]\w*)\s*\)\s*=>", pre):
            env[m.group(3)] = m.group(2) + ".0"
        for m in re.finditer(r"([A-Za-z_][\w:]*)::(\w+)\s*\{([^{}]*)\}\s*=>", pre):
            for part in m.group(3).split(","):
                part = part.strip()
                if not part or part == "..":
                    continue
                if ":" in part:
                    f, b = (x.strip() for x in part.split(":", 1))
                else:
                    f = b = part
                if re.fullmatch(r"[a-z_]\w*", b):
                    env[b] = m.group(2) + "." + f
        return env

    def resolve(expr, env, depth=0):
        # closure parameters are bound names too: |t| t.f() and |d| d.f() are the same expression
        cl = re.match(r"^(.*?)\|([a-z_]\w*)\|(.*)$", expr)
        if cl:
            head, prm, body = cl.groups()
            body = re.sub(r"(?<![\w.:])" + re.escape(prm) + r"\b", "_p", body)
            expr = head + "|_p|" + body
        def sub(m):
            n = m.group(0)
            if n in env and depth < 4:
                return resolve(env[n], env, depth + 1)
            return n
        return re.sub(r"(?<![\w.:|])[a-z_]\w*\b(?!\s*[(!:])(?!::)", sub, expr)

    def literal(src, head):
        i = src.find(head)
        if i < 0:
            return []
        env = alias_env(src, i)
        j = src.find("{", i)
        depth, k = 0, j
        while k < len(src):
            if src[k] == "{":
                depth += 1
            elif src[k] == "}":
                depth -= 1
                if depth == 0:
                    break
            k += 1
        inner = src[j + 1:k]
        # split on top-level commas
        parts, depth, cur = [], 0, ""
        for c in inner:
            if c in "({[":
                depth += 1
            elif c in ")}]":
                depth -= 1
            if c == "," and depth == 0:
                parts.append(ws(cur)); cur = ""
            else:
                cur += c
        if ws(cur):
            parts.append(ws(cur))
        # canonical form `field:<what flows into it>` with local names resolved (shorthand `f` = `f: f`)
        canon = []
        for part in parts:
            if ":" in part and re.match(r"^[a-z_]\w*:(?!:)", part):
                f, e = part.split(":", 1)
            else:
                f, e = part, part
            canon.append(f + ":" + resolve(e, env))
        return sorted(canon)   # the order of the fields of a struct literal of moved values has no meaning
    hs = fn_body(ra, "handle_serialized") or ""
    out["proxy_cast"] = literal(hs, "crate::protocol::node::Cast")
    out["proxy_call"] = literal(hs, "crate::protocol::node::Call")
    hn = fn_body(ns, "handle_node") or ""
    out["deliver_cast"] = literal(hn, "SerializedMessage::Cast")
    out["deliver_call"] = literal(hn, "SerializedMessage::Call")
    ac = strip_comments(read(repo, "ractor/src/actor.rs"))
    hm = fn_body(ac, "handle_message") or ""
    hm = re.sub(r"tracing::\w+!\s*\((?:[^()]|\([^()]*\))*\)\s*;", "", hm)
    i = hm.find("catch_unwind")
    arms = []
    if i >= 0:
        seg = hm[i:hm.find("else", i)]
        for m in re.finditer(r"(Ok\(Ok\(\w+\)\)|Ok\(Err\(_\)\)|Err\(_\))\s*=>\s*(\{[^{}]*\}|[^,]*),?", seg):
            arms.append(ws(m.group(1)) + "=>" + ws(m.group(2)))
        m = re.search(r"else\s*\{([^{}]*)\}", hm[i:])
        out["hm_local"] = ws(m.group(1)) if m else ""
    else:
        out["hm_local"] = ""
    out["hm_arms"] = arms
    return out


def main():
    ap = argparse.ArgumentParser()
    ap.add_argument("--repo", default="/repo")
    ap.add_argument("--out", required=True)
    a = ap.parse_args()
    repo = Path(a.repo)
    out = []
    w = out.append

    # ---- ActorStatus discriminants and ACTIVE_STATES -----------------------------------
    cell = strip_comments(read(repo, "ractor/src/actor/actor_cell.rs"))
    m = re.search(r"pub enum ActorStatus\s*\{(.*?)\}", cell, flags=re.S)
    discs = re.findall(r"(\w+)\s*=\s*(\d+)u8", m.group(1)) if m else []
    m = re.search(r"pub const ACTIVE_STATES[^=]*=\s*\[(.*?)\];", cell, flags=re.S)
    active = re.findall(r"ActorStatus::(\w+)", m.group(1)) if m else []

    # ---- select! arm order in listen_in_priority + biased wrappers ---------------------
    lip = fn_body(cell, "listen_in_priority") or ""
    arms_all = re.findall(r"(\w+)\s*=\s*[^=>\n]*?=>", lip)
    # two cfg variants (async-std / not): each must list the four arms in the same order
    arms = [x for x in arms_all if x in ("signal", "stop", "supervision", "message")]
    variants = [arms[i:i + 4] for i in range(0, len(arms), 4)]
    tokio_prims = strip_comments(read(repo, "ractor/src/concurrency/tokio_primitives.rs"))
    m = re.search(r"macro_rules!\s*select\s*\{(.*?)pub\(crate\) use select", tokio_prims, flags=re.S)
    tokio_biased = bool(m and re.search(r"tokio::select!\s*\{\s*biased;", m.group(1)))
    async_std_prims = strip_comments(read(repo, "ractor/src/concurrency/async_std_primitives.rs"))
    async_std_biased = bool(re.search(r"pub use futures::select_biased as select;", async_std_prims))

    # ---- run_with_signal: signal polled before the future --------------------------------
    rws = fn_body(cell, "run_with_signal") or ""
    rws_arms = re.findall(r"\n\s*(\w+)\s*=\s*[^\n]*?=>", rws)

    # ---- ActorPortSet::drop close/flush order --------------------------------------------
    m = re.search(r"impl Drop for ActorPortSet\s*\{(.*?)\n\}", cell, flags=re.S)
    drop_body = m.group(1) if m else ""
    drop_close = re.findall(r"self\.(\w+)\.close\(\)", drop_body)
    drop_flush = re.findall(r"while self\.(\w+)\.try_recv\(\)", drop_body)

    # ---- statement order of ActorLifecycleGuard::cleanup --------------------------------
    actor = strip_comments(read(repo, "ractor/src/actor.rs"))
    gi = actor.find("impl ActorLifecycleGuard")
    cleanup = fn_body(actor, "cleanup", gi if gi >= 0 else 0) or ""
    cleanup_calls = [c for c in re.findall(
        r"self\.actor\.(set_status\(ActorStatus::\w+\)|terminate\(\)|notify_supervisor\(event\)|unlink\(supervisor\))",
        cleanup)]
    cleanup_order = [re.sub(r"[^\w:]", " ", c).split()[0] + (":" + c.split("::")[1].rstrip(")") if "::" in c else "") for c in cleanup_calls]

    # ---- lifecycle guard / start sequence facts (C08, C04) --------------------------------
    guard_new = fn_body(actor, "new", gi if gi >= 0 else 0) or ""
    m = re.search(r"notify_on_cancel:\s*(true|false)", guard_new)
    guard_initial_notify = (m.group(1) == "true") if m else None
    ri = actor.find("impl<TActor> ActorRuntime")
    start_body = fn_body(actor, "start", ri if ri >= 0 else 0) or ""
    def pos(body, pat):
        m = re.search(pat, body)
        return m.start() if m else -1
    p_pre = pos(start_body, r"run_with_signal\(pre_start\)")
    p_link = pos(start_body, r"try_link(?:_starting)?\(")
    p_mark = pos(start_body, r"lifecycle\.mark_running\(\)")
    p_spawn = pos(start_body, r"spawn_named\(")
    send_start_order_ok = (0 <= p_pre < p_link < p_mark < p_spawn)
    send_start_awaits = len(re.findall(r"\.await", start_body.split("spawn_named(")[0])) if start_body else -1
    inner_src = strip_comments(read(repo, "ractor/src/thread_local/inner.rs"))
    lstart = fn_body(inner_src, "start") or ""
    l_link = pos(lstart, r"try_link(?:_starting)?\(")
    l_pre = pos(lstart, r"run_with_signal\(pre_start\)")
    l_mark = pos(lstart, r"lifecycle\.mark_running\(\)")
    local_start_order_ok = (0 <= l_link < l_pre < l_mark)

    # ---- statement order of ActorCell::set_status ----------------------------------------
    ss = fn_body(cell, "set_status") or ""
    ss_calls = re.findall(
        r"(self\.inner\.set_status|pid_registry::demonitor|pid_registry::unregister_pid|registry::unregister|pg::demonitor_all|pg::leave_all|notify_stop_listener)\s*\(",
        ss)
    ss_order = [c.split("::")[-1].replace("self.inner.", "inner.") for c in ss_calls]
    ss_guard_once = bool(re.search(r"status\s*>=\s*ActorStatus::Stopping\s*&&\s*previous_status\s*<\s*ActorStatus::Stopping", ss))
    ss_notify_once = bool(re.search(r"status\s*==\s*ActorStatus::Stopped\s*&&\s*previous_status\s*<\s*ActorStatus::Stopped", ss))

    # ---- terminate(): which statuses are killed ------------------------------------------
    term = fn_body(cell, "terminate") or ""
    m = re.search(r"actor\.get_status\(\)\s*(<=|<)\s*ActorStatus::(\w+)", term)
    terminate_kill_cond = f"{m.group(1)} {m.group(2)}" if m else ""

    # ---- admission word layout ----------------------------------------------------------
    props = strip_comments(read(repo, "ractor/src/actor/actor_properties.rs"))
    closed_top = bool(re.search(r"const MESSAGE_ADMISSION_CLOSED:\s*usize\s*=\s*1usize\s*<<\s*\(usize::BITS\s*-\s*1\);", props))
    marker_next = bool(re.search(r"const DRAIN_MARKER_SENT:\s*usize\s*=\s*1usize\s*<<\s*\(usize::BITS\s*-\s*2\);", props))
    mask_ok = bool(re.search(r"const MESSAGE_ADMISSION_COUNT_MASK:\s*usize\s*=\s*DRAIN_MARKER_SENT\s*-\s*1;", props))
    wait_body = fn_body(props, "wait") or ""
    wait_created_first = bool(re.search(r"notified\(\);.*get_status\(\)\s*!=\s*ActorStatus::Stopped.*notified\.await", wait_body, flags=re.S))
    nsl = fn_body(props, "notify_stop_listener") or ""
    notify_order = re.findall(r"wait_handler\.(notify_waiters|notify_one)\(\)", nsl)
    send_body = fn_body(props, "send_message_unchecked") or ""
    send_steps = re.findall(r"(get_status\(\)|try_admit_message\(\)|box_message\(|\.send\(MuxedMessage::Message)", send_body)
    drain_body = fn_body(props, "drain") or ""
    drain_steps = re.findall(r"(close_message_admission\(\)|fetch_update|send_drain_marker\(\))", drain_body)

    # ---- constants ---------------------------------------------------------------------
    ses = strip_comments(read(repo, "ractor_cluster/src/net/session.rs"))
    node = strip_comments(read(repo, "ractor_cluster/src/node.rs"))
    remote = strip_comments(read(repo, "ractor_cluster/src/remote_actor.rs"))
    output = strip_comments(read(repo, "ractor/src/port/output.rs"))
    fimpl = strip_comments(read(repo, "ractor/src/factory/factoryimpl.rs"))
    frame_chunk = const_value(ses, "FRAME_READ_CHUNK_SIZE")
    max_frame = const_value(node, "DEFAULT_MAX_INBOUND_FRAME_SIZE")
    cleanup_budget = const_value(remote, "PENDING_REQUEST_CLEANUP_BUDGET")
    max_batch = const_value(output, "MAX_BATCH_SIZE")
    m = re.search(r"pubsub::channel\((\d+)\)", output)
    broadcast_cap = int(m.group(1)) if m else None
    pool_max = const_value(fimpl, "GLOBAL_WORKER_POOL_MAXIMUM")
    m = re.search(r"const CALCULATE_FREQUENCY:\s*Duration\s*=\s*Duration::from_millis\(([\d_]+)\)", fimpl)
    calc_ms = int(m.group(1).replace("_", "")) if m else None

    # ---- twin check: thread_local/inner.rs vs actor.rs -----------------------------------
    inner = strip_comments(read(repo, "ractor/src/thread_local/inner.rs"))

    def norm(body):
        if body is None:
            return None
        toks = re.findall(r"[A-Za-z_]\w*|\d+|\S", body)
        s = " ".join(toks)
        # whitelist: the Send runtime boxes the loop future once, the local one does not
        s = s.replace("Box : : pin ( async move {", "async move {")
        s = re.sub(r"\} \) ; (// )?", "} ; ", s)
        return s
    twins = {}
    for f in ("processing_loop", "process_message", "handle_signal", "do_post_start", "do_post_stop"):
        a_ = norm(fn_body(actor, f, actor.find("impl<TActor> ActorRuntime") if actor.find("impl<TActor> ActorRuntime") >= 0 else 0))
        b_ = norm(fn_body(inner, f))
        twins[f] = (a_ is not None and a_ == b_)

    w("/-")
    w("GENERATED by extract/extract.py from the repository sources on every run. Do not edit.")
    w("Obligations about these values live in `Props/*.lean` (`… := by decide`).")
    w("-/")
    w("")
    w("namespace Extracted")
    w("")
    w(f"def statusDiscriminants : List (String × Nat) := [{', '.join(f'({lean_str(n)}, {v})' for n, v in discs)}]")
    w(f"def activeStates : List String := {lean_strs(active)}")
    w("")
    w("/-- textual order of the `select!` arms of `listen_in_priority`, one list per cfg variant -/")
    w(f"def selectArmVariants : List (List String) := [{', '.join(lean_strs(v) for v in variants)}]")
    w(f"def tokioSelectBiased : Bool := {str(tokio_biased).lower()}")
    w(f"def asyncStdSelectBiased : Bool := {str(async_std_biased).lower()}")
    w(f"def runWithSignalArms : List String := {lean_strs(rws_arms)}")
    w(f"def portSetDropClose : List String := {lean_strs(drop_close)}")
    w(f"def portSetDropFlush : List String := {lean_strs(drop_flush)}")
    w("")
    w("/-- statements of `ActorLifecycleGuard::cleanup` in source order -/")
    w(f"def cleanupOrder : List String := {lean_strs(cleanup_order)}")
    w("/-- calls inside `ActorCell::set_status` in source order -/")
    w(f"def setStatusOrder : List String := {lean_strs(ss_order)}")
    w(f"def setStatusCleanupElectedOnce : Bool := {str(ss_guard_once).lower()}")
    w(f"def setStatusNotifyElectedOnce : Bool := {str(ss_notify_once).lower()}")
    w(f"def terminateKillCondition : String := {lean_str(terminate_kill_cond)}")
    w("")
    w("/-- `ActorLifecycleGuard::new`: initial value of `notify_on_cancel` -/")
    w(f"def guardInitialNotifyOnCancel : Option Bool := {'none' if guard_initial_notify is None else 'some ' + str(guard_initial_notify).lower()}")
    w("/-- Send `start`: pre_start (under run_with_signal) < try_link < mark_running < spawn of the loop task -/")
    w(f"def sendStartOrder : Bool := {str(send_start_order_ok).lower()}")
    w("/-- number of `.await` in Send `start` before the loop task is spawned -/")
    w(f"def sendStartAwaitPoints : Int := {send_start_awaits}")
    w("/-- thread-local `start`: try_link < pre_start (under run_with_signal) < mark_running -/")
    w(f"def localStartOrder : Bool := {str(local_start_order_ok).lower()}")
    w("")
    w(f"def admissionClosedIsTopBit : Bool := {str(closed_top).lower()}")
    w(f"def admissionMarkerIsNextBit : Bool := {str(marker_next).lower()}")
    w(f"def admissionCountMaskBelowMarker : Bool := {str(mask_ok).lower()}")
    w(f"def waitCreatesNotifiedBeforeStatusCheck : Bool := {str(wait_created_first).lower()}")
    w(f"def notifyOrder : List String := {lean_strs(notify_order)}")
    w(f"def sendSteps : List String := {lean_strs(send_steps)}")
    w(f"def drainSteps : List String := {lean_strs(drain_steps)}")
    w("")
    w("/-- the gates of the start-vs-drain window (`start_drain_gates`) -/")
    g = start_drain_gates(repo)
    for k in ("drainLiftGuard", "drainLiftsTo", "linkChildBound", "linkStartingChildBound",
              "sendStartLinkCall", "localStartLinkCall", "tryLinkStartingCalls"):
        w(f"def {k} : String := {lean_str(g[k])}")
    w(f"def linkBelowGate : Bool := {str(g['linkBelowGate']).lower()}")
    w("")
    w(f"def frameReadChunkSize : Option Nat := {opt_nat(frame_chunk)}")
    w(f"def defaultMaxInboundFrameSize : Option Nat := {opt_nat(max_frame)}")
    w(f"def pendingRequestCleanupBudget : Option Nat := {opt_nat(cleanup_budget)}")
    w(f"def outputMaxBatchSize : Option Nat := {opt_nat(max_batch)}")
    w(f"def outputBroadcastCapacity : Option Nat := {opt_nat(broadcast_cap)}")
    w(f"def globalWorkerPoolMaximum : Option Nat := {opt_nat(pool_max)}")
    w(f"def calculateFrequencyMs : Option Nat := {opt_nat(calc_ms)}")
    w("")
    w("/-- `thread_local/inner.rs` twins token-identical to `actor.rs` (modulo the boxed loop future) -/")
    w(f"def threadLocalTwins : List (String × Bool) := [{', '.join(f'({lean_str(k)}, {str(v).lower()})' for k, v in twins.items())}]")
    w("")
    # ---- async-std backend (round 4, agent asyncstd) ------------------------------------------
    try:
        ab = async_std_backend(repo)
    except Exception as e:  # sentinels: the obligations fail, the extractor does not
        print(f"extract: async_std_backend failed: {e}", file=sys.stderr)
        ab = {k: "" for k in ("sleep", "timeout", "abort", "is_finished", "interval_init", "js_spawn", "js_next", "plain_spawn")}
        ab.update({k: [] for k in ("spawn_calls", "spawn_awaits", "spawn_then", "poll_arms", "tick_steps", "hooks")})
        ab["tick_stmts"] = 0
        ab["twins"] = []
    w("/-- async-std backend (`ractor/src/concurrency/async_std_primitives.rs`), whitespace-free source text -/")
    w(f"def asyncStdSleepBody : String := {lean_str(ab['sleep'])}")
    w(f"def asyncStdTimeoutBody : String := {lean_str(ab['timeout'])}")
    w(f"def asyncStdAbortBody : String := {lean_str(ab['abort'])}")
    w(f"def asyncStdIsFinishedBody : String := {lean_str(ab['is_finished'])}")
    w("/-- the async-std spawn calls in source order (spawn_local; spawn_named: named, unnamed) -/")
    w(f"def asyncStdSpawnCalls : List String := {lean_strs(ab['spawn_calls'])}")
    w("/-- per spawned task body: the expression awaited first, and the statement between it and the result -/")
    w(f"def asyncStdSpawnAwaits : List String := {lean_strs(ab['spawn_awaits'])}")
    w(f"def asyncStdSpawnThen : List String := {lean_strs(ab['spawn_then'])}")
    w(f"def asyncStdPlainSpawnBody : String := {lean_str(ab['plain_spawn'])}")
    w(f"def asyncStdJoinPollArms : List String := {lean_strs(ab['poll_arms'])}")
    w(f"def asyncStdIntervalInit : String := {lean_str(ab['interval_init'])}")
    w(f"def asyncStdIntervalTickSteps : List String := {lean_strs(ab['tick_steps'])}")
    w(f"def asyncStdIntervalTickStatements : Nat := {ab['tick_stmts']}")
    w(f"def asyncStdJoinSetSpawnBody : String := {lean_str(ab['js_spawn'])}")
    w(f"def asyncStdJoinSetJoinNextBody : String := {lean_str(ab['js_next'])}")
    w("/-- actor_cell.rs: the async-std cfg block of the function equals the tokio one modulo `.fuse()` -/")
    w(f"def asyncStdSelectTwins : List (String × Bool) := [{', '.join(f'({lean_str(k)}, {str(v).lower()})' for k, v in ab['twins'])}]")
    w("/-- spawn functions whose future is wrapped by `verif::controlled` before the Abortable wrapper -/")
    w(f"def asyncStdVerifHooks : List String := {lean_strs(ab['hooks'])}")
    w("")
    # ---- wave 2: remote references / decoder failure (agent remote) --------------------------
    try:
        w2 = remote_wave2_facts(repo)
    except Exception as e:
        print(f"extract: remote_wave2_facts failed: {e}", file=sys.stderr)
        w2 = {"aa_order": [], "proxy_cast": [], "proxy_call": [], "deliver_cast": [], "deliver_call": [],
              "hm_arms": [], "hm_local": ""}
    w("/-- `NodeSession::after_authenticated`: registration / scan / send calls in source order -/")
    w(f"def afterAuthenticatedOrder : List String := {lean_strs(w2['aa_order'])}")
    w("/-- remote_actor.rs `handle_serialized`: fields of the `node::Cast` / `node::Call` literals -/")
    w(f"def proxyCastFields : List String := {lean_strs(w2['proxy_cast'])}")
    w(f"def proxyCallFields : List String := {lean_strs(w2['proxy_call'])}")
    w("/-- node_session.rs `handle_node`: fields of the first `SerializedMessage::Cast` / `::Call` literals -/")
    w(f"def deliverCastFields : List String := {lean_strs(w2['deliver_cast'])}")
    w(f"def deliverCallFields : List String := {lean_strs(w2['deliver_call'])}")
    w("/-- actor.rs `handle_message`: arms of the `catch_unwind(from_boxed)` match (log macros dropped) and the local branch -/")
    w(f"def handleMessageSerializedArms : List String := {lean_strs(w2['hm_arms'])}")
    w(f"def handleMessageLocalBranch : String := {lean_str(w2['hm_local'])}")
    w("")
    cc_casts, cc_sites = cluster_session_creation(repo)
    w("/-- C17: (client.rs connect fn, NodeServerMessage variant it casts, `is_server` literal) -/")
    w(f"def clientConnectCasts : List (String × String × String) := [{', '.join(f'({lean_str(a)}, {lean_str(b)}, {lean_str(c)})' for a, b, c in cc_casts)}]")
    w("/-- C17: (arm of NodeServer::handle calling NodeSession::new, cookie argument, is_server argument) -/")
    w(f"def sessionCreationSites : List (String × String × String) := [{', '.join(f'({lean_str(a)}, {lean_str(b)}, {lean_str(c)})' for a, b, c in cc_sites)}]")
    # ---- C17 (wave 2): the guards that keep an unauthenticated NodeSession inert ----
    try:
        sg = cluster_session_guards(repo)
    except Exception as e:  # sentinels: the obligations fail, the extractor does not
        print(f"extract: cluster_session_guards failed: {e}", file=sys.stderr)
        sg = {k: [("?", "?")] for k in ("monitorCalls", "pingLoopStarts", "handleArms", "networkArms", "supervisorArms")}
        sg.update({"afterAuthCalls": [("?", [])], "authArmPrefix": [], "firstGuards": [("?", "?", "?")]})
    pairs = lambda xs: "[" + ", ".join(f"({lean_str(a)}, {lean_str(b)})" for a, b in xs) + "]"
    w("/-- C17: node_session.rs (non-test, non-verif), every call of a `monitor` / `monitor_scope` function: (callee, enclosing fn) -/")
    w(f"def sessionMonitorCalls : List (String × String) := {pairs(sg['monitorCalls'])}")
    w("/-- C17: every call of `start_ping_loop*`: (callee, enclosing fn) -/")
    w(f"def sessionPingLoopStarts : List (String × String) := {pairs(sg['pingLoopStarts'])}")
    w("/-- C17: every call of `after_authenticated(`: (enclosing fn, headers of the enclosing blocks, outer to inner) -/")
    w(f"def afterAuthenticatedCalls : List (String × List String) := [{', '.join(f'({lean_str(a)}, {lean_strs(b)})' for a, b in sg['afterAuthCalls'])}]")
    w("/-- C17: the statements before the `if !p_state ..` that guards the call, in the same block -/")
    w(f"def afterAuthenticatedGuardPrefix : List String := {lean_strs(sg['authArmPrefix'])}")
    w("/-- C17: (fn, condition of the `if` that is its first statement, that block with string literals blanked) -/")
    w(f"def sessionFirstGuards : List (String × String × String) := [{', '.join(f'({lean_str(a)}, {lean_str(b)}, {lean_str(c)})' for a, b, c in sg['firstGuards'])}]")
    w("/-- C17: arms of `match message` in `NodeSession::handle`: (variant, arm guard) -/")
    w(f"def sessionHandleArms : List (String × String) := {pairs(sg['handleArms'])}")
    w("/-- C17: arms of the inner `match network_message`: (variant, `self.` methods called in the arm) -/")
    w(f"def sessionNetworkArms : List (String × String) := {pairs(sg['networkArms'])}")
    w("/-- C17: arms of `match message` in `handle_supervisor_evt`: (variant, arm guard) -/")
    w(f"def sessionSupervisorArms : List (String × String) := {pairs(sg['supervisorArms'])}")
    for line in registry_facts(repo):
        w(line)
    w("")
    for line in tree_facts(repo):
        w(line)
    w("")
    w("end Extracted")
    text = "\n".join(out) + "\n"
    outp = Path(a.out)
    if not outp.exists() or outp.read_text() != text:
        outp.write_text(text)
    # ---- rs2lean: regenerate lean/RactorModel/Generated/*.lean (translated pure functions) ----
    # A function that cannot be translated is NOT emitted (its equivalence theorem in Props/ then
    # fails to elaborate); the per-function report is read by bin/check.
    sys.path.insert(0, str(Path(__file__).resolve().parent))
    import rs2lean
    gen = outp.parent / "Generated"
    rep = rs2lean.generate(repo, gen, gen / "report.json")
    for r in rep:
        if not r["ok"]:
            print(f"rs2lean: TRANSLATION FAILED {r['function']}: {r['error']}", file=sys.stderr)
    return 0


if __name__ == "__main__":
    sys.exit(main())
