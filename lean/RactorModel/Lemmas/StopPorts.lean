import RactorModel.Model.StopPorts

/-!
Invariant of the stop / signal one-shot ports racing with drain and the actor's loop, preserved by
every action, hence by every action sequence, hence (thread layer) by every schedule of any number
of threads. Quantities over the ghost call log are `List.countP`s / memberships; a call appends one
entry (`countP_append`, `mem_append`), everything else leaves the log alone.
-/

namespace StopPorts

/-- `postStop r`, `decided r`, `gone r`: the loop has chosen `r` (a later signal may still override it
while `post_stop` runs). -/
def Phase.chosen? : Phase → Option Reason
  | .postStop r => some r
  | .decided r => some r
  | .gone r => some r
  | _ => none

structure Inv (s : S) : Prop where
  stop_one : s.calls.countP Call.stopAcc + (if s.stopTx then 1 else 0) ≤ 1
  kill_one : s.calls.countP Call.killAcc + (if s.sigTx then 1 else 0) ≤ 1
  stop_used : (s.calls.find? (fun c => !c.kill)).isSome = !s.stopTx
  kill_used : (s.calls.find? (fun c => c.kill)).isSome = !s.sigTx
  first_stop : ∀ c, s.calls.find? (fun c => !c.kill) = some c → c.accepted = true ∨ c.epoch = 3
  first_kill : ∀ c, s.calls.find? (fun c => c.kill) = some c → c.accepted = true ∨ c.epoch = 3
  epoch_le : ∀ c ∈ s.calls, c.epoch ≤ s.phase.epoch
  ports : s.portsOpen = false ↔ s.phase.epoch = 3
  no_acc_gone : ∀ c ∈ s.calls, c.epoch = 3 → c.accepted = false
  stop_pending : s.phase.epoch = 0 → s.stopVal = none → ∀ c ∈ s.calls, c.stopAcc = false
  stop_val : ∀ r, s.stopVal = some r → s.calls.any (fun c => c.stopAcc && c.reason == r) = true
  kill_pending : s.phase.epoch ≤ 1 → s.sigVal = false → ∀ c ∈ s.calls, c.killAcc = false
  sig_val : s.sigVal = true → s.calls.any Call.killAcc = true
  exit_killed : s.phase.chosen? = some .killed → s.calls.any (fun c => c.killAcc && decide (c.epoch ≤ 1)) = true
  exit_stop : ∀ x, s.phase.chosen? = some (.stop x) →
    s.calls.any (fun c => c.stopAcc && c.epoch == 0 && c.reason == x) = true
  exit_other : ∀ r, s.phase.exit? = some r → r ≠ .killed → ∀ c ∈ s.calls, c.killAcc = true → 2 ≤ c.epoch
  exit_drained : s.phase.chosen? = some .drained →
    s.marker = true ∧ ∀ c ∈ s.calls, c.stopAcc = true → 1 ≤ c.epoch
  queue_marker : Item.drain ∈ s.queue → s.marker = true
  no_overtake : s.handledOverPort = 0

theorem inv_init : Inv ({} : S) := by
  constructor <;> simp [Phase.epoch, Phase.chosen?, Phase.exit?]

theorem find?_snoc {α} (p : α → Bool) (l : List α) (a : α) :
    (l ++ [a]).find? p = (l.find? p).or (if p a then some a else none) := by
  rw [List.find?_append]; simp [List.find?_cons]; split <;> simp_all

theorem Phase.chosen_epoch (p : Phase) (r : Reason) : p.chosen? = some r → 1 ≤ p.epoch := by
  cases p <;> simp [Phase.chosen?, Phase.epoch]

theorem Phase.exit_epoch (p : Phase) (r : Reason) : p.exit? = some r → 2 ≤ p.epoch := by
  cases p <;> simp [Phase.exit?, Phase.epoch]

set_option hygiene false in
macro "sp_call" : tactic => `(tactic| (
  obtain ⟨h1, h2, h3, h4, h5, h6, h7, h8, h9, h10, h11, h12, h13, h14, h15, h16, h17, h18, h19⟩ := h
  have pc := Phase.chosen_epoch s.phase
  have pe := Phase.exit_epoch s.phase
  constructor <;> simp only [act, find?_snoc, List.countP_append, List.mem_append, List.mem_singleton,
    List.countP_cons, List.countP_nil, List.any_append, List.any_cons, List.any_nil] at * <;>
  first
  | assumption
  | (generalize List.countP Call.stopAcc s.calls = a at *
     generalize List.countP Call.killAcc s.calls = b at *
     generalize List.find? (fun c : Call => !c.kill) s.calls = fs at *
     generalize List.find? (fun c : Call => c.kill) s.calls = fk at *
     generalize s.phase.epoch = e at *
     generalize s.phase.chosen? = ch at *
     generalize s.phase.exit? = ex at *
     cases fs <;> cases fk <;> simp only [Option.or, Call.stopAcc, Call.killAcc] at * <;>
     grind)))

theorem inv_stop (s : S) (r : Option Nat) (h : Inv s) : Inv (act s (.stop r)) := by
  sp_call

theorem inv_kill (s : S) (h : Inv s) : Inv (act s .kill) := by
  sp_call

theorem pick_signal {a : Bool} {b : Option (Option Nat)} {c : Option Item} :
    pick a b c = .signal → a = true := by
  unfold pick; split <;> (try split) <;> (try split) <;> simp_all

theorem pick_stop {a : Bool} {b : Option (Option Nat)} {c : Option Item} {r : Option Nat} :
    pick a b c = .stop r → a = false ∧ b = some r := by
  unfold pick; split <;> (try split) <;> (try split) <;> simp_all

theorem pick_msg {a : Bool} {b : Option (Option Nat)} {c : Option Item} :
    pick a b c = .msg → a = false ∧ b = none ∧ c = some .msg := by
  unfold pick; split <;> (try split) <;> (try split) <;> simp_all

theorem pick_drain {a : Bool} {b : Option (Option Nat)} {c : Option Item} :
    pick a b c = .drain → a = false ∧ b = none ∧ c = some .drain := by
  unfold pick; split <;> (try split) <;> (try split) <;> simp_all

theorem mem_of_head? {α} {l : List α} {a : α} (h : l.head? = some a) : a ∈ l := by
  cases l <;> simp_all

theorem mem_of_mem_tail' {α} {l : List α} {a : α} (h : a ∈ l.tail) : a ∈ l := by
  cases l <;> simp_all

set_option hygiene false in
macro "sp_quiet" : tactic => `(tactic| (
  constructor <;> simp only [Phase.epoch, Phase.chosen?, Phase.exit?, *] at * <;>
  first
  | assumption
  | grind [mem_of_head?, mem_of_mem_tail']))

theorem inv_send (s : S) (h : Inv s) : Inv (act s .send) := by
  simp only [act]; split
  · obtain ⟨h1, h2, h3, h4, h5, h6, h7, h8, h9, h10, h11, h12, h13, h14, h15, h16, h17, h18, h19⟩ := h
    sp_quiet
  · exact h

theorem inv_dClose (s : S) (h : Inv s) : Inv (act s .dClose) := by
  obtain ⟨h1, h2, h3, h4, h5, h6, h7, h8, h9, h10, h11, h12, h13, h14, h15, h16, h17, h18, h19⟩ := h
  simp only [act]; sp_quiet

theorem inv_dMarker (s : S) (h : Inv s) : Inv (act s .dMarker) := by
  simp only [act]; split
  · obtain ⟨h1, h2, h3, h4, h5, h6, h7, h8, h9, h10, h11, h12, h13, h14, h15, h16, h17, h18, h19⟩ := h
    sp_quiet
  · exact h

theorem inv_dropPorts (s : S) (h : Inv s) : Inv (act s .dropPorts) := by
  simp only [act]; split
  · rename_i r hp
    obtain ⟨h1, h2, h3, h4, h5, h6, h7, h8, h9, h10, h11, h12, h13, h14, h15, h16, h17, h18, h19⟩ := h
    sp_quiet
  · exact h

theorem inv_poll (s : S) (fin : Bool) (h : Inv s) : Inv (act s (.poll fin)) := by
  simp only [act]
  split
  · rename_i hp
    split
    · rename_i hk; have hk := pick_signal hk
      obtain ⟨h1, h2, h3, h4, h5, h6, h7, h8, h9, h10, h11, h12, h13, h14, h15, h16, h17, h18, h19⟩ := h
      sp_quiet
    · rename_i r hk; have hk := pick_stop hk
      obtain ⟨h1, h2, h3, h4, h5, h6, h7, h8, h9, h10, h11, h12, h13, h14, h15, h16, h17, h18, h19⟩ := h
      sp_quiet
    · rename_i hk; have hk := pick_msg hk
      obtain ⟨h1, h2, h3, h4, h5, h6, h7, h8, h9, h10, h11, h12, h13, h14, h15, h16, h17, h18, h19⟩ := h
      sp_quiet
    · rename_i hk; have hk := pick_drain hk
      obtain ⟨h1, h2, h3, h4, h5, h6, h7, h8, h9, h10, h11, h12, h13, h14, h15, h16, h17, h18, h19⟩ := h
      sp_quiet
    · exact h
  · rename_i hp
    obtain ⟨h1, h2, h3, h4, h5, h6, h7, h8, h9, h10, h11, h12, h13, h14, h15, h16, h17, h18, h19⟩ := h
    split
    · sp_quiet
    · split
      · sp_quiet
      · exact ⟨h1, h2, h3, h4, h5, h6, h7, h8, h9, h10, h11, h12, h13, h14, h15, h16, h17, h18, h19⟩
  · rename_i r hp
    obtain ⟨h1, h2, h3, h4, h5, h6, h7, h8, h9, h10, h11, h12, h13, h14, h15, h16, h17, h18, h19⟩ := h
    split
    · sp_quiet
    · split
      · sp_quiet
      · exact ⟨h1, h2, h3, h4, h5, h6, h7, h8, h9, h10, h11, h12, h13, h14, h15, h16, h17, h18, h19⟩
  · exact h
  · exact h

theorem inv_act (s : S) (a : Act) (h : Inv s) : Inv (act s a) := by
  cases a with
  | stop r => exact inv_stop s r h
  | kill => exact inv_kill s h
  | send => exact inv_send s h
  | dClose => exact inv_dClose s h
  | dMarker => exact inv_dMarker s h
  | poll fin => exact inv_poll s fin h
  | dropPorts => exact inv_dropPorts s h

theorem inv_runActs (s : S) (l : List Act) (h : Inv s) : Inv (runActs s l) := by
  induction l generalizing s with
  | nil => exact h
  | cons a l ih => exact ih (act s a) (inv_act s a h)

end StopPorts
