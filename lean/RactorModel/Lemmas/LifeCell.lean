import RactorModel.Lemmas.LifeC01

/-! A cell that `spawn_instant` handed out and whose start task has not run yet is `Unstarted`
(`phase = cell → status = unstarted`), in every reachable state: nothing an `ActorRef` holder can do to such a
cell writes its status (`drain` leaves `Unstarted` alone — repo fix e926850), and an actor never comes
back to the phases `fresh` / `cell` (the C01 stage never returns to `init`). So the
"cannot start an actor more than once" branch of `startInstant` is dead. -/

namespace Life

def Phase.early : Phase → Bool
  | .fresh | .cell => true
  | _ => false

/-- The invariant. -/
def CellOk (a : Actor) : Prop := a.phase.early = true → a.status = .unstarted

theorem C01.next_stage_init {s s1 : C01.St} {e : Ev} (h : C01.next s e = .ok s1) (hs : s.stage ≠ .init) :
    s1.stage ≠ .init := by
  cases e <;> simp only [C01.next] at h <;> (repeat' split at h) <;>
    first
      | (cases h; done)
      | (cases h; simp_all [C01.Stage.isOpen]; done)
      | (cases h; exact hs)

theorem C01.accepts_stage_init {tr : List Ev} {s s1 : C01.St} (h : accepts C01.next s tr = .ok s1)
    (hs : s.stage ≠ .init) : s1.stage ≠ .init := by
  induction tr generalizing s with
  | nil => simp only [accepts_nil] at h; cases h; exact hs
  | cons e es ih =>
    rw [accepts_cons] at h
    cases hn : C01.next s e with
    | error c => simp [hn] at h
    | ok s2 => simp only [hn] at h; exact ih h (C01.next_stage_init hn hs)

/-- A done actor stays done. -/
theorem stepCore_done (a : Actor) (op : AOp) (h : a.phase = .done) : (a.stepCore op).1.phase = .done := by
  have k1 := C01.apiSend_phase
  have k2 := C01.apiStop_phase
  have k3 := C01.apiKill_phase
  have k4 := C01.apiDrain_phase
  cases op <;>
    simp [Actor.stepCore, opSpawn, opSpawnInstant, opPollSpawn, opDropSpawn, opPoll, pollMark, opAbort, opResume,
      Actor.envOp, opSupArrive, opTreeTaken, opLink, opUnlink, doLink, apiCall, h, Phase.isTask, Phase.openCb,
      Actor.portsOpen, k1, k2, k3, k4] <;>
    (repeat' split) <;> simp_all [k3]

theorem startInstant_phase (a : Actor) (supOk : Bool) : (startInstant a supOk).1.phase.early = false := by
  have hb : ∀ b : Actor, (beginPre b).1.phase.early = false := by
    intro b
    unfold beginPre
    split <;> simp [failSpawn, Actor.dropPorts, Phase.early]
  unfold startInstant
  split
  · simp [failSpawn, Actor.dropPorts, Phase.early]
  · simp only []
    split
    · split
      · split
        · simp [failSpawn, Actor.dropPorts, Phase.early]
        · simp only [andThen_fst]; exact hb _
      · exact hb _
    · exact hb _

/-- What the ops do to a cell that is still `fresh` / `cell`: it stays `Unstarted` as long as it stays early. -/
theorem cellOk_early (a : Actor) (op : AOp) (he : a.phase.early = true) (hj : a.status = .unstarted) :
    (a.stepCore op).1.phase.early = true → (a.stepCore op).1.status = .unstarted := by
  have hph : a.phase = .fresh ∨ a.phase = .cell := by
    cases h : a.phase <;> simp [h, Phase.early] at he <;> simp
  rcases hph with hph | hph
  · -- no cell yet: only the spawns act
    cases op with
    | spawn sup name nameFree isLocal supOk =>
      simp only [Actor.stepCore]
      unfold opSpawn
      simp only [hph]
      (repeat' split) <;> first | (intro _; exact hj) | (intro h; simp [Phase.early] at h)
    | spawnInstant sup name nameFree isLocal =>
      simp only [Actor.stepCore]
      unfold opSpawnInstant
      simp only [hph]
      (repeat' split) <;> (intro _; simpa using hj)
    | pollSpawn supOk => simp [Actor.stepCore, opPollSpawn, hph, hj]
    | dropSpawn => simp [Actor.stepCore, opDropSpawn, hph, hj]
    | poll => simp [Actor.stepCore, opPoll, pollMark, hph, Phase.isTask, hj]
    | abort => simp [Actor.stepCore, opAbort, hph, Phase.isTask, hj]
    | resume sg => simp [Actor.stepCore, opResume, hph, Phase.openCb, hj]
    | _ => simp [Actor.stepCore, hph, hj]
  · cases op with
    | pollSpawn supOk =>
      intro h
      have := startInstant_phase a supOk
      simp [Actor.stepCore, opPollSpawn, hph] at h
      rw [this] at h; cases h
    | dropSpawn =>
      intro h
      simp [Actor.stepCore, opDropSpawn, hph, Actor.dropPorts, Phase.early] at h
    | _ =>
      simp [Actor.stepCore, opSpawn, opSpawnInstant, opPoll, pollMark, opAbort, opResume, Actor.envOp, opSupArrive,
        opTreeTaken, opLink, opUnlink, doLink, apiSend, apiStop, apiKill, apiDrain, apiCall, hph, Phase.isTask,
        Phase.openCb, Phase.early, hj, Actor.portsOpen, Status.rank] <;>
      (repeat' split) <;> simp_all [Phase.early]

/-- **The invariant is preserved by every op** from a state the C01 simulation relates to some automaton state
(every reachable state is). -/
theorem cellOk_step (a : Actor) (s : C01.St) (op : AOp) (hinv : C01.Inv a s) (hj : CellOk a) :
    CellOk (a.step op).1 := by
  show (a.stepCore op).1.phase.early = true → (a.stepCore op).1.status = .unstarted
  by_cases he : a.phase.early = true
  · exact cellOk_early a op he (hj he)
  · intro h
    exfalso
    by_cases hd : a.phase = .done
    · rw [stepCore_done a op hd] at h; cases h
    · -- a started, live actor: its C01 stage is past `init` and stays so; an early phase would need `init`
      obtain ⟨s1, hacc, hinv1⟩ := C01.stepCore_sim a s op hinv
      rcases hinv with hinv | ⟨hst, _⟩
      · exact hd hinv
      · have hs : s.stage ≠ .init := by
          cases hp : a.phase <;> simp [hp, Phase.early] at he hd <;> rw [hp] at hst <;>
            simp only [C01.stageRel] at hst <;> rw [hst] <;> simp
        have hs1 := C01.accepts_stage_init hacc hs
        rcases hinv1 with hinv1 | ⟨hst1, _⟩
        · rw [hinv1] at h; cases h
        · cases hp : (a.stepCore op).1.phase <;> rw [hp] at h hst1 <;> simp [Phase.early] at h <;>
            exact hs1 hst1

theorem cellOk_init (id : Nat) : CellOk (Actor.init id) := fun _ => rfl

/-- Along every run: the C01 invariant and `CellOk`. -/
theorem cellOk_run (ops : List AOp) (a : Actor) (s : C01.St) (hinv : C01.Inv a s) (hj : CellOk a) :
    CellOk (a.run ops).1 := by
  induction ops generalizing a s with
  | nil => exact hj
  | cons op ops ih =>
    obtain ⟨s1, _, hinv1⟩ := C01.step_sim a s op hinv
    exact ih _ s1 hinv1 (cellOk_step a s op hinv hj)

end Life
