import RactorModel.Model.Codec
import Driver.Common

/-! Driver for the `Codec` model (C19). Ops are written by `harness/hcluster/src/bin/c19.rs`
after executing them on the real code; value syntax: integers/floats as the decimal value of
their unsigned bit pattern, bool `0|1`, char as scalar value, String / Vec<u8> as hex
(`-` = empty), `()` as `-`, vectors comma separated (`-` = empty), fields joined by `;`.

  `rt <ty> <val>`                       → `<hex of into_bytes> ok <val>|panic`
  `dec <ty> <hex>`                      → `ok <val>` | `panic`
  `sig <Tag> <cast|call> <tys|-> <replyTy|->`  → `ok`
  `ser <Tag> <vals>`                    → `cast|call <Tag> <args hex>`
  `deser <kind> <Tag> <args hex> [reply=<ty>:<val>]` → `ok <Tag> <vals>[ reply=<hex>]` | `err` | `panic`
  `const chunk|defaultmax`              → value
  `checklen <len> <max>`                → `ok <n>` | `err <kind>`
  `newstream`                           → `ok` (starts the group of `encframe`s a `frames` op reads back)
  `encframe <payload hex>`              → frame hex
  `frames max=<m> chunks=<sizes> stream=<hex> dec=<payload:canon|payload:!|…>`
                                        → `whole=<res,…>@<consumed> split=<res,…>@<consumed> maxreq= reads= sumreq= alloc=ok|big`
  `metadec <kty> <hex|none>`            → `err` | `ok <submit> <ttl|none> <key>` | `panic`
  `metart <kty> <submit> <ttl|none> <key>` → `<meta hex> ok …`
  `jobopt <hex>`                        → `default` | `ok <submit> <ttl|none>`
  `actor enum <kind> <Tag> <hex>` / `actor num <kind> <hex>` / `actor job cast <Tag> <hex> <meta|none>`
                                        → `sent=true seen=[…] status=Running`
-/

namespace Driver.C19
open Codec Driver

def hexDigit? (c : Char) : Option Nat :=
  if '0' ≤ c && c ≤ '9' then some (c.toNat - '0'.toNat)
  else if 'a' ≤ c && c ≤ 'f' then some (c.toNat - 'a'.toNat + 10)
  else none

def unhexAux : List Char → List UInt8 → Option (List UInt8)
  | [], acc => some acc.reverse
  | a :: b :: r, acc => do
    let x ← hexDigit? a; let y ← hexDigit? b
    unhexAux r (UInt8.ofNat (x * 16 + y) :: acc)
  | _, _ => none

def unhex? (s : String) : Option Bytes :=
  if s == "-" then some [] else unhexAux s.toList []

def hexChar (n : Nat) : Char :=
  if n < 10 then Char.ofNat ('0'.toNat + n) else Char.ofNat ('a'.toNat + n - 10)

def hex (b : Bytes) : String :=
  if b.isEmpty then "-" else
  String.ofList (b.flatMap (fun x => [hexChar (x.toNat / 16), hexChar (x.toNat % 16)]))

def widthOf? : String → Option Nat
  | "u8" | "i8" => some 1
  | "u16" | "i16" => some 2
  | "u32" | "i32" | "f32" => some 4
  | "u64" | "i64" | "f64" => some 8
  | "u128" | "i128" => some 16
  | _ => none

def ty? (s : String) : Option Ty :=
  match s with
  | "bool" => some .bool
  | "char" => some .char
  | "str" => some .str
  | "unit" => some .unit
  | "bytes" => some .bytes
  | "vec_bool" => some .vecBool
  | "vec_char" => some .vecChar
  | _ =>
    match widthOf? s with
    | some w => some (.uint w)
    | none => if s.startsWith "vec_" then (widthOf? (s.drop 4).toString).map .vecUint else none

def showVal : Val → String
  | .nat n => toString n
  | .bool b => if b then "1" else "0"
  | .unit => "-"
  | .bytes l => hex l
  | .nats l => showNats l
  | .bools l => if l.isEmpty then "-" else ",".intercalate (l.map (fun b => if b then "1" else "0"))

def parseVal? (t : Ty) (s : String) : Option Val :=
  match t with
  | .uint _ | .char => s.toNat?.map .nat
  | .bool => (parseBool? s).map .bool
  | .str | .bytes => (unhex? s).map .bytes
  | .unit => some .unit
  | .vecUint _ | .vecChar => (natList? s).map .nats
  | .vecBool => if s == "-" then some (.bools []) else ((splitOnChar s ',').mapM parseBool?).map .bools

def showVals (vs : List Val) : String :=
  if vs.isEmpty then "-" else ";".intercalate (vs.map showVal)

def parseVals? (ts : List Ty) (s : String) : Option (List Val) :=
  if ts.isEmpty then (if s == "-" then some [] else none)
  else
    let parts := splitOnChar s ';'
    if parts.length != ts.length then none else (ts.zip parts).mapM (fun (t, p) => parseVal? t p)

def tys? (s : String) : Option (List Ty) :=
  if s == "-" then some [] else (splitOnChar s ',').mapM ty?

def kind? : String → Option Kind
  | "cast" => some .cast
  | "call" => some .call
  | _ => none

def showKind : Kind → String
  | .cast => "cast"
  | .call => "call"

def showSMsg : SMsg → String
  | .cast t a => s!"cast {t} {hex a}"
  | .call t a => s!"call {t} {hex a}"
  | .callReply => "reply"

def showErr : FrameErr → String
  | .eof => "eof" | .tooLarge => "toolarge" | .unalloc => "unalloc" | .undecodable => "undecodable" | .io => "io"

def showRes : FrameRes Bytes → String
  | .ok m => s!"ok:{hex m}"
  | .err e => s!"err:{showErr e}"

def parseRes? (s : String) : Option (FrameRes Bytes) :=
  if s.startsWith "ok:" then (unhex? (s.drop 3).toString).map .ok
  else match s with
    | "err:eof" => some (.err .eof)
    | "err:toolarge" => some (.err .tooLarge)
    | "err:unalloc" => some (.err .unalloc)
    | "err:undecodable" => some (.err .undecodable)
    | "err:io" => some (.err .io)
    | _ => none

def showObs (o : List (FrameRes Bytes) × Nat) : String :=
  s!"{",".intercalate (o.1.map showRes)}@{o.2}"

def parseObs? (s : String) : Option (List (FrameRes Bytes) × Nat) :=
  match splitOnChar s '@' with
  | [rs, n] => do
    let n ← n.toNat?
    let rs ← (splitOnChar rs ',').mapM parseRes?
    pure (rs, n)
  | _ => none

def field? (w : String) (k : String) : Option String :=
  if w.startsWith (k ++ "=") then some (w.drop (k.length + 1)).toString else none

/-- prost's decoder restricted to the payloads this stream can reach (computed by the harness
by calling prost directly): payload ↦ canonical re-encoding, `!` = rejected. -/
def parseDecTable? (s : String) : Option (List (Bytes × Option Bytes)) :=
  if s == "-" then some [] else
  (splitOnChar s '|').mapM (fun e =>
    match splitOnChar e ':' with
    | [p, c] => do
      let p ← unhex? p
      if c == "!" then pure (p, none) else do
        let c ← unhex? c
        pure (p, some c)
    | _ => none)

/-- A payload missing from the table decodes to a marker the implementation never produces. -/
def decOf (tbl : List (Bytes × Option Bytes)) (p : Bytes) : Option Bytes :=
  match tbl.find? (·.1 == p) with
  | some (_, r) => r
  | none => some [0xde, 0xad, 0xbe, 0xef, 0xde, 0xad]

def splitBy : Bytes → List Nat → List Bytes
  | _, [] => []
  | s, n :: ns => s.take n :: splitBy (s.drop n) ns

structure St where
  sigs : List (Variant × Option Ty) := []
  lastSer : Option (String × String × String) := none   -- (impl's serialized form, tag, vals)
  frames : List Bytes := []      -- payloads of the `encframe` ops since the last `frames` op
  framesImpl : Bytes := []       -- what the real encoder produced for them

def variants (st : St) : List Variant := st.sigs.map (·.1)

def showSeen (d : Option (String × List Val)) (pre : String := "") : String :=
  match d with
  | some (t, vs) => s!"sent=true seen=[{pre}{t} {showVals vs}] status=Running"
  | none => "sent=true seen=[] status=Running"

def actorOracle (impl : String) (modelDelivers : Bool := true) : List String :=
  (if (impl.splitOn "status=Running").length == 2 && (impl.splitOn "sent=true").length == 2 then []
   else ["actor-harmed"]) ++
  -- a payload that is not exactly an encoding of a message must never reach `handle`
  (if !modelDelivers && (impl.splitOn "seen=[]").length != 2 then ["actor-handled-malformed-message"] else [])

def showTtl : Option Nat → String
  | none => "none"
  | some t => toString t

def metaModel (kty : Ty) (m : Option Bytes) : String :=
  match decodeMeta m with
  | none => "err"
  | some jm =>
    match decode kty jm.key with
    | none => "panic"
    | some k => s!"ok {jm.submit} {showTtl jm.ttl} {showVal k}"

def lastN (s : String) (n : Nat) : String :=
  let ws := words s
  " ".intercalate (ws.drop (ws.length - n))

def step (st : St) (op impl : String) : St × StepOut :=
  match words op with
  | ["rt", ty, v] =>
    match ty? ty with
    | some t =>
      match parseVal? t v with
      | some val =>
        let enc := encode t val
        let back := match decode t enc with
          | some v' => s!"ok {showVal v'}"
          | none => "panic"
        -- oracle on the implementation's own answer: decoding its encoding gives the value back
        let orc := if lastN impl 2 == s!"ok {v}" then [] else ["bytes-roundtrip"]
        (st, { model := s!"{hex enc} {back}", oracle := orc, nontrivial := true })
      | none => (st, { model := "bad-val" })
    | none => (st, { model := "bad-ty" })
  | ["dec", ty, h] =>
    match ty? ty, unhex? h with
    | some t, some bs =>
      let m := match decode t bs with
        | some v => s!"ok {showVal v}"
        | none => "panic"
      (st, { model := m, nontrivial := m == "panic" })
    | _, _ => (st, { model := "bad-op" })
  | ["sig", tag, kind, fields, reply] =>
    match kind? kind, tys? fields with
    | some k, some fs =>
      let r := if reply == "-" then none else ty? reply
      ({ st with sigs := st.sigs ++ [(⟨tag, k, fs⟩, r)] }, { model := "ok" })
    | _, _ => (st, { model := "bad-op" })
  | ["ser", tag, vals] =>
    match st.sigs.find? (·.1.tag == tag) with
    | some (v, _) =>
      match parseVals? v.fields vals with
      | some vs =>
        let m := match serialize v vs with
          | some s => showSMsg s
          | none => "err"
        ({ st with lastSer := some (impl, tag, vals) }, { model := m, nontrivial := !v.fields.isEmpty })
      | none => (st, { model := "bad-vals" })
    | none => (st, { model := "bad-tag" })
  | "deser" :: kind :: tag :: h :: rest =>
    match unhex? h with
    | some args =>
      let sm : SMsg := match kind with
        | "cast" => .cast tag args
        | "call" => .call tag args
        | _ => .callReply
      let d := deserialize (variants st) sm
      let m := match d with
        | none => "err"
        | some (t, vs) =>
          let base := s!"ok {t} {showVals vs}"
          match rest with
          | [r] =>
            match field? r "reply" with
            | some tv =>
              match splitOnChar tv ':' with
              | [ty, v] =>
                match ty? ty with
                | some rt =>
                  match parseVal? rt v with
                  | some rv => s!"{base} reply={hex (encode rt rv)}"
                  | none => base ++ " bad-reply"
                | none => base ++ " bad-reply"
              | _ => base ++ " bad-reply"
            | none => base
          | _ => base
      -- oracle: generated decoders never panic; what `serialize` produced decodes to the original
      let o1 := if impl == "panic" then ["decoder-panicked"] else []
      -- `C19.unpack_accepts_exactly_packed`: whatever is accepted is exactly a packing of the
      -- variant's data fields (for a data-less variant: the empty buffer) — no trailing bytes
      let o3 := if impl.startsWith "ok " then
          (match findVariant (variants st) (if kind == "call" then .call else .cast) tag with
           | some v => if (unpack v.fields.length args).isSome then [] else ["decoder-accepted-trailing-bytes"]
           | none => ["decoder-accepted-unknown-variant"])
        else []
      let o2 := match st.lastSer with
        | some (ser, t, vals) =>
          if ser == s!"{kind} {tag} {h}" then
            (if (impl.startsWith s!"ok {t} {vals}") then [] else ["enum-roundtrip"])
          else []
        | none => []
      ({ st with lastSer := none }, { model := m, oracle := o1 ++ o2 ++ o3, nontrivial := true })
    | none => (st, { model := "bad-op" })
  | ["const", "chunk"] => (st, { model := toString chunkSize })
  | ["const", "defaultmax"] => (st, { model := toString defaultMaxFrame })
  | ["checklen", len, max] =>
    match len.toNat?, max.toNat? with
    | some len, some max =>
      let m := match checkedFrameLength len max with
        | .ok n => s!"ok {n}"
        | .error e => s!"err {showErr e}"
      (st, { model := m, nontrivial := true })
    | _, _ => (st, { model := "bad-op" })
  | ["newstream"] => ({ st with frames := [], framesImpl := [] }, { model := "ok" })
  | ["encframe", h] =>
    match unhex? h with
    | some p =>
      let f := encodeFrame p
      ({ st with frames := st.frames ++ [p], framesImpl := st.framesImpl ++ ((unhex? impl).getD []) },
       { model := hex f, nontrivial := true })
    | none => (st, { model := "bad-op" })
  | "frames" :: fmax :: fchunks :: fstream :: fdec :: rest =>
    -- `io=1`: the transport ends with an I/O error instead of EOF (`Codec.readFramesIo`)
    let io := rest == ["io=1"]
    -- `tcp=1`: the fragmented run went over a real TCP connection (`ActorReadHalf::Regular`); the
    -- kernel chose the fragmentation, so only outcomes and consumed bytes are predicted
    let tcp := rest == ["tcp=1"]
    if !(rest.isEmpty || io || tcp) then (st, { model := "bad-op" }) else
    match (field? fmax "max").bind (·.toNat?), (field? fchunks "chunks").bind natList?,
          (field? fstream "stream").bind unhex?, (field? fdec "dec").bind parseDecTable? with
    | some max, some sizes, some stream, some tbl =>
      let dec := decOf tbl
      let whole0 := framesObs dec max [stream]
      let whole := (whole0.1.map (ioEnd io), whole0.2)
      let pieces := splitBy stream sizes
      let r := readFramesIo dec max pieces io
      let split := (r.1, streamLen pieces - streamLen r.2.1)
      let tr := r.2.2
      let maxReq := Codec.maxReq tr
      let sumReq := tr.foldl (fun a e => a + e.req) 0
      let model := if tcp then s!"whole={showObs whole} split={showObs whole} maxreq=0 reads=0 sumreq=0 alloc=ok"
        else s!"whole={showObs whole} split={showObs split} maxreq={maxReq} reads={tr.length} sumreq={sumReq} alloc=ok"
      -- oracle on the implementation's observation
      let orc := match words impl with
        | [w, s, mr, _, _, al] =>
          match (field? w "whole").bind parseObs?, (field? s "split").bind parseObs?, (field? mr "maxreq").bind (·.toNat?) with
          | some wo, some so, some mreq =>
            let o : FrameObs Bytes := { whole := wo, split := so, maxReq := mreq, panicked := false }
            let base := framesOk max stream o
            -- round trip: an unmodified stream of frames produced by the real encoder
            let rt :=
              if !st.frames.isEmpty && stream == st.framesImpl && st.frames.all (fun p => p.length ≤ max) then
                (if so.1 == st.frames.map (fun p => match dec p with | some c => FrameRes.ok c | none => .err .undecodable) ++ [.err .eof]
                 then [] else ["frame-roundtrip"])
              else []
            -- a transport error is reported as such (stop reason "frame_read_error"), never as a clean EOF
            let ioc := if io && (so.1.getLast? == some (.err .eof) || wo.1.getLast? == some (.err .eof))
              then ["frame-io-error-taken-for-eof"] else []
            base ++ rt ++ ioc ++ (if al == "alloc=ok" then [] else ["frame-buffer-bounded"])
          | _, _, _ => ["frame-total"]
        | _ => ["frame-total"]
      ({ st with frames := [], framesImpl := [] },
       { model := model, oracle := orc, nontrivial := decide (sizes.length > 1) || stream.length ≥ 8 })
    | _, _, _, _ => (st, { model := "bad-op" })
  | ["metadec", kty, m] =>
    match ty? kty, (if m == "none" then some none else (unhex? m).map some) with
    | some kt, some mb => (st, { model := metaModel kt mb, nontrivial := true })
    | _, _ => (st, { model := "bad-op" })
  | ["metart", kty, submit, ttl, key] =>
    match ty? kty, submit.toNat?, (if ttl == "none" then some none else ttl.toNat?.map some) with
    | some kt, some s, some t =>
      match parseVal? kt key with
      | some kv =>
        let jm : JobMeta := ⟨s, t, encode kt kv⟩
        let enc := encodeMeta jm
        let f16 : Bool := decide (s < 2 ^ 64) && t.any (fun v => v == 0 || v ≥ 2 ^ 64)
        let orc := if metaOk jm then
            (if lastN impl 4 == s!"ok {s} {showTtl t} {key}" then [] else ["meta-roundtrip"])
          else if f16 then
            -- known finding F16: a TTL of 0 ns or of 2^64 ns and more does not survive `JobOptions`' wire format
            (if lastN impl 4 == s!"ok {s} {showTtl t} {key}" then [] else ["c19-jobopts-ttl-not-roundtripped"])
          else []
        (st, { model := s!"{hex enc} {metaModel kt (some enc)}", oracle := orc, nontrivial := metaOk jm })
      | none => (st, { model := "bad-val" })
    | _, _, _ => (st, { model := "bad-op" })
  -- E-PURE ops of the `jobwire` harness (`JobOptions::new(ttl).into_bytes()` → `from_bytes` on the real type; the
  -- submit time is the wall clock, so only its round trip is reported): the same model, `Codec.encodeMeta/decodeMeta`
  | ["jo", t] =>
    match (if t == "-" then some none else t.toNat?.map some) with
    | some (ttl : Option Nat) =>
      let wire := beVal (encodeBE 8 (ttl.getD 0))
      let back : Option Nat := (decodeMeta (some (encodeMeta ⟨0, ttl, []⟩))).bind (·.ttl)
      let sh := fun (o : Option Nat) => match o with | some v => toString v | none => "-"
      let implBack : Option (Option Nat) := ((words impl).findSome? fun w => match w.splitOn "=" with
        | ["back", b] => some b | _ => none).bind fun b => if b == "-" then some none else b.toNat?.map some
      -- "encode followed by decode yields the original value": the TTL of the options. Known finding F16: 0 ns and
      -- everything from 2^64 ns on do not come back; any OTHER value that does not come back is a violation
      let f16 : Bool := ttl.any fun v => v == 0 || v ≥ 2 ^ 64
      let orc : List String := match implBack with
        | none => ["unparsable"]
        | some ib => if ib == ttl then [] else [if f16 then "c19-jobopts-ttl-not-roundtripped" else "c19-jobopts-roundtrip"]
      (st, { model := s!"len=16 wire={wire} back={sh back} submit_same=1", oracle := orc, nontrivial := f16 })
    | none => (st, { model := "bad-op" })
  | ["jobytes", h] =>
    match (if h == "-" then some [] else unhex? h) with
    | some bs =>
      let t := beVal ((bs.drop 8).take 8)
      let back : Option Nat := if bs.length != 16 then none else if t > 0 then some t else none
      (st, { model := "back=" ++ (match back with | some v => toString v | none => "-"), nontrivial := bs.length == 16 })
    | none => (st, { model := "bad-op" })
  | ["jobopt", h] =>
    match unhex? h with
    | some bs =>
      let m := if bs.length != 16 then "default" else
        let t := beVal ((bs.drop 8).take 8)
        s!"ok {beVal (bs.take 8)} {showTtl (if t > 0 then some t else none)}"
      (st, { model := m })
    | none => (st, { model := "bad-op" })
  | ["actor", "enum", kind, tag, h] =>
    match unhex? h with
    | some args =>
      let sm : SMsg := match kind with
        | "cast" => .cast tag args
        | "call" => .call tag args
        | _ => .callReply
      let d := deserialize (variants st) sm
      -- `Codec.handleMessage`: the actor's state after this message
      let a := handleMessage {} sm (decodedOf (variants st) sm)
      let port := if kind == "call" then (if a.droppedPorts == 1 then " port=dropped" else " port=open") else ""
      -- the caller of a call that is not a message of the actor must observe an absence, never a value
      let orcPort := if kind == "call" && d.isNone && (impl.splitOn "port=value").length != 1
        then ["undecodable-call-answered"] else []
      (st, { model := showSeen (a.handled.head?) ++ port, oracle := actorOracle impl d.isSome ++ orcPort,
             nontrivial := d.isNone })
    | none => (st, { model := "bad-op" })
  | ["actor", "num", kind, h] =>
    match unhex? h with
    | some args =>
      -- blanket `Message` impl of a `BytesConvertable` type: casts only, `from_bytes` unguarded
      let d := if kind == "cast" then (decode (.uint 4) args).map (fun v => ("num", [v])) else none
      (st, { model := showSeen d, oracle := actorOracle impl, nontrivial := d.isNone })
    | none => (st, { model := "bad-op" })
  | ["actor", "job", "cast", tag, h, m] =>
    match unhex? h, (if m == "none" then some none else (unhex? m).map some) with
    | some args, some mb =>
      -- `Codec.decodeJob`: metadata, key (`u64::from_bytes`), inner message
      let d := (decodeJob (.uint 8) (variants st) (.cast tag args) mb).bind fun r =>
        match r.1 with
        | .nat k => some (s!"job {k} {r.2.2.1}", r.2.2.2)
        | _ => none
      (st, { model := showSeen d, oracle := actorOracle impl, nontrivial := d.isNone })
    | _, _ => (st, { model := "bad-op" })
  | _ => (st, { model := "bad-op" })

def run (ops impl : Array String) : IO Tally :=
  replay ({} : St) step ops impl

end Driver.C19
