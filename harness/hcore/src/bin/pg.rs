//! C11 harness: process groups of the REAL ractor (`ractor::pg`).
//!
//!  * `--mode lts`: API-level differential on a paused current_thread runtime, run to
//!    quiescence between ops: join/leave (duplicates, repeated joins, dead actors in the list,
//!    non-members in a leave), group/scope/all-scopes monitors whose `handle_supervisor_evt`
//!    logs every `ProcessGroupChanged`, demonitors, actor exits; after EVERY op the harness
//!    records the notifications each monitor received, `pg::verif_snapshot()` (the four
//!    indexes) and all six public queries over 3 scopes x 3 groups.
//!    In the cluster build (`pg_cl`) some actors have remote ids (`spawn_linked_remote`).
//!  * `--mode thr`: the exit sequence of an actor (schedule points `status.*`,
//!    `pg.demonitor_all.*`, `pg.leave_all.*`) on one OS thread racing `join_scoped` /
//!    `monitor` / `monitor_scope` / `leave_scoped` calls on another (points `pg.join.*`,
//!    `pg.monitor*.*`, `pg.leave.notify`) under a PRNG schedule; judged when the exiter's
//!    `wait()` has returned and both threads are done.
//!
//! Line protocol: lean/Driver/Pg.lean.

use std::collections::BTreeMap;
use std::sync::{Arc, Mutex};
use std::time::Duration;

use hutil::{Args, Log, Rng, Stats};
use ractor::pg;
use ractor::verif::{self, ThreadCtl, ThreadPhase};
use ractor::{Actor, ActorCell, ActorId, ActorProcessingErr, ActorRef, ActorStatus, SupervisionEvent};

fn scope_name(s: u64) -> String {
    match s {
        0 => pg::ALL_SCOPES_NOTIFICATION.to_string(),
        1 => pg::DEFAULT_SCOPE.to_string(),
        n => format!("c11-s{n}"),
    }
}
fn scope_back(s: &str) -> u64 {
    if s == pg::ALL_SCOPES_NOTIFICATION {
        0
    } else if s == pg::DEFAULT_SCOPE {
        1
    } else {
        s.strip_prefix("c11-s").and_then(|x| x.parse().ok()).unwrap_or(99)
    }
}
fn group_name(g: u64) -> String {
    format!("c11-g{g}")
}
fn group_back(g: &str) -> u64 {
    if g == pg::ALL_GROUPS_NOTIFICATION {
        return 0;
    }
    g.strip_prefix("c11-g").and_then(|x| x.parse().ok()).unwrap_or(99)
}

type EvLog = Arc<Mutex<Vec<(ActorId, bool, String, String, Vec<ActorId>)>>>;

/// Test actor: logs every process-group notification it receives.
struct PA {
    log: EvLog,
    /// `post_stop` waits at the gate when asked to: the actor is parked in `Stopping`
    hold: Arc<std::sync::atomic::AtomicBool>,
    gate: Arc<tokio::sync::Notify>,
}

type Gate = (Arc<std::sync::atomic::AtomicBool>, Arc<tokio::sync::Notify>);

impl PA {
    fn new(log: EvLog) -> (PA, Gate) {
        let hold = Arc::new(std::sync::atomic::AtomicBool::new(false));
        let gate = Arc::new(tokio::sync::Notify::new());
        (PA { log, hold: hold.clone(), gate: gate.clone() }, (hold, gate))
    }
}

impl Actor for PA {
    type Msg = ();
    type State = ();
    type Arguments = ();
    async fn pre_start(&self, _: ActorRef<()>, _: ()) -> Result<(), ActorProcessingErr> {
        Ok(())
    }
    async fn post_stop(&self, _: ActorRef<()>, _: &mut ()) -> Result<(), ActorProcessingErr> {
        if self.hold.load(std::sync::atomic::Ordering::SeqCst) {
            self.gate.notified().await;
        }
        Ok(())
    }
    async fn handle_supervisor_evt(
        &self,
        myself: ActorRef<()>,
        ev: SupervisionEvent,
        _: &mut (),
    ) -> Result<(), ActorProcessingErr> {
        if let SupervisionEvent::ProcessGroupChanged(change) = ev {
            let (j, s, g, a) = match change {
                pg::GroupChangeMessage::Join(s, g, a) => (true, s, g, a),
                pg::GroupChangeMessage::Leave(s, g, a) => (false, s, g, a),
            };
            self.log.lock().unwrap().push((myself.get_id(), j, s, g, a.iter().map(|c| c.get_id()).collect()));
        }
        Ok(())
    }
}

#[derive(Default)]
struct World {
    cells: BTreeMap<u64, ActorCell>,
    remote: Vec<u64>,
    evlog: EvLog,
    #[allow(dead_code)]
    sup: Option<ActorCell>,
    gates: BTreeMap<u64, Gate>,
    /// every actor that was ever seen `≥ Stopping`: status words must never move backwards, and a
    /// stopping actor must never be admitted again
    ever_dead: Mutex<std::collections::BTreeSet<u64>>,
}

fn plus(v: &[u64]) -> String {
    if v.is_empty() {
        "-".into()
    } else {
        v.iter().map(|x| x.to_string()).collect::<Vec<_>>().join("+")
    }
}
fn semi(v: Vec<String>) -> String {
    if v.is_empty() {
        "-".into()
    } else {
        v.join(";")
    }
}

impl World {
    fn k_of(&self, id: ActorId) -> u64 {
        self.cells.iter().find(|(_, c)| c.get_id() == id).map(|(k, _)| *k).unwrap_or(999)
    }
    fn ks(&self, ids: &[ActorId], sort: bool) -> Vec<u64> {
        let mut v: Vec<u64> = ids.iter().map(|i| self.k_of(*i)).collect();
        if sort {
            v.sort();
        }
        v
    }
    fn cells_of(&self, cs: &[ActorCell]) -> Vec<u64> {
        let mut v: Vec<u64> = cs.iter().map(|c| self.k_of(c.get_id())).collect();
        v.sort();
        v
    }

    /// notifications received since the last call, canonical
    fn take_events(&self) -> String {
        self.take_events_f(false)
    }

    /// `alive_only`: drop what monitors that are stopping/stopped by now had received
    fn take_events_f(&self, alive_only: bool) -> String {
        let evs: Vec<_> = std::mem::take(&mut *self.evlog.lock().unwrap());
        let mut out: Vec<String> = evs
            .iter()
            .filter(|(m, ..)| {
                !alive_only
                    || self.cells.values().find(|c| c.get_id() == *m).map(|c| c.get_status() < ActorStatus::Stopping).unwrap_or(true)
            })
            .map(|(m, j, s, g, a)| {
                format!(
                    "{}:{}:{}:{}:{}",
                    self.k_of(*m),
                    if *j { "J" } else { "L" },
                    scope_back(s),
                    group_back(g),
                    plus(&self.ks(a, false))
                )
            })
            .collect();
        out.sort();
        semi(out)
    }

    fn snapshot(&self) -> String {
        self.snapshot_f(false)
    }

    /// `drop_empty_rel`: mid-race form — reverse-index entries that hold nothing are left out (an empty
    /// entry is created and removed by whoever gets there first; the model does not track their `Arc`s)
    fn snapshot_f(&self, drop_empty_rel: bool) -> String {
        let snap = pg::verif_snapshot();
        let mut m: Vec<((u64, u64), String)> = snap
            .map
            .iter()
            .map(|(s, g, mem, lis)| {
                let k = (scope_back(s), group_back(g));
                (k, format!("{}.{}:{}/{}", k.0, k.1, plus(&self.ks(mem, true)), plus(&self.ks(lis, true))))
            })
            .collect();
        m.sort();
        let mut i: Vec<(u64, String)> = snap
            .index
            .iter()
            .map(|(s, gs)| {
                let mut g: Vec<u64> = gs.iter().map(|g| group_back(g)).collect();
                g.sort();
                (scope_back(s), format!("{}:{}", scope_back(s), plus(&g)))
            })
            .collect();
        i.sort();
        let mut w: Vec<(u64, String)> = snap
            .world
            .iter()
            .map(|(s, _, lis)| (scope_back(s), format!("{}:{}", scope_back(s), plus(&self.ks(lis, true)))))
            .collect();
        w.sort();
        let keys = |v: &Vec<(String, String)>| -> String {
            let mut k: Vec<(u64, u64)> = v.iter().map(|(s, g)| (scope_back(s), group_back(g))).collect();
            k.sort();
            if k.is_empty() {
                "-".into()
            } else {
                k.iter().map(|(s, g)| format!("{s}.{g}")).collect::<Vec<_>>().join("+")
            }
        };
        let mut r: Vec<(u64, String)> = snap
            .relations
            .iter()
            .filter(|(_, mem, gm, wm)| !drop_empty_rel || !(mem.is_empty() && gm.is_empty() && wm.is_empty()))
            .map(|(id, mem, gm, wm)| {
                let k = self.k_of(*id);
                let mut ws: Vec<u64> = wm.iter().map(|(s, _)| scope_back(s)).collect();
                ws.sort();
                (k, format!("{k}:{}/{}/{}", keys(mem), keys(gm), plus(&ws)))
            })
            .collect();
        r.sort();
        let dead: Vec<u64> = {
            let mut ever = self.ever_dead.lock().unwrap();
            for (k, c) in self.cells.iter() {
                if c.get_status() >= ActorStatus::Stopping {
                    ever.insert(*k);
                }
            }
            ever.iter().filter(|k| self.cells.contains_key(k)).cloned().collect()
        };
        format!(
            "map={} idx={} world={} rel={} dead={}",
            semi(m.into_iter().map(|x| x.1).collect()),
            semi(i.into_iter().map(|x| x.1).collect()),
            semi(w.into_iter().map(|x| x.1).collect()),
            semi(r.into_iter().map(|x| x.1).collect()),
            plus(&dead)
        )
    }

    /// the six public queries over the scope x group universe
    fn queries(&self) -> String {
        let (mut gm, mut lm, mut wsg) = (Vec::new(), Vec::new(), Vec::new());
        for s in 1..=3u64 {
            for g in 0..=2u64 {
                let all = if s == 1 && g % 2 == 0 {
                    pg::get_members(&group_name(g))
                } else {
                    pg::get_scoped_members(&scope_name(s), &group_name(g))
                };
                let loc = if s == 1 && g % 2 == 1 {
                    pg::get_local_members(&group_name(g))
                } else {
                    pg::get_scoped_local_members(&scope_name(s), &group_name(g))
                };
                if !all.is_empty() {
                    gm.push(format!("{s}.{g}:{}", plus(&self.cells_of(&all))));
                }
                if !loc.is_empty() {
                    lm.push(format!("{s}.{g}:{}", plus(&self.cells_of(&loc))));
                }
            }
            let mut gs: Vec<u64> = pg::which_scoped_groups(&scope_name(s)).iter().map(|g| group_back(g)).collect();
            gs.sort();
            if !gs.is_empty() {
                wsg.push(format!("{s}:{}", plus(&gs)));
            }
        }
        let mut wg: Vec<u64> = pg::which_groups().iter().map(|g| group_back(g)).collect();
        wg.sort();
        wg.dedup();
        let mut ws: Vec<u64> = pg::which_scopes().iter().map(|s| scope_back(s)).collect();
        ws.sort();
        ws.dedup();
        let mut wsag: Vec<(u64, u64)> =
            pg::which_scopes_and_groups().iter().map(|k| (scope_back(&k.get_scope()), group_back(&k.get_group()))).collect();
        wsag.sort();
        let wsag_s = if wsag.is_empty() {
            "-".to_string()
        } else {
            wsag.iter().map(|(s, g)| format!("{s}.{g}")).collect::<Vec<_>>().join("+")
        };
        format!("gm={} lm={} wg={} ws={} wsg={} wsag={}", semi(gm), semi(lm), plus(&wg), plus(&ws), semi(wsg), wsag_s)
    }

    fn observe(&self) -> String {
        format!("ev={} {} {}", self.take_events(), self.snapshot(), self.queries())
    }
    fn observe_alive(&self) -> String {
        format!("ev={} {} {}", self.take_events_f(true), self.snapshot(), self.queries())
    }
}

async fn quiesce() {
    tokio::time::sleep(Duration::from_millis(1)).await;
}

fn parse_ks(s: &str) -> Vec<u64> {
    if s == "-" {
        vec![]
    } else {
        s.split(',').filter_map(|x| x.parse().ok()).collect()
    }
}

/// Apply one pg API op (shared by the E-LTS executor and the E-THR racer thread).
fn apply_pg(cells: &BTreeMap<u64, ActorCell>, t: &[&str]) -> bool {
    let cs = |ks: &str| -> Vec<ActorCell> { parse_ks(ks).iter().filter_map(|k| cells.get(k).cloned()).collect() };
    match t {
        ["join", s, g, ks] => {
            let (s, g): (u64, u64) = (s.parse().unwrap_or(1), g.parse().unwrap_or(0));
            if s == 1 && g % 2 == 0 {
                pg::join(group_name(g), cs(ks));
            } else {
                pg::join_scoped(scope_name(s), group_name(g), cs(ks));
            }
            true
        }
        ["leave", s, g, ks] => {
            let (s, g): (u64, u64) = (s.parse().unwrap_or(1), g.parse().unwrap_or(0));
            if s == 1 && g % 2 == 0 {
                pg::leave(group_name(g), cs(ks));
            } else {
                pg::leave_scoped(scope_name(s), group_name(g), cs(ks));
            }
            true
        }
        ["monitor", g, a] => {
            if let Some(c) = a.parse().ok().and_then(|a: u64| cells.get(&a).cloned()) {
                pg::monitor(group_name(g.parse().unwrap_or(0)), c);
            }
            true
        }
        ["monitorscope", s, a] => {
            if let Some(c) = a.parse().ok().and_then(|a: u64| cells.get(&a).cloned()) {
                pg::monitor_scope(scope_name(s.parse().unwrap_or(1)), c);
            }
            true
        }
        ["demonitor", g, a] => {
            if let Some(c) = a.parse().ok().and_then(|a: u64| cells.get(&a).cloned()) {
                pg::demonitor(group_name(g.parse().unwrap_or(0)), c.get_id());
            }
            true
        }
        ["drain", a] => {
            // only the LATE drain is of interest here (a drain of a live actor is an exit of its own);
            // statuses only grow, so once Stopping has been seen the call below is a late one
            if let Some(c) = a.parse().ok().and_then(|a: u64| cells.get(&a).cloned()) {
                if c.get_status() >= ActorStatus::Stopping {
                    let _ = c.drain();
                }
            }
            true
        }
        ["demonitorscope", s, a] => {
            if let Some(c) = a.parse().ok().and_then(|a: u64| cells.get(&a).cloned()) {
                pg::demonitor_scope(scope_name(s.parse().unwrap_or(1)), c.get_id());
            }
            true
        }
        _ => false,
    }
}

async fn exec(w: &mut World, log: &mut Log, st: &mut Stats, line: &str, cluster: bool) {
    let t: Vec<&str> = line.split_whitespace().collect();
    match t.as_slice() {
        ["case", ..] => {
            for (h, g) in w.gates.values() {
                h.store(false, std::sync::atomic::Ordering::SeqCst);
                g.notify_one();
            }
            for c in w.cells.values() {
                c.kill();
            }
            if let Some(s) = &w.sup {
                s.kill();
            }
            quiesce().await;
            quiesce().await;
            *w = World::default();
            st.bump("cases");
        }
        ["actor", k, kind] => {
            if let Ok(k) = k.parse::<u64>() {
                if !w.cells.contains_key(&k) {
                    if *kind == "R" {
                        spawn_remote(w, k, cluster).await;
                    } else {
                        let (pa, gate) = PA::new(w.evlog.clone());
                        if let Ok((a, _)) = Actor::spawn(None, pa, ()).await {
                            w.cells.insert(k, a.get_cell());
                            w.gates.insert(k, gate);
                        }
                    }
                    quiesce().await;
                    st.bump(if *kind == "R" { "actor_remote" } else { "actor_local" });
                }
            }
        }
        ["exit", a, ..] => {
            if let Some(c) = a.parse().ok().and_then(|a: u64| w.cells.get(&a).cloned()) {
                if t.len() > 2 && t[2] == "kill" {
                    c.kill();
                } else {
                    c.stop(None);
                }
                quiesce().await;
                st.bump("exit");
            }
        }
        // park an actor in `post_stop`: status Stopping, automatic leave done, task still alive
        ["hold", a] => {
            if let Some(c) = a.parse().ok().and_then(|a: u64| w.cells.get(&a).cloned()) {
                let k: u64 = a.parse().unwrap_or(0);
                if c.get_status() < ActorStatus::Stopping {
                    if let Some((h, _)) = w.gates.get(&k) {
                        h.store(true, std::sync::atomic::Ordering::SeqCst);
                    }
                }
                c.stop(None);
                quiesce().await;
                st.bump("hold");
            }
        }
        ["release", a] => {
            if let Some((h, g)) = a.parse().ok().and_then(|a: u64| w.gates.get(&a)) {
                h.store(false, std::sync::atomic::Ordering::SeqCst);
                g.notify_one();
                quiesce().await;
                st.bump("release");
            }
        }
        // a call through a stale reference to an actor that is already stopping
        ["late", a, how] => {
            if let Some(c) = a.parse().ok().and_then(|a: u64| w.cells.get(&a).cloned()) {
                if c.get_status() >= ActorStatus::Stopping {
                    if *how == "drain" {
                        let _ = c.drain();
                    } else {
                        c.stop(None);
                    }
                    quiesce().await;
                    st.bump(&format!("late_{how}"));
                }
            }
        }
        // an actor that is Draining (status 4 < Stopping) is still a legitimate member/monitor:
        // `drain()` publishes Draining at once, the pg call follows with no poll in between, then the
        // actor handles the drain marker and exits. One logged line = pg call + exit.
        ["drainjoin", k, s, g, ks] => {
            if let Some(c) = k.parse().ok().and_then(|a: u64| w.cells.get(&a).cloned()) {
                let _ = c.drain();
                apply_pg(&w.cells, &["join", s, g, ks]);
                quiesce().await;
                st.bump(if c.get_status() >= ActorStatus::Stopping { "drainjoin" } else { "drainjoin_noexit" });
            }
        }
        ["drainmon", k, g] => {
            if let Some(c) = k.parse().ok().and_then(|a: u64| w.cells.get(&a).cloned()) {
                let _ = c.drain();
                apply_pg(&w.cells, &["monitor", g, k]);
                quiesce().await;
                st.bump("drainmon");
            }
        }
        other => {
            if apply_pg(&w.cells, other) {
                st.bump(other[0]);
                quiesce().await;
            } else {
                st.bump("bad_op");
            }
        }
    }
    // `exit a kill` is logged as `exit a` (the model does not distinguish); a join/leave is logged
    // with the actors that exist (a shrunk replay may name actors whose creation was cut away)
    let logged = if t.first() == Some(&"exit") && t.len() > 2 {
        format!("exit {}", t[1])
    } else if t.first() == Some(&"drainjoin") && t.len() == 5 {
        let ks: Vec<String> = parse_ks(t[4]).iter().filter(|k| w.cells.contains_key(k)).map(|k| k.to_string()).collect();
        format!("drainjoin {} {} {} {}", t[1], t[2], t[3], if ks.is_empty() { "-".to_string() } else { ks.join(",") })
    } else if (t.first() == Some(&"join") || t.first() == Some(&"leave")) && t.len() == 4 {
        let ks: Vec<String> = parse_ks(t[3]).iter().filter(|k| w.cells.contains_key(k)).map(|k| k.to_string()).collect();
        format!("{} {} {} {}", t[0], t[1], t[2], if ks.is_empty() { "-".to_string() } else { ks.join(",") })
    } else {
        line.to_string()
    };
    log.rec(logged, w.observe());
}

#[cfg(not(feature = "cluster"))]
async fn spawn_remote(_w: &mut World, _k: u64, _cluster: bool) {}

#[cfg(feature = "cluster")]
async fn spawn_remote(w: &mut World, k: u64, _cluster: bool) {
    if w.sup.is_none() {
        // a supervisor outside the model: it joins no group and monitors nothing
        if let Ok((s, _)) = Actor::spawn(None, PA::new(Arc::new(Mutex::new(Vec::new()))).0, ()).await {
            w.sup = Some(s.get_cell());
        }
    }
    let Some(sup) = w.sup.clone() else { return };
    let id = ActorId::Remote { node_id: 9, pid: 5000 + k };
    if let Ok((a, _)) = ractor::ActorRuntime::spawn_linked_remote(None, PA::new(w.evlog.clone()).0, id, (), sup).await {
        w.cells.insert(k, a.get_cell());
        w.remote.push(k);
    }
}

fn pick_actors(rng: &mut Rng, n_actors: u64, max: u64) -> String {
    let n = rng.range(1, max);
    let mut v: Vec<String> = Vec::new();
    for _ in 0..n {
        v.push(rng.below(n_actors).to_string());
    }
    // sometimes an immediate duplicate
    if rng.chance(1, 5) {
        let d = v[0].clone();
        v.push(d);
    }
    v.join(",")
}

async fn gen_case(w: &mut World, log: &mut Log, st: &mut Stats, rng: &mut Rng, cluster: bool, len: u64) {
    exec(w, log, st, "case", cluster).await;
    let n_actors = rng.range(3, 6);
    for k in 0..n_actors {
        let kind = if cluster && rng.chance(1, 3) { "R" } else { "L" };
        exec(w, log, st, &format!("actor {k} {kind}"), cluster).await;
    }
    let n_scopes = rng.range(1, 3);
    let n_groups = rng.range(1, 3);
    let mut next = n_actors;
    for _ in 0..len {
        let s = rng.range(1, n_scopes);
        let g = rng.below(n_groups);
        let c = rng.below(100);
        let held: Vec<u64> = w.cells.iter().filter(|(_, c)| c.get_status() == ActorStatus::Stopping).map(|(k, _)| *k).collect();
        let line = if c < 6 && !held.is_empty() {
            // somebody still holds a reference to an actor that sits in post_stop
            let k = *rng.pick(&held);
            match rng.below(6) {
                0 | 1 => format!("late {k} drain"),
                2 => format!("late {k} stop"),
                3 => format!("join {s} {g} {k},{}", rng.below(next)),
                4 => format!("monitor {g} {k}"),
                _ => format!("release {k}"),
            }
        } else if c < 9 {
            format!("hold {}", rng.below(next))
        } else if c < 30 {
            format!("join {s} {g} {}", pick_actors(rng, next, 3))
        } else if c < 48 {
            format!("leave {s} {g} {}", pick_actors(rng, next, 2))
        } else if c < 58 {
            format!("monitor {g} {}", rng.below(next))
        } else if c < 68 {
            // scope 0 = all scopes
            format!("monitorscope {} {}", rng.range(0, n_scopes), rng.below(next))
        } else if c < 74 {
            format!("demonitor {g} {}", rng.below(next))
        } else if c < 80 {
            format!("demonitorscope {} {}", rng.range(0, n_scopes), rng.below(next))
        } else if c < 84 {
            // the draining actor itself is among the joiners
            let k = rng.below(next);
            format!("drainjoin {k} {s} {g} {k},{}", rng.below(next))
        } else if c < 86 {
            format!("drainmon {} {g}", rng.below(next))
        } else if c < 92 {
            if rng.chance(1, 3) {
                format!("exit {} kill", rng.below(next))
            } else {
                format!("exit {}", rng.below(next))
            }
        } else if next < 9 {
            next += 1;
            let kind = if cluster && rng.chance(1, 3) { "R" } else { "L" };
            format!("actor {} {kind}", next - 1)
        } else {
            format!("join {s} {g} {}", pick_actors(rng, next, 3))
        };
        exec(w, log, st, &line, cluster).await;
    }
}

async fn replay_file(w: &mut World, log: &mut Log, st: &mut Stats, path: &str, cluster: bool) {
    let text = std::fs::read_to_string(path).unwrap_or_default();
    let mut started = false;
    let mut in_thr = false;
    for line in text.lines() {
        let line = line.trim();
        if line.is_empty() || line.starts_with('#') {
            continue;
        }
        st.bump("replayed_ops");
        if line.starts_with("thrcase ") {
            in_thr = true;
            started = true;
            let tag = line.split_whitespace().nth(1).unwrap_or("1").to_string();
            // leave a clean table for the threaded case
            exec(w, log, st, "case", cluster).await;
            thr::run_tagged(log, st, &tag);
            continue;
        }
        if line.starts_with("case") {
            in_thr = false;
            started = true;
        }
        if in_thr {
            continue;
        }
        if !started {
            exec(w, log, st, "case", cluster).await;
            started = true;
        }
        exec(w, log, st, line, cluster).await;
    }
}

pub fn main_with(cluster: bool) {
    let args = Args::parse();
    let seed = args.u64("seed", 1);
    let cases = args.u64("cases", 40);
    let out = args.str("out", "/tmp/c11");
    let mode = args.str("mode", "lts");
    let len = args.u64("len", 80);
    let mut rng = Rng::new(seed);
    let mut log = Log::create(std::path::Path::new(&out)).unwrap();
    let mut st = Stats::default();
    let rt = tokio::runtime::Builder::new_current_thread().enable_all().start_paused(true).build().unwrap();
    let replay = args.str("replay-ops", "");
    let only_replay = args.u64("only-replay", 0) == 1;
    rt.block_on(async {
        let mut w = World::default();
        for f in replay.split(',').filter(|f| !f.is_empty()) {
            replay_file(&mut w, &mut log, &mut st, f, cluster).await;
        }
        if !only_replay && mode == "lts" {
            for _ in 0..cases {
                gen_case(&mut w, &mut log, &mut st, &mut rng, cluster, len).await;
            }
        }
        exec(&mut w, &mut log, &mut st, "case", cluster).await;
    });
    if !only_replay && mode == "thr" {
        for _ in 0..cases {
            let s = rng.next_u64() % 1_000_000_000;
            thr::run_case(&mut log, &mut st, s);
        }
    }
    if !only_replay && mode == "thrx" {
        // exhaustive: every interleaving of the fixed small scenarios (cases = cap per scenario)
        let only: Vec<u64> = args.str("scn", "").split(',').filter_map(|x| x.parse().ok()).collect();
        thr::exhaustive(&mut log, &mut st, cases, &only);
    }
    st.add("lines", log.lines);
    st.write_json(&std::path::Path::new(&out).join("stats.json"));
    log.finish();
}

#[allow(dead_code)]
fn main() {
    main_with(false)
}

// =====================================================================================
// E-THR: exit sequence vs join / monitor / leave on another OS thread
// =====================================================================================
mod thr {
    use super::*;
    use std::sync::mpsc;

    /// Owner thread: spawns the actors, runs the setup ops, then (parked at every point)
    /// stops the exiter and waits for it; finally lets the monitors drain their mailboxes.
    fn owner_body(
        n_actors: u64,
        setup: Vec<String>,
        exiter: u64,
        kill: bool,
        do_exit: bool,
        evlog: EvLog,
        extra: Option<ActorCell>,
        ctl: Arc<ThreadCtl>,
        tx: mpsc::Sender<BTreeMap<u64, ActorCell>>,
        done_racer: mpsc::Receiver<()>,
        tx_done: mpsc::Sender<()>,
        finish: mpsc::Receiver<()>,
    ) {
        let rt = tokio::runtime::Builder::new_current_thread().enable_all().start_paused(true).build().unwrap();
        rt.block_on(async {
            let mut cells = BTreeMap::new();
            for k in 0..n_actors {
                if let Ok((a, _)) = Actor::spawn(None, PA::new(evlog.clone()).0, ()).await {
                    cells.insert(k, a.get_cell());
                }
            }
            // the second exiter lives on its own thread (its own runtime): index `n_actors`
            if let Some(c) = extra {
                cells.insert(n_actors, c);
            }
            quiesce().await;
            for l in &setup {
                let t: Vec<&str> = l.split_whitespace().collect();
                apply_pg(&cells, &t);
            }
            quiesce().await;
            tx.send(cells.clone()).unwrap();
            verif::thread_register(ctl.clone());
            verif::point("h.go");
            let x = cells[&exiter].clone();
            if do_exit {
                if kill {
                    x.kill();
                } else {
                    x.stop(None);
                }
                let _ = x.wait(None).await;
            }
            verif::point("h.waited");
            verif::thread_unregister();
            // let the racer finish, then let every monitor handle what it was sent
            let _ = done_racer.recv();
            quiesce().await;
            quiesce().await;
            tx_done.send(()).unwrap();
            // keep the actors alive until the controller has looked, then leave nothing behind
            let _ = finish.recv();
            for c in cells.values() {
                c.kill();
            }
            quiesce().await;
            quiesce().await;
        });
    }

    /// Second owner thread: hosts ONE actor on its own runtime and, parked at every point, runs its
    /// exit (stop or kill + `wait()`), so that two exit sequences interleave region by region.
    fn owner2_body(evlog: EvLog, ctl: Arc<ThreadCtl>, tx_cell: mpsc::Sender<ActorCell>, go: mpsc::Receiver<bool>, finish: mpsc::Receiver<()>) {
        let rt = tokio::runtime::Builder::new_current_thread().enable_all().start_paused(true).build().unwrap();
        rt.block_on(async {
            let Ok((a, _)) = Actor::spawn(None, PA::new(evlog.clone()).0, ()).await else {
                return;
            };
            quiesce().await;
            let x = a.get_cell();
            let _ = tx_cell.send(x.clone());
            let Ok(kill) = go.recv() else {
                x.kill();
                quiesce().await;
                return;
            };
            verif::thread_register(ctl.clone());
            verif::point("h.go");
            if kill {
                x.kill();
            } else {
                x.stop(None);
            }
            let _ = x.wait(None).await;
            verif::point("h.waited");
            verif::thread_unregister();
            let _ = finish.recv();
            quiesce().await;
            quiesce().await;
        });
    }

    /// the (scope, group) pairs whose forward entry currently contains the actor
    fn member_keys(x: &ActorCell) -> Vec<(u64, u64)> {
        pg::verif_snapshot()
            .map
            .iter()
            .filter(|(_, _, mem, _)| mem.contains(&x.get_id()))
            .map(|(s, g, _, _)| (scope_back(s), group_back(g)))
            .collect()
    }

    /// the group keys / world scopes whose listener list currently contains the actor
    fn listener_keys(x: &ActorCell) -> (Vec<(u64, u64)>, Vec<u64>) {
        let snap = pg::verif_snapshot();
        (
            snap.map.iter().filter(|(_, _, _, lis)| lis.contains(&x.get_id())).map(|(s, g, _, _)| (scope_back(s), group_back(g))).collect(),
            snap.world.iter().filter(|(_, _, lis)| lis.contains(&x.get_id())).map(|(s, _, _)| scope_back(s)).collect(),
        )
    }

    /// How the controller picks the next thread.
    pub enum Sched {
        Random { rng: Rng, sticky: u64 },
        /// scripted prefix (index into the parked list at each branching step), then always 0;
        /// `opts` records the number of options met at every branching step
        Script { prefix: Vec<usize>, taken: Vec<usize>, opts: Vec<usize> },
    }

    pub struct Spec {
        pub tag: String,
        pub n_actors: u64,
        pub setup: Vec<String>,
        /// one program per racer thread
        pub progs: Vec<Vec<String>>,
        pub kill: bool,
        /// does the owner thread run the exit of actor 0 at all?
        pub exit: bool,
        /// a second exiter (actor index `n_actors`) on a second owner thread: exit ‖ exit
        pub exit2: Option<bool>,
    }

    /// the fixed small scenarios of the exhaustive sweep
    pub fn scenario(i: u64) -> Option<Spec> {
        // actor 0 (the exiter) is a member of (1,0) with actor 1 and monitors it; actor 2 monitors
        // scope 1 (and, from scenario 6 on, group (1,0) as well)
        let base = vec!["join 1 0 0,1".to_string(), "monitor 0 0".to_string(), "monitorscope 1 2".to_string()];
        let mut watch = base.clone();
        watch.push("monitor 0 2".to_string());
        let (setup, progs, kill, exit): (Vec<String>, Vec<Vec<&str>>, bool, bool) = match i {
            0 => (base, vec![vec!["monitor 1 0"]], false, true),
            1 => (base, vec![vec!["monitorscope 0 0"]], true, true),
            2 => (base, vec![vec!["leave 1 0 0,1"]], false, true),
            3 => (base, vec![vec!["join 1 1 0,1"]], false, true),
            4 => (base, vec![vec!["join 1 0 0"]], true, true),
            5 => (base, vec![vec!["demonitor 0 0", "monitor 0 0"]], false, true),
            // who is told about the automatic Leave: a bystander (de)monitors during the exit
            6 => (watch, vec![vec!["demonitor 0 2"]], false, true),
            7 => (watch, vec![vec!["monitor 0 1"]], true, true),
            8 => (watch, vec![vec!["demonitorscope 1 2"]], false, true),
            9 => (watch, vec![vec!["monitorscope 0 1"]], false, true),
            // who is told about a join / a leave: two racers, no exit
            10 => (watch, vec![vec!["join 1 0 1,2"], vec!["demonitor 0 2"]], false, false),
            11 => (watch, vec![vec!["join 1 1 1"], vec!["monitor 1 2"]], false, false),
            12 => (watch, vec![vec!["leave 1 0 1"], vec!["demonitorscope 1 2"]], false, false),
            13 => (watch, vec![vec!["join 1 0 2"], vec!["monitorscope 0 1"]], false, false),
            // `demonitor*` fetches the reverse-index `Arc` before it takes the entry: a first `monitor*` of an actor
            // that has no reverse-index entry yet, racing with it (the stale reverse-only monitor entry)
            14 => (vec!["join 1 0 0".to_string()], vec![vec!["monitor 0 1"], vec!["demonitor 0 1"]], false, false),
            15 => (vec!["join 1 0 0".to_string()], vec![vec!["monitorscope 1 1"], vec!["demonitorscope 1 1", "monitor 0 1"]], false, false),
            _ => return None,
        };
        Some(Spec {
            tag: format!("x:{i}"),
            n_actors: 3,
            setup,
            progs: progs.iter().map(|p| p.iter().map(|s| s.to_string()).collect()).collect(),
            kill,
            exit,
            exit2: None,
        })
    }

    fn random_spec(seed: u64) -> (Spec, Sched) {
        let mut rng = Rng::new(seed);
        let n_actors = rng.range(3, 4);
        // setup: the exiter is a member of 0-2 groups and monitors 0-2 things; a bystander
        // monitors groups / the scope / everything and logs what it is told
        let mut setup: Vec<String> = Vec::new();
        for _ in 0..rng.range(0, 4) {
            let c = rng.below(6);
            let g = rng.below(2);
            let s = rng.range(1, 2);
            setup.push(match c {
                0 | 1 => format!("join {s} {g} {}", if rng.chance(1, 2) { "0".to_string() } else { "0,1".to_string() }),
                2 => format!("monitor {g} 0"),
                3 => format!("monitorscope {} 0", rng.range(0, 2)),
                4 => format!("join {s} {g} 1"),
                _ => format!("monitor {g} 2"),
            });
        }
        setup.push(format!("monitorscope {} 2", rng.range(0, 1)));
        if rng.chance(1, 2) {
            setup.push(format!("monitor {} 2", rng.below(2)));
        }
        // racer programs: calls naming the exiter, and bystanders (de)monitoring meanwhile
        let n_racers = rng.range(1, 2);
        let mut progs: Vec<Vec<String>> = Vec::new();
        for r in 0..n_racers {
            let mut prog: Vec<String> = Vec::new();
            for _ in 0..rng.range(1, 3) {
                let c = rng.below(16);
                let g = rng.below(2);
                let s = rng.range(1, 2);
                let by = rng.range(1, 2); // a bystander
                prog.push(match c {
                    0 | 1 => format!("join {s} {g} {}", *rng.pick(&["0", "0,1", "1,0", "0,0"])),
                    2 => "drain 0".to_string(),
                    3 | 4 => format!("monitor {g} 0"),
                    5 => format!("monitorscope {} 0", rng.range(0, 2)),
                    6 => format!("leave {s} {g} {}", *rng.pick(&["0", "0,1"])),
                    7 => format!("join {s} {g} {}", *rng.pick(&["1", "2", "1,2"])),
                    8 => format!("demonitor {g} 0"),
                    9 | 10 => format!("monitor {g} {by}"),
                    11 | 12 => format!("demonitor {g} {by}"),
                    13 => format!("monitorscope {} {by}", rng.range(0, 2)),
                    14 => format!("demonitorscope {} {by}", rng.range(0, 2)),
                    _ => format!("leave {s} {g} {}", *rng.pick(&["1", "2"])),
                });
            }
            if rng.chance(1, 4) {
                // the late-drain window: drain the exiter through a stale reference, then name it in a join
                prog.push("drain 0".to_string());
                prog.push(format!("join {} {} 0", rng.range(1, 2), rng.below(2)));
            }
            let _ = r;
            progs.push(prog);
        }
        let kill = rng.chance(1, 3);
        let sticky = rng.below(4);
        let exit = rng.chance(5, 6);
        // exit ‖ exit: a second exiter (index `n_actors`, own thread) with its own memberships / monitors,
        // named by the racers as well (own PRNG stream: the rest of the case is what it was before)
        let mut rng2 = Rng::new(seed ^ 0x5bd1_e995_9e37_79b9);
        let exit2 = if rng2.chance(1, 2) { Some(rng2.chance(1, 3)) } else { None };
        if exit2.is_some() {
            let e2 = n_actors;
            for _ in 0..rng2.range(1, 3) {
                let g = rng2.below(2);
                let sc = rng2.range(1, 2);
                setup.push(match rng2.below(6) {
                    0 | 1 => format!("join {sc} {g} {e2}"),
                    2 => format!("join {sc} {g} 0,{e2}"),
                    3 => format!("monitor {g} {e2}"),
                    4 => format!("monitorscope {} {e2}", rng2.range(0, 2)),
                    _ => format!("join {sc} {g} 1,{e2}"),
                });
            }
            for _ in 0..rng2.range(0, 2) {
                let g = rng2.below(2);
                let sc = rng2.range(1, 2);
                let op = match rng2.below(6) {
                    0 | 1 => format!("join {sc} {g} {}", *rng2.pick(&[format!("{e2}"), format!("0,{e2}"), format!("{e2},1")])),
                    2 => format!("monitor {g} {e2}"),
                    3 => format!("monitorscope {} {e2}", rng2.range(0, 2)),
                    4 => format!("leave {sc} {g} {}", *rng2.pick(&[format!("{e2}"), format!("0,{e2}")])),
                    _ => format!("demonitor {g} {e2}"),
                };
                let which = rng2.below(progs.len() as u64) as usize;
                let at = rng2.below(progs[which].len() as u64 + 1) as usize;
                progs[which].insert(at, op);
            }
        }
        (Spec { tag: seed.to_string(), n_actors, setup, progs, kill, exit, exit2 }, Sched::Random { rng, sticky })
    }

    /// `thrcase <seed>` (random) or `thrcase x:<scenario>:<choices>` (scripted schedule)
    pub fn run_tagged(log: &mut Log, st: &mut Stats, tag: &str) {
        if let Some(rest) = tag.strip_prefix("x:") {
            let mut it = rest.split(':');
            let scn: u64 = it.next().and_then(|x| x.parse().ok()).unwrap_or(0);
            let prefix: Vec<usize> = it.next().unwrap_or("").chars().filter_map(|c| c.to_digit(10).map(|d| d as usize)).collect();
            if let Some(mut spec) = scenario(scn) {
                spec.tag = tag.to_string(); // the tag IS the schedule: keep it for the next replay
                let mut sched = Sched::Script { prefix, taken: vec![], opts: vec![] };
                run_spec(log, st, spec, &mut sched);
            }
        } else {
            run_case(log, st, tag.parse().unwrap_or(1));
        }
    }

    pub fn run_case(log: &mut Log, st: &mut Stats, seed: u64) {
        let (spec, mut sched) = random_spec(seed);
        run_spec(log, st, spec, &mut sched);
    }

    /// every schedule of every fixed scenario (stateless DFS over the branching steps)
    pub fn exhaustive(log: &mut Log, st: &mut Stats, max_runs: u64, only: &[u64]) {
        let mut scn = 0;
        while let Some(_) = scenario(scn) {
            if !only.is_empty() && !only.contains(&scn) {
                scn += 1;
                continue;
            }
            let mut stack: Vec<Vec<usize>> = vec![vec![]];
            let mut runs = 0u64;
            while let Some(prefix) = stack.pop() {
                if runs >= max_runs {
                    st.bump("thrx_truncated");
                    break;
                }
                let plen = prefix.len();
                // schedule = prefix, then always the first parked thread: the tag reproduces it
                let mut spec = scenario(scn).unwrap();
                spec.tag = format!("x:{scn}:{}", prefix.iter().map(|c| c.to_string()).collect::<String>());
                let mut sched = Sched::Script { prefix, taken: vec![], opts: vec![] };
                run_spec(log, st, spec, &mut sched);
                runs += 1;
                if let Sched::Script { taken, opts, .. } = sched {
                    for i in (plen..taken.len()).rev() {
                        for alt in 1..opts[i] {
                            let mut p = taken[..i].to_vec();
                            p.push(alt);
                            stack.push(p);
                        }
                    }
                }
            }
            st.add(&format!("thrx_schedules_scn{scn}"), runs);
            scn += 1;
        }
    }

    fn run_spec(log: &mut Log, st: &mut Stats, spec: Spec, sched: &mut Sched) {
        let Spec { tag, n_actors, setup, progs, kill, exit, exit2 } = spec;
        let seed = tag.clone();

        let evlog: EvLog = Arc::new(Mutex::new(Vec::new()));
        // the second exiter's thread first: its actor's cell is part of everybody's universe
        let ctl_a2 = ThreadCtl::new();
        let (tx_go2, rx_go2) = mpsc::channel::<bool>();
        let (tx_finish2, rx_finish2) = mpsc::channel::<()>();
        let mut ha2 = None;
        let mut extra: Option<ActorCell> = None;
        if exit2.is_some() {
            let (tx_cell, rx_cell) = mpsc::channel();
            let (ev3, ctl3) = (evlog.clone(), ctl_a2.clone());
            ha2 = Some(std::thread::spawn(move || owner2_body(ev3, ctl3, tx_cell, rx_go2, rx_finish2)));
            match rx_cell.recv_timeout(Duration::from_secs(20)) {
                Ok(c) => extra = Some(c),
                Err(_) => {
                    log.rec(format!("thrcase {seed}"), "setup-failed");
                    return;
                }
            }
        }
        let two = extra.is_some();
        let ctl_a = ThreadCtl::new();
        let (tx, rx) = mpsc::channel();
        let (tx_racer_done, rx_racer_done) = mpsc::channel();
        let (tx_done, rx_done) = mpsc::channel();
        let (tx_finish, rx_finish) = mpsc::channel();
        let (ev2, ctl2, setup2, extra2) = (evlog.clone(), ctl_a.clone(), setup.clone(), extra.clone());
        let ha = std::thread::spawn(move || owner_body(n_actors, setup2, 0, kill, exit, ev2, extra2, ctl2, tx, rx_racer_done, tx_done, rx_finish));
        let cells = match rx.recv_timeout(Duration::from_secs(20)) {
            Ok(c) => c,
            Err(_) => {
                log.rec(format!("thrcase {seed}"), "setup-failed");
                let _ = tx_finish2.send(());
                return;
            }
        };
        let mut w = World { cells: cells.clone(), evlog: evlog.clone(), ..World::default() };
        // the setup is ordinary API-level history: log it as such
        log.rec(format!("thrcase {seed}"), format!("ev=- {} {}", "map=- idx=- world=- rel=- dead=-", "gm=- lm=- wg=- ws=- wsg=- wsag=-"));
        st.bump("thr_cases");
        if two {
            st.bump("thr_cases_two_exits");
        }
        for k in cells.keys() {
            log.rec(format!("t:actor {k} L"), "-");
        }
        for l in &setup {
            log.rec(format!("t:{l}"), "-");
        }
        let _ = w.take_events();
        log.rec("tsync", w.observe());
        if let Some(k2) = exit2 {
            let _ = tx_go2.send(k2);
        }

        // owner threads (tid 0, and tid 1 when there are two exits), then the racer threads
        let n_own: usize = if two { 2 } else { 1 };
        let ex_ids: Vec<u64> = if two { vec![0, n_actors] } else { vec![0] };
        let xs: Vec<ActorCell> = ex_ids.iter().map(|k| cells[k].clone()).collect();
        let mut ctls = vec![ctl_a.clone()];
        let mut curs: Vec<Arc<Mutex<String>>> = vec![Arc::new(Mutex::new(String::new()))];
        if two {
            ctls.push(ctl_a2.clone());
            curs.push(Arc::new(Mutex::new(String::new())));
        }
        let mut hbs = Vec::new();
        for prog in &progs {
            let ctl_b = ThreadCtl::new();
            let cur: Arc<Mutex<String>> = Arc::new(Mutex::new(String::new()));
            ctls.push(ctl_b.clone());
            curs.push(cur.clone());
            let (prog2, cells2) = (prog.clone(), cells.clone());
            hbs.push(std::thread::spawn(move || {
                verif::thread_register(ctl_b.clone());
                for l in &prog2 {
                    *cur.lock().unwrap() = l.clone();
                    verif::point("h.act");
                    let t: Vec<&str> = l.split_whitespace().collect();
                    apply_pg(&cells2, &t);
                }
                verif::thread_unregister();
                ctl_b.finish();
            }));
        }

        // what the real tables say right now about one group and about the world listeners
        let region_obs = |w: &World, key: Option<(u64, u64)>, pay: Option<Vec<u64>>, ex: Option<bool>| -> String {
            let snap = pg::verif_snapshot();
            let gl: Vec<u64> = match key {
                Some((s, g)) => snap
                    .map
                    .iter()
                    .find(|(ss, gg, _, _)| scope_back(ss) == s && group_back(gg) == g)
                    .map(|(_, _, _, lis)| w.ks(lis, true))
                    .unwrap_or_default(),
                None => vec![],
            };
            let mut wd: Vec<(u64, String)> = snap
                .world
                .iter()
                .map(|(s, _, lis)| (scope_back(s), format!("{}:{}", scope_back(s), plus(&w.ks(lis, true)))))
                .collect();
            wd.sort();
            format!(
                "o gl={} world={} pay={} ex={}",
                plus(&gl),
                semi(wd.into_iter().map(|x| x.1).collect()),
                pay.map(|p| plus(&p)).unwrap_or("-".into()),
                ex.map(|e| (e as u8).to_string()).unwrap_or("1".into())
            )
        };
        let entry_exists = |key: (u64, u64)| -> bool {
            pg::verif_snapshot().map.iter().any(|(s, g, _, _)| scope_back(s) == key.0 && group_back(g) == key.1)
        };

        let mut last: Option<usize> = None;
        let mut a_done = vec![false; n_own];
        let mut waited_logged = vec![false; n_own];
        let mut x_ever_dead = vec![false; n_own];
        let mut steps = 0u64;
        loop {
            let mut parked: Vec<(usize, &'static str)> = Vec::new();
            let mut hung = false;
            for (tid, c) in ctls.iter().enumerate() {
                if tid < n_own && (a_done[tid] || (tid == 1 && exit2.is_none())) {
                    continue;
                }
                match c.wait_parked_timeout(Duration::from_secs(20)) {
                    Some(ThreadPhase::AtPoint(p)) => parked.push((tid, p)),
                    Some(_) => {}
                    None => hung = true,
                }
            }
            if hung {
                log.rec("skip hung", "thread-hung");
                for c in &ctls {
                    c.release();
                }
                break;
            }
            if parked.is_empty() {
                break;
            }
            // `Stopped` is published: a `wait()` on ANY thread may return from now on. Whatever the
            // racers are in the middle of, the exiter must be in no member or listener list already
            for e in 0..n_own {
                if !waited_logged[e] && xs[e].get_status() == ActorStatus::Stopped {
                    waited_logged[e] = true;
                    let (lk, lw) = listener_keys(&xs[e]);
                    let zombie = !member_keys(&xs[e]).is_empty() || !lk.is_empty() || !lw.is_empty();
                    log.rec(format!("t:waited {}", ex_ids[e]), format!("zombie={}", zombie as u8));
                }
            }
            let pick = match sched {
                Sched::Random { rng, sticky } => match last {
                    Some(l) if *sticky > 0 && parked.iter().any(|(t, _)| *t == l) && rng.chance(*sticky, 4) => {
                        parked.iter().position(|(t, _)| *t == l).unwrap()
                    }
                    _ => rng.below(parked.len() as u64) as usize,
                },
                Sched::Script { prefix, taken, opts } => {
                    if parked.len() > 1 {
                        let c = prefix.get(taken.len()).copied().unwrap_or(0).min(parked.len() - 1);
                        taken.push(c);
                        opts.push(parked.len());
                        c
                    } else {
                        0
                    }
                }
            };
            let (tid, point) = parked[pick];
            last = Some(tid);
            // sticky: a status word that moves backwards does not make the actor alive again
            for e in 0..n_own {
                x_ever_dead[e] |= xs[e].get_status() >= ActorStatus::Stopping;
            }
            let x_dead_before = x_ever_dead.clone();
            let had_rel_before: Vec<ActorId> = pg::verif_snapshot().relations.iter().map(|r| r.0).collect();
            let members_before: Vec<Vec<(u64, u64)>> = xs.iter().map(member_keys).collect();
            let listeners_before: Vec<(Vec<(u64, u64)>, Vec<u64>)> = xs.iter().map(listener_keys).collect();
            let is_owner = tid < n_own;
            let line = curs[tid].lock().unwrap().clone();
            let lw: Vec<&str> = line.split_whitespace().collect();
            let kind = lw.first().copied().unwrap_or("");
            let line_key: Option<(u64, u64)> = if lw.len() >= 3 { Some((lw[1].parse().unwrap_or(0), lw[2].parse().unwrap_or(0))) } else { None };
            // observations of the change / notify regions are taken BEFORE the region runs: nobody
            // else moves meanwhile, so this is what the region itself reads under its locks
            let pre_obs: Option<String> = if is_owner {
                match point {
                    "pg.leave_all.key" | "pg.leave_all.notify" => Some("owner".into()),
                    _ => None,
                }
            } else {
                match (point, kind) {
                    ("pg.join.filtered", "join") => {
                        let pay: Vec<u64> = parse_ks(lw[3]).into_iter().filter(|k| cells.get(k).map(|c| c.get_status() < ActorStatus::Stopping).unwrap_or(false)).collect();
                        Some(region_obs(&w, line_key, Some(pay), None))
                    }
                    ("h.act", "leave") => Some(region_obs(&w, line_key, None, Some(entry_exists(line_key.unwrap_or((0, 0)))))),
                    ("pg.join.notify", "join") | ("pg.leave.notify", "leave") => Some(region_obs(&w, None, None, None)),
                    _ => None,
                }
            };
            // for the owner the key of a leave_all iteration is only known afterwards: keep what is needed
            let owner_pre = if is_owner && pre_obs.is_some() { Some(pg::verif_snapshot()) } else { None };
            ctls[tid].grant();
            if is_owner && point == "h.waited" {
                // the owner unregisters after this point and never parks again
                a_done[tid] = true;
            } else {
                let _ = ctls[tid].wait_parked_timeout(Duration::from_secs(20));
            }
            steps += 1;
            // linearisation: an op takes effect in the region that holds its locks; the exit
            // sequence is reported region by region
            let mut obs: Option<String> = None;
            let op: Option<String> = if is_owner {
                let exiter = ex_ids[tid];
                let x = &xs[tid];
                let world_of = |snap: &pg::VerifSnapshot| -> String {
                    let mut wd: Vec<(u64, String)> = snap.world.iter().map(|(s, _, lis)| (scope_back(s), format!("{}:{}", scope_back(s), plus(&w.ks(lis, true))))).collect();
                    wd.sort();
                    semi(wd.into_iter().map(|x| x.1).collect())
                };
                match point {
                    "status.publish" if !x_dead_before[tid] && x.get_status() >= ActorStatus::Stopping => {
                        x_ever_dead[tid] = true;
                        Some(format!("dead {exiter}"))
                    }
                    "status.pg_demonitor" => Some(format!("demontake {exiter}")),
                    "pg.demonitor_all.key" => {
                        let after = listener_keys(x);
                        listeners_before[tid].0.iter().find(|k| !after.0.contains(k)).map(|(s, g)| format!("demonkey {exiter} {s} {g}"))
                    }
                    "pg.demonitor_all.wkey" => {
                        let after = listener_keys(x);
                        listeners_before[tid].1.iter().find(|k| !after.1.contains(k)).map(|s| format!("demonwkey {exiter} {s}"))
                    }
                    "status.pg_leave" => Some(format!("takemem {exiter}")),
                    "pg.leave_all.key" => {
                        // which forward entry did this iteration take the exiter out of?
                        let after = member_keys(x);
                        let k = members_before[tid].iter().find(|k| !after.contains(k)).cloned();
                        if let (Some((s, g)), Some(pre)) = (k, &owner_pre) {
                            let gl: Vec<u64> = pre
                                .map
                                .iter()
                                .find(|(ss, gg, _, _)| scope_back(ss) == s && group_back(gg) == g)
                                .map(|(_, _, _, lis)| w.ks(lis, true))
                                .unwrap_or_default();
                            obs = Some(format!("o gl={} world={} pay=- ex=1", plus(&gl), world_of(pre)));
                        }
                        k.map(|(s, g)| format!("leavekey {exiter} {s} {g}"))
                    }
                    "pg.leave_all.notify" => {
                        if let Some(pre) = &owner_pre {
                            obs = Some(format!("o gl=- world={} pay=- ex=1", world_of(pre)));
                        }
                        Some(format!("finishleave {exiter}"))
                    }
                    _ => None,
                }
            } else {
                obs = pre_obs;
                match (point, kind) {
                    ("pg.join.filtered", "join") => Some(line.clone()),
                    ("pg.join.notify", "join") => Some("joinnotify".to_string()),
                    ("pg.leave.notify", "leave") => Some("leavenotify".to_string()),
                    // `get_or_create_actor_relations`: the (possibly empty) reverse-index entry exists from here on
                    ("h.act", "monitor") => Some(line.replacen("monitor", "moncreate", 1)),
                    ("h.act", "monitorscope") => Some(line.replacen("monitorscope", "moncreate", 1)),
                    ("pg.monitor.relations", "monitor") => Some(line.clone()),
                    ("pg.monitor_scope.relations", "monitorscope") => Some(line.clone()),
                    ("h.act", "leave") => Some(line.clone()),
                    // `demonitor*`: the fetch of the reverse-index `Arc` (did it find one?) and the entry region
                    ("h.act", "demonitor") | ("h.act", "demonitorscope") => {
                        let b: u64 = lw.get(2).and_then(|x| x.parse().ok()).unwrap_or(0);
                        let had = match cells.get(&b) {
                            Some(c) if c.get_status() < ActorStatus::Stopping => {
                                let id = c.get_id();
                                if had_rel_before.contains(&id) { "1" } else { "0" }
                            }
                            _ => "*",
                        };
                        obs = Some(format!("had={had}"));
                        Some(line.replacen(kind, if kind == "demonitor" { "demfetch" } else { "demsfetch" }, 1))
                    }
                    ("pg.demonitor.fetched", "demonitor") | ("pg.demonitor_scope.fetched", "demonitorscope") => Some(line.clone()),
                    ("drain.status", "drain") => Some(line.clone()),
                    ("pg.monitor.recheck", "monitor") => Some(line.replacen("monitor", "monrecheck", 1)),
                    ("pg.monitor_scope.recheck", "monitorscope") => Some(line.replacen("monitorscope", "monscoperecheck", 1)),
                    ("pg.join.entered", "join") => Some(format!("joincleanup {} {} {}", lw[1], lw[2], lw.get(3).copied().unwrap_or("-"))),
                    _ => None,
                }
            };
            // a stopping actor must never be admitted again: no new membership / listener entry of an
            // exiter may appear once it has been seen `≥ Stopping`
            for e in 0..n_own {
                if x_dead_before[e] {
                    let (mk_after, lk_after) = (member_keys(&xs[e]), listener_keys(&xs[e]));
                    let readded = mk_after.iter().any(|k| !members_before[e].contains(k))
                        || lk_after.0.iter().any(|k| !listeners_before[e].0.contains(k))
                        || lk_after.1.iter().any(|k| !listeners_before[e].1.contains(k));
                    if readded {
                        st.bump("thr_readded");
                        log.rec(format!("t:readded {}", ex_ids[e]), "readded=1");
                    }
                }
            }
            match op {
                Some(o) => {
                    st.bump(&format!("thr_{}", o.split_whitespace().next().unwrap_or("")));
                    if x_dead_before[0] && !is_owner && o.contains(" 0") {
                        st.bump("thr_op_on_exiting_actor");
                    }
                    if two && x_dead_before[0] && x_dead_before[1] && is_owner && !(waited_logged[0] && waited_logged[1]) {
                        st.bump("thr_region_while_both_exits_in_flight");
                    }
                    log.rec(format!("t:@{tid} {o}"), obs.unwrap_or("-".into()));
                }
                None => log.rec(format!("t:skip {point}"), "-"),
            }
            // the window: every thread is parked outside the locks, so the four indexes and the six
            // queries can be read consistently in the MIDDLE of the race (C11.conc_cross_index_windows,
            // conc_queries_are_projections)
            st.bump("thr_windows");
            log.rec("t:win", format!("ev=- {} {}", w.snapshot_f(true), w.queries()));
        }
        for hb in hbs {
            let _ = hb.join();
        }
        let _ = tx_racer_done.send(());
        let _ = rx_done.recv_timeout(Duration::from_secs(20));
        st.add("thr_steps", steps);
        // judged now: the exiters' wait() have returned, all threads are done, mailboxes drained
        w.cells = cells;
        log.rec("tend", w.observe_alive());
        let _ = tx_finish.send(());
        let _ = tx_finish2.send(());
        let _ = ha.join();
        if let Some(h2) = ha2 {
            let _ = h2.join();
        }
    }
}
