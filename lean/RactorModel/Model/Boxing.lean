/-
C02, cluster builds: what `ActorProperties::send_message` + `Message::box_message` let through
(`ractor/src/actor/actor_properties.rs`, `ractor/src/message.rs`).

* local target: the runtime `TypeId` check rejects every message type but the actor's own;
* remote target (`ActorId::Remote`): the `TypeId` check is skipped by design; `box_message`
  serializes a serializable message and REFUSES a non-serializable one (`BoxedDowncastErr` →
  `InvalidActorType`) — boxing is the only guard there.
A rejected send enqueues nothing and leaves the target untouched.  Import-free.
-/

namespace Boxing

inductive MsgKind
  | right     -- the actor's own (local-only) message type
  | wrong     -- another local-only type
  | ser       -- a serializable type (other than the actor's own)
  | nonser    -- the actor's own type seen as "not serializable" (same as `right`; kept as a separate generator class)
  deriving Repr, DecidableEq

inductive Res | ok | invalidType
  deriving Repr, DecidableEq

structure Target where
  remote : Bool
  handled : Nat        -- messages the handler received as typed values
  serialized : Nat     -- messages the handler received in serialized form
  alive : Bool
  deriving Repr, DecidableEq

def ownType : MsgKind → Bool
  | .right => true | .nonser => true | _ => false

def serializable : MsgKind → Bool
  | .ser => true | _ => false

def send (t : Target) (m : MsgKind) : Target × Res :=
  if t.remote then
    if serializable m then ({ t with serialized := t.serialized + 1 }, .ok) else (t, .invalidType)
  else
    if ownType m then ({ t with handled := t.handled + 1 }, .ok) else (t, .invalidType)

end Boxing
