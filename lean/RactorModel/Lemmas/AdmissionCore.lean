import RactorModel.Lemmas.AdmissionBase

/-!
The core invariant of the admission protocol (`count = tickets`, marker uniqueness, marker ⇒
closed ∧ count = 0, the marker is last in the channel, closed-without-marker ⇒ somebody is still
obliged to emit it), preserved by every step, hence by every schedule.
-/

namespace Admission

/-- A CAS program counter remembers a word that passed the check in front of it. -/
def Frame.badSeen (f : Frame) : Bool :=
  match f.pc with
  | .mCas seen _ => !markerCond seen
  | .aCas seen => seen.closed
  | _ => false

/-- The invariant as arithmetic over the shared state and four frame counts:
`A` tickets held, `B` frames at `marker.enqueue`, `C` frames obliged to run the marker program,
`D` frames with an impossible remembered word. -/
structure InvN (s : Shared) (A B C D : Nat) : Prop where
  /-- C07 (2): the count is the number of tickets held -/
  count_eq : s.word.count = A
  /-- the marker bit accounts for exactly one (pending, done or failed) marker enqueue -/
  marker_one : B + s.enq.count .drain + s.markerDropped = (if s.word.marker then 1 else 0)
  marker_imp : s.word.marker = true → s.word.closed = true ∧ s.word.count = 0
  /-- closed without marker: somebody still holds a ticket or is on the way to the marker -/
  oblig : s.word.closed = true → s.word.marker = false → 1 ≤ s.word.count + C
  seen_ok : D = 0
  dropped : 0 < s.markerDropped → s.rxOpen = false
  marker_last : markerLast s.enq = true

set_option hygiene false in
macro "admission_core_case" : tactic => `(tactic| (
  obtain ⟨h1, h2, h3, h4, h5, h6, h7⟩ := h
  obtain ⟨e1, l1⟩ := d1
  obtain ⟨e2, l2⟩ := d2
  obtain ⟨e3, l3⟩ := d3
  obtain ⟨e4, l4⟩ := d4
  (try (cases ops <;> try (rename_i op ops'; cases op))) <;>
  simp only [stepThread, finish, startOp] at hs <;> (repeat' (split at hs)) <;>
  (try (simp only [Option.some.injEq, Prod.mk.injEq, reduceCtorEq] at hs)) <;>
  (try (obtain ⟨rfl, rfl⟩ := hs)) <;>
  simp only [List.countP_cons, Frame.holds, Frame.atMEnq, Frame.obliged, Frame.badSeen] at * <;>
  generalize List.countP Frame.holds rest = a at * <;>
  generalize List.countP Frame.atMEnq rest = b at * <;>
  generalize List.countP Frame.obliged rest = c at * <;>
  generalize List.countP Frame.badSeen rest = d at * <;>
  (simp only [Bool.false_eq_true, ↓reduceIte, Nat.add_zero, markerCond] at *) <;>
  (constructor <;> grind [markerLast_append_msg, markerLast_append_drain])))

section
variable {s s' : Shared} {rest stack' : List Frame} {id : Nat} {late bf : Bool} {ops : List Op} {sk : List Nat}
  {A B C D A' B' C' D' : Nat} {seen : Word} {r : Res} {ret : Option Res}

set_option hygiene false in
macro "core_lemma " n:ident pc:term : command => `(
  theorem $n (hs : stepThread s (⟨$pc, id, late, ops, bf, sk⟩ :: rest) = some (s', stack'))
    (d1 : Delta Frame.holds (⟨$pc, id, late, ops, bf, sk⟩ :: rest) stack' A A')
    (d2 : Delta Frame.atMEnq (⟨$pc, id, late, ops, bf, sk⟩ :: rest) stack' B B')
    (d3 : Delta Frame.obliged (⟨$pc, id, late, ops, bf, sk⟩ :: rest) stack' C C')
    (d4 : Delta Frame.badSeen (⟨$pc, id, late, ops, bf, sk⟩ :: rest) stack' D D')
    (h : InvN s A B C D) : InvN s' A' B' C' D' := by
  admission_core_case)

core_lemma core_run Pc.run
core_lemma core_sStatus Pc.sStatus
core_lemma core_aLoad Pc.aLoad
core_lemma core_aCas (Pc.aCas seen)
core_lemma core_box Pc.box
core_lemma core_boxing Pc.boxing
core_lemma core_enq Pc.enq
core_lemma core_rel (Pc.rel r)
core_lemma core_dClose Pc.dClose
core_lemma core_dStatus Pc.dStatus
core_lemma core_mLoad (Pc.mLoad ret)
core_lemma core_mCas (Pc.mCas seen ret)
core_lemma core_mEnq (Pc.mEnq ret)
core_lemma core_bad Pc.bad
end

theorem invN_stepThread {s s' : Shared} {stack stack' : List Frame}
    (hs : stepThread s stack = some (s', stack')) {A B C D A' B' C' D' : Nat}
    (d1 : Delta Frame.holds stack stack' A A') (d2 : Delta Frame.atMEnq stack stack' B B')
    (d3 : Delta Frame.obliged stack stack' C C') (d4 : Delta Frame.badSeen stack stack' D D')
    (h : InvN s A B C D) : InvN s' A' B' C' D' := by
  cases stack with
  | nil => simp [stepThread] at hs
  | cons f rest =>
    obtain ⟨pc, id, late, ops, bf, sk⟩ := f
    cases pc
    · exact core_run hs d1 d2 d3 d4 h
    · exact core_sStatus hs d1 d2 d3 d4 h
    · exact core_aLoad hs d1 d2 d3 d4 h
    · exact core_aCas hs d1 d2 d3 d4 h
    · exact core_box hs d1 d2 d3 d4 h
    · exact core_boxing hs d1 d2 d3 d4 h
    · exact core_enq hs d1 d2 d3 d4 h
    · exact core_rel hs d1 d2 d3 d4 h
    · exact core_dClose hs d1 d2 d3 d4 h
    · exact core_dStatus hs d1 d2 d3 d4 h
    · exact core_mLoad hs d1 d2 d3 d4 h
    · exact core_mCas hs d1 d2 d3 d4 h
    · exact core_mEnq hs d1 d2 d3 d4 h
    · exact core_bad hs d1 d2 d3 d4 h

theorem invN_rx {s : Shared} {A B C D : Nat} (tid : Tid) (h : InvN s A B C D) :
    InvN (stepRx s tid) A B C D := by
  obtain ⟨h1, h2, h3, h4, h5, h6, h7⟩ := h
  cases tid <;> simp only [stepRx] <;> (repeat' split) <;> constructor <;> simp_all

/-- The core invariant of a global state. -/
def Inv (g : G) : Prop :=
  InvN g.sh (cnt Frame.holds g) (cnt Frame.atMEnq g) (cnt Frame.obliged g) (cnt Frame.badSeen g)

theorem inv_init (progs : List (List Op)) : Inv (init progs) := by
  unfold Inv
  rw [cnt_init Frame.holds (fun _ => rfl), cnt_init Frame.atMEnq (fun _ => rfl),
    cnt_init Frame.obliged (fun _ => rfl), cnt_init Frame.badSeen (fun _ => rfl)]
  constructor <;> simp [init, markerLast]

theorem inv_step (g : G) (tid : Tid) (h : Inv g) : Inv (step g tid) := by
  cases tid with
  | t i =>
    simp only [step]
    split
    · exact h
    · rename_i stack hi
      split
      · exact h
      · rename_i s' stack' hs
        exact invN_stepThread hs (delta_of_set _ g i s' stack stack' hi)
          (delta_of_set _ g i s' stack stack' hi) (delta_of_set _ g i s' stack stack' hi)
          (delta_of_set _ g i s' stack stack' hi) h
  | recv => exact invN_rx .recv h
  | rxStop => exact invN_rx .rxStop h
  | rxClose => exact invN_rx .rxClose h
  | rxFlush => exact invN_rx .rxFlush h
  | setStatus st => exact invN_rx (.setStatus st) h

theorem inv_run (g : G) (sched : List Tid) (h : Inv g) : Inv (run g sched) := by
  induction sched generalizing g with
  | nil => exact h
  | cons t l ih => exact ih _ (inv_step g t h)

end Admission
