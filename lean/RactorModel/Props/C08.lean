import RactorModel.Lemmas.Spawn
import RactorModel.Lemmas.SpawnClean
import RactorModel.Extracted

/-!
# C08 — a failed or cancelled spawn leaves nothing behind

Property theorems only. Model: `Model/Spawn.lean` (the start sequence of
`ActorRuntime::{spawn, spawn_linked, spawn_instant, spawn_linked_instant}` with every way it
can fail to produce a running actor: name clash, `pre_start` Err / panic, kill during start-up,
supervisor shutting down, the start future or start task dropped at its await point — after any
side effects `pre_start` performed: joining and monitoring process groups, sending to itself,
spawning linked children, being sent casts and calls by others). Lemmas: `Lemmas/Spawn.lean`.
All statements are for EVERY operation sequence (invariant `Spawn.Good`, induction).
-/

namespace C08
open Spawn

/-- The observable predicate `Spawn.ok` — evaluated by the driver on the real world after
every operation — holds in every reachable state. -/
theorem ok_reachable (ops : List Op) : ok (run ops) = true := ok_of_good (good_run ops)

/-- (nothing left behind) Whenever a spawn did not produce a running actor, in every later
state: its status is Stopped, it is a member of no process group and monitors none, it is in
no supervisor's child set, nothing is queued to it, none of its handlers ever ran, no name
maps to it, and no lifecycle event about it was ever delivered to anybody. -/
theorem failed_start_leaves_nothing (ops : List Op) (a : Nat) (x : Actor)
    (hx : (run ops).actors[a]? = some x) (hf : x.failedStart = true) :
    x.phase = .stopped ∧ x.groups = [] ∧ x.monitors = [] ∧ x.linked = false ∧ x.mailbox = [] ∧
    x.casts = 0 ∧ x.handled = 0 ∧
    (∀ nv ∈ (run ops).names, nv.2 ≠ a) ∧ (∀ e ∈ (run ops).events, e.2.1 ≠ a) := by
  have hg := good_run ops
  obtain ⟨c1, c2, c3, c4, c5, c6, c7, _⟩ := hg.clean a x hx hf
  refine ⟨c1, c2, c3, c4, c5, c6, c7, ?_, ?_⟩
  · intro nv hnv heq
    obtain ⟨y, hy, hne⟩ := hg.names nv hnv
    rw [heq, hx] at hy; cases hy; exact hne c1
  · intro e he heq
    obtain ⟨y, hy, _, hfl⟩ := hg.evs e he
    rw [heq, hx] at hy; cases hy; rw [hf] at hfl; cases hfl

/-- (its name is free) A later spawn under the same name does not clash with the failed one. -/
theorem name_not_held_by_failed_start (ops : List Op) (a : Nat) (x : Actor) (n b : Nat)
    (hx : (run ops).actors[a]? = some x) (hf : x.failedStart = true)
    (hl : lookupName (run ops) n = some b) : b ≠ a := by
  unfold lookupName at hl
  cases hfd : (run ops).names.find? (fun nv => nv.1 == n) with
  | none => simp [hfd] at hl
  | some nv =>
    simp only [hfd, Option.map_some, Option.some.injEq] at hl
    subst hl
    exact (failed_start_leaves_nothing ops a x hx hf).2.2.2.2.2.2.2.1 nv (List.mem_of_find?_eq_some hfd)

/-- (every failure cause is covered) From any state in which `a` is still in `pre_start`:
`pre_start` returning `Err` or panicking, the start future/task being dropped, and a kill
signal all take the failed-start path, i.e. mark `a` as a spawn that produced no running actor
(to which `failed_start_leaves_nothing` then applies, forever). -/
theorem failure_causes_fail (s : S) (a : Nat) (hst : isStarting s a = true) :
    (∀ op ∈ [Op.finish a .err, .finish a .panic, .cut a, .kill a],
      ((step s op).actors[a]?).map (·.failedStart) = some true) := by
  obtain ⟨x, hx, hxs⟩ := isStarting_iff.mp hst
  have key : ((failStart s a).actors[a]?).map (·.failedStart) = some true := by
    unfold failStart
    simp only
    rw [getElem?_setActor]
    have hlen : a < (release (killSubtree (s.actors.length + 1) s [a]) a).actors.length := by
      rw [((frame_killSubtree s _ _).trans (frame_release _ a)).len]
      exact (List.getElem?_eq_some_iff.mp hx).1
    rw [List.getElem?_eq_getElem hlen]
    simp
  intro op hop
  simp only [List.mem_cons, List.mem_singleton, List.not_mem_nil, or_false] at hop
  rcases hop with rfl | rfl | rfl | rfl
  · simp only [step, hst, Bool.not_true, Bool.false_eq_true, if_false]; exact key
  · simp only [step, hst, Bool.not_true, Bool.false_eq_true, if_false]; exact key
  · simp only [step, hst, if_true]; exact key
  · simp only [step, hx, hxs]; exact key

/-- … and so does a `pre_start` that succeeds while the requested supervisor has already
stopped ("Supervisor is shutting down"). -/
theorem refused_link_fails (s : S) (a p : Nat) (x : Actor) (hx : s.actors[a]? = some x)
    (hxs : x.phase = .starting) (hsup : x.req = some p) (hdead : supAccepts s p = false) :
    ((step s (.finish a .ok)).actors[a]?).map (·.failedStart) = some true := by
  have hst : isStarting s a = true := isStarting_iff.mpr ⟨x, hx, hxs⟩
  have := failure_causes_fail s a hst (.cut a) (by simp)
  simp only [step, hst, if_true] at this
  simp only [step, hst, Bool.not_true, Bool.false_eq_true, if_false, hx, hsup, hdead]
  exact this

/-- (a name clash changes nothing about the holder) A spawn under a taken name only burns an
actor id: names, events, ports and every existing actor record are unchanged. -/
theorem clash_changes_nothing (s : S) (n : Nat) (sup : Option Nat) (b : Nat)
    (hheld : lookupName s n = some b) :
    (step s (.begin (some n) sup)).names = s.names ∧
    (step s (.begin (some n) sup)).events = s.events ∧
    (step s (.begin (some n) sup)).ports = s.ports ∧
    (∀ (c : Nat) (y : Actor), s.actors[c]? = some y → (step s (.begin (some n) sup)).actors[c]? = some y) := by
  simp only [step, hheld, Option.isSome_some, if_true]
  refine ⟨trivial, trivial, trivial, ?_⟩
  intro c y hy
  rw [List.getElem?_append_left (List.getElem?_eq_some_iff.mp hy).1]; exact hy

/-! ### the thread-local flavour: the link exists before `pre_start` runs -/

/-- (refused link) A thread-local spawn under a supervisor that is shutting down fails at
once: the new actor is a failed start, already Stopped, `pre_start` never gets to run (it is
not starting, so no `pre_start` side effect applies to it), the name table and the delivered
events are unchanged. -/
theorem tl_refused_link_fails_at_once (s : S) (name : Option Nat) (p : Nat)
    (hc : clashes s name = false) (hr : supAccepts s p = false) :
    ((step s (.beginTL name (some p))).actors[s.actors.length]?).map (fun x => (x.failedStart, x.phase)) =
        some (true, .stopped) ∧
      (step s (.beginTL name (some p))).names = s.names ∧
      (step s (.beginTL name (some p))).events = s.events ∧
      isStarting (step s (.beginTL name (some p))) s.actors.length = false := by
  simp [step, hc, refusedBy, hr, isStarting]

/-- (early link) An accepted thread-local spawn is in its supervisor's child set while it is
still starting. -/
theorem tl_starting_child_is_linked (s : S) (name : Option Nat) (p : Nat)
    (hc : clashes s name = false) (ha : supAccepts s p = true) :
    isStarting (step s (.beginTL name (some p))) s.actors.length = true ∧
      s.actors.length ∈ childrenOf (step s (.beginTL name (some p))) p := by
  constructor
  · simp [step, hc, refusedBy, ha, isStarting]
  · simp [step, hc, refusedBy, ha, childrenOf]

/-- … and a supervisor that exits takes it along: a starting child that is killed is a failed
start (to which `failed_start_leaves_nothing` then applies: no lifecycle event, no name, no
membership, nothing queued). -/
theorem killed_starting_child_is_failed_start (s : S) (c : Nat) (hst : isStarting s c = true) :
    ((killChild s c).actors[c]?).map (·.failedStart) = some true := by
  obtain ⟨x, hx, _⟩ := isStarting_iff.mp hst
  unfold killChild
  simp only [hst, if_true]
  rw [getElem?_setActor]
  have hlen : c < (release s c).actors.length := by
    rw [(frame_release s c).len]; exact (List.getElem?_eq_some_iff.mp hx).1
  rw [List.getElem?_eq_getElem hlen]
  simp

/-- (the early link is undone) After a failed start — thread-local or not — the actor is in
nobody's child set. -/
theorem failed_start_in_no_child_set (ops : List Op) (a : Nat) (x : Actor)
    (hx : (run ops).actors[a]? = some x) (hf : x.failedStart = true) (p : Nat) :
    a ∉ childrenOf (run ops) p := by
  have hl := (failed_start_leaves_nothing ops a x hx hf).2.2.2.1
  intro hm
  simp only [childrenOf, List.mem_filter, hx, Bool.and_eq_true] at hm
  rw [hl] at hm
  exact absurd hm.2.1 (by simp)

/-! ### Source guards (E-SRC): what the model assumes about the text of `actor.rs`,
re-extracted from the repository on every run -/

/-- the lifecycle guard is silent until `mark_running`: a failed start notifies nobody -/
theorem src_guard_silent_before_running : Extracted.guardInitialNotifyOnCancel = some false := by decide
/-- `start` runs pre_start, THEN links, THEN marks running, THEN spawns the loop task … -/
theorem src_start_order : Extracted.sendStartOrder = true := by decide
/-- … and pre_start (under `run_with_signal`) is its only await point before the loop task exists -/
theorem src_start_single_await : Extracted.sendStartAwaitPoints = 1 := by decide
/-- the thread-local `start` links BEFORE pre_start and marks running after it -/
theorem src_local_start_order : Extracted.localStartOrder = true := by decide
/-- the guard's cleanup: Stopping, terminate children, notify, unlink, Stopped — in this order -/
theorem src_cleanup_order : Extracted.cleanupOrder =
    ["set_status:Stopping", "terminate", "notify_supervisor", "unlink", "set_status:Stopped"] := by decide

/-! ### links made by `pre_start` itself -/

/-- (`myself.get_cell().link(w)` in `pre_start`) While it is starting the actor then sits in
`w`'s child set … -/
theorem selflink_is_child (s : S) (a w : Nat) (hst : isStarting s a = true) (hw : supAccepts s w = true)
    (hne : a ≠ w) : a ∈ childrenOf (step s (.selflink a w)) w := by
  obtain ⟨x, hx, _⟩ := isStarting_iff.mp hst
  have hlt : a < s.actors.length := (List.getElem?_eq_some_iff.mp hx).1
  have hne' : (a != w) = true := by simpa using hne
  simp only [step, hst, hw, hne', Bool.and_self, if_true, childrenOf, List.mem_filter, List.mem_range]
  refine ⟨by simpa [setActor] using hlt, ?_⟩
  rw [getElem?_setActor, hx]
  simp

/-- … and if the spawn then fails — in particular when `pre_start` returned Ok but the
requested supervisor refuses the link — `w` is told nothing and holds nothing: the failed
start is in no child set and no lifecycle event about it exists, in every later state. -/
theorem selflinked_failed_start_tells_nobody (ops : List Op) (a : Nat) (x : Actor)
    (hx : (run ops).actors[a]? = some x) (hf : x.failedStart = true) :
    (∀ e ∈ (run ops).events, e.2.1 ≠ a) ∧ (∀ w, a ∉ childrenOf (run ops) w) ∧
      (∀ (b : Nat) (y : Actor), (run ops).actors[b]? = some y → ∀ ce ∈ y.pending, ce.1 ≠ a) := by
  have hg := good_run ops
  refine ⟨(failed_start_leaves_nothing ops a x hx hf).2.2.2.2.2.2.2.2,
    fun w => failed_start_in_no_child_set ops a x hx hf w, ?_⟩
  intro b y hy ce hce heq
  obtain ⟨z, hz, _, hfl⟩ := hg.pend b y hy ce hce
  rw [heq, hx] at hz; cases hz; rw [hf] at hfl; cases hfl

/-! ### Non-vacuity -/

/-- supervisor 0 runs; 1 is spawned under it with a name, joins a group, spawns a child, is
sent a call, then its start future is dropped; a second spawn takes the name; 3's pre_start panics. -/
def exampleOps : List Op :=
  [.begin none none, .finish 0 .ok, .begin (some 7) (some 0), .join 1 2, .spawnChild 1, .call 1,
   .cut 1, .begin (some 7) none, .finish 3 .panic]

example : ((run exampleOps).actors.map (fun x => (x.phase, x.failedStart))) =
    [(.running, false), (.stopped, true), (.stopped, false), (.stopped, true)] := by decide
example : (run exampleOps).ports = [.senderError] ∧ (run exampleOps).events = [] ∧ (run exampleOps).names = [] := by
  decide
example : ok (run exampleOps) = true := by decide

/-- the seeded scenario C08-1: watcher 0 and supervisor 1 run; 2 is spawned under 1 and links
itself to 0 in pre_start; 1 stops; pre_start returns Ok: the link to 1 is refused, 2 is a failed
start, and the watcher 0 — which had it as a child — hears nothing. -/
def exampleSelflink : List Op :=
  [.begin none none, .finish 0 .ok, .begin none none, .finish 1 .ok, .begin none (some 1),
   .selflink 2 0, .stop 1, .finish 2 .ok]

example : childrenOf (run (exampleSelflink.take 6)) 0 = [2] := by decide
example : ((run exampleSelflink).actors.map (fun x => (x.phase, x.failedStart))) =
    [(.running, false), (.stopped, false), (.stopped, true)] ∧ (run exampleSelflink).events = [] ∧
    childrenOf (run exampleSelflink) 0 = [] := by decide
/-- had 1 still been running, it would have taken 2 over from 0 -/
example : childrenOf (run [.begin none none, .finish 0 .ok, .begin none none, .finish 1 .ok,
    .begin none (some 1), .selflink 2 0, .finish 2 .ok]) 1 = [2] ∧
    childrenOf (run [.begin none none, .finish 0 .ok, .begin none none, .finish 1 .ok,
    .begin none (some 1), .selflink 2 0, .finish 2 .ok]) 0 = [] := by decide

/-- thread-local: 1 starts under the running supervisor 0 and is its child at once; 0 is
stopped and takes the starting 1 along; a spawn under the stopped 0 fails before pre_start;
3 is queued, sent a call, and cut. -/
def exampleTL : List Op :=
  [.begin none none, .finish 0 .ok, .beginTL (some 7) (some 0), .join 1 2, .stop 0,
   .beginTL (some 7) (some 0), .beginTL none none, .call 3, .cut 3]

example : ((run exampleTL).actors.map (fun x => (x.phase, x.failedStart))) =
    [(.stopped, false), (.stopped, true), (.stopped, true), (.stopped, true)] := by decide
example : childrenOf (run (exampleTL.take 4)) 0 = [1] := by decide
example : (run exampleTL).ports = [.senderError] ∧ (run exampleTL).events = [] ∧ (run exampleTL).names = [] := by
  decide

/-- **Fuel sufficiency of `terminate`** (`Spawn.killSubtree`, the worklist of `ActorCell::terminate`):
the fuel `failStart` / `exitRunning` pass — number of actors + 1 — always suffices: ANY additional fuel
leaves the result unchanged, in every state (also with `selflink` cycles). So every cell below a failed
start (or an exiting actor) is killed and detached, not only those reached before a bound. -/
theorem terminate_fuel_suffices (s : S) (a k : Nat) :
    killSubtree (s.actors.length + 1 + k) s [a] = killSubtree (s.actors.length + 1) s [a] :=
  killSubtree_fuel_add k (s.actors.length + 1) s [a] (by have := linkedCount_le s; simp; omega)

/-- the general form: `#linked cells + |worklist|` pops are enough from any state and worklist -/
theorem terminate_fuel_bound (f : Nat) (s : S) (l : List Nat) (h : linkedCount s + l.length ≤ f) :
    killSubtree (f + 1) s l = killSubtree f s l := killSubtree_fuel f s l h

/-- non-vacuity: a cycle made by `selflink` (0 is linked under its own child 1) plus two more children;
the failed start of 0 takes everybody down and every actor ends unlinked -/
example :
    let s := run [.begin none none, .spawnChild 0, .selflink 0 1, .spawnChild 0, .spawnChild 0, .cut 0]
    s.actors.map (fun x => (x.phase, x.linked)) =
      [(.stopped, false), (.stopped, false), (.stopped, false), (.stopped, false)] := by decide

/-! ### Round 4 — the cleanup of a failed spawn, component by component (`Model/SpawnClean.lean`)

One spawn followed through `ActorCell::new`, `start` and `ActorLifecycleGuard::cleanup(None)` in
the order the code runs it; every step changes one component (name registry, pid registry, process
groups, supervision tree, waiters, mailbox and reply ports); casts, calls, `wait()`, external
`pg::join`, stop, drain, kill and status changes of the supervisor are interleaved at EVERY step.
Who "failed" is read off the spawn's own result (`W.res`), not a ghost flag. -/

/-- **Nothing left behind — derived.** For every configuration (named / cluster / linked / instant /
any side effects / any outcome of pre_start / start task dropped before its first poll) and EVERY
interleaving of the spawn thread's steps with the other threads' requests: once a spawn that
returned an error (or whose future was dropped) has finished its cleanup, its status is Stopped,
the name and the pid are free, it is in no process group and monitors none, it is in no child set
and has no supervisor, its own child set is closed, no `wait()` caller is still parked, its
mailbox is empty and closed, no reply port queued to it is still waiting, no handler ran, no
supervision event was emitted — and this stays so whatever is requested afterwards. -/
theorem failed_spawn_cleanup_leaves_nothing (c : SpawnClean.Cfg) (ops : List SpawnClean.Op)
    (hf : SpawnClean.failed (SpawnClean.run c ops) = true) (hd : (SpawnClean.run c ops).pc = .done) :
    SpawnClean.clean (SpawnClean.run c ops) = true :=
  SpawnClean.clean_of_inv _ (SpawnClean.inv_reach c ops) hf hd

/-- the same as the run-time predicate the driver evaluates -/
theorem spawnclean_ok_reachable (c : SpawnClean.Cfg) (ops : List SpawnClean.Op) :
    SpawnClean.ok (SpawnClean.run c ops) = true := by
  unfold SpawnClean.ok
  cases hf : SpawnClean.failed (SpawnClean.run c ops)
  · simp
  · by_cases hd : (SpawnClean.run c ops).pc = .done
    · simp [failed_spawn_cleanup_leaves_nothing c ops hf hd]
    · simp [hd]

/-- **Waiters are released — every one of them.** For a spawn that got a cell (no name clash): when a
failed spawn has finished its cleanup, the number of `wait()` calls that have returned equals the number
of `wait()` calls ever issued on the cell — before the start task was polled, during pre_start, in the
middle of the cleanup, or afterwards — and none is parked. -/
theorem every_waiter_returns (c : SpawnClean.Cfg) (hnc : (c.named && c.nameTaken) = false)
    (rest : List SpawnClean.Op)
    (hf : SpawnClean.failed (SpawnClean.run c (.begin :: rest)) = true)
    (hd : (SpawnClean.run c (.begin :: rest)).pc = .done) :
    (SpawnClean.run c (.begin :: rest)).released = rest.count .wait ∧
    (SpawnClean.run c (.begin :: rest)).waiting = 0 := by
  have hcl := failed_spawn_cleanup_leaves_nothing c (.begin :: rest) hf hd
  have hw0 : (SpawnClean.run c (.begin :: rest)).waiting = 0 := by
    simp only [SpawnClean.clean, Bool.and_eq_true, beq_iff_eq] at hcl
    exact hcl.1.1.1.1.1.2
  have hb : (SpawnClean.step c {} .begin).exists_ = true ∧ (SpawnClean.step c {} .begin).pc ≠ .init ∧
      (SpawnClean.step c {} .begin).waiting = 0 ∧ (SpawnClean.step c {} .begin).released = 0 := by
    simp only [SpawnClean.step, hnc]
    cases c.instant <;> simp
  have hs := SpawnClean.waitSum_run c rest _ hb.1 hb.2.1
  simp only [SpawnClean.run, List.foldl_cons] at hw0 ⊢
  rw [hb.2.2.1, hb.2.2.2] at hs
  omega

/-- **A name clash changes nothing**: the spawn fails at once with `AlreadyRegistered`, no cell is ever
visible, and whatever is requested afterwards no component of the world is touched (the holder of the
name is a constant of the model: `Cfg.nameTaken`). -/
theorem name_clash_touches_nothing (c : SpawnClean.Cfg) (hn : c.named = true) (ht : c.nameTaken = true)
    (rest : List SpawnClean.Op) : SpawnClean.Untouched (SpawnClean.run c (.begin :: rest)) := by
  simp only [SpawnClean.run, List.foldl_cons]
  apply SpawnClean.untouched_run
  simp only [SpawnClean.step, hn, ht]
  constructor <;> simp

/-- **The cleanup always completes**: from any state inside the cleanup, whatever the other threads
did before, `togo` further steps of the spawn thread end it (`done`). -/
theorem cleanup_runs_to_completion (c : SpawnClean.Cfg) (n : Nat) : ∀ w : SpawnClean.W,
    w.pc.inCleanup = true → w.pc.togo ≤ n →
    ((List.replicate n SpawnClean.Op.step).foldl (SpawnClean.step c) w).pc = .done := by
  induction n with
  | zero => intro w h hn; simp [SpawnClean.Pc.inCleanup] at h; omega
  | succ n ih =>
    intro w h hn
    have hs := SpawnClean.togo_step c w h
    simp only [List.replicate_succ, List.foldl_cons, SpawnClean.step]
    rcases hs.2 with h2 | h2
    · exact ih _ h2 (by omega)
    · have : ∀ m (w' : SpawnClean.W), w'.pc = .done →
          ((List.replicate m SpawnClean.Op.step).foldl (SpawnClean.step c) w').pc = .done := by
        intro m
        induction m with
        | zero => intro w' h'; exact h'
        | succ m ihm =>
          intro w' h'
          simp only [List.replicate_succ, List.foldl_cons, SpawnClean.step]
          exact ihm _ (by simp [SpawnClean.spawnStep, h'])
      exact this n _ h2

/-- **Every failure cause takes the cleanup path and makes the spawn's result an error**: pre_start
Err, panic, the future dropped at the await point, a kill that wins against pre_start, a refusing
supervisor — Draining, Stopping or Stopped — at link time, the instant start task dropped before its
first poll, a kill already pending when the start task is polled. -/
theorem every_failure_cause_fails (c : SpawnClean.Cfg) (w : SpawnClean.W) :
    (w.pc = .pre → (c.outcome = .err ∨ c.outcome = .panic ∨ c.outcome = .cut) →
      SpawnClean.failed (SpawnClean.spawnStep c w) = true ∧ (SpawnClean.spawnStep c w).pc = .cStopping) ∧
    (w.pc = .pre → c.outcome = .yieldThenOk → w.killReq = true →
      SpawnClean.failed (SpawnClean.spawnStep c w) = true ∧ (SpawnClean.spawnStep c w).pc = .kTake) ∧
    (w.pc = .link → 4 ≤ w.supStatus →
      SpawnClean.failed (SpawnClean.spawnStep c w) = true ∧ (SpawnClean.spawnStep c w).pc = .cStopping) ∧
    (w.pc = .unstarted → c.cut0 = true →
      SpawnClean.failed (SpawnClean.spawnStep c w) = true ∧ (SpawnClean.spawnStep c w).pc = .cStopping) ∧
    (w.pc = .pubStarting → w.killReq = true →
      SpawnClean.failed (SpawnClean.spawnStep c w) = true ∧ (SpawnClean.spawnStep c w).pc = .kTake) := by
  refine ⟨?_, ?_, ?_, ?_, ?_⟩
  · intro hp ho
    rcases ho with ho | ho | ho <;> simp [SpawnClean.spawnStep, hp, ho, SpawnClean.failed]
  · intro hp ho hk; simp [SpawnClean.spawnStep, hp, ho, hk, SpawnClean.failed]
  · intro hp hs
    have : SpawnClean.linkRefused w = true := by simp [SpawnClean.linkRefused]; omega
    simp [SpawnClean.spawnStep, hp, this, SpawnClean.failed]
  · intro hp hc; simp [SpawnClean.spawnStep, hp, hc, SpawnClean.failed]
  · intro hp hk; simp [SpawnClean.spawnStep, hp, hk, SpawnClean.failed]

/-- A child that a `drain()` lifted to Draining while pre_start ran is NOT a failure cause (fix
ee38a9c, finding F9 of C07): an accepting supervisor links it. -/
theorem drained_child_still_links (c : SpawnClean.Cfg) (w : SpawnClean.W) (hp : w.pc = .link)
    (hst : w.status ≤ 4) (hs : w.supStatus < 4) :
    (SpawnClean.spawnStep c w).res = .ok ∧ (SpawnClean.spawnStep c w).supKids = true := by
  have : SpawnClean.linkRefused w = false := by simp [SpawnClean.linkRefused]; omega
  simp [SpawnClean.spawnStep, hp, this]

/-- the order of the clean-up inside `ActorCell::set_status`, as the model runs it -/
theorem src_set_status_order : Extracted.setStatusOrder =
    ["inner.set_status", "demonitor", "unregister_pid", "unregister", "demonitor_all", "leave_all",
     "notify_stop_listener"] := by decide

/-- Non-vacuity: a named, linked spawn in a cluster build whose pre_start joined two groups,
monitors one and sent itself a message; a cast, a call, a `wait()` and an external join arrive
while pre_start is suspended; the supervisor starts draining; pre_start returns Ok; the link is
refused; a second call and a second `wait()` arrive in the middle of the cleanup. -/
def exampleClean : List SpawnClean.Op :=
  [.begin, .step, .cast, .call, .wait, .joinExt 7, .supSet 4, .step, .step, .call, .wait, .step, .step, .step,
   .step, .step, .call, .step, .step, .step, .step, .step, .step, .step, .step, .step, .wait, .call]

def exampleCfg : SpawnClean.Cfg :=
  { cluster := true, named := true, linked := true, joins := [1, 2], mons := [3], selfsends := 1, outcome := .ok }

example : (SpawnClean.run exampleCfg (exampleClean.take 8)).pc = .link ∧
    (SpawnClean.run exampleCfg (exampleClean.take 8)).members = [1, 2, 7] ∧
    (SpawnClean.run exampleCfg (exampleClean.take 8)).nameMine = true ∧
    (SpawnClean.run exampleCfg (exampleClean.take 8)).pidReg = true ∧
    (SpawnClean.run exampleCfg (exampleClean.take 8)).waiting = 1 := by decide
example : (SpawnClean.run exampleCfg exampleClean).pc = .done ∧
    (SpawnClean.run exampleCfg exampleClean).res = .err ∧
    (SpawnClean.run exampleCfg exampleClean).ports = [.senderError, .senderError, .sendErr, .sendErr] ∧
    (SpawnClean.run exampleCfg exampleClean).released = 3 ∧ exampleClean.count .wait = 3 ∧
    SpawnClean.clean (SpawnClean.run exampleCfg exampleClean) = true := by decide

end C08

#print axioms C08.ok_reachable
#print axioms C08.failed_start_leaves_nothing
#print axioms C08.name_not_held_by_failed_start
#print axioms C08.failure_causes_fail
#print axioms C08.refused_link_fails
#print axioms C08.clash_changes_nothing
#print axioms C08.tl_refused_link_fails_at_once
#print axioms C08.tl_starting_child_is_linked
#print axioms C08.killed_starting_child_is_failed_start
#print axioms C08.failed_start_in_no_child_set
#print axioms C08.selflink_is_child
#print axioms C08.selflinked_failed_start_tells_nobody

#print axioms C08.src_guard_silent_before_running
#print axioms C08.src_start_order
#print axioms C08.src_start_single_await
#print axioms C08.src_local_start_order
#print axioms C08.src_cleanup_order
#print axioms C08.terminate_fuel_suffices
#print axioms C08.terminate_fuel_bound
#print axioms C08.failed_spawn_cleanup_leaves_nothing
#print axioms C08.spawnclean_ok_reachable
#print axioms C08.every_waiter_returns
#print axioms C08.name_clash_touches_nothing
#print axioms C08.cleanup_runs_to_completion
#print axioms C08.every_failure_cause_fails
#print axioms C08.drained_child_still_links
#print axioms C08.src_set_status_order
