import RactorModel.Extracted
import RactorModel.Lemmas.LifeC03
import RactorModel.Lemmas.LifeC03Spec
import RactorModel.Lemmas.LifeWorld
import RactorModel.Lemmas.LifeLive
import RactorModel.Lemmas.LifeDrain
import RactorModel.Lemmas.LifeRace

/-!
# C03 — Kill > stop > supervision > messages; stop is graceful, kill immediate

`Life.C03.ok tr` (defined in `Model/Life.lean`) is acceptance of one actor's trace by the automaton
`Life.C03.next`:

* after a kill that found the signal port open (`killRet _ true`: an API `kill` or a `kill` issued
  by the actor's own callback) there is no `enter` of any callback and no `tick` (no callback makes
  progress past a suspension point);
* after a stop that found the stop port open (`stopRet _ _ true`) there is no `enter handle` and no
  `enter sup`; the open callback may still tick / exit, `post_start` / `post_stop` may be entered;
* whenever `enter handle` occurs every supervision event handed to the actor's port so far has
  been handled (`supArrive` count = `enter sup` count): supervision outranks messages;
* a supervision handler is only entered for an event that arrived.
-/

namespace C03
open Life

/-- **C03, all schedules.** For every actor and every sequence of operations the trace is accepted
by the priority automaton. -/
theorem priority (id : Nat) (ops : List AOp) : Life.C03.ok (trace id ops) = true := by
  obtain ⟨s', h, _⟩ := Life.C03.run_sim ops (Actor.init id) {} (Life.C03.inv_init id)
  simp [Life.C03.ok, trace, h, Except.isOk, Except.toBool]

/-- **The same for the composed world** (what the driver replays): in every run of `World.step`
from the empty world (one harness case: any number of actors, supervision links, effects routed
between them), the trace projection of every actor `i` satisfies the property — because the world
changes actors only through `Actor.step` (`Life.world_actor_run`). -/
theorem priority_world (ops : List Op) (h : ∀ op ∈ ops, op ≠ .case) (i : Nat) :
    Life.C03.ok (projEvs i (({} : World).run ops).2) = true := by
  obtain ⟨aops, e⟩ := world_actor_run ops h i
  have := priority i aops
  simp only [trace, e] at this
  exact this

/-- The invariant behind it: unless the actor is done, an accepted kill is still in the signal
port (the very next poll observes it first, in every phase), an accepted stop is still in the stop
port unless `post_stop` already runs, and the automaton's pending-supervision count is the length of
the supervision queue. -/
theorem invariant (id : Nat) (ops : List AOp) :
    ∃ s, accepts Life.C03.next {} (trace id ops) = .ok s ∧ Life.C03.Inv ((Actor.init id).run ops).1 s :=
  Life.C03.run_sim ops (Actor.init id) {} (Life.C03.inv_init id)

/-! ### The biased choice of one `process_message` (`listen`), port by port -/

/-- A pending kill wins over everything: the actor is done after this poll and no callback starts. -/
theorem pick_signal (a : Actor) (h : a.sigVal = true) :
    (listen a).1.phase = .done ∧ ∀ cb arg, Ev.enter cb arg ∉ evs (listen a).2 := by
  unfold listen
  simp only [h, ite_true]
  refine ⟨killedInLoop_phase _, ?_⟩
  intro cb arg hm
  have := killedInLoop_noise _ _ hm
  simp [Ev.isExitNoise] at this

/-- No kill pending, a stop pending: the loop ends and `post_stop` is entered, whatever the
supervision and message queues hold. -/
theorem pick_stop (a : Actor) (r : Reason) (h : a.sigVal = false) (hs : a.stopVal = some r) :
    (listen a).1.phase = .postStop r ∧ evs (listen a).2 = [.enter .postStop .none] ∧
    (listen a).1.supQ = a.supQ ∧ (listen a).1.msgQ = a.msgQ := by
  simp [listen, h, hs, enterPostStop, Actor.setStatus]

/-- No kill, no stop, a supervision event queued: it is handled before any message. -/
theorem pick_supervision (a : Actor) (e : SupEv) (q : List SupEv) (h : a.sigVal = false)
    (hs : a.stopVal = none) (hq : a.supQ = e :: q) :
    (listen a).1.phase = .inSup ∧ evs (listen a).2 = [.enter .sup (.sup e)] ∧
    (listen a).1.supQ = q ∧ (listen a).1.msgQ = a.msgQ := by
  simp [listen, h, hs, hq]

/-- Only when the three higher ports are empty is a message taken. -/
theorem pick_message (a : Actor) (m : Nat) (q : List Item) (h : a.sigVal = false)
    (hs : a.stopVal = none) (hq : a.supQ = []) (hm : a.msgQ = .msg m :: q) :
    (listen a).1.phase = .inMsg ∧ evs (listen a).2 = [.enter .handle (.msg m)] ∧ (listen a).1.msgQ = q := by
  simp [listen, h, hs, hq, hm]

/-- Kill is observed at the very next poll of an open callback (`run_with_signal`): the callback is
cancelled, nothing else of it runs, the actor is done. -/
theorem kill_cancels_open (a : Actor) (cb : Cb) (h : a.sigVal = true) :
    (pollOpen a cb).1.phase = .done ∧
    ∃ rest, evs (pollOpen a cb).2 = .cancelled cb :: rest ∧
      ∀ c x, Ev.enter c x ∉ rest ∧ Ev.tick c ∉ rest ∧ ∀ r, Ev.exit c r ∉ rest := by
  unfold pollOpen
  simp only [h, ite_true]
  constructor
  · simp only [andThen_fst, say]
    split <;> first | exact killedInLoop_phase _ | exact killedOutsideLoop_phase _
  · simp only [andThen_snd, andThen_fst, say, evs_append, evs_cons_ev, evs_nil, List.cons_append, List.nil_append]
    refine ⟨_, rfl, ?_⟩
    intro c x
    split
    · refine ⟨fun hm => ?_, fun hm => ?_, fun r hm => ?_⟩ <;>
        (have := killedInLoop_noise _ _ hm; simp [Ev.isExitNoise] at this)
    · refine ⟨fun hm => ?_, fun hm => ?_, fun r hm => ?_⟩ <;>
        (have := killedInLoop_noise _ _ hm; simp [Ev.isExitNoise] at this)
    · refine ⟨fun hm => ?_, fun hm => ?_, fun r hm => ?_⟩ <;>
        (have := killedOutsideLoop_noise _ _ hm; simp [Ev.isExitNoise] at this)

/-! ### Stop is graceful, kill is immediate (round 4)

`Life.C03.next` now also rejects: a `cancelled` callback that no accepted kill and no abort explains
(`c03.stop-cancelled-callback` after an accepted stop, `c03.cancelled-without-kill` otherwise) and an
`exit` after an accepted kill other than the return of the very segment that killed its own actor
(`c03.exit-after-kill`); kills issued by a supervisor's `terminate()` are events (`treeKill`). -/

/-- **Stop is graceful (trace level).** In an accepted trace a callback is cancelled only after an
accepted kill (API, self, or a supervisor's `terminate()`) or an abort / dropped start-up — never
because of a stop: after an accepted stop (no kill, no abort) the open handler is not cancelled. -/
theorem cancel_only_by_kill_or_abort (tr p r : List Ev) (cb : Cb) (h : Life.C03.ok tr = true)
    (e : tr = p ++ .cancelled cb :: r) :
    ∃ x ∈ p, Life.C03.isKillAcc x = true ∨ Life.C03.isAbort x = true := by
  obtain ⟨s, hs⟩ := Life.C03.ok_iff.mp h
  subst e
  obtain ⟨s1, h1, h2⟩ := Life.C01.accepts_append_inv _ p _ hs
  rw [accepts_cons] at h2
  cases hn : Life.C03.next s1 (.cancelled cb) with
  | error c => simp [hn] at h2
  | ok s2 =>
    rcases Life.C03.accepts_cause h1 (Life.C03.next_cancelled_inv hn) with h0 | h0
    · rcases h0 with h0 | h0 <;> cases h0
    · exact h0

/-- **Kill is immediate (trace level).** After a kill accepted from outside the actor's own callback
(API kill or `terminate()`), with no self-kill in the trace, no callback is entered, passes a
suspension point, or returns. (The one `exit` the automaton tolerates after a kill is the return
of the segment that issued a self-kill.) -/
theorem no_progress_after_kill (tr p r : List Ev) (e : Ev) (h : Life.C03.ok tr = true)
    (hsplit : tr = p ++ e :: r) (hk : ∃ x ∈ p, Life.C03.isExtKill x = true)
    (hns : ∀ x ∈ p, Life.C03.isSelfKill x = false) : Life.C03.isProgress e = false := by
  obtain ⟨s, hs⟩ := Life.C03.ok_iff.mp h
  subst hsplit
  obtain ⟨s1, h1, h2⟩ := Life.C01.accepts_append_inv _ p _ hs
  rw [accepts_cons] at h2
  cases hn : Life.C03.next s1 e with
  | error c => simp [hn] at h2
  | ok s2 =>
    obtain ⟨hg, hkill⟩ := Life.C03.accepts_noGrace h1 hns rfl
    cases hp : Life.C03.isProgress e with
    | false => rfl
    | true =>
      rcases Life.C03.next_progress_inv hn hp with h0 | h0
      · rw [hkill (Or.inr hk)] at h0; cases h0
      · rw [hg] at h0; cases h0

/-- **Stop is graceful (model level, every handler phase).** A handler (message or supervision) is
suspended, a stop has been accepted (`stopVal = some r`, the sender is gone), no kill is pending, and
the handler's next segment returns `Ok` without killing its own actor: the next poll cancels
nothing, lets the handler finish (`exit … ok`), enters no further handler, and enters `post_stop`
with exactly the accepted reason — whatever else is queued in the supervision and message ports. -/
theorem graceful_stop (a : Actor) (r : Reason) (fx : List Fx)
    (hph : a.phase = .inMsg ∨ a.phase = .inSup) (hsig : a.sigVal = false) (hstop : a.stopVal = some r)
    (htx : a.stopTx = false) (hseg : a.seg = some ⟨fx, .ok⟩) (hnk : Fx.killSelf ∉ fx) :
    (opPoll a).1.phase = .postStop r ∧
    (∀ e ∈ evs (opPoll a).2, Life.C01.isFatal e = false) ∧
    (∃ pre cb, evs (opPoll a).2 = pre ++ [.exit cb .ok, .enter .postStop .none] ∧
      ∀ e ∈ pre, ∀ c x, e ≠ .enter c x) ∧
    (opPoll a).1.supQ = a.supQ := by
  have key : ∀ cb : Cb,
      (pollOpen a cb).1.phase = .postStop r ∧
      (∀ e ∈ evs (pollOpen a cb).2, Life.C01.isFatal e = false) ∧
      (∃ pre cb', evs (pollOpen a cb).2 = pre ++ [.exit cb' .ok, .enter .postStop .none] ∧
        ∀ e ∈ pre, ∀ c x, e ≠ .enter c x) ∧
      (pollOpen a cb).1.supQ = a.supQ := by
    intro cb
    unfold pollOpen
    simp only [hsig, hseg, Bool.false_eq_true, ↓reduceIte]
    exact Life.C03.runSeg_graceful _ cb fx r (by simpa using hph) (by simpa using hsig) (by simpa using hstop)
      (by simpa using htx) hnk
  unfold opPoll
  rcases hph with h | h
  · simp only [h]; exact key .handle
  · simp only [h]; exact key .sup

/-! ### E-SRC obligations: the source still has the shape the model assumes -/

theorem src_select_order : Extracted.selectArmVariants = [Life.selectOrder, Life.selectOrder] := by decide
theorem src_select_biased : Extracted.tokioSelectBiased = true ∧ Extracted.asyncStdSelectBiased = true := by decide
theorem src_run_with_signal :
    Extracted.runWithSignalArms = Life.runWithSignalOrder ++ Life.runWithSignalOrder := by decide

/-! ### Non-vacuity and rejection examples -/

/-- All four ports filled while a handler is open, then kill wins. -/
example : traceNoSnap 0 [.spawn none none true false true, .resume ⟨[], .ok⟩, .pollSpawn true, .poll, .resume ⟨[], .ok⟩,
      .send 1, .poll, .send 2, .supArrive (.started 9), .stop none, .kill, .resume ⟨[], .tick⟩, .poll] =
    [.enter .preStart .none, .tick .preStart, .exit .preStart .ok, .spawnRet .ok,
     .enter .postStart .none, .sendRet false 1 true, .tick .postStart, .exit .postStart .ok,
     .enter .handle (.msg 1), .sendRet false 2 true, .supArrive (.started 9), .stopRet false .none true,
     .killRet false true, .cancelled .handle, .join .ok] := by decide

/-- Stop outranks a queued supervision event and a queued message; the open handler finishes first. -/
example : traceNoSnap 0 [.spawn none none true false true, .resume ⟨[], .ok⟩, .pollSpawn true, .poll, .resume ⟨[], .ok⟩,
      .send 1, .poll, .send 2, .supArrive (.started 9), .stop (some "r"), .resume ⟨[], .ok⟩, .poll] =
    [.enter .preStart .none, .tick .preStart, .exit .preStart .ok, .spawnRet .ok,
     .enter .postStart .none, .sendRet false 1 true, .tick .postStart, .exit .postStart .ok,
     .enter .handle (.msg 1), .sendRet false 2 true, .supArrive (.started 9), .stopRet false (.text "r") true,
     .tick .handle, .exit .handle .ok, .enter .postStop .none] := by decide

/-- Supervision before messages. -/
example : traceNoSnap 0 [.spawn none none true false true, .resume ⟨[], .ok⟩, .pollSpawn true, .poll,
      .send 1, .supArrive (.started 9), .resume ⟨[], .ok⟩, .poll, .resume ⟨[], .ok⟩, .poll] =
    [.enter .preStart .none, .tick .preStart, .exit .preStart .ok, .spawnRet .ok,
     .enter .postStart .none, .sendRet false 1 true, .supArrive (.started 9), .tick .postStart,
     .exit .postStart .ok, .enter .sup (.sup (.started 9)), .tick .sup, .exit .sup .ok,
     .enter .handle (.msg 1)] := by decide

example : Life.C03.ok [.killRet false true, .enter .handle (.msg 1)] = false := by decide
example : Life.C03.ok [.killRet true true, .tick .handle] = false := by decide
example : Life.C03.ok [.stopRet false .none true, .enter .sup (.sup (.started 1))] = false := by decide
example : Life.C03.ok [.supArrive (.started 1), .enter .handle (.msg 1)] = false := by decide
example : Life.C03.ok [.stopRet false .none true, .tick .handle, .exit .handle .ok, .enter .postStop .none] = true := by decide
-- round 4: stop never cancels, a killed callback does not return, tree kills count
example : Life.C03.ok [.enter .handle (.msg 1), .stopRet false .none true, .cancelled .handle] = false := by decide
example : Life.C03.ok [.enter .handle (.msg 1), .cancelled .handle] = false := by decide
example : Life.C03.ok [.enter .handle (.msg 1), .killRet false true, .exit .handle .ok] = false := by decide
example : Life.C03.ok [.enter .handle (.msg 1), .treeKill, .tick .handle] = false := by decide
example : Life.C03.ok [.enter .handle (.msg 1), .tick .handle, .killRet true true, .exit .handle .ok] = true := by decide
example : Life.C03.ok [.enter .handle (.msg 1), .aborted, .cancelled .handle] = true := by decide

/-- E-SRC, async-std backend (round 4): in `actor_cell.rs` the `#[cfg(feature = "async-std")]` block of
`listen_in_priority` and of `run_with_signal` is the tokio block with every arm's future `.fuse()`d (what
`futures::select_biased!` needs) and nothing else changed; together with `src_select_biased` /
`src_select_order` / `src_run_with_signal` the priority order is the same on both backends. -/
theorem src_async_std_select_twins :
    Extracted.asyncStdSelectTwins = [("listen_in_priority", true), ("run_with_signal", true)] := by decide

/-! ### Liveness (wave 2): kill, stop, abort all END in `Stopped` with the guard disarmed

`Dead a` = ports dropped (`phase = done`), `status = Stopped`, lifecycle guard disarmed, nothing left in the
signal / stop port, child set closed (`kids = none`), no supervisor. `Alive a` = the cell exists, its ports are open and the guard is armed. Every reachable
state is one of: no cell yet, `Alive`, `Dead` (`reachable`). The *task* of an actor is the spawn future /
instant start task while it exists (`cell`, `pre`: op `pollSpawn`) and the loop task afterwards (op `poll`):
`taskPoll a op`. `pollCount a ops` counts the task polls along a run. All theorems below quantify over every
op sequence, i.e. the environment (API callers, supervisor, children, the script supplying segments) may do
anything between the polls. This is what C05's hypothesis `Rest` needs from this model (`Props/C05Life.lean`). -/

open Life.Liveness

/-- Every reachable actor state: no cell yet (and nothing in its signal / stop port), or alive with the guard
armed, or `Dead`. In particular `phase = done → status = Stopped ∧ ¬armed`. -/
theorem reachable (id : Nat) (ops : List AOp) : Reach ((Actor.init id).run ops).1 :=
  reach_run ops _ (reach_init id)

/-- A kill is accepted in EVERY phase in which the cell exists (instant `cell`, `pre_start`, loop task not
yet polled, `post_start`, idle, a handler suspended at any segment, `post_stop`) as long as the signal sender
is still in the cell, and it then sits in the signal port. -/
theorem kill_accepted_any_phase (a : Actor) (h : Alive a) (htx : a.sigTx = true) :
    (a.step .kill).1.sigVal = true ∧ Ev.killRet false true ∈ evs (a.step .kill).2 ∧ Alive (a.step .kill).1 := by
  have hpo : a.portsOpen = true := by
    obtain ⟨h1, h2, _⟩ := h
    cases hp : a.phase <;> simp_all [Actor.portsOpen]
  have e : (a.stepCore .kill) = ((apiKill a).1, [.ev (.killRet false (apiKill a).2)]) := by
    simp [Actor.stepCore, h.1, Actor.envOp]
  have e2 : apiKill a = ({ a with sigTx := false, sigVal := true, woken := a.woken || a.sigW }, true) := by
    simp [apiKill, htx, hpo]
  refine ⟨?_, ?_, ?_⟩
  · show (a.stepCore .kill).1.sigVal = true
    rw [e, e2]
  · rw [step_eq, e, e2]; simp
  · show Alive (a.stepCore .kill).1
    rw [e, e2]; exact ⟨h.1, h.2.1, h.2.2⟩

/-- Every alive actor has a task that can be polled. -/
theorem alive_has_task (a : Actor) (h : Alive a) : taskPoll a .poll = true ∨ taskPoll a (.pollSpawn true) = true := by
  obtain ⟨h1, h2, _⟩ := h
  cases hp : a.phase <;> simp_all [taskPoll, Phase.isTask]

/-- **Kill reaches Stopped at the NEXT poll of the actor's task (N = 1), from any phase.** A kill is in the
signal port of a reachable actor: the poll ends the actor (`Stopped`, guard disarmed, ports dropped) and emits
no `enter` / `tick` / `exit` of any callback. -/
theorem kill_next_poll (a : Actor) (hr : Reach a) (hs : a.sigVal = true) (op : AOp) (hp : taskPoll a op = true) :
    Dead (a.step op).1 ∧ ∀ e ∈ evs (a.step op).2, Life.C03.isProgress e = false := by
  obtain ⟨_, h2, h3⟩ := kill_step a op (hr.alive_of_sig hs) hs
  exact ⟨h2 hp, step_np a op h3⟩

/-- **Kill reaches Stopped (state level), all environments.** With a kill in the signal port, along EVERY
continuation `ops`: no callback is entered, passes a suspension point or returns; as soon as `ops` contains one
poll of the actor's task (or an abort / dropped start) the actor is `Stopped` with the guard disarmed — and
stays so; until then the kill stays pending. -/
theorem kill_pending_reaches_stopped (a : Actor) (hr : Reach a) (hs : a.sigVal = true) (ops : List AOp) :
    (∀ e ∈ (a.run ops).2, Life.C03.isProgress e = false) ∧
    (1 ≤ pollCount a ops →
      (a.run ops).1.status = .stopped ∧ (a.run ops).1.armed = false ∧ (a.run ops).1.phase = .done) ∧
    (Dead (a.run ops).1 ∨ (Alive (a.run ops).1 ∧ (a.run ops).1.sigVal = true)) := by
  obtain ⟨h1, h2, h3⟩ := kill_run ops a (hr.alive_of_sig hs) hs
  exact ⟨h3, fun hc => ⟨(h2 hc).2.1, (h2 hc).2.2.1, (h2 hc).1⟩, h1⟩

/-- **Kill reaches Stopped (trace level).** Once the trace contains an accepted kill — `kill()` from outside,
`myself.kill()` inside a callback, or the supervisor's `terminate()` (`treeKill`) — in whatever phase it was
accepted: every continuation is free of callback progress and one poll of the actor's task suffices for
`Stopped` + guard disarmed. -/
theorem kill_reaches_stopped (id : Nat) (ops0 ops : List AOp)
    (hk : ∃ e ∈ trace id ops0, Life.C03.isKillAcc e = true) :
    (∀ e ∈ (((Actor.init id).run ops0).1.run ops).2, Life.C03.isProgress e = false) ∧
    (1 ≤ pollCount ((Actor.init id).run ops0).1 ops →
      (((Actor.init id).run ops0).1.run ops).1.status = .stopped ∧
      (((Actor.init id).run ops0).1.run ops).1.armed = false ∧
      (((Actor.init id).run ops0).1.run ops).1.phase = .done) := by
  rcases kill_event_pending id ops0 hk with hd | ⟨hal, hs⟩
  · obtain ⟨h1, h2⟩ := dead_run ops _ hd
    exact ⟨h2, fun _ => ⟨h1.2.1, h1.2.2.1, h1.1⟩⟩
  · obtain ⟨h1, h2, _⟩ := kill_pending_reaches_stopped _ (Or.inr (Or.inl hal)) hs ops
    exact ⟨h1, h2⟩

/-- **Stop progress (state level).** A stop is in the stop port, or `post_stop` is open (`StopPend`). Along every
continuation: the actor ends, or the stop stays pending and `rank` (cell 5 > pre_start 4 > loop not yet polled 3 >
post_start / idle / handler 2 > post_stop 1) has fallen by at least the number of EFFECTIVE polls — task polls
that do not find the open callback still suspended (`effPoll`: no callback open, or the script supplied a
returning segment, or a kill is pending). Nothing the environment does makes the rank grow. -/
theorem stop_pending_progress (a : Actor) (h : Alive a) (hs : StopPend a) (ops : List AOp) :
    Dead (a.run ops).1 ∨
    (Alive (a.run ops).1 ∧ StopPend (a.run ops).1 ∧ rank (a.run ops).1 + effCount a ops ≤ rank a) :=
  stop_run ops a h hs

/-- **Stop reaches Stopped.** After an accepted stop (`stopRet _ _ true` in the trace: `stop()` from outside or
`myself.stop()` in a callback), if the continuation contains `rank ≤ 5` effective polls — i.e. every callback
that is or becomes open returns after finitely many resumes and the task keeps being polled — the actor is
`Stopped` with the guard disarmed. -/
theorem stop_reaches_stopped (id : Nat) (ops0 ops : List AOp)
    (hk : ∃ e ∈ trace id ops0, isStopAcc e = true)
    (hfair : rank ((Actor.init id).run ops0).1 ≤ effCount ((Actor.init id).run ops0).1 ops) :
    (((Actor.init id).run ops0).1.run ops).1.status = .stopped ∧
    (((Actor.init id).run ops0).1.run ops).1.armed = false ∧
    (((Actor.init id).run ops0).1.run ops).1.phase = .done := by
  have fin : Dead (((Actor.init id).run ops0).1.run ops).1 := by
    rcases stop_event_pending id ops0 hk with hd | ⟨hal, hs⟩
    · exact (dead_run ops _ hd).1
    · rcases stop_run ops _ hal hs with hd | ⟨h1, _, h3⟩
      · exact hd
      · have := rank_pos h1; omega
  exact ⟨fin.2.1, fin.2.2.1, fin.1⟩

/-- The bound is uniform: five effective polls always suffice. -/
theorem stop_reaches_stopped_5 (id : Nat) (ops0 ops : List AOp)
    (hk : ∃ e ∈ trace id ops0, isStopAcc e = true)
    (hfair : 5 ≤ effCount ((Actor.init id).run ops0).1 ops) :
    (((Actor.init id).run ops0).1.run ops).1.status = .stopped ∧
    (((Actor.init id).run ops0).1.run ops).1.armed = false :=
  have h := stop_reaches_stopped id ops0 ops hk (Nat.le_trans (rank_le _) hfair)
  ⟨h.1, h.2.1⟩

/-- **An aborted task reaches Stopped in the abort step itself**, whichever callback was open. -/
theorem abort_reaches_stopped (a : Actor) (hr : Reach a) (ht : a.phase.isTask = true) :
    Dead (a.step .abort).1 := by
  have hal : Alive a := by
    rcases hr with h | h | h
    · rw [h.1] at ht; cases ht
    · exact h
    · rw [h.1] at ht; cases ht
  exact opAbort_dead a hal.2.2 ht

/-- **A dropped spawn future / aborted instant start task reaches Stopped in that step.** -/
theorem drop_spawn_reaches_stopped (a : Actor) (hr : Reach a) (hp : a.phase = .cell ∨ a.phase = .pre) :
    Dead (a.step .dropSpawn).1 := by
  have hal : Alive a := by
    rcases hr with h | h | h
    · rcases hp with hp | hp <;> rw [h.1] at hp <;> cases hp
    · exact h
    · rcases hp with hp | hp <;> rw [h.1] at hp <;> cases hp
  exact opDropSpawn_dead a hal.2.2 hp

/-! Non-vacuity: a kill accepted in each phase, then one task poll; without the poll the actor is not stopped. -/

-- instant cell, never polled
example : ((Actor.init 0).run [.spawnInstant none none true false, .kill, .pollSpawn true]).1.status = .stopped := by decide
example : ((Actor.init 0).run [.spawnInstant none none true false, .kill]).1.status = .unstarted := by decide
-- inside pre_start
example : ((Actor.init 0).run [.spawn none none true false true, .kill, .resume ⟨[], .ok⟩, .pollSpawn true]).1.status
    = .stopped := by decide
-- loop task never polled / inside post_start
example : ((Actor.init 0).run [.spawn none none true false true, .resume ⟨[], .ok⟩, .pollSpawn true, .kill, .poll]).1.status
    = .stopped := by decide
example : ((Actor.init 0).run [.spawn none none true false true, .resume ⟨[], .ok⟩, .pollSpawn true, .poll, .kill,
    .resume ⟨[], .ok⟩, .poll]).1.status = .stopped := by decide
-- handler suspended at its second segment, kill by the supervisor's terminate()
example : ((Actor.init 0).run [.spawn none none true false true, .resume ⟨[], .ok⟩, .pollSpawn true, .poll,
    .resume ⟨[], .ok⟩, .send 1, .poll, .resume ⟨[], .tick⟩, .poll, .treeTaken, .resume ⟨[], .ok⟩, .send 2, .stop none,
    .poll]).1.status = .stopped := by decide
-- inside post_stop
example : ((Actor.init 0).run [.spawn none none true false true, .resume ⟨[], .ok⟩, .pollSpawn true, .poll,
    .resume ⟨[], .ok⟩, .stop none, .poll, .kill, .resume ⟨[], .ok⟩, .poll]).1.status = .stopped := by decide
-- the kill is pending and the actor is not stopped before the poll
example : ((Actor.init 0).run [.spawn none none true false true, .resume ⟨[], .ok⟩, .pollSpawn true, .poll,
    .resume ⟨[], .ok⟩, .stop none, .poll, .kill, .resume ⟨[], .ok⟩]).1.status = .stopping := by decide
-- graceful stop accepted during pre_start: 4 effective polls (rank of `pre`)
example : effCount ((Actor.init 0).run [.spawn none none true false true, .stop none]).1
    [.resume ⟨[], .ok⟩, .pollSpawn true, .poll, .poll, .resume ⟨[], .tick⟩, .poll, .resume ⟨[], .ok⟩, .poll,
     .resume ⟨[], .ok⟩, .poll] = 4 := by decide
example : ((Actor.init 0).run [.spawn none none true false true, .stop none,
    .resume ⟨[], .ok⟩, .pollSpawn true, .poll, .poll, .resume ⟨[], .tick⟩, .poll, .resume ⟨[], .ok⟩, .poll,
     .resume ⟨[], .ok⟩, .poll]).1.status = .stopped := by decide
-- abort while a handler is open
example : ((Actor.init 0).run [.spawn none none true false true, .resume ⟨[], .ok⟩, .pollSpawn true, .poll,
    .resume ⟨[], .ok⟩, .send 1, .poll, .abort]).1.status = .stopped := by decide

/-! ### Liveness of `drain` (wave 2)

`DrainPend a`: the drain marker is in the mailbox (or `post_stop` is open). `dmeas a` = phase rank + number of
supervision events queued + number of mailbox items in front of the marker: what the loop still has to do before
it picks the marker. The only way the environment can add to it is a supervision event handed to the port
(`supCount ops`, one each) — messages sent later go BEHIND the marker (or are refused). -/

/-- The first `drain()` on a live actor puts the marker into the mailbox. -/
theorem drain_enqueues_marker (a : Actor) (h : Alive a) (hm : a.markerSent = false) :
    Item.drain ∈ (a.step .drain).1.msgQ ∧ Ev.drainRet true ∈ evs (a.step .drain).2 := by
  have hpo : a.portsOpen = true := by
    obtain ⟨h1, h2, _⟩ := h
    cases hp : a.phase <;> simp_all [Actor.portsOpen]
  have e : (a.stepCore .drain) = ((apiDrain a).1, [.ev (.drainRet (apiDrain a).2)]) := by
    simp [Actor.stepCore, h.1, Actor.envOp]
  have e2 : Item.drain ∈ (apiDrain a).1.msgQ ∧ (apiDrain a).2 = true := by
    simp [apiDrain, hm, hpo, Actor.portsOpen]
    cases hp : a.phase <;> simp_all [Actor.portsOpen]
  constructor
  · show Item.drain ∈ (a.stepCore .drain).1.msgQ
    rw [e]; exact e2.1
  · rw [step_eq, e, e2.2]; simp

/-- **Drain progress, all environments.** The marker stays queued until the loop picks it, the measure grows by at
most one per supervision event handed in and falls with every effective poll. -/
theorem drain_pending_progress (a : Actor) (h : Alive a) (hs : DrainPend a) (ops : List AOp) :
    Dead (a.run ops).1 ∨
    (Alive (a.run ops).1 ∧ DrainPend (a.run ops).1 ∧
      dmeas (a.run ops).1 + effCount a ops ≤ dmeas a + supCount ops) :=
  drain_run ops a h hs

/-- **Drain reaches Stopped.** With the marker enqueued, a continuation that contains as many effective polls as
`dmeas a` plus the supervision events it hands in (every handler that is or becomes open returns after finitely many
resumes, the task keeps being polled, the supervision traffic is finite) ends `Stopped` with the guard disarmed. -/
theorem drain_reaches_stopped (a : Actor) (h : Alive a) (hd : Item.drain ∈ a.msgQ) (ops : List AOp)
    (hfair : dmeas a + supCount ops ≤ effCount a ops) :
    (a.run ops).1.status = .stopped ∧ (a.run ops).1.armed = false ∧ (a.run ops).1.phase = .done := by
  rcases drain_run ops a h (Or.inl hd) with hx | ⟨h1, _, h3⟩
  · exact ⟨hx.2.1, hx.2.2.1, hx.1⟩
  · have := dmeas_pos h1; omega

-- two messages queued before the marker, one supervision event arrives meanwhile: measure 2+0+2 = 4, +1
example : dmeas ((Actor.init 0).run [.spawn none none true false true, .resume ⟨[], .ok⟩, .pollSpawn true, .poll,
    .send 1, .send 2, .drain]).1 = 4 := by decide
example : ((Actor.init 0).run [.spawn none none true false true, .resume ⟨[], .ok⟩, .pollSpawn true, .poll,
    .send 1, .send 2, .drain,
    .resume ⟨[], .ok⟩, .poll, .supArrive (.started 7), .send 3, .resume ⟨[], .ok⟩, .poll, .resume ⟨[], .ok⟩, .poll,
    .resume ⟨[], .ok⟩, .poll, .resume ⟨[], .ok⟩, .poll]).1.status = .stopped := by decide
example : effCount ((Actor.init 0).run [.spawn none none true false true, .resume ⟨[], .ok⟩, .pollSpawn true, .poll,
    .send 1, .send 2, .drain]).1
    [.resume ⟨[], .ok⟩, .poll, .supArrive (.started 7), .send 3, .resume ⟨[], .ok⟩, .poll, .resume ⟨[], .ok⟩, .poll,
    .resume ⟨[], .ok⟩, .poll, .resume ⟨[], .ok⟩, .poll] = 5 := by decide

/-! ### Poll atomicity: a kill landing INSIDE a poll (wave 2, audit §4 / §5.4)

The model's poll is atomic: `listen` / `pollOpen` test the signal port and go on within one op. On a multi-thread
runtime a `kill()` issued from another OS thread can land between the signal test of `run_with_signal` /
`select!{biased}` and the rest of that same poll; `kill()` has then returned while the poll still starts a callback
or runs one more segment — an order of events (`killRet … true` BEFORE `enter`/`tick`/`exit` of that poll) the
strict automaton `C03.next` rejects and no run of the single-thread engine produces. That racing poll computes
exactly what `poll` computes on the state its signal test saw, and the kill is in the port afterwards, i.e. the
state after the race is the state after `[poll, kill]`. The two theorems bound the violation: what the racing poll
can still do, and that the next poll ends the actor without any further progress. -/

/-- **One poll emits at most one `enter`, one `tick` and one `exit`**: the callback progress that can follow a
`kill()` that returned in the middle of a poll is at most one segment of the open callback (`tick`, `exit`) and
the start of at most one callback (`enter`). For every state, reachable or not. -/
theorem poll_progress_bounded (a : Actor) : B3 (a.step .poll).2 1 1 1 := step_poll_B3 a

/-- **… and the next poll cancels.** `a` reachable; `b` = after a poll (the one the kill raced with), `c` = after the
kill that the signal port accepted during it: every poll of the actor's task from `c` ends the actor (`Stopped`,
guard disarmed) with no callback progress at all, and so does every continuation that contains one
(`kill_pending_reaches_stopped`). The relaxed oracle for a multi-thread harness is therefore: after `killRet … true`
at most the progress of ONE poll (`poll_progress_bounded`), then none. -/
theorem kill_inside_poll_bounded (a : Actor) (hr : Reach a)
    (hacc : (apiKill (a.step .poll).1).2 = true) (op : AOp)
    (hp : taskPoll ((a.step .poll).1.step .kill).1 op = true) :
    Dead (((a.step .poll).1.step .kill).1.step op).1 ∧
    ∀ e ∈ evs (((a.step .poll).1.step .kill).1.step op).2, Life.C03.isProgress e = false :=
  kill_next_poll _ (reach_step _ _ (reach_step _ _ hr)) (kill_step_sigVal _ hacc) op hp

-- the strict automaton rejects the racing order, the bound is what remains true
example : Life.C03.ok [.enter .handle (.msg 1), .killRet false true, .tick .handle, .exit .handle .ok,
    .enter .handle (.msg 2)] = false := by decide
-- a poll that really emits one tick, one exit and one enter
example : ((evs (((Actor.init 0).run [.spawn none none true false true, .resume ⟨[], .ok⟩, .pollSpawn true, .poll,
    .resume ⟨[], .ok⟩, .send 1, .send 2, .poll, .resume ⟨[], .ok⟩]).1.step .poll).2).filter Life.C03.isProgress)
    = [.tick .handle, .exit .handle .ok, .enter .handle (.msg 2)] := by decide

end C03

#print axioms C03.priority
#print axioms C03.priority_world
#print axioms C03.invariant
#print axioms C03.pick_signal
#print axioms C03.pick_stop
#print axioms C03.pick_supervision
#print axioms C03.pick_message
#print axioms C03.kill_cancels_open
#print axioms C03.cancel_only_by_kill_or_abort
#print axioms C03.no_progress_after_kill
#print axioms C03.graceful_stop
#print axioms C03.src_select_order
#print axioms C03.src_select_biased
#print axioms C03.src_run_with_signal
#print axioms C03.src_async_std_select_twins
#print axioms C03.reachable
#print axioms C03.kill_accepted_any_phase
#print axioms C03.alive_has_task
#print axioms C03.kill_next_poll
#print axioms C03.kill_pending_reaches_stopped
#print axioms C03.kill_reaches_stopped
#print axioms C03.stop_pending_progress
#print axioms C03.stop_reaches_stopped
#print axioms C03.stop_reaches_stopped_5
#print axioms C03.abort_reaches_stopped
#print axioms C03.drop_spawn_reaches_stopped
#print axioms C03.drain_enqueues_marker
#print axioms C03.drain_pending_progress
#print axioms C03.drain_reaches_stopped
#print axioms C03.poll_progress_bounded
#print axioms C03.kill_inside_poll_bounded
