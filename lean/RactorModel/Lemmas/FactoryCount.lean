import RactorModel.Model.FactoryOracle

/-!
Conservation of jobs (C13): counting where a job id is.

For a fixed job id `i`, `total i w` counts its occurrences over every place a job can be:
the factory's mailbox (`Dispatch` not yet handled), the factory queue, the workers' message
queues, the worker actors (running or in their mailbox) and the terminal fates recorded in the
(ghost) log: handled, discarded (with any reason, reported or not), lost with a worker,
dropped.  Every function of the model moves a job from one place to another; this file proves
the bookkeeping equations for the `Env` and `WorkerProperties` layer.
-/

namespace Factory

/-- occurrences of job id `i` in a list of jobs -/
def cj (i : Nat) (l : List Job) : Nat := l.countP (fun j => j.id == i)

@[simp] theorem cj_nil (i : Nat) : cj i [] = 0 := rfl
theorem cj_cons (i : Nat) (j : Job) (l : List Job) : cj i (j :: l) = cj i [j] + cj i l := by
  simp only [cj, List.countP_cons, List.countP_nil]; omega
/-- terminating simp form of `cj` on a cons -/
theorem cj_cons_ite (i : Nat) (j : Job) (l : List Job) : cj i (j :: l) = (if j.id == i then 1 else 0) + cj i l := by
  simp only [cj, List.countP_cons]; omega
theorem cj_append (i : Nat) (a b : List Job) : cj i (a ++ b) = cj i a + cj i b := by
  simp [cj, List.countP_append]
theorem cj_port (i : Nat) (j : Job) (b : Bool) : cj i [{ j with port := b }] = cj i [j] := rfl

def cActors (i : Nat) (l : List Actor) : Nat := (l.map fun a => cj i a.heldJobs).sum

/-- terminal fates of job `i` in the log -/
def isTerm (i : Nat) : Ev → Bool
  | .discard _ id _ => id == i
  | .lost _ id => id == i
  | .dropped id => id == i
  | .abandoned id => id == i
  | .handled _ id => id == i
  | _ => false

def cTerm (i : Nat) (log : List Ev) : Nat := log.countP (isTerm i)

def cEnv (i : Nat) (e : Env) : Nat := cActors i e.actors + cTerm i e.log

def cPool (i : Nat) (pool : List WP) : Nat := (pool.map fun p => cj i p.mq).sum

def isDispatchOf (i : Nat) : FMsg → Bool
  | .dispatch j => j.id == i
  | _ => false

def cInbox (i : Nat) (inbox : List FMsg) : Nat := inbox.countP (isDispatchOf i)

/-- every place job `i` can be -/
def total (i : Nat) (w : W) : Nat := cInbox i w.inbox + cj i w.queue + cPool i w.pool + cEnv i w.env

/-! ### log -/

theorem cTerm_append (i : Nat) (a b : List Ev) : cTerm i (a ++ b) = cTerm i a + cTerm i b := by
  simp [cTerm, List.countP_append]

theorem cEnv_emit (i : Nat) (e : Env) (ev : Ev) (h : isTerm i ev = false) : cEnv i (e.emit ev) = cEnv i e := by
  simp [cEnv, Env.emit, cTerm_append, cTerm, List.countP_cons, h]

theorem cEnv_discard (i : Nat) (e : Env) {h : Option Nat} (r : Reason) (j : Job) :
    cEnv i (e.discard h r j) = cEnv i e + cj i [j] := by
  cases h : (j.id == i) <;>
    simp [cEnv, Env.discard, Env.emit, cTerm, cj, List.countP_append, List.countP_cons, isTerm, h] <;> omega

theorem cEnv_reject (i : Nat) (e : Env) (j : Job) : cEnv i (e.reject j) = cEnv i e := by
  unfold Env.reject; split
  · exact cEnv_emit i e _ rfl
  · rfl

theorem cEnv_accept (i : Nat) (e : Env) (j : Job) : cEnv i (e.accept j) = cEnv i e := by
  unfold Env.accept; split
  · exact cEnv_emit i e _ rfl
  · rfl

@[simp] theorem emit_actors (e : Env) (ev : Ev) : (e.emit ev).actors = e.actors := rfl
@[simp] theorem emit_now (e : Env) (ev : Ev) : (e.emit ev).now = e.now := rfl
@[simp] theorem discard_now (e : Env) (h : Option Nat) (r : Reason) (j : Job) : (e.discard h r j).now = e.now := rfl
@[simp] theorem discard_actors (e : Env) (h : Option Nat) (r : Reason) (j : Job) : (e.discard h r j).actors = e.actors := rfl

/-! ### actors -/

theorem find_aid {l : List Actor} {aid : Nat} {a : Actor} (h : l.find? (fun x => x.aid == aid) = some a) :
    a.aid = aid := by
  have := List.find?_some h
  simpa using this

theorem cActors_setFirst (i : Nat) (l : List Actor) (a a' : Actor)
    (h : l.find? (fun x => x.aid == a'.aid) = some a) :
    cActors i (setFirstActor a' l) + cj i a.heldJobs = cActors i l + cj i a'.heldJobs := by
  induction l with
  | nil => simp at h
  | cons x xs ih =>
    unfold setFirstActor
    simp only [List.find?_cons] at h
    cases hx : x.aid == a'.aid
    · simp only [hx] at h
      have := ih h
      simp only [Bool.false_eq_true, if_false, cActors, List.map_cons, List.sum_cons] at *
      omega
    · simp only [hx, Option.some.injEq] at h
      subst h
      simp only [if_true, cActors, List.map_cons, List.sum_cons]
      omega

theorem cEnv_setActor (i : Nat) (e : Env) (a a' : Actor) (h : e.getActor a'.aid = some a) :
    cEnv i (e.setActor a') + cj i a.heldJobs = cEnv i e + cj i a'.heldJobs := by
  have := cActors_setFirst i e.actors a a' h
  simp only [cEnv, Env.setActor]
  omega

theorem getActor_aid {e : Env} {aid : Nat} {a : Actor} (h : e.getActor aid = some a) : a.aid = aid :=
  find_aid h

theorem cEnv_cast (i : Nat) (e e' : Env) (aid : Nat) (j : Job) (h : e.cast aid j = some e') :
    cEnv i e' = cEnv i e + cj i [j] := by
  unfold Env.cast at h
  cases ha : e.getActor aid with
  | none => simp [ha] at h
  | some a =>
    simp only [ha] at h
    split at h
    · simp at h
    · simp only [Option.some.injEq] at h
      subst h
      have haid := getActor_aid ha
      have := cEnv_setActor i e a { a with mailbox := a.mailbox ++ [j] } (by simpa [haid] using ha)
      simp only [Actor.heldJobs, cj_append] at this ⊢
      omega

theorem cTerm_lost (i aid : Nat) (l : List Job) : cTerm i (l.map fun j => Ev.lost aid j.id) = cj i l := by
  induction l with
  | nil => rfl
  | cons j l ih =>
    have h1 : cTerm i ((j :: l).map fun j => Ev.lost aid j.id)
        = cTerm i [Ev.lost aid j.id] + cTerm i (l.map fun j => Ev.lost aid j.id) := by
      rw [List.map_cons, ← cTerm_append]; rfl
    have h2 : cTerm i [Ev.lost aid j.id] = cj i [j] := rfl
    rw [h1, h2, ih, ← cj_cons]

theorem cEnv_die (i : Nat) (e : Env) (aid : Nat) : cEnv i (e.die aid) = cEnv i e := by
  unfold Env.die
  cases ha : e.getActor aid with
  | none => rfl
  | some a =>
    simp only
    split
    · rfl
    · have haid := getActor_aid ha
      have := cEnv_setActor i e a { a with alive := false, running := none, mailbox := [], stopReq := false }
        (by simpa [haid] using ha)
      have hnew : ({ a with alive := false, running := none, mailbox := [], stopReq := false } : Actor).heldJobs = [] := rfl
      simp only [cEnv, cTerm_append, cTerm_lost, Env.setActor, hnew, cj_nil] at this ⊢
      omega

theorem cEnv_stop (i : Nat) (e : Env) (aid : Nat) : cEnv i (e.stop aid) = cEnv i e := by
  unfold Env.stop
  cases ha : e.getActor aid with
  | none => rfl
  | some a =>
    simp only
    split
    · rfl
    · have haid := getActor_aid ha
      have := cEnv_setActor i e a { a with stopReq := true } (by simpa [haid] using ha)
      simp only [Actor.heldJobs] at this
      omega

theorem cEnv_settleOne (i : Nat) (e : Env) (aid : Nat) : cEnv i (e.settleOne aid) = cEnv i e := by
  unfold Env.settleOne
  cases ha : e.getActor aid with
  | none => rfl
  | some a =>
    simp only
    split
    · rfl
    · split
      · exact cEnv_die i e aid
      · cases hm : a.mailbox with
        | nil => rfl
        | cons j rest =>
          simp only
          rw [cEnv_emit _ _ _ rfl]
          have haid := getActor_aid ha
          have := cEnv_setActor i e a { a with running := some j, mailbox := rest } (by simpa [haid] using ha)
          rename_i hrun _
          have hr : a.running = none := by
            cases h : a.running with
            | none => rfl
            | some _ => simp [h] at hrun
          simp only [Actor.heldJobs, hr, hm, cj_append, cj_nil] at this
          rw [cj_cons] at this
          omega

theorem cEnv_settle (i : Nat) (e : Env) : cEnv i e.settle = cEnv i e := by
  unfold Env.settle
  generalize e.actors.map (·.aid) = ids
  induction ids generalizing e with
  | nil => rfl
  | cons a as ih => rw [List.foldl_cons, ih, cEnv_settleOne]

theorem cEnv_killAll (i : Nat) (e : Env) : cEnv i e.killAll = cEnv i e := by
  unfold Env.killAll
  generalize e.actors.map (·.aid) = ids
  induction ids generalizing e with
  | nil => rfl
  | cons a as ih => rw [List.foldl_cons, ih, cEnv_die]

theorem cEnv_spawn (i : Nat) (e : Env) (wid aid : Nat) : cEnv i (e.spawn wid aid) = cEnv i e := by
  simp [cEnv, Env.spawn, cActors, cTerm_append, cTerm, List.countP_cons, isTerm, Actor.heldJobs]

/-! ### `WorkerProperties` -/

theorem cj_opt (i : Nat) (o : Option Job) : cj i (match o with | some j => [j] | none => []) = cj i o.toList := by
  cases o <;> rfl

/-- `get_next_non_expired_job`: what leaves the queue is either returned or discarded -/
theorem getNextNonExpired_count {h : Option Nat} (i : Nat) (mq : List Job) (pend : List Nat) (e : Env) :
    cj i (getNextNonExpired h mq pend e).1.toList + cj i (getNextNonExpired h mq pend e).2.1
      + cEnv i (getNextNonExpired h mq pend e).2.2.2 = cj i mq + cEnv i e := by
  induction mq generalizing pend e with
  | nil => simp [getNextNonExpired]
  | cons j rest ih =>
    unfold getNextNonExpired
    split
    · simp only [Option.toList_some]
      rw [cj_cons i j rest]
    · rw [ih, cEnv_discard, cj_cons i j rest]
      omega

theorem getNextNonExpired_now {h : Option Nat} (mq : List Job) (pend : List Nat) (e : Env) :
    (getNextNonExpired h mq pend e).2.2.2.now = e.now := by
  induction mq generalizing pend e with
  | nil => rfl
  | cons j rest ih =>
    unfold getNextNonExpired
    split
    · rfl
    · rw [ih]; rfl

theorem getNext_count (i : Nat) (p : WP) (e : Env) :
    cj i (p.getNext e).1.toList + cj i (p.getNext e).2.1.mq + cEnv i (p.getNext e).2.2 = cj i p.mq + cEnv i e := by
  unfold WP.getNext
  exact getNextNonExpired_count i p.mq p.pending e

theorem dispatchJob_count (i : Nat) (p : WP) (e : Env) (j : Job) :
    cj i (p.dispatchJob e j).1.mq + cEnv i (p.dispatchJob e j).2 = cj i p.mq + cEnv i e + cj i [j] := by
  unfold WP.dispatchJob
  cases hc : e.cast p.actor j with
  | none => simp only; rw [cj_cons]; omega
  | some e' => simp only; rw [cEnv_cast i e e' _ j hc]; omega

theorem shedOldest_count (i : Nat) (limit fuel : Nat) (p : WP) (e : Env) :
    cj i (shedOldest limit fuel p e).1.mq + cEnv i (shedOldest limit fuel p e).2 = cj i p.mq + cEnv i e := by
  induction fuel generalizing p e with
  | zero => rfl
  | succ fuel ih =>
    unfold shedOldest
    split
    · have hg := getNext_count i p e
      cases hn : p.getNext e with
      | mk r pe =>
        obtain ⟨p', e'⟩ := pe
        rw [hn] at hg
        cases r with
        | none =>
          simp only
          rw [ih]
          simpa using hg
        | some d =>
          simp only
          rw [ih, cEnv_discard]
          simp only [WP.untrack, Option.toList_some] at hg ⊢
          omega
    · rfl

theorem enqueueAccepted_count (i : Nat) (p : WP) (e : Env) (j : Job) :
    cj i (p.enqueueAccepted e j).1.mq + cEnv i (p.enqueueAccepted e j).2 = cj i p.mq + cEnv i e + cj i [j] := by
  unfold WP.enqueueAccepted
  split
  · -- nothing in flight
    have hg := getNext_count i p e
    cases hn : p.getNext e with
    | mk r pe =>
      obtain ⟨p', e'⟩ := pe
      rw [hn] at hg
      cases r with
      | none =>
        simp only
        rw [dispatchJob_count]
        simp only [Option.toList_none, cj_nil] at hg
        omega
      | some older =>
        simp only
        rw [dispatchJob_count]
        simp only [Option.toList_some] at hg
        simp only [cj_append]
        omega
  · simp only
    split
    · rw [shedOldest_count]
      simp only [cj_append]; omega
    · simp only [cj_append]; omega

theorem enqueueJob_count (i : Nat) (p : WP) (e : Env) (j : Job) :
    cj i (p.enqueueJob e j).1.mq + cEnv i (p.enqueueJob e j).2 = cj i p.mq + cEnv i e + cj i [j] := by
  unfold WP.enqueueJob
  split
  · simp only [cEnv_reject, cEnv_discard]; omega
  · rw [enqueueAccepted_count]
    simp only [WP.track, cEnv_accept, cj_port]

theorem workerComplete_count (i : Nat) (p : WP) (e : Env) (key : Nat) :
    cj i (p.workerComplete e key).1.mq + cEnv i (p.workerComplete e key).2 = cj i p.mq + cEnv i e := by
  unfold WP.workerComplete
  split
  · generalize hp' : ({ p with curr := p.curr.filter (fun x => x.1 != key), pending := p.pending.erase key } : WP) = p0
    have hmq : p0.mq = p.mq := by subst hp'; rfl
    have hg := getNext_count i p0 e
    cases hn : p0.getNext e with
    | mk r pe =>
      obtain ⟨p', e'⟩ := pe
      rw [hn] at hg
      cases r with
      | none => simp only [hn]; simp only [Option.toList_none, cj_nil, hmq] at hg; omega
      | some j =>
        simp only [hn]
        rw [dispatchJob_count]
        simp only [Option.toList_some, hmq] at hg
        omega
  · rfl

theorem replaceWorker_count (i : Nat) (p : WP) (e : Env) (naid : Nat) :
    cj i (p.replaceWorker e naid).1.mq + cEnv i (p.replaceWorker e naid).2 = cj i p.mq + cEnv i e := by
  unfold WP.replaceWorker
  simp only
  generalize hp' : ({ p with curr := [], pending := p.curr.foldl (fun acc x => acc.erase x.1) p.pending, actor := naid } : WP) = p0
  have hmq : p0.mq = p.mq := by subst hp'; rfl
  have hg := getNext_count i p0 e
  cases hn : p0.getNext e with
  | mk r pe =>
    obtain ⟨p', e'⟩ := pe
    rw [hn] at hg
    cases r with
    | none => simp only [hn]; simp only [Option.toList_none, cj_nil, hmq] at hg; omega
    | some j =>
      simp only [hn]
      rw [dispatchJob_count]
      simp only [Option.toList_some, hmq] at hg
      omega

/-! ### pool -/

theorem cPool_setW (i : Nat) (pool : List WP) (wid : Nat) (p p' : WP) (h : getW pool wid = some p) :
    cPool i (setW pool wid p') + cj i p.mq = cPool i pool + cj i p'.mq := by
  induction pool with
  | nil => simp [getW] at h
  | cons x xs ih =>
    unfold setW
    simp only [getW, List.find?_cons] at h
    cases hx : x.wid == wid
    · simp only [hx] at h
      have := ih h
      simp only [Bool.false_eq_true, if_false, cPool, List.map_cons, List.sum_cons] at *
      omega
    · simp only [hx, Option.some.injEq] at h
      subst h
      simp only [if_true, cPool, List.map_cons, List.sum_cons]
      omega

theorem cPool_removeW (i : Nat) (pool : List WP) (wid : Nat) (p : WP) (h : getW pool wid = some p) :
    cPool i (removeW pool wid) + cj i p.mq = cPool i pool := by
  induction pool with
  | nil => simp [getW] at h
  | cons x xs ih =>
    unfold removeW
    simp only [getW, List.find?_cons] at h
    cases hx : x.wid == wid
    · simp only [hx] at h
      have := ih h
      simp only [Bool.false_eq_true, if_false, cPool, List.map_cons, List.sum_cons] at *
      omega
    · simp only [hx, Option.some.injEq] at h
      subst h
      simp only [if_true, cPool, List.map_cons, List.sum_cons]
      omega

theorem cPool_append (i : Nat) (a b : List WP) : cPool i (a ++ b) = cPool i a + cPool i b := by
  simp [cPool, List.sum_append]

end Factory
