import RactorModel.Lemmas.TwoNode

/-! Proofs of the two-node agreement theorems (moved out of `Props/C18.lean` so that the handshake
lemmas can use them; `Props/C18.lean` restates them verbatim). -/

namespace Election

theorem survivors_spec_core (o : Ordering) (cs : List Conn) (c : Conn) :
    c ∈ survivors o cs ↔
      (c ∈ cs ∧ ((∃ x ∈ cs, x.aInit = true) → (∃ y ∈ cs, y.aInit = false) →
          (o = .lt → c.aInit = true) ∧ (o = .gt → c.aInit = false))) ∧
      ∀ c' ∈ dirC o cs, c'.nonce ≠ 0 → c.nonce ≠ 0 ∧ c.nonce ≤ c'.nonce := by
  unfold survivors
  rw [mem_nonceC, mem_dirC]

theorem agreement_core (o : Ordering) (ho : o ≠ .eq) (cs : List Conn) (hne : cs ≠ [])
    (hA : (cs.map (·.idA)).Nodup) (hB : (cs.map (·.idB)).Nodup) :
    (∃ d, ∀ c ∈ survivors o cs, c.aInit = d) ∧
    (∀ c ∈ survivors o cs, ∀ c' ∈ survivors o cs, nz c.nonce = nz c'.nonce) ∧
    ∃ acc ∈ survivors o cs,
      (acc.aInit = false →
        electA o cs = [acc.idA] ∧ electB o cs = (survivors o cs).map (·.idB) ∧
        ∀ c ∈ survivors o cs, acc.idA ≤ c.idA) ∧
      (acc.aInit = true →
        electB o cs = [acc.idB] ∧ electA o cs = (survivors o cs).map (·.idA) ∧
        ∀ c ∈ survivors o cs, acc.idB ≤ c.idB) := by
  obtain ⟨d, hd⟩ := survivors_same_dir ho cs
  refine ⟨⟨d, hd⟩, survivors_same_nonce o cs, ?_⟩
  have hTne := survivors_ne_nil o hne
  have hsub := survivors_sublist o cs
  cases d with
  | false =>
    -- node A accepted the surviving connections
    have hne' : (survivors o cs).map viewA ≠ [] := by simpa using hTne
    have hall : ∀ c ∈ (survivors o cs).map viewA, c.isServer = true := by
      intro c hc
      obtain ⟨x, hx, rfl⟩ := List.mem_map.mp hc
      simp [viewA, hd x hx]
    have hnd : (((survivors o cs).map viewA).map (·.id)).Nodup := by
      have : ((survivors o cs).map viewA).map (·.id) = (survivors o cs).map (·.idA) := by
        simp [viewA, Function.comp_def]
      rw [this]
      exact (hsub.map _).nodup hA
    obtain ⟨cA, hcA, htb, hmin⟩ := tieBreak_allServer hne' hall hnd
    obtain ⟨acc, hacc, rfl⟩ := List.mem_map.mp hcA
    refine ⟨acc, hacc, fun _ => ⟨?_, ?_, ?_⟩, fun h => ?_⟩
    · rw [electA_eq, htb]; rfl
    · rw [electB_eq, tieBreak_noServer]
      · simp [viewB, Function.comp_def]
      · exact ⟨viewB acc, List.mem_map.mpr ⟨acc, hacc, rfl⟩, by simp [viewB, hd acc hacc]⟩
    · intro c hc
      exact hmin _ (List.mem_map.mpr ⟨c, hc, rfl⟩)
    · rw [hd acc hacc] at h; cases h
  | true =>
    -- node B accepted the surviving connections
    have hne' : (survivors o cs).map viewB ≠ [] := by simpa using hTne
    have hall : ∀ c ∈ (survivors o cs).map viewB, c.isServer = true := by
      intro c hc
      obtain ⟨x, hx, rfl⟩ := List.mem_map.mp hc
      simp [viewB, hd x hx]
    have hnd : (((survivors o cs).map viewB).map (·.id)).Nodup := by
      have : ((survivors o cs).map viewB).map (·.id) = (survivors o cs).map (·.idB) := by
        simp [viewB, Function.comp_def]
      rw [this]
      exact (hsub.map _).nodup hB
    obtain ⟨cB, hcB, htb, hmin⟩ := tieBreak_allServer hne' hall hnd
    obtain ⟨acc, hacc, rfl⟩ := List.mem_map.mp hcB
    refine ⟨acc, hacc, fun h => ?_, fun _ => ⟨?_, ?_, ?_⟩⟩
    · rw [hd acc hacc] at h; cases h
    · rw [electB_eq, htb]; rfl
    · rw [electA_eq, tieBreak_noServer]
      · simp [viewA, Function.comp_def]
      · exact ⟨viewA acc, List.mem_map.mpr ⟨acc, hacc, rfl⟩, by simp [viewA, hd acc hacc]⟩
    · intro c hc
      exact hmin _ (List.mem_map.mpr ⟨c, hc, rfl⟩)

theorem survivor_stable_core (o : Ordering) (cs R : List Conn) (hR : R.Sublist cs) (c : Conn)
    (hc : c ∈ survivors o cs) (hcR : c ∈ R) : c ∈ survivors o R := by
  rw [survivors_spec_core] at hc ⊢
  obtain ⟨⟨_, hdir⟩, hn⟩ := hc
  refine ⟨⟨hcR, fun ⟨x, hx, hxa⟩ ⟨y, hy, hya⟩ => hdir ⟨x, hR.subset hx, hxa⟩ ⟨y, hR.subset hy, hya⟩⟩, ?_⟩
  intro c' hc' hne
  by_cases hmem : c' ∈ dirC o cs
  · exact hn c' hmem hne
  · -- `c'` passed the direction stage of `R` but not of `cs`: then `cs` has both
    -- directions and `c'` has the wrong one, while `c` has the right one; but then `R`
    -- (which contains both `c` and `c'`) has both directions too — contradiction.
    exfalso
    rw [mem_dirC] at hc' hmem
    obtain ⟨hc'R, hdirR⟩ := hc'
    have hc'cs := hR.subset hc'R
    simp only [hc'cs, true_and, Classical.not_imp] at hmem
    obtain ⟨hx, hy, hbad⟩ := hmem
    have hcdir := hdir hx hy
    cases o with
    | eq => simp at hbad
    | lt =>
      simp only [forall_const, reduceCtorEq, false_imp_iff, and_true] at hbad hcdir
      have hc'f : c'.aInit = false := by simpa using hbad
      have := hdirR ⟨c, hcR, hcdir⟩ ⟨c', hc'R, hc'f⟩
      simp [hc'f] at this
    | gt =>
      simp only [forall_const, reduceCtorEq, false_imp_iff, true_and] at hbad hcdir
      have hc't : c'.aInit = true := by simpa using hbad
      have := hdirR ⟨c', hc'R, hc't⟩ ⟨c, hcR, hcdir⟩
      simp [hc't] at this

theorem winner_survives_every_partial_election_core (o : Ordering) (ho : o ≠ .eq) (cs R : List Conn)
    (hA : (cs.map (·.idA)).Nodup) (hB : (cs.map (·.idB)).Nodup) (hR : R.Sublist cs)
    (acc : Conn) (hacc : acc ∈ survivors o cs) (haccR : acc ∈ R) :
    (acc.aInit = false → (∀ c ∈ survivors o cs, acc.idA ≤ c.idA) →
        electA o R = [acc.idA] ∧ acc.idB ∈ electB o R) ∧
    (acc.aInit = true → (∀ c ∈ survivors o cs, acc.idB ≤ c.idB) →
        electB o R = [acc.idB] ∧ acc.idA ∈ electA o R) := by
  have hne : R ≠ [] := by intro h; rw [h] at haccR; simp at haccR
  have hA' : (R.map (·.idA)).Nodup := (hR.map _).nodup hA
  have hB' : (R.map (·.idB)).Nodup := (hR.map _).nodup hB
  have haccS : acc ∈ survivors o R := survivor_stable_core o cs R hR acc hacc haccR
  have hsub := survivors_sub_of_winner ho hR hacc haccR
  obtain ⟨_, _, a', ha', h1, h2⟩ := agreement_core o ho R hne hA' hB'
  obtain ⟨d, hd⟩ := survivors_same_dir ho R
  constructor
  · intro hai hmin
    have ha'i : a'.aInit = false := by rw [hd a' ha', ← hd acc haccS, hai]
    obtain ⟨eA, eB, hmin'⟩ := h1 ha'i
    -- the acceptor's choice within R is `acc`: both are minimal and ids are distinct
    have hle1 : a'.idA ≤ acc.idA := hmin' acc haccS
    have hle2 : acc.idA ≤ a'.idA := hmin a' (hsub a' ha')
    have heq : a' = acc := by
      have hidx : a'.idA = acc.idA := Nat.le_antisymm hle1 hle2
      exact nodup_map_inj' (·.idA) hA' ((survivors_sublist o R).subset ha') haccR hidx
    subst heq
    exact ⟨eA, by rw [eB]; exact List.mem_map.mpr ⟨a', haccS, rfl⟩⟩
  · intro hai hmin
    have ha'i : a'.aInit = true := by rw [hd a' ha', ← hd acc haccS, hai]
    obtain ⟨eB, eA, hmin'⟩ := h2 ha'i
    have hle1 : a'.idB ≤ acc.idB := hmin' acc haccS
    have hle2 : acc.idB ≤ a'.idB := hmin a' (hsub a' ha')
    have heq : a' = acc := by
      have hidx : a'.idB = acc.idB := Nat.le_antisymm hle1 hle2
      exact nodup_map_inj' (·.idB) hB' ((survivors_sublist o R).subset ha') haccR hidx
    subst heq
    exact ⟨eB, by rw [eA]; exact List.mem_map.mpr ⟨a', haccS, rfl⟩⟩

end Election
