import RactorModel.Model.Spawn
import Driver.Common

/-! Driver for the `Spawn` model (C08).

ops:  `case` | `begin <name|-> <sup|-> <plain|instant>` → `ok|err-name`
      `begintl <name|-> <sup|-> <plain|instant> <spawner>` → `ok|err-name|err-sup`   (thread-local flavour)
      `block a` / `unblock a` (a's pre_start blocks its spawner thread) · `cutq a` (the spawn future of a
      start still queued in the blocked spawner is dropped: takes effect when the spawner runs again)
      `join a g` `monitor a g` `selfsend a` `spawnchild a` `cast a` `call a`
      `finish a ok|err|panic` `cut a` `kill a` `stop a`     → `ok`
      `obs`  → snapshot `N[name>id,…] A[id:phase:groups:children:handled|…] E[sup>child:ev,…] P[WSER…]`
-/

namespace Driver.C08
open Spawn Driver

def showPhase : Phase → String
  | .starting => "starting" | .running => "running" | .stopped => "stopped"

def showEv : Ev → String
  | .started => "S" | .terminated => "T" | .failed => "F"

def showPort : PortSt → String
  | .waiting => "W" | .senderError => "S" | .sendErr => "E" | .replied => "R"

def sortNats (l : List Nat) : List Nat := (l.toArray.qsort (· < ·)).toList
def dotted (l : List Nat) : String := if l.isEmpty then "-" else ".".intercalate (l.map toString)

def snapshot (s : S) : String :=
  let names := sortNats (s.names.map (fun nv => nv.1 * 100000 + nv.2))
  let n := ",".intercalate (names.map (fun k => s!"{k / 100000}>{k % 100000}"))
  let a := "|".intercalate ((List.zip (List.range s.actors.length) s.actors).map (fun ix =>
    s!"{ix.1}:{showPhase ix.2.phase}:{dotted (sortNats ix.2.groups)}:{dotted (sortNats (childrenOf s ix.1))}:{ix.2.handled}"))
  let evs := (s.events.map (fun e => s!"{e.1}>{e.2.1}:{showEv e.2.2}")).toArray.qsort (· < ·) |>.toList
  let e := ",".intercalate evs
  let p := "".intercalate (s.ports.map showPort)
  s!"N[{n}] A[{a}] E[{e}] P[{p}]"

structure ISnap where
  /-- the spawn calls' own results as the implementation reported them (`R[id:ok|err|cut|pending,…]`;
  absent in harnesses that do not record them) -/
  results : List (Nat × String) := []
  names : List (Nat × Nat)
  actors : List (Nat × String × List Nat × List Nat × Nat)   -- id, phase, groups, children, handled
  events : List (Nat × Nat × String)
  ports : List Char

def between (s : String) (tag : String) : Option String :=
  match s.splitOn (tag ++ "[") with
  | [_, rest] => (rest.splitOn "]").head?
  | _ => none

def parseDotted (s : String) : List Nat := if s == "-" then [] else (splitOnChar s '.').filterMap (·.toNat?)

def parseSnap (s : String) : Option ISnap := do
  let n ← between s "N"; let a ← between s "A"; let e ← between s "E"; let p ← between s "P"
  let names := (if n == "" then [] else splitOnChar n ',').filterMap (fun kv =>
    match kv.splitOn ">" with | [k, v] => (do pure (← k.toNat?, ← v.toNat?)) | _ => none)
  let actors := (if a == "" then [] else splitOnChar a '|').filterMap (fun r =>
    match splitOnChar r ':' with
    | [i, ph, g, c, h] => (do pure (← i.toNat?, ph, parseDotted g, parseDotted c, ← h.toNat?))
    | _ => none)
  let events := (if e == "" then [] else splitOnChar e ',').filterMap (fun r =>
    match r.splitOn ">" with
    | [p, ce] => (match splitOnChar ce ':' with | [c, k] => (do pure (← p.toNat?, ← c.toNat?, k)) | _ => none)
    | _ => none)
  let results := match between s "R" with
    | some r => (if r == "" then [] else splitOnChar r ',').filterMap (fun kv =>
        match splitOnChar kv ':' with | [k, v] => (do pure (← k.toNat?, v)) | _ => none)
    | none => []
  pure { results, names, actors, events, ports := p.toList }

/-- the observation without the `R[…]` part (which the model does not predict: it is the
implementation's own verdict on who failed, used by the oracle) -/
def stripResults (s : String) : String :=
  match s.splitOn " R[" with
  | [a, _] => a
  | _ => s

/-- C08 on the implementation's snapshot: every actor whose spawn did not produce a running actor
has left nothing behind. WHO failed is taken from the implementation's own spawn results (`R[…]`:
the spawn call / the instant start task returned Err, or its future was dropped) where the harness
records them; the model's flag is used only for harnesses that do not, and every disagreement
between the two is reported (`c08.failed-flag-mismatch`). -/
def judge (m : S) (snap : ISnap) : List String := Id.run do
  let mut bad : List String := []
  for (a, x) in List.zip (List.range m.actors.length) m.actors do
    let implFailed : Bool := match snap.results.find? (fun r => r.1 == a) with
      | some (_, v) => v == "err" || v == "cut"
      | none => x.failedStart
    match snap.results.find? (fun r => r.1 == a) with
    | some (_, v) =>
      if v != "pending" && (v == "err" || v == "cut") != x.failedStart then bad := bad ++ ["c08.failed-flag-mismatch"]
      if v == "pending" && x.phase != .starting then bad := bad ++ ["c08.failed-flag-mismatch"]
    | none => pure ()
    if implFailed == true then
      match snap.actors.find? (fun r => r.1 == a) with
      | some (_, ph, groups, _, handled) =>
        if ph != "stopped" then bad := bad ++ ["c08.failed-start-not-stopped"]
        if !groups.isEmpty then bad := bad ++ ["c08.failed-start-still-in-group"]
        if handled != 0 then bad := bad ++ ["c08.handler-ran-after-failed-start"]
      | none => pure ()
      if snap.names.any (fun nv => nv.2 == a) then bad := bad ++ ["c08.failed-start-keeps-name"]
      if snap.actors.any (fun r => r.2.2.2.1.contains a) then bad := bad ++ ["c08.failed-start-still-a-child"]
      if snap.events.any (fun e => e.2.1 == a) then bad := bad ++ ["c08.supervision-event-for-failed-start"]
      -- messages queued to it are dropped with their reply ports closed
      for p in x.mailbox do pure ()
  -- ports that were queued at a failed start must not be left waiting
  for (p, st) in List.zip (List.range m.ports.length) m.ports do
    if st == .senderError then
      match snap.ports[p]? with
      | some c => if c == 'W' then bad := bad ++ ["c08.queued-call-left-hanging"]
      | none => pure ()
  return bad.eraseDups

def step0 (m : S) (op impl : String) : S × StepOut :=
  let simple (o : Op) (nt : Bool := false) : S × StepOut := (Spawn.step m o, { model := "ok", nontrivial := nt })
  match words op with
  | ["case"] => (init, { model := "ok" })
  | ["begin", name, sup, _kind] =>
    let nm := if name == "-" then none else name.toNat?
    let sp := if sup == "-" then none else sup.toNat?
    let m' := Spawn.step m (.begin nm sp)
    let clash := match nm with | some n => (lookupName m n).isSome | none => false
    let model := if clash then "err-name" else "ok"
    let orc := if !clash && impl == "err-name" then ["c08.name-not-free"] else []
    (m', { model := model, oracle := orc, nontrivial := clash })
  | ["join", a, g] => match a.toNat?, g.toNat? with
    | some a, some g => simple (.join a g) | _, _ => (m, { model := "bad-op" })
  | ["monitor", a, g] => match a.toNat?, g.toNat? with
    | some a, some g => simple (.monitor a g) | _, _ => (m, { model := "bad-op" })
  | ["selfsend", a] => match a.toNat? with | some a => simple (.selfsend a) | none => (m, { model := "bad-op" })
  | ["selflink", a, w] => match a.toNat?, w.toNat? with
    | some a, some w => simple (.selflink a w) (isStarting m a)
    | _, _ => (m, { model := "bad-op" })
  | ["spawnchild", a] => match a.toNat? with | some a => simple (.spawnChild a) | none => (m, { model := "bad-op" })
  | ["cast", a] => match a.toNat? with | some a => simple (.cast a) | none => (m, { model := "bad-op" })
  | ["call", a] => match a.toNat? with | some a => simple (.call a) | none => (m, { model := "bad-op" })
  | ["finish", a, o] =>
    match a.toNat?, (if o == "ok" then some Outcome.ok else if o == "err" then some .err else if o == "panic" then some .panic else none) with
    | some a, some o => simple (.finish a o) (isStarting m a)
    | _, _ => (m, { model := "bad-op" })
  | ["cut", a] => match a.toNat? with | some a => simple (.cut a) (isStarting m a) | none => (m, { model := "bad-op" })
  | ["kill", a] => match a.toNat? with | some a => simple (.kill a) (isStarting m a) | none => (m, { model := "bad-op" })
  -- kill and "pre_start may return Ok" pending at the same poll: the kill wins (the signal port is
  -- polled before the guarded work), so the model step is the plain kill
  | ["killrace", a] => match a.toNat? with | some a => simple (.kill a) (isStarting m a) | none => (m, { model := "bad-op" })
  | ["stop", a] => match a.toNat? with | some a => simple (.stop a) | none => (m, { model := "bad-op" })
  | ["obs"] =>
    let orc := match parseSnap impl with
      | some snap => judge m snap
      | none => ["unparsable"]
    (m, { model := snapshot m ++ (if (impl.splitOn " R[").length == 2 then " R[" ++ ((impl.splitOn " R[").getD 1 "") else ""),
          oracle := orc, nontrivial := m.actors.any (·.failedStart) })
  | _ => (m, { model := "bad-op" })

/-- driver state: the model and the cuts of queued starts that have not taken effect yet -/
structure St where
  m : S := init
  deferred : List Nat := []

def step (st : St) (op impl : String) : St × StepOut :=
  match words op with
  | ["case"] => ({}, { model := "ok" })
  | ["begintl", name, sup, _kind, _spawner] =>
    let nm := if name == "-" then none else name.toNat?
    let sp := if sup == "-" then none else sup.toNat?
    let m' := Spawn.step st.m (.beginTL nm sp)
    let clash := clashes st.m nm
    let refused := refusedBy st.m sp
    let model := if clash then "err-name" else if refused then "err-sup" else "ok"
    let orc := if !clash && impl == "err-name" then ["c08.name-not-free"] else []
    ({ st with m := m' }, { model := model, oracle := orc, nontrivial := clash || refused || !st.deferred.isEmpty })
  | ["block", _] => (st, { model := "ok" })
  | ["cutq", a] =>
    match a.toNat? with
    | some a => ({ st with deferred := st.deferred ++ [a] }, { model := "ok", nontrivial := isStarting st.m a })
    | none => (st, { model := "bad-op" })
  | ["unblock", _] =>
    -- the spawner runs again: it builds the queued start-up futures whose spawn future is
    -- gone and aborts them at once — the guard cleanup of a cut
    let m' := st.deferred.foldl (fun m a => Spawn.step m (.cut a)) st.m
    ({ m := m', deferred := [] }, { model := "ok", nontrivial := !st.deferred.isEmpty })
  | _ =>
    let (m', o) := step0 st.m op impl
    ({ st with m := m' }, o)

def run (ops impl : Array String) : IO Tally := replay ({} : St) step ops impl

end Driver.C08
