import RactorModel.Generated.Admission
import RactorModel.Model.Admission
import RactorModel.Model.Tree

/-!
# GenAdmission — the admission word of the model (`Admission.Word`: closed, marker, count) as
the `usize` the code keeps in `message_admission`, and the bit facts that connect the word
arithmetic `rs2lean` generates from `actor_properties.rs` to the model's record updates.
-/

namespace GenAdmission
open Generated.Admission

/-- bit 63 `closed`, bit 62 `marker`, low 62 bits `count` -/
def enc (w : Admission.Word) : Nat :=
  (if w.closed then 2 ^ 63 else 0) + (if w.marker then 2 ^ 62 else 0) + w.count

def st (w : Admission.Word) : ActorProperties := ⟨enc w⟩

theorem consts : MESSAGE_ADMISSION_CLOSED = 2 ^ 63 ∧ DRAIN_MARKER_SENT = 2 ^ 62
    ∧ MESSAGE_ADMISSION_COUNT_MASK = 2 ^ 62 - 1 := by decide

theorem and_two_pow (x i : Nat) : x &&& 2 ^ i = if x / 2 ^ i % 2 = 1 then 2 ^ i else 0 := by
  apply Nat.eq_of_testBit_eq
  intro j
  rw [Nat.testBit_and, Nat.testBit_two_pow]
  by_cases h : i = j
  · subst h
    rw [Nat.testBit_eq_decide_div_mod_eq]
    split <;> simp_all
  · split <;> simp [h]

theorem closed_bit (w : Admission.Word) (h : w.count < 2 ^ 62) :
    Rust.band (enc w) MESSAGE_ADMISSION_CLOSED = if w.closed then 2 ^ 63 else 0 := by
  rw [consts.1, Rust.band, and_two_pow]
  unfold enc
  cases w.closed <;> cases w.marker <;> simp <;> omega

theorem marker_bit (w : Admission.Word) (h : w.count < 2 ^ 62) :
    Rust.band (enc w) DRAIN_MARKER_SENT = if w.marker then 2 ^ 62 else 0 := by
  rw [consts.2.1, Rust.band, and_two_pow]
  unfold enc
  cases w.closed <;> cases w.marker <;> simp <;> omega

theorem count_bits (w : Admission.Word) (h : w.count < 2 ^ 62) :
    Rust.band (enc w) MESSAGE_ADMISSION_COUNT_MASK = w.count := by
  rw [consts.2.2, Rust.band, Nat.and_two_pow_sub_one_eq_mod]
  unfold enc
  cases w.closed <;> cases w.marker <;> simp <;> omega

theorem or_closed (w : Admission.Word) (h : w.count < 2 ^ 62) :
    Rust.bor (enc w) MESSAGE_ADMISSION_CLOSED = enc { w with closed := true } := by
  rw [consts.1, Rust.bor]
  have key : ∀ r, r < 2 ^ 63 → (r ||| 2 ^ 63 = 2 ^ 63 + r) ∧ ((2 ^ 63 + r) ||| 2 ^ 63 = 2 ^ 63 + r) := by
    intro r hr
    have e := Nat.two_pow_add_eq_or_of_lt (i := 63) hr 1
    simp only [Nat.mul_one] at e
    constructor
    · rw [Nat.or_comm, e]
    · rw [e, Nat.or_comm, ← Nat.or_assoc, Nat.or_self]
  have h0 := key w.count (by omega)
  have h1 := key (2 ^ 62 + w.count) (by omega)
  have e : enc { w with closed := true } = 2 ^ 63 + ((if w.marker then 2 ^ 62 else 0) + w.count) := by
    simp [enc, Nat.add_assoc]
  rw [e]
  unfold enc
  cases hc : w.closed <;> cases hm : w.marker <;> simp only [↓reduceIte, Bool.false_eq_true, Nat.zero_add, Nat.add_assoc]
  · exact h0.1
  · exact h1.1
  · exact h0.2
  · exact h1.2

/-- generated `ActorStatus` ↦ the tree model's `Status` (same discriminants) -/
def absStatus : ActorStatus → Tree.Status
  | .Unstarted => .unstarted | .Starting => .starting | .Running => .running | .Upgrading => .upgrading
  | .Draining => .draining | .Stopping => .stopping | .Stopped => .stopped

end GenAdmission
