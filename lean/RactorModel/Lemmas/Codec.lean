import RactorModel.Model.Codec

/-! Helper lemmas for the `Codec` model (C19): integers, built-in types, argument packing. -/

namespace Codec

/-! ### big-endian integers -/

theorem length_encodeBE (n x : Nat) : (encodeBE n x).length = n := by
  induction n with
  | zero => rfl
  | succ n ih => simp [encodeBE, ih]

theorem foldl_encodeBE (n x acc : Nat) :
    (encodeBE n x).foldl (fun a b => a * 256 + b.toNat) acc = acc * 256 ^ n + x % 256 ^ n := by
  induction n generalizing acc with
  | zero => simp [encodeBE, Nat.mod_one]
  | succ n ih =>
    simp only [encodeBE, List.foldl_cons, ih, UInt8.toNat_ofNat']
    rw [Nat.mod_pow_succ (x := x) (b := 256) (k := n)]
    have : (2 : Nat) ^ 8 = 256 := by decide
    rw [this, Nat.pow_succ, Nat.add_mul, Nat.mul_assoc, Nat.mul_comm 256 (256 ^ n),
      Nat.mul_comm (x / 256 ^ n % 256) (256 ^ n)]
    omega

theorem beVal_encodeBE (n x : Nat) : beVal (encodeBE n x) = x % 256 ^ n := by
  simp [beVal, foldl_encodeBE]

theorem beVal_encodeBE_of_lt {n x : Nat} (h : x < 256 ^ n) : beVal (encodeBE n x) = x := by
  rw [beVal_encodeBE, Nat.mod_eq_of_lt h]

/-- The decoder reads a prefix: trailing bytes are ignored. -/
theorem decodeBE_encodeBE_append {n x : Nat} (h : x < 256 ^ n) (rest : Bytes) :
    decodeBE n (encodeBE n x ++ rest) = some x := by
  unfold decodeBE
  have hl := length_encodeBE n x
  rw [if_neg (by simp [hl]), List.take_left' hl, beVal_encodeBE_of_lt h]

theorem decodeBE_short {n : Nat} {bs : Bytes} (h : bs.length < n) : decodeBE n bs = none := by
  simp [decodeBE, h]

theorem decodeBE_isSome {n : Nat} {bs : Bytes} (h : n ≤ bs.length) : (decodeBE n bs).isSome := by
  simp [decodeBE, Nat.not_lt.mpr h]

/-! ### vectors -/

theorem length_flatMap_encodeBE (w : Nat) (l : List Nat) :
    (l.flatMap (encodeBE w)).length = l.length * w := by
  induction l with
  | nil => simp
  | cons a l ih => simp [List.flatMap_cons, length_encodeBE, ih, Nat.succ_mul, Nat.add_comm]

theorem decodeVecBE_flatMap (w : Nat) (l : List Nat) (h : ∀ x ∈ l, x < 256 ^ w) (rest : Bytes) :
    decodeVecBE w l.length (l.flatMap (encodeBE w) ++ rest) = l := by
  induction l with
  | nil => rfl
  | cons a l ih =>
    have hl := length_encodeBE w a
    simp only [List.length_cons, decodeVecBE, List.flatMap_cons, List.append_assoc]
    rw [List.take_left' hl, List.drop_left' hl, beVal_encodeBE_of_lt (h a (by simp)),
      ih (fun x hx => h x (by simp [hx]))]

theorem decodeVec_flatMap {w : Nat} (hw : 0 < w) (l : List Nat) (h : ∀ x ∈ l, x < 256 ^ w) :
    decodeVec w (l.flatMap (encodeBE w)) = l := by
  unfold decodeVec
  rw [length_flatMap_encodeBE, Nat.mul_div_cancel _ hw]
  simpa using decodeVecBE_flatMap w l h []

theorem boolByte_eq_one (b : Bool) : (boolByte b == 1) = b := by
  cases b <;> decide

theorem isScalar_lt {n : Nat} (h : isScalar n = true) : n < 256 ^ 4 := by
  simp only [isScalar, Bool.or_eq_true, Bool.and_eq_true, decide_eq_true_eq] at h
  omega

/-! ### round trip of every built-in type -/

theorem decode_encode {t : Ty} {v : Val} (h : wf t v = true) : decode t (encode t v) = some v := by
  cases t <;> cases v <;> simp only [wf, Bool.false_eq_true, Bool.and_eq_true, decide_eq_true_eq] at h
  case uint.nat w n =>
    have := decodeBE_encodeBE_append h []
    simp only [List.append_nil] at this
    simp [decode, encode, this]
  case bool.bool b => simp [decode, encode, boolByte_eq_one]
  case char.nat n =>
    have := decodeBE_encodeBE_append (isScalar_lt h) []
    simp only [List.append_nil] at this
    simp [decode, encode, this, h]
  case str.bytes l => simp [decode, encode, h]
  case unit.unit => simp [decode]
  case bytes.bytes l => simp [decode, encode]
  case vecUint.nats w l =>
    have hl : ∀ x ∈ l, x < 256 ^ w := by
      intro x hx
      have := List.all_eq_true.mp h.2 x hx
      simpa using this
    simp [decode, encode, decodeVec_flatMap h.1 l hl]
  case vecBool.bools l =>
    simp [decode, encode, List.map_map, Function.comp_def, boolByte_eq_one]
  case vecChar.nats l =>
    have hl : ∀ x ∈ l, x < 256 ^ 4 := fun x hx => isScalar_lt (List.all_eq_true.mp h x hx)
    simp [decode, encode, decodeVec_flatMap (by decide : 0 < 4) l hl, h]

/-- Fixed-width types ignore trailing bytes (what `from_bytes` does with `bytes[..N]`). -/
theorem decode_uint_append {w n : Nat} (h : n < 256 ^ w) (rest : Bytes) :
    decode (.uint w) (encode (.uint w) (.nat n) ++ rest) = some (.nat n) := by
  simp [decode, encode, decodeBE_encodeBE_append h]

/-! ### argument packing -/

theorem wordLimit_eq : wordLimit = 256 ^ 8 := by decide

theorem pack_cons_inv {f : Bytes} {fs : List Bytes} {bs : Bytes} (h : pack (f :: fs) = some bs) :
    f.length + 8 < wordLimit ∧ ∃ r, pack fs = some r ∧ bs = encodeBE 8 f.length ++ f ++ r := by
  simp only [pack, packField] at h
  split at h
  · rename_i a r ha hr
    split at ha
    · simp only [Option.some.injEq] at h ha
      subst h; subst ha
      exact ⟨by assumption, r, hr, rfl⟩
    · simp at ha
  · simp at h

theorem pack_length {fs : List Bytes} {bs : Bytes} (h : pack fs = some bs) :
    bs.length = (fs.map (fun f => f.length + 8)).sum := by
  induction fs generalizing bs with
  | nil => simp [pack] at h; subst h; rfl
  | cons f fs ih =>
    obtain ⟨_, r, hr, rfl⟩ := pack_cons_inv h
    simp [length_encodeBE, ih hr]; omega

/-- Core of the packing round trip: inside any context `pre ++ _ ++ post` whose total
length fits a word, `n` consecutive `unpack_arg`s starting at `pre.length` recover exactly
the packed fields and stop right after them. -/
theorem unpackFrom_pack (fs : List Bytes) :
    ∀ (bs pre post : Bytes), pack fs = some bs → (pre ++ bs ++ post).length < wordLimit →
      unpackFrom (pre ++ bs ++ post) fs.length pre.length = some (fs, pre.length + bs.length) := by
  induction fs with
  | nil =>
    intro bs pre post h _
    simp [pack] at h; subst h; simp [unpackFrom]
  | cons f fs ih =>
    intro bs pre post h hlen
    obtain ⟨hf, r, hr, rfl⟩ := pack_cons_inv h
    have hE := length_encodeBE 8 f.length
    simp only [List.length_append, hE] at hlen
    have hflt : f.length < 256 ^ 8 := by rw [← wordLimit_eq]; omega
    -- the argument list, re-associated around the current field
    have hargs : pre ++ (encodeBE 8 f.length ++ f ++ r) ++ post
        = pre ++ (encodeBE 8 f.length ++ (f ++ (r ++ post))) := by simp
    have hargs2 : pre ++ (encodeBE 8 f.length ++ f ++ r) ++ post
        = (pre ++ encodeBE 8 f.length) ++ (f ++ (r ++ post)) := by simp
    have hargs3 : pre ++ (encodeBE 8 f.length ++ f ++ r) ++ post
        = (pre ++ encodeBE 8 f.length ++ f) ++ r ++ post := by simp
    have hA : unpackArg (pre ++ (encodeBE 8 f.length ++ f ++ r) ++ post) pre.length
        = some (f, pre.length + 8 + f.length) := by
      unfold unpackArg
      have h1 : ((pre ++ (encodeBE 8 f.length ++ f ++ r) ++ post).drop pre.length).take 8
          = encodeBE 8 f.length := by
        rw [hargs, List.drop_left' rfl, List.take_left' hE]
      have h2 : ((pre ++ (encodeBE 8 f.length ++ f ++ r) ++ post).drop (pre.length + 8)).take f.length
          = f := by
        rw [hargs2, List.drop_left' (by simp [hE]), List.take_left' rfl]
      simp only [h1, h2, beVal_encodeBE_of_lt hflt]
      simp only [List.length_append, hE]
      rw [if_neg (by omega), if_neg (by omega), if_neg (by omega), if_neg (by omega)]
    have hI := ih r (pre ++ encodeBE 8 f.length ++ f) post hr
      (by rw [← hargs3]; simp only [List.length_append, hE]; omega)
    simp only [List.length_cons, unpackFrom, hA]
    rw [hargs3, show pre.length + 8 + f.length = (pre ++ encodeBE 8 f.length ++ f).length by
      simp [hE]; omega]
    rw [hI]
    simp [hE]; omega

theorem unpackArg_bounds {args : Bytes} {ptr : Nat} {f : Bytes} {p : Nat}
    (h : unpackArg args ptr = some (f, p)) : ptr + 8 ≤ p ∧ p ≤ args.length := by
  unfold unpackArg at h
  simp only at h
  split at h; · simp at h
  split at h; · simp at h
  split at h; · simp at h
  split at h; · simp at h
  simp only [Option.some.injEq, Prod.mk.injEq] at h
  omega

theorem unpackFrom_bounds {args : Bytes} {n ptr : Nat} {fs : List Bytes} {p : Nat}
    (h : unpackFrom args n ptr = some (fs, p)) : ptr + 8 * n ≤ p ∧ (n = 0 ∨ p ≤ args.length) := by
  induction n generalizing ptr fs p with
  | zero => simp [unpackFrom] at h; omega
  | succ n ih =>
    simp only [unpackFrom] at h
    split at h; · simp at h
    rename_i f p' ha
    split at h; · simp at h
    rename_i fs' p'' hr
    simp only [Option.some.injEq, Prod.mk.injEq] at h
    have b1 := unpackArg_bounds ha
    have b2 := ih hr
    rcases b2.2 with h0 | h0
    · subst h0; simp [unpackFrom] at hr; omega
    · omega

/-! ### decode ∘ encode the other way round: only packed inputs are accepted -/

theorem ofNat_congr {x y : Nat} (h : x % 256 = y % 256) : UInt8.ofNat x = UInt8.ofNat y := by
  apply UInt8.toNat_inj.mp
  simp only [UInt8.toNat_ofNat']
  have : (2 : Nat) ^ 8 = 256 := by decide
  rw [this]; exact h

theorem encodeBE_add_mul (n a v : Nat) : encodeBE n (a * 256 ^ n + v) = encodeBE n v := by
  induction n generalizing a with
  | zero => rfl
  | succ k ih =>
    simp only [encodeBE]
    have hpos : 0 < 256 ^ k := Nat.pow_pos (by decide)
    have e1 : a * 256 ^ (k + 1) + v = (a * 256) * 256 ^ k + v := by
      rw [Nat.pow_succ, Nat.mul_comm (256 ^ k) 256, Nat.mul_assoc]
    rw [e1, ih (a * 256)]
    congr 1
    apply ofNat_congr
    rw [Nat.add_comm, Nat.add_mul_div_right _ _ hpos, Nat.add_mul_mod_self_right]

theorem beVal_cons (b : UInt8) (bs : Bytes) : beVal (b :: bs) = b.toNat * 256 ^ bs.length + beVal bs := by
  have : ∀ (l : Bytes) (acc : Nat),
      l.foldl (fun a x => a * 256 + x.toNat) acc = acc * 256 ^ l.length + l.foldl (fun a x => a * 256 + x.toNat) 0 := by
    intro l
    induction l with
    | nil => intro acc; simp
    | cons x l ih =>
      intro acc
      simp only [List.foldl_cons, List.length_cons]
      rw [ih (acc * 256 + x.toNat), ih (0 * 256 + x.toNat)]
      rw [Nat.pow_succ, Nat.add_mul, Nat.add_mul]
      simp only [Nat.zero_mul, Nat.zero_add, Nat.mul_assoc, Nat.mul_comm 256 (256 ^ l.length)]
      omega
  unfold beVal
  simp only [List.foldl_cons]
  rw [this bs (0 * 256 + b.toNat)]
  simp

theorem beVal_lt (bs : Bytes) : beVal bs < 256 ^ bs.length := by
  induction bs with
  | nil => simp [beVal]
  | cons b bs ih =>
    rw [beVal_cons, List.length_cons, Nat.pow_succ]
    have hb : b.toNat < 256 := by
      have := b.toNat_lt
      simpa using this
    have : b.toNat * 256 ^ bs.length ≤ 255 * 256 ^ bs.length := Nat.mul_le_mul_right _ (by omega)
    omega

/-- `to_be_bytes(from_be_bytes(b)) = b`: with `decodeBE_encodeBE_append` this makes the
fixed-width integer codecs bijections between values and byte strings of their width. -/
theorem encodeBE_beVal (bs : Bytes) : encodeBE bs.length (beVal bs) = bs := by
  induction bs with
  | nil => rfl
  | cons b bs ih =>
    have hlt := beVal_lt bs
    have hpos : 0 < 256 ^ bs.length := Nat.pow_pos (by decide)
    rw [List.length_cons, beVal_cons]
    simp only [encodeBE]
    rw [encodeBE_add_mul, ih]
    congr 1
    rw [Nat.add_comm, Nat.add_mul_div_right _ _ hpos, Nat.div_eq_of_lt hlt, Nat.zero_add]
    exact UInt8.ofNat_toNat

theorem unpackArg_sound {args : Bytes} {ptr : Nat} {f : Bytes} {p : Nat}
    (h : unpackArg args ptr = some (f, p)) :
    p = ptr + (8 + f.length) ∧ p ≤ args.length ∧ f.length + 8 < wordLimit ∧
    (args.drop ptr).take (8 + f.length) = encodeBE 8 f.length ++ f := by
  unfold unpackArg at h
  simp only at h
  split at h; · simp at h
  split at h; · simp at h
  split at h; · simp at h
  split at h; · simp at h
  rename_i h1 h2 h3 h4
  simp only [Option.some.injEq, Prod.mk.injEq] at h
  obtain ⟨hf, hp⟩ := h
  have hlen : f.length = beVal ((args.drop ptr).take 8) := by
    rw [← hf, List.length_take, List.length_drop]; omega
  have hhdr : ((args.drop ptr).take 8).length = 8 := by
    rw [List.length_take, List.length_drop]; omega
  refine ⟨by omega, by omega, by omega, ?_⟩
  rw [List.take_add, List.drop_drop]
  congr 1
  · have := encodeBE_beVal ((args.drop ptr).take 8)
    rw [hhdr] at this
    rw [hlen]; exact this.symm
  · rw [hlen]; exact hf

theorem unpackFrom_sound {args : Bytes} : ∀ (n ptr : Nat) (fs : List Bytes) (p : Nat),
    unpackFrom args n ptr = some (fs, p) →
    fs.length = n ∧ ptr ≤ p ∧ pack fs = some ((args.drop ptr).take (p - ptr)) := by
  intro n
  induction n with
  | zero =>
    intro ptr fs p h
    simp only [unpackFrom, Option.some.injEq, Prod.mk.injEq] at h
    obtain ⟨rfl, rfl⟩ := h
    simp [pack]
  | succ n ih =>
    intro ptr fs p h
    simp only [unpackFrom] at h
    split at h; · simp at h
    rename_i f p' ha
    split at h; · simp at h
    rename_i fs' p'' hr
    simp only [Option.some.injEq, Prod.mk.injEq] at h
    obtain ⟨rfl, rfl⟩ := h
    obtain ⟨hp', _, hw, htake⟩ := unpackArg_sound ha
    obtain ⟨hl, hle, hpack⟩ := ih p' fs' p'' hr
    refine ⟨by simp [hl], by omega, ?_⟩
    have e : p'' - ptr = (8 + f.length) + (p'' - p') := by omega
    rw [e, List.take_add, List.drop_drop, htake, ← hp']
    simp only [pack, packField, hw, if_true, hpack]

/-- Whatever the generated decoder accepts is exactly a packed field list: `unpack` accepts
`args` iff `args = pack fs` — no short, trailing, overlapping or overflowing framing passes. -/
theorem unpack_sound {n : Nat} {args : Bytes} {fs : List Bytes} (h : unpack n args = some fs) :
    fs.length = n ∧ pack fs = some args := by
  unfold unpack at h
  split at h
  · rename_i fs' p hu
    split at h
    · rename_i hp
      simp only [Option.some.injEq] at h
      subst h
      obtain ⟨hl, _, hpack⟩ := unpackFrom_sound n 0 fs' p hu
      refine ⟨hl, ?_⟩
      rw [hpack, hp]
      simp
    · simp at h
  · simp at h

end Codec
