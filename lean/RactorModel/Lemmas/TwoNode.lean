import RactorModel.Lemmas.Election

/-! Two-node world for C18: one physical connection is seen as a candidate on node A and on
node B with opposite `isServer` flags, the same nonce and unrelated actor ids. -/

namespace Election

/-- Direction rule at the level of physical connections; `o = compare nameB nameA`. -/
def dirC (o : Ordering) (cs : List Conn) : List Conn :=
  if cs.any (·.aInit) && cs.any (fun c => !c.aInit) then
    match o with
    | .lt => cs.filter (fun c => c.aInit)
    | .gt => cs.filter (fun c => !c.aInit)
    | .eq => cs
  else cs

def nonceC (cs : List Conn) : List Conn :=
  match (cs.filterMap (fun c => nz c.nonce)).min? with
  | some m => cs.filter (fun c => nz c.nonce == some m)
  | none => cs

/-- The connections that survive the symmetric part of the election. -/
def survivors (o : Ordering) (cs : List Conn) : List Conn := nonceC (dirC o cs)

theorem dirFilter_viewA (o : Ordering) (cs : List Conn) :
    dirFilter o (cs.map viewA) = (dirC o cs).map viewA := by
  unfold dirFilter dirC
  simp only [List.any_map, Function.comp_def, viewA, Bool.not_not]
  rw [Bool.and_comm]
  split
  · cases o <;> simp [List.filter_map, Function.comp_def, viewA]
  · rfl

theorem dirFilter_viewB (o : Ordering) (cs : List Conn) :
    dirFilter o.swap (cs.map viewB) = (dirC o cs).map viewB := by
  unfold dirFilter dirC
  simp only [List.any_map, Function.comp_def, viewB]
  split
  · cases o <;> simp [List.filter_map, Function.comp_def, viewB, Ordering.swap]
  · rfl

theorem nonceFilter_viewA (cs : List Conn) :
    nonceFilter (cs.map viewA) = (nonceC cs).map viewA := by
  unfold nonceFilter nonceC minConn
  simp only [List.filterMap_map, Function.comp_def, viewA]
  cases (List.filterMap (fun x => nz x.nonce) cs).min? with
  | none => rfl
  | some m => simp [List.filter_map, Function.comp_def, viewA]

theorem nonceFilter_viewB (cs : List Conn) :
    nonceFilter (cs.map viewB) = (nonceC cs).map viewB := by
  unfold nonceFilter nonceC minConn
  simp only [List.filterMap_map, Function.comp_def, viewB]
  cases (List.filterMap (fun x => nz x.nonce) cs).min? with
  | none => rfl
  | some m => simp [List.filter_map, Function.comp_def, viewB]

end Election

namespace Election

theorem filter_id_eq_singleton {cs : List Cand} (hnd : (cs.map (·.id)).Nodup) {c : Cand} (hc : c ∈ cs) :
    cs.filter (fun x => x.id == c.id) = [c] := by
  induction cs with
  | nil => simp at hc
  | cons x xs ih =>
    simp only [List.map_cons, List.nodup_cons, List.mem_map, not_exists, not_and] at hnd
    rcases List.mem_cons.mp hc with rfl | hmem
    · have : xs.filter (fun x => x.id == c.id) = [] := by
        simp only [List.filter_eq_nil_iff, beq_iff_eq]
        intro a ha heq
        exact hnd.1 a ha heq
      simp [this]
    · have hne : (x.id == c.id) = false := by
        simp only [beq_eq_false_iff_ne, ne_eq]
        intro heq
        exact hnd.1 c hmem heq.symm
      simp [hne, ih hnd.2 hmem]

theorem tieBreak_noServer {cs : List Cand} (h : ∃ c ∈ cs, c.isServer = false) : tieBreak cs = cs := by
  unfold tieBreak
  have : cs.all (·.isServer) = false := by
    simp only [List.all_eq_false]
    obtain ⟨c, hc, hcs⟩ := h
    exact ⟨c, hc, by simp [hcs]⟩
  simp [this]

theorem tieBreak_allServer {cs : List Cand} (hne : cs ≠ []) (hall : ∀ c ∈ cs, c.isServer = true)
    (hnd : (cs.map (·.id)).Nodup) :
    ∃ c ∈ cs, tieBreak cs = [c] ∧ ∀ c' ∈ cs, c.id ≤ c'.id := by
  have hall' : cs.all (·.isServer) = true := by simpa using hall
  cases hm : (cs.map (·.id)).min? with
  | none =>
    have := List.min?_eq_none_iff.mp hm
    simp at this; exact absurd this hne
  | some w =>
    have hw := List.min?_eq_some_iff.mp hm
    obtain ⟨c, hc, hcw⟩ := List.mem_map.mp hw.1
    refine ⟨c, hc, ?_, ?_⟩
    · unfold tieBreak
      by_cases hlen : cs.length > 1
      · simp only [hlen, hall', decide_true, Bool.and_self, if_true, hm]
        rw [← hcw]; exact filter_id_eq_singleton hnd hc
      · simp only [hlen, decide_false, Bool.false_and, Bool.false_eq_true, if_false]
        match cs, hc with
        | [x], hc => simp at hc; simp [hc]
        | [], hc => simp at hc
        | _ :: _ :: _, _ => simp at hlen
    · intro c' hc'
      rw [hcw]
      exact hw.2 _ (List.mem_map.mpr ⟨c', hc', rfl⟩)

/-! ### the symmetric part leaves connections of one direction only -/

theorem dirC_sublist (o : Ordering) (cs : List Conn) : (dirC o cs).Sublist cs := by
  unfold dirC; split
  · cases o <;> simp
  · simp

theorem nonceC_sublist (cs : List Conn) : (nonceC cs).Sublist cs := by
  unfold nonceC; split <;> simp

theorem survivors_sublist (o : Ordering) (cs : List Conn) : (survivors o cs).Sublist cs :=
  (nonceC_sublist _).trans (dirC_sublist o cs)

theorem dirC_same_dir {o : Ordering} (ho : o ≠ .eq) (cs : List Conn) :
    ∃ d, ∀ c ∈ dirC o cs, c.aInit = d := by
  unfold dirC
  split
  · cases o
    · exact ⟨true, fun c hc => by simpa using (List.mem_filter.mp hc).2⟩
    · exact absurd rfl ho
    · exact ⟨false, fun c hc => by simpa using (List.mem_filter.mp hc).2⟩
  · rename_i hb
    simp only [Bool.and_eq_true, not_and, Bool.not_eq_true] at hb
    by_cases h1 : cs.any (·.aInit) = true
    · have h2 := hb h1
      refine ⟨true, fun c hc => ?_⟩
      simp only [List.any_eq_false, Bool.not_eq_true', Bool.not_eq_false] at h2
      simpa using h2 c hc
    · refine ⟨false, fun c hc => ?_⟩
      simp only [Bool.not_eq_true, List.any_eq_false] at h1
      simpa using h1 c hc

theorem survivors_same_dir {o : Ordering} (ho : o ≠ .eq) (cs : List Conn) :
    ∃ d, ∀ c ∈ survivors o cs, c.aInit = d := by
  obtain ⟨d, hd⟩ := dirC_same_dir ho cs
  exact ⟨d, fun c hc => hd c ((nonceC_sublist _).subset hc)⟩

theorem survivors_same_nonce (o : Ordering) (cs : List Conn) :
    ∀ c ∈ survivors o cs, ∀ c' ∈ survivors o cs, nz c.nonce = nz c'.nonce := by
  unfold survivors nonceC
  cases hm : (List.filterMap (fun c => nz c.nonce) (dirC o cs)).min? with
  | some m =>
    intro c hc c' hc'
    have h1 := (List.mem_filter.mp hc).2
    have h2 := (List.mem_filter.mp hc').2
    simp only [beq_iff_eq] at h1 h2
    rw [h1, h2]
  | none =>
    intro c hc c' hc'
    have hnil := List.min?_eq_none_iff.mp hm
    simp only [List.filterMap_eq_nil_iff] at hnil
    rw [hnil c hc, hnil c' hc']

theorem survivors_ne_nil (o : Ordering) {cs : List Conn} (h : cs ≠ []) : survivors o cs ≠ [] := by
  intro hnil
  have h1 : pipeline o (cs.map viewA) ≠ [] := pipeline_ne_nil o (by simpa using h)
  have h2 : nonceFilter (dirFilter o (cs.map viewA)) = [] := by
    rw [dirFilter_viewA, nonceFilter_viewA]
    show (survivors o cs).map viewA = []
    rw [hnil]; rfl
  apply h1
  unfold pipeline
  rw [h2]; rfl

end Election

namespace Election

theorem nz_eq_some {n m : Nat} : nz n = some m ↔ n ≠ 0 ∧ n = m := by
  unfold nz; by_cases h : n = 0 <;> simp [h]

theorem nz_eq_none {n : Nat} : nz n = none ↔ n = 0 := by
  unfold nz; by_cases h : n = 0 <;> simp [h]

/-- Membership in the direction stage, by quantifiers over members only. -/
theorem mem_dirC {o : Ordering} {cs : List Conn} {c : Conn} :
    c ∈ dirC o cs ↔ c ∈ cs ∧ ((∃ x ∈ cs, x.aInit = true) → (∃ y ∈ cs, y.aInit = false) →
      (o = .lt → c.aInit = true) ∧ (o = .gt → c.aInit = false)) := by
  unfold dirC
  by_cases h1 : ∃ x ∈ cs, x.aInit = true <;> by_cases h2 : ∃ y ∈ cs, y.aInit = false
  · have e1 : cs.any (·.aInit) = true := by simpa using h1
    have e2 : cs.any (fun c => !c.aInit) = true := by simpa using h2
    simp only [e1, e2, Bool.and_self, if_true]
    cases o <;> simp [List.mem_filter, h1, h2]
  · have e2 : cs.any (fun c => !c.aInit) = false := by
      simp only [List.any_eq_false, Bool.not_eq_true', Bool.not_eq_false]
      intro x hx; cases hxa : x.aInit
      · exact absurd ⟨x, hx, hxa⟩ h2
      · rfl
    simp [e2, h2]
  · have e1 : cs.any (·.aInit) = false := by
      simp only [List.any_eq_false, Bool.not_eq_true]
      intro x hx; cases hxa : x.aInit
      · rfl
      · exact absurd ⟨x, hx, hxa⟩ h1
    simp [e1, h1]
  · have e1 : cs.any (·.aInit) = false := by
      simp only [List.any_eq_false, Bool.not_eq_true]
      intro x hx; cases hxa : x.aInit
      · rfl
      · exact absurd ⟨x, hx, hxa⟩ h1
    simp [e1, h1]

/-- Membership in the nonce stage: `c` carries the least non-legacy nonce, if there is one. -/
theorem mem_nonceC {l : List Conn} {c : Conn} :
    c ∈ nonceC l ↔ c ∈ l ∧ ∀ c' ∈ l, c'.nonce ≠ 0 → c.nonce ≠ 0 ∧ c.nonce ≤ c'.nonce := by
  unfold nonceC
  cases hm : (List.filterMap (fun c => nz c.nonce) l).min? with
  | none =>
    have hnil := List.min?_eq_none_iff.mp hm
    simp only [List.filterMap_eq_nil_iff] at hnil
    constructor
    · intro hc
      refine ⟨hc, fun c' hc' hne => ?_⟩
      exact absurd (nz_eq_none.mp (hnil c' hc')) hne
    · exact fun h => h.1
  | some m =>
    have hmin := List.min?_eq_some_iff.mp hm
    obtain ⟨w, hw, hwm⟩ := List.mem_filterMap.mp hmin.1
    have hwm' := nz_eq_some.mp hwm
    simp only [List.mem_filter, beq_iff_eq]
    constructor
    · rintro ⟨hc, hcm⟩
      have hcm' := nz_eq_some.mp hcm
      refine ⟨hc, fun c' hc' hne => ⟨hcm'.1, ?_⟩⟩
      have : m ≤ c'.nonce := hmin.2 _ (List.mem_filterMap.mpr ⟨c', hc', nz_eq_some.mpr ⟨hne, rfl⟩⟩)
      omega
    · rintro ⟨hc, hall⟩
      refine ⟨hc, nz_eq_some.mpr ?_⟩
      have h1 := hall w hw hwm'.1
      have h2 : m ≤ c.nonce := hmin.2 _ (List.mem_filterMap.mpr ⟨c, hc, nz_eq_some.mpr ⟨h1.1, rfl⟩⟩)
      exact ⟨h1.1, by omega⟩

end Election

namespace Election

theorem electA_eq (o : Ordering) (cs : List Conn) :
    electA o cs = (tieBreak ((survivors o cs).map viewA)).map (·.id) := by
  unfold electA
  rw [elect_eq_pipeline]; unfold pipeline
  rw [dirFilter_viewA, nonceFilter_viewA]; rfl

theorem electB_eq (o : Ordering) (cs : List Conn) :
    electB o cs = (tieBreak ((survivors o cs).map viewB)).map (·.id) := by
  unfold electB
  rw [elect_eq_pipeline]; unfold pipeline
  rw [dirFilter_viewB, nonceFilter_viewB]; rfl

end Election

namespace Election

/-- Filtering a list by "key occurs among the keys of a sub-list" gives back the sub-list
when keys are distinct. -/
theorem filter_keys_of_sublist {α : Type} (f : α → Nat) {T cs : List α} (h : T.Sublist cs)
    (hnd : (cs.map f).Nodup) : cs.filter (fun c => (T.map f).contains (f c)) = T := by
  induction h with
  | slnil => rfl
  | cons a h ih =>
    rename_i l₁ l₂
    simp only [List.map_cons, List.nodup_cons] at hnd
    have hna : (l₁.map f).contains (f a) = false := by
      simp only [List.contains_eq_mem, List.mem_map, decide_eq_false_iff_not, not_exists, not_and]
      intro x hx heq
      exact hnd.1 (List.mem_map.mpr ⟨x, h.subset hx, heq⟩)
    simp only [List.filter_cons, hna]
    exact ih hnd.2
  | cons_cons a h ih =>
    rename_i l₁ l₂
    simp only [List.map_cons, List.nodup_cons] at hnd
    have ha : ((a :: l₁).map f).contains (f a) = true := by simp
    have hrest : l₂.filter (fun c => ((a :: l₁).map f).contains (f c)) =
        l₂.filter (fun c => (l₁.map f).contains (f c)) := by
      apply List.filter_congr
      intro x hx
      have : f x ≠ f a := fun heq => hnd.1 (heq ▸ List.mem_map.mpr ⟨x, hx, rfl⟩)
      simp [this]
    simp only [List.filter_cons, ha, if_true, hrest, ih hnd.2]

theorem filter_key_singleton {α : Type} (f : α → Nat) {cs : List α} {a : α} (ha : a ∈ cs)
    (hnd : (cs.map f).Nodup) : cs.filter (fun c => [f a].contains (f c)) = [a] := by
  have hs : [a].Sublist cs := List.singleton_sublist.mpr ha
  simpa using filter_keys_of_sublist f hs hnd

end Election

namespace Election

/-- If the reference connection `w` survives in `cs` and is present in the sub-multiset `R`, then
whatever survives in `R` also survives in `cs`: partial elections never promote a connection
that the full election would drop. -/
theorem survivors_sub_of_winner {o : Ordering} (ho : o ≠ .eq) {cs R : List Conn} (hR : R.Sublist cs)
    {w : Conn} (hw : w ∈ survivors o cs) (hwR : w ∈ R) :
    ∀ x ∈ survivors o R, x ∈ survivors o cs := by
  intro x hx
  have hwR' : w ∈ survivors o R := by
    -- `survivor_stable` is in Props; re-derive here from the membership characterisations
    unfold survivors at hw ⊢
    rw [mem_nonceC, mem_dirC] at hw ⊢
    obtain ⟨⟨_, hdir⟩, hn⟩ := hw
    refine ⟨⟨hwR, fun ⟨a, ha, haa⟩ ⟨b, hb, hbb⟩ => hdir ⟨a, hR.subset ha, haa⟩ ⟨b, hR.subset hb, hbb⟩⟩, ?_⟩
    intro c' hc' hne
    by_cases hmem : c' ∈ dirC o cs
    · exact hn c' hmem hne
    · exfalso
      rw [mem_dirC] at hc' hmem
      obtain ⟨hc'R, hdirR⟩ := hc'
      have hc'cs := hR.subset hc'R
      simp only [hc'cs, true_and, Classical.not_imp] at hmem
      obtain ⟨hx1, hy1, hbad⟩ := hmem
      have hcdir := hdir hx1 hy1
      cases o with
      | eq => exact ho rfl
      | lt =>
        simp only [forall_const, reduceCtorEq, false_imp_iff, and_true] at hbad hcdir
        have hc'f : c'.aInit = false := by simpa using hbad
        have := hdirR ⟨w, hwR, hcdir⟩ ⟨c', hc'R, hc'f⟩
        simp [hc'f] at this
      | gt =>
        simp only [forall_const, reduceCtorEq, false_imp_iff, true_and] at hbad hcdir
        have hc't : c'.aInit = true := by simpa using hbad
        have := hdirR ⟨c', hc'R, hc't⟩ ⟨w, hwR, hcdir⟩
        simp [hc't] at this
  -- same direction and same nonce as `w` within R
  obtain ⟨d, hd⟩ := survivors_same_dir ho R
  have hxa : x.aInit = w.aInit := by rw [hd x hx, hd w hwR']
  have hxn : nz x.nonce = nz w.nonce := survivors_same_nonce o R x hx w hwR'
  have hxR : x ∈ R := (survivors_sublist o R).subset hx
  unfold survivors at hw ⊢
  rw [mem_nonceC, mem_dirC] at hw ⊢
  obtain ⟨⟨_, hdir⟩, hn⟩ := hw
  refine ⟨⟨hR.subset hxR, fun h1 h2 => ?_⟩, ?_⟩
  · rw [hxa]; exact hdir h1 h2
  · intro c' hc' hne
    have hwn := hn c' hc' hne
    have : x.nonce = w.nonce := by
      have h1 : nz w.nonce = some w.nonce := nz_eq_some.mpr ⟨hwn.1, rfl⟩
      rw [h1] at hxn
      exact (nz_eq_some.mp hxn).2
    rw [this]; exact hwn

end Election

namespace Election

theorem nodup_map_inj' {α : Type} (f : α → Nat) {l : List α} (h : (l.map f).Nodup) {x y : α}
    (hx : x ∈ l) (hy : y ∈ l) (hxy : f x = f y) : x = y := by
  induction l with
  | nil => simp at hx
  | cons a t ih =>
    simp only [List.map_cons, List.nodup_cons, List.mem_map, not_exists, not_and] at h
    rcases List.mem_cons.mp hx with rfl | hx' <;> rcases List.mem_cons.mp hy with rfl | hy'
    · rfl
    · exact absurd hxy.symm (h.1 y hy')
    · exact absurd hxy (h.1 x hx')
    · exact ih h.2 hx' hy'

end Election
