//! C10 harness, round 4 (cluster build): the name table, the pid table and the pid registry's
//! monitors at API level, including a FAILING `register_pid` (forced id collision through the verif
//! hook `ActorCell::verif_set_next_local_id`) so that the rollback of `ActorCell::new` runs on the
//! real code.  Driver: `Driver/Reg2.lean` (model `Model/RegistryConc.lean`).
//!
//! One paused current_thread runtime; after every op `sleep(1ms)` = run to quiescence.
//! Every attempt to construct a cell gets the next index `i` (also the failed ones).
//!
//! ops:  `case <k>` · `spawn <i> <name|->` · `spawnfail <i> <name|->` (pre_start fails) ·
//!       `collide <i> <name|-> <j>` (the new cell is handed the id of the live actor `j`) ·
//!       `spawntl` / `spawntlfail` / `collidetl` (the same through `ThreadLocalActor::spawn`: the twin constructor
//!       `thread_local/inner.rs::new_thread_local`) · `mon <i>` (spawn a listener actor, not yet subscribed) · `monitor <i>` · `demonitor <i>` ·
//!       `stop <i>` · `kill <i>` ·
//!       `wina <i> <name|->` (the spawn runs on a helper OS thread and is parked at the schedule point
//!       `new.reg_pid`, between the two registry operations of `ActorCell::new`; res=win, or dup if it never got
//!       there) · `winb <i>` (the helper is released: pid insert, start) · `winc <i>` (kill it, wait)
//! obs:  `res=<ok|dup|pid|start|unit> | names=<n:i,…|-> pids=<i,…|-> st=<i:status,…|-> ev=<m>S<i>/<m>T<i>,…|->`

use std::collections::BTreeMap;
use std::sync::{Arc, Mutex};
use std::time::Duration;

use hutil::{Args, Log, Rng, Stats};
use ractor::registry;
use ractor::verif::{self, ThreadCtl, ThreadPhase};
use ractor::{Actor, ActorCell, ActorId, ActorProcessingErr, ActorRef, SpawnErr, SupervisionEvent};

type EvLog = Arc<Mutex<Vec<(usize, bool, ActorId)>>>;

struct Node {
    fail: bool,
    /// listener index (events are recorded under it) — every Node can be subscribed
    me: usize,
    log: EvLog,
}

impl Actor for Node {
    type Msg = ();
    type State = ();
    type Arguments = ();
    async fn pre_start(&self, _: ActorRef<()>, _: ()) -> Result<(), ActorProcessingErr> {
        if self.fail {
            Err("refused".into())
        } else {
            Ok(())
        }
    }
    async fn handle_supervisor_evt(&self, _: ActorRef<()>, ev: SupervisionEvent, _: &mut ()) -> Result<(), ActorProcessingErr> {
        if let SupervisionEvent::PidLifecycleEvent(e) = ev {
            match e {
                registry::PidLifecycleEvent::Spawn(c) => self.log.lock().unwrap().push((self.me, true, c.get_id())),
                registry::PidLifecycleEvent::Terminate(c) => self.log.lock().unwrap().push((self.me, false, c.get_id())),
            }
        }
        Ok(())
    }
}

/// the same actor in the shape the thread-local spawner wants; `thread_local/inner.rs::new_thread_local` is a
/// textual twin of `ActorCell::new` (name insert, pid insert, rollback)
#[derive(Default)]
struct TlNode;

impl Actor for TlNode {
    type Msg = ();
    type State = ();
    type Arguments = bool;
    async fn pre_start(&self, _: ActorRef<()>, fail: bool) -> Result<(), ActorProcessingErr> {
        if fail {
            Err("refused".into())
        } else {
            Ok(())
        }
    }
    async fn handle_supervisor_evt(&self, _: ActorRef<()>, _: SupervisionEvent, _: &mut ()) -> Result<(), ActorProcessingErr> {
        Ok(())
    }
}

fn tl_spawner() -> ractor::thread_local::ThreadLocalActorSpawner {
    static S: std::sync::OnceLock<ractor::thread_local::ThreadLocalActorSpawner> = std::sync::OnceLock::new();
    S.get_or_init(ractor::thread_local::ThreadLocalActorSpawner::new).clone()
}

/// thread-local actors live on the spawner's OS thread with a real clock: wait (real time) until `p`
fn settle(p: impl Fn() -> bool) {
    let t0 = std::time::Instant::now();
    while !p() && t0.elapsed() < Duration::from_secs(5) {
        std::thread::sleep(Duration::from_micros(50));
    }
}

#[derive(Default)]
struct World {
    /// index → cell of every successfully constructed actor
    cells: BTreeMap<usize, ActorCell>,
    /// index → the id the allocator handed to an attempt whose spawn returned `Err` (not for `collide`)
    failed_ids: BTreeMap<usize, ActorId>,
    next: usize,
    evs: EvLog,
    case: u64,
    /// an `ActorCell::new` parked between its name insert and its pid insert, on a helper OS thread
    win: Option<Win>,
    helpers: Vec<std::thread::JoinHandle<()>>,
    /// indices of thread-local actors (never subscribed as listeners: their inbox is handled on another thread)
    tl: Vec<usize>,
}

struct Win {
    i: usize,
    ctl: Arc<ThreadCtl>,
    rx: std::sync::mpsc::Receiver<Option<ActorCell>>,
    handle: std::thread::JoinHandle<()>,
}

fn nm(case: u64, n: u64) -> String {
    format!("rm{case}_{n}")
}

async fn quiesce() {
    tokio::time::sleep(Duration::from_millis(1)).await;
}

impl World {
    fn idx_of(&self, id: ActorId) -> String {
        self.cells
            .iter()
            .find(|(_, c)| c.get_id() == id)
            .map(|(k, _)| k.to_string())
            .or_else(|| self.failed_ids.iter().find(|(_, d)| **d == id).map(|(k, _)| k.to_string()))
            // a cell nobody has been handed yet: the one parked inside its constructor
            .or_else(|| self.win.as_ref().map(|w| w.i.to_string()))
            .unwrap_or("?".into())
    }
    fn view(&self) -> String {
        let mut names = Vec::new();
        for n in 0..4u64 {
            if let Some(c) = registry::where_is(nm(self.case, n)) {
                // the id is what a lookup hands out; say also whether the cell carries this name
                let own = c.get_name().as_deref() == Some(nm(self.case, n).as_str());
                names.push(format!("{n}:{}{}", self.idx_of(c.get_id()), if own { "" } else { "!" }));
            }
        }
        let mut pids: Vec<String> = registry::get_all_pids()
            .iter()
            .filter(|c| self.cells.values().any(|d| d.get_id() == c.get_id()))
            .map(|c| self.idx_of(c.get_id()))
            .collect();
        pids.sort_by_key(|s| s.parse::<u64>().unwrap_or(9999));
        // where_is_pid must agree with get_all_pids
        let mut wp_bad = false;
        for (_, c) in self.cells.iter() {
            let a = registry::where_is_pid(c.get_id()).is_some();
            let b = registry::get_all_pids().iter().any(|d| d.get_id() == c.get_id());
            wp_bad |= a != b;
        }
        let st: Vec<String> = self.cells.iter().map(|(k, c)| format!("{k}:{}", c.get_status() as u8)).collect();
        let mut evs: Vec<_> = std::mem::take(&mut *self.evs.lock().unwrap());
        // the fan-out walks a DashMap: the order between listeners means nothing, the order of one
        // listener's events does
        evs.sort_by_key(|e| e.0);
        let ev: Vec<String> = evs.iter().map(|(m, s, id)| format!("{m}{}{}", if *s { "S" } else { "T" }, self.idx_of(*id))).collect();
        let j = |v: Vec<String>| if v.is_empty() { "-".to_string() } else { v.join(",") };
        format!("names={} pids={}{} st={} ev={}", j(names), j(pids), if wp_bad { "!" } else { "" }, j(st), j(ev))
    }

    async fn reset(&mut self) {
        if let Some(w) = self.win.take() {
            w.ctl.release();
            if let Ok(Some(c)) = w.rx.recv_timeout(Duration::from_secs(20)) {
                c.kill();
            }
            let _ = w.handle.join();
        }
        for (_, c) in self.cells.iter() {
            c.kill();
        }
        for h in std::mem::take(&mut self.helpers) {
            let _ = h.join();
        }
        let tl = std::mem::take(&mut self.tl);
        for (i, c) in std::mem::take(&mut self.cells) {
            registry::pid_registry::demonitor(c.get_id());
            c.kill();
            if tl.contains(&i) {
                settle(|| (c.get_status() as u8) == 6);
            }
        }
        quiesce().await;
        quiesce().await;
        self.evs.lock().unwrap().clear();
        self.failed_ids.clear();
        self.tl.clear();
        self.next = 0;
    }

    async fn spawn(&mut self, i: usize, name: Option<u64>, fail: bool, collide: bool) -> String {
        let node = Node { fail, me: i, log: self.evs.clone() };
        let will_get = ActorCell::verif_set_next_local_id(u64::MAX);
        let r = Actor::spawn(name.map(|n| nm(self.case, n)), node, ()).await;
        self.next = self.next.max(i + 1);
        if r.is_err() && !collide {
            self.failed_ids.insert(i, ActorId::Local(will_get));
        }
        match r {
            Ok((a, _)) => {
                self.cells.insert(i, a.get_cell());
                "ok".into()
            }
            Err(SpawnErr::ActorAlreadyRegistered(s)) => {
                if s.contains("PID") || s.contains("alive") { "pid".into() } else { "dup".into() }
            }
            Err(SpawnErr::StartupFailed(_)) => "start".into(),
            Err(_) => "other".into(),
        }
    }

    async fn spawn_tl(&mut self, i: usize, name: Option<u64>, fail: bool, collide: bool) -> String {
        use ractor::thread_local::ThreadLocalActor;
        let will_get = ActorCell::verif_set_next_local_id(u64::MAX);
        let r = <TlNode as ThreadLocalActor>::spawn(name.map(|n| nm(self.case, n)), fail, tl_spawner()).await;
        self.next = self.next.max(i + 1);
        if r.is_err() && !collide {
            self.failed_ids.insert(i, ActorId::Local(will_get));
        }
        match r {
            Ok((a, _)) => {
                let c = a.get_cell();
                settle(|| (c.get_status() as u8) >= 2);
                self.cells.insert(i, c);
                self.tl.push(i);
                "ok".into()
            }
            Err(SpawnErr::ActorAlreadyRegistered(s)) => {
                if s.contains("PID") || s.contains("alive") { "pid".into() } else { "dup".into() }
            }
            Err(SpawnErr::StartupFailed(_)) => {
                // the failed cell's cleanup runs on the spawner's thread
                settle(|| registry::where_is_pid(ActorId::Local(will_get)).is_none());
                "start".into()
            }
            Err(_) => "other".into(),
        }
    }

    async fn exec(&mut self, log: &mut Log, st: &mut Stats, op: &str) {
        let ws: Vec<&str> = op.split_whitespace().collect();
        let name = |s: &str| if s == "-" { None } else { s.parse::<u64>().ok() };
        let res = match ws[0] {
            "case" => {
                self.reset().await;
                self.case = ws[1].parse().unwrap();
                "unit".to_string()
            }
            "spawn" | "mon" => {
                let n = if ws[0] == "mon" { None } else { name(ws[2]) };
                self.spawn(ws[1].parse().unwrap(), n, false, false).await
            }
            "spawnfail" => self.spawn(ws[1].parse().unwrap(), name(ws[2]), true, false).await,
            "spawntl" => self.spawn_tl(ws[1].parse().unwrap(), name(ws[2]), false, false).await,
            "spawntlfail" => self.spawn_tl(ws[1].parse().unwrap(), name(ws[2]), true, false).await,
            "collidetl" => {
                let j: usize = ws[3].parse().unwrap();
                match self.cells.get(&j).filter(|c| (c.get_status() as u8) < 5).map(|c| c.get_id()) {
                    Some(ActorId::Local(pid)) => {
                        let keep = ActorCell::verif_set_next_local_id(pid);
                        let r = self.spawn_tl(ws[1].parse().unwrap(), name(ws[2]), false, true).await;
                        ActorCell::verif_set_next_local_id(keep.max(pid + 1));
                        r
                    }
                    _ => "skip".into(),
                }
            }
            "collide" => {
                let j: usize = ws[3].parse().unwrap();
                // only against an actor that is in the pid table (alive); otherwise nothing is done
                match self.cells.get(&j).filter(|c| (c.get_status() as u8) < 5).map(|c| c.get_id()) {
                    Some(ActorId::Local(pid)) => {
                        let keep = ActorCell::verif_set_next_local_id(pid);
                        let r = self.spawn(ws[1].parse().unwrap(), name(ws[2]), false, true).await;
                        ActorCell::verif_set_next_local_id(keep.max(pid + 1));
                        r
                    }
                    _ => "skip".into(),
                }
            }
            "monitor" => {
                // (subscribing a dead actor would leave a listener behind that nobody ever removes)
                let i: usize = ws[1].parse().unwrap();
                match self.cells.get(&i).filter(|c| (c.get_status() as u8) < 5 && !self.tl.contains(&i)) {
                    Some(c) => {
                        registry::pid_registry::monitor(c.clone());
                        "unit".into()
                    }
                    None => "skip".into(),
                }
            }
            "demonitor" => {
                if let Some(c) = self.cells.get(&ws[1].parse().unwrap()) {
                    registry::pid_registry::demonitor(c.get_id());
                }
                "unit".into()
            }
            "wina" => {
                let i: usize = ws[1].parse().unwrap();
                let n = name(ws[2]).map(|n| nm(self.case, n));
                let ctl = ThreadCtl::new();
                let (tx, rx) = std::sync::mpsc::channel();
                let (ctl2, log2) = (ctl.clone(), self.evs.clone());
                let handle = std::thread::spawn(move || {
                    let rt = tokio::runtime::Builder::new_current_thread().enable_all().start_paused(true).build().unwrap();
                    verif::thread_register(ctl2.clone());
                    let r = rt.block_on(Actor::spawn(n, Node { fail: false, me: i, log: log2 }, ()));
                    verif::thread_unregister();
                    ctl2.finish();
                    match r {
                        Ok((a, h)) => {
                            let _ = tx.send(Some(a.get_cell()));
                            let _ = rt.block_on(h);
                        }
                        Err(_) => {
                            let _ = tx.send(None);
                        }
                    }
                });
                self.next = self.next.max(i + 1);
                // named: first park inside `registry::register`; then (or at once) at `new.reg_pid`
                let mut ph = ctl.wait_parked_timeout(Duration::from_secs(20));
                if ph == Some(ThreadPhase::AtPoint("reg.entry")) {
                    ctl.grant();
                    ph = ctl.wait_parked_timeout(Duration::from_secs(20));
                }
                if ph == Some(ThreadPhase::AtPoint("new.reg_pid")) {
                    self.win = Some(Win { i, ctl, rx, handle });
                    "win".into()
                } else {
                    ctl.release();
                    let _ = rx.recv_timeout(Duration::from_secs(20));
                    let _ = handle.join();
                    "dup".into()
                }
            }
            "winb" => match self.win.take() {
                Some(w) if w.i == ws[1].parse::<usize>().unwrap() => {
                    w.ctl.release();
                    match w.rx.recv_timeout(Duration::from_secs(20)) {
                        Ok(Some(c)) => {
                            // the actor lives on the helper's runtime: wait (real time) until it runs
                            for _ in 0..2000 {
                                if (c.get_status() as u8) >= 2 {
                                    break;
                                }
                                std::thread::sleep(Duration::from_millis(1));
                            }
                            self.cells.insert(w.i, c);
                            self.helpers.push(w.handle);
                            "ok".into()
                        }
                        _ => "lost".into(),
                    }
                }
                other => {
                    self.win = other;
                    "skip".into()
                }
            },
            "winc" => {
                if let Some(c) = self.cells.get(&ws[1].parse().unwrap()) {
                    c.kill();
                    for _ in 0..5000 {
                        if (c.get_status() as u8) == 6 {
                            break;
                        }
                        std::thread::sleep(Duration::from_millis(1));
                    }
                }
                for h in std::mem::take(&mut self.helpers) {
                    let _ = h.join();
                }
                "unit".into()
            }
            "stop" | "kill" => {
                let i: usize = ws[1].parse().unwrap();
                if let Some(c) = self.cells.get(&i) {
                    if ws[0] == "stop" {
                        c.stop(None);
                    } else {
                        c.kill();
                    }
                    if self.tl.contains(&i) {
                        settle(|| (c.get_status() as u8) == 6);
                    }
                }
                "unit".into()
            }
            _ => "bad-op".into(),
        };
        quiesce().await;
        quiesce().await;
        st.bump(&format!("op.{}", ws[0]));
        st.bump(&format!("res.{res}"));
        log.rec(op, format!("res={res} | {}", self.view()));
    }
}

async fn gen_case(w: &mut World, log: &mut Log, st: &mut Stats, rng: &mut Rng, k: u64) {
    w.exec(log, st, &format!("case {k}")).await;
    let len = rng.range(6, 22);
    let mut i = 0usize; // next index
    let mut live: Vec<usize> = Vec::new(); // indices believed alive (generator's guess only)
    for _ in 0..len {
        let nmx = |rng: &mut Rng| if rng.chance(1, 5) { "-".to_string() } else { rng.below(3).to_string() };
        let r = rng.below(100);
        if r >= 92 {
            // the window between the two registry operations of `new`, with one op of somebody else inside
            let nmw = rng.below(3);
            w.exec(log, st, &format!("wina {i} {nmw}")).await;
            let wi = i;
            i += 1;
            let inner = match rng.below(4) {
                0 => {
                    i += 1;
                    format!("spawn {} {nmw}", i - 1)
                }
                1 => {
                    i += 1;
                    format!("spawn {} {}", i - 1, (nmw + 1) % 3)
                }
                2 if !live.is_empty() => format!("kill {}", rng.pick(&live)),
                _ => {
                    i += 1;
                    format!("mon {}", i - 1)
                }
            };
            w.exec(log, st, &inner).await;
            w.exec(log, st, &format!("winb {wi}")).await;
            w.exec(log, st, &format!("winc {wi}")).await;
            continue;
        }
        let op = if r < 22 || live.is_empty() {
            let s = format!("spawn {i} {}", nmx(rng));
            live.push(i);
            i += 1;
            s
        } else if r < 26 {
            let s = format!("spawnfail {i} {}", nmx(rng));
            i += 1;
            s
        } else if r < 30 {
            // the thread-local twin of the constructor
            let k = rng.below(4);
            let s = if k == 0 {
                format!("spawntlfail {i} {}", nmx(rng))
            } else if k == 1 {
                format!("collidetl {i} {} {}", nmx(rng), rng.pick(&live))
            } else {
                live.push(i);
                format!("spawntl {i} {}", nmx(rng))
            };
            i += 1;
            s
        } else if r < 45 {
            let j = *rng.pick(&live);
            let s = format!("collide {i} {} {j}", nmx(rng));
            i += 1;
            s
        } else if r < 55 {
            let s = format!("mon {i}");
            live.push(i);
            i += 1;
            s
        } else if r < 70 {
            format!("monitor {}", rng.pick(&live))
        } else if r < 75 {
            format!("demonitor {}", rng.pick(&live))
        } else {
            let p = rng.below(live.len() as u64) as usize;
            let j = live[p];
            if rng.chance(1, 3) {
                live.remove(p);
            }
            format!("{} {j}", if rng.chance(1, 2) { "stop" } else { "kill" })
        };
        w.exec(log, st, &op).await;
    }
}

/// hand-written cases first
const FIXED: &[&[&str]] = &[
    // a failing pid registration rolls the name back; the name can be taken afterwards
    &["spawn 0 -", "collide 1 1 0", "spawn 2 1", "stop 2", "spawn 3 1"],
    // duplicate name: no side effect, no event
    &["mon 0", "monitor 0", "spawn 1 0", "spawn 2 0", "collide 3 0 1", "kill 1", "spawn 4 0"],
    // two listeners, one leaves; a failed start is reported Spawn + Terminate
    &["mon 0", "mon 1", "monitor 0", "monitor 1", "spawn 2 2", "demonitor 1", "spawnfail 3 1", "stop 2", "stop 0", "spawn 4 -", "kill 4"],
    // a listener that exits is dropped from the listeners (demonitor is the first statement of the cleanup block)
    &["mon 0", "monitor 0", "spawn 1 -", "kill 0", "spawn 2 -", "stop 1", "stop 2"],
    // inside the window of `new`: the name is taken (a same-name spawn fails), the pid is not there yet, no event yet
    &["mon 0", "monitor 0", "wina 1 2", "spawn 2 2", "winb 1", "winc 1", "spawn 3 2"],
    &["spawn 0 1", "wina 1 1", "winb 1", "wina 2 -", "mon 3", "winb 2", "winc 2"],
    // the thread-local twin: duplicate name, forced pid collision + rollback, failed start, exit releases the name
    &["mon 0", "monitor 0", "spawntl 1 0", "spawntl 2 0", "collidetl 3 1 1", "spawn 4 1", "spawntlfail 5 2", "stop 1", "spawntl 6 0", "kill 6"],
];

fn main() {
    let args = Args::parse();
    let seed = args.u64("seed", 1);
    let cases = args.u64("cases", 100);
    let out = args.str("out", "/tmp/c10-regmon");
    let replay = args.str("replay-ops", "");
    let only_replay = args.u64("only-replay", 0) == 1;
    let mut rng = Rng::new(seed);
    let mut log = Log::create(std::path::Path::new(&out)).unwrap();
    let mut st = Stats::default();
    let rt = tokio::runtime::Builder::new_current_thread().enable_all().start_paused(true).build().unwrap();
    rt.block_on(async {
        let mut w = World::default();
        let mut k = 0u64;
        for f in replay.split(',').filter(|f| !f.is_empty()) {
            if let Ok(text) = std::fs::read_to_string(f) {
                for line in text.lines() {
                    let line = line.trim();
                    if line.is_empty() {
                        continue;
                    }
                    if line.starts_with("case ") {
                        k += 1;
                        w.exec(&mut log, &mut st, &format!("case {k}")).await;
                    } else {
                        w.exec(&mut log, &mut st, line).await;
                    }
                }
            }
        }
        if !only_replay {
            for c in FIXED {
                k += 1;
                w.exec(&mut log, &mut st, &format!("case {k}")).await;
                for op in c.iter() {
                    w.exec(&mut log, &mut st, op).await;
                }
            }
            for _ in 0..cases {
                k += 1;
                gen_case(&mut w, &mut log, &mut st, &mut rng, k).await;
            }
        }
        k += 1;
        w.exec(&mut log, &mut st, &format!("case {k}")).await;
    });
    st.add("lines", log.lines);
    st.write_json(&std::path::Path::new(&out).join("stats.json"));
    log.finish();
}
