//! C08 correspondence harness, thread-local flavour: spawns of `ractor::thread_local`
//! actors that do not produce a running actor.
//! Real `ThreadLocalActor::{spawn, spawn_linked, spawn_instant, spawn_linked_instant}` on one or
//! two `ThreadLocalActorSpawner`s (each its own OS thread + LocalSet), with a `pre_start` that
//! is driven step by step by the harness (side effects, then ok / err / panic, or cut). The
//! spawn future can be dropped at BOTH await points of `start`: while `pre_start` is suspended
//! (`cut`) and while the request is still queued in the spawner because its thread is busy
//! (`block b` makes the pre_start of a starting actor block its whole thread; `cutq a` then drops
//! the spawn future of a queued start; `unblock b` lets the spawner go on). The actors run on
//! other OS threads: the harness settles the world deterministically with
//! `ThreadLocalActorSpawner::verif_barrier` (a task on the spawner's thread that yields many
//! times) alternated with yields of its own runtime, never with wall-clock sleeps.
//! After every op the world is observed through public APIs exactly as in `spawnfail.rs`.
//!
//! usage: spawnfail_tl --seed S --cases N --out DIR [--replay-ops f1,f2] [--only-replay 1]

use std::sync::{Arc, Mutex};

use hutil::{Args, Log, Rng, Stats};
use ractor::rpc::CallResult;
use ractor::thread_local::{ThreadLocalActor, ThreadLocalActorSpawner};
use ractor::{ActorCell, ActorProcessingErr, ActorRef, ActorStatus, RpcReplyPort, SupervisionEvent};
use tokio::sync::mpsc;
use tokio::task::JoinHandle;

enum Msg {
    Ping,
    Call(RpcReplyPort<u64>),
}

enum Cmd {
    Join(String),
    Monitor(String),
    SelfSend,
    /// `myself.get_cell().link(w)`: pre_start links the new actor to some other actor
    SelfLink(ActorCell),
    SpawnChild,
    /// block the whole spawner thread until the harness sends on the channel
    Block(std::sync::mpsc::Receiver<()>),
    Finish(u8), // 0 ok, 1 err, 2 panic
}

#[derive(Default)]
struct Shared {
    events: Vec<(u64, u64, char)>, // (supervisor pid, child pid, kind)
    handled: Vec<u64>,             // pids whose handlers (handle/post_start/post_stop) ran a user message
    cells: Vec<(usize, ActorCell)>, // (spawn index, cell) reported by pre_start
    children: Vec<(usize, ActorCell)>, // (parent index, child cell)
}

#[derive(Default)]
struct Starter;

struct StarterArgs {
    idx: usize,
    shared: Arc<Mutex<Shared>>,
    gate: mpsc::UnboundedReceiver<Cmd>,
    spawner: ThreadLocalActorSpawner,
}

struct StarterState {
    shared: Arc<Mutex<Shared>>,
}

impl ThreadLocalActor for Starter {
    type Msg = Msg;
    type State = StarterState;
    type Arguments = StarterArgs;

    async fn pre_start(&self, myself: ActorRef<Msg>, mut args: StarterArgs) -> Result<StarterState, ActorProcessingErr> {
        args.shared.lock().unwrap().cells.push((args.idx, myself.get_cell()));
        while let Some(cmd) = args.gate.recv().await {
            match cmd {
                Cmd::Join(g) => ractor::pg::join(g, vec![myself.get_cell()]),
                Cmd::Monitor(g) => ractor::pg::monitor(g, myself.get_cell()),
                Cmd::SelfSend => {
                    let _ = myself.cast(Msg::Ping);
                }
                Cmd::SelfLink(w) => myself.get_cell().link(w),
                Cmd::SpawnChild => {
                    let (tx, rx) = mpsc::unbounded_channel();
                    let _ = tx.send(Cmd::Finish(0));
                    let child = StarterArgs { idx: usize::MAX, shared: args.shared.clone(), gate: rx, spawner: args.spawner.clone() };
                    if let Ok((c, _)) = Starter::spawn_linked(None, child, myself.get_cell(), args.spawner.clone()).await {
                        args.shared.lock().unwrap().children.push((args.idx, c.get_cell()));
                    }
                }
                Cmd::Block(rx) => {
                    let _ = rx.recv(); // the whole thread stands still
                }
                Cmd::Finish(0) => return Ok(StarterState { shared: args.shared.clone() }),
                Cmd::Finish(1) => return Err("pre_start failed".into()),
                Cmd::Finish(_) => panic!("pre_start panicked"),
            }
        }
        // gate closed without a verdict: stay pending forever (the spawn will be cut)
        std::future::pending::<()>().await;
        Ok(StarterState { shared: args.shared.clone() })
    }

    async fn handle(&self, myself: ActorRef<Msg>, msg: Msg, st: &mut StarterState) -> Result<(), ActorProcessingErr> {
        st.shared.lock().unwrap().handled.push(myself.get_id().pid());
        if let Msg::Call(p) = msg {
            let _ = p.send(1);
        }
        Ok(())
    }

    async fn handle_supervisor_evt(&self, myself: ActorRef<Msg>, evt: SupervisionEvent, st: &mut StarterState) -> Result<(), ActorProcessingErr> {
        let me = myself.get_id().pid();
        let mut sh = st.shared.lock().unwrap();
        match evt {
            SupervisionEvent::ActorStarted(c) => sh.events.push((me, c.get_id().pid(), 'S')),
            SupervisionEvent::ActorTerminated(c, _, _) => sh.events.push((me, c.get_id().pid(), 'T')),
            SupervisionEvent::ActorFailed(c, _) => sh.events.push((me, c.get_id().pid(), 'F')),
            _ => {}
        }
        Ok(())
    }
}

struct Slot {
    gate: Option<mpsc::UnboundedSender<Cmd>>,
    task: Option<tokio::task::AbortHandle>, // aborts the task driving the spawn future (plain) / the instant start task
    cell: Option<ActorCell>,
    name: Option<u64>,
    sup: Option<usize>,
    spawner: usize,
}

struct World {
    case_no: u64,
    shared: Arc<Mutex<Shared>>,
    slots: Vec<Slot>,
    ports: Vec<Option<JoinHandle<char>>>,
    port_done: Vec<char>,
    groups_used: Vec<u64>,
    names_used: Vec<u64>,
    spawners: Vec<ThreadLocalActorSpawner>,
    /// per spawner: the channel that releases its blocked thread
    blocked: Vec<Option<std::sync::mpsc::Sender<()>>>,
}

impl World {
    fn new(case_no: u64) -> Self {
        World {
            case_no,
            shared: Default::default(),
            slots: vec![],
            ports: vec![],
            port_done: vec![],
            groups_used: vec![],
            names_used: vec![],
            spawners: vec![ThreadLocalActorSpawner::new(), ThreadLocalActorSpawner::new()],
            blocked: vec![None, None],
        }
    }

    /// Let everything settle: alternate yields of this runtime (spawn futures, start tasks,
    /// callers) with barriers on every spawner thread that is not blocked. Chains of
    /// cross-thread effects (child exits -> supervisor on the other thread logs -> ...) are short;
    /// several rounds cover them.
    async fn quiesce(&self) {
        for _ in 0..5 {
            for _ in 0..40 {
                tokio::task::yield_now().await;
            }
            for (i, sp) in self.spawners.iter().enumerate() {
                if self.blocked[i].is_none() {
                    sp.verif_barrier(40).await;
                }
            }
        }
        for _ in 0..40 {
            tokio::task::yield_now().await;
        }
    }
    fn gname(&self, g: u64) -> String {
        format!("c08g-{}-{g}", self.case_no)
    }
    fn aname(&self, n: u64) -> String {
        format!("c08n-{}-{n}", self.case_no)
    }

    fn refresh_cells(&mut self) {
        let sh = self.shared.lock().unwrap();
        for (idx, cell) in sh.cells.iter() {
            if *idx < self.slots.len() && self.slots[*idx].cell.is_none() {
                self.slots[*idx].cell = Some(cell.clone());
            }
        }
    }

    async fn begin(&mut self, name: Option<u64>, sup: Option<usize>, instant: bool, sp: usize) -> String {
        let idx = self.slots.len();
        let sp = sp % self.spawners.len();
        let (tx, rx) = mpsc::unbounded_channel();
        let spawner = self.spawners[sp].clone();
        let args = StarterArgs { idx, shared: self.shared.clone(), gate: rx, spawner: spawner.clone() };
        let nm = name.map(|n| self.aname(n));
        if let Some(n) = name {
            if !self.names_used.contains(&n) {
                self.names_used.push(n);
            }
        }
        let sup_cell = sup.and_then(|p| self.slots.get(p).and_then(|s| s.cell.clone()));
        let mut slot = Slot { gate: Some(tx), task: None, cell: None, name, sup, spawner: sp };
        let classify = |s: &str| -> Option<&'static str> {
            if s.contains("AlreadyRegistered") {
                Some("err-name")
            } else if s.contains("Supervisor is shutting down") {
                Some("err-sup")
            } else {
                None
            }
        };
        let result;
        if instant {
            let r = match sup_cell {
                Some(p) => Starter::spawn_linked_instant(nm, args, p, spawner),
                None => Starter::spawn_instant(nm, args, spawner),
            };
            match r {
                Ok((aref, jh)) => {
                    slot.cell = Some(aref.get_cell());
                    // the start task runs on this runtime; aborting it drops the start future at
                    // whichever await point it is at
                    slot.task = Some(jh.abort_handle());
                    let errflag = Arc::new(Mutex::new(None::<String>));
                    let ef = errflag.clone();
                    tokio::spawn(async move {
                        if let Ok(Err(e)) = jh.await {
                            *ef.lock().unwrap() = Some(format!("{e:?}"));
                        }
                    });
                    self.slots.push(slot);
                    self.quiesce().await;
                    let e = errflag.lock().unwrap().clone();
                    result = match e.as_deref().and_then(classify) {
                        Some("err-sup") => {
                            self.slots[idx].gate = None;
                            "err-sup".to_string()
                        }
                        _ => "ok".to_string(),
                    };
                }
                Err(_) => {
                    slot.gate = None;
                    result = "err-name".to_string();
                    self.slots.push(slot);
                    self.quiesce().await;
                }
            }
        } else {
            let errflag = Arc::new(Mutex::new(None::<String>));
            let ef = errflag.clone();
            let fut = async move {
                let r = match sup_cell {
                    Some(p) => Starter::spawn_linked(nm, args, p, spawner).await,
                    None => Starter::spawn(nm, args, spawner).await,
                };
                if let Err(e) = r {
                    *ef.lock().unwrap() = Some(format!("{e:?}"));
                }
            };
            slot.task = Some(tokio::spawn(fut).abort_handle());
            self.slots.push(slot);
            self.quiesce().await;
            let e = errflag.lock().unwrap().clone();
            result = match e.as_deref().and_then(classify) {
                Some(k) => {
                    self.slots[idx].gate = None;
                    k.to_string()
                }
                None => "ok".into(),
            };
        }
        self.refresh_cells();
        self.discover_queued(idx);
        result
    }

    /// A start that is still queued in a blocked spawner has not run `pre_start`, so it has
    /// not reported its cell; find it through its name or its supervisor's child set.
    fn discover_queued(&mut self, idx: usize) {
        if self.slots[idx].cell.is_some() || self.slots[idx].gate.is_none() {
            return;
        }
        if let Some(n) = self.slots[idx].name {
            if let Some(c) = ractor::registry::where_is(self.aname(n)) {
                if self.idx_of_pid(c.get_id().pid()).is_none() {
                    self.slots[idx].cell = Some(c);
                    return;
                }
            }
        }
        if let Some(Some(p)) = self.slots[idx].sup.map(|p| self.slots.get(p).and_then(|s| s.cell.clone())) {
            for k in p.get_children() {
                if self.idx_of_pid(k.get_id().pid()).is_none()
                    && !self.shared.lock().unwrap().children.iter().any(|(_, c)| c.get_id() == k.get_id())
                {
                    self.slots[idx].cell = Some(k);
                    return;
                }
            }
        }
    }

    async fn block(&mut self, a: usize) -> String {
        let Some(sp) = self.slots.get(a).map(|s| s.spawner) else { return "ok".into() };
        if self.blocked[sp].is_some() {
            return "ok".into();
        }
        let (tx, rx) = std::sync::mpsc::channel();
        if let Some(Some(g)) = self.slots.get(a).map(|s| s.gate.as_ref()) {
            let _ = g.send(Cmd::Block(rx));
            // from now on this spawner's thread may stand still: never wait for it
            self.blocked[sp] = Some(tx);
        }
        self.quiesce().await;
        "ok".into()
    }

    async fn unblock(&mut self, a: usize) -> String {
        if let Some(sp) = self.slots.get(a).map(|s| s.spawner) {
            if let Some(tx) = self.blocked[sp].take() {
                let _ = tx.send(());
            }
        }
        self.quiesce().await;
        self.refresh_cells();
        "ok".into()
    }

    async fn cmd(&mut self, a: usize, c: Cmd) -> String {
        if let Some(Some(g)) = self.slots.get(a).map(|s| s.gate.as_ref()) {
            let _ = g.send(c);
        }
        self.quiesce().await;
        self.refresh_cells();
        "ok".into()
    }

    async fn cut(&mut self, a: usize) -> String {
        if let Some(s) = self.slots.get_mut(a) {
            if let Some(t) = s.task.take() {
                t.abort();
            }
        }
        self.quiesce().await;
        "ok".into()
    }

    fn aref(&self, a: usize) -> Option<ActorRef<Msg>> {
        self.slots.get(a).and_then(|s| s.cell.clone()).map(ActorRef::<Msg>::from)
    }

    async fn cast(&mut self, a: usize) -> String {
        if let Some(r) = self.aref(a) {
            let _ = r.cast(Msg::Ping);
        }
        self.quiesce().await;
        "ok".into()
    }

    async fn call(&mut self, a: usize) -> String {
        let r = self.aref(a);
        let h = tokio::spawn(async move {
            match r {
                None => 'E',
                Some(r) => match r.call(Msg::Call, None).await {
                    Err(_) => 'E',
                    Ok(CallResult::Success(_)) => 'R',
                    Ok(CallResult::SenderError) => 'S',
                    Ok(CallResult::Timeout) => 'T',
                },
            }
        });
        self.ports.push(Some(h));
        self.port_done.push('W');
        self.quiesce().await;
        "ok".into()
    }

    async fn kill(&mut self, a: usize) -> String {
        if let Some(Some(c)) = self.slots.get(a).map(|s| s.cell.clone()) {
            c.kill();
        }
        self.quiesce().await;
        "ok".into()
    }

    async fn stop(&mut self, a: usize) -> String {
        if let Some(Some(c)) = self.slots.get(a).map(|s| s.cell.clone()) {
            c.stop(None);
        }
        self.quiesce().await;
        "ok".into()
    }

    fn idx_of_pid(&self, pid: u64) -> Option<usize> {
        self.slots.iter().position(|s| s.cell.as_ref().is_some_and(|c| c.get_id().pid() == pid))
    }

    /// children spawned by pre_start get their own slots (in spawn order) so that ids line up with the model
    fn adopt_children(&mut self, parent: usize) {
        let kids: Vec<ActorCell> = {
            let sh = self.shared.lock().unwrap();
            sh.children.iter().filter(|(p, _)| *p == parent).map(|(_, c)| c.clone()).collect()
        };
        for k in kids {
            if self.idx_of_pid(k.get_id().pid()).is_none() {
                let sp = self.slots[parent].spawner;
                self.slots.push(Slot { gate: None, task: None, cell: Some(k), name: None, sup: Some(parent), spawner: sp });
            }
        }
    }

    async fn obs(&mut self) -> String {
        self.quiesce().await;
        for i in 0..self.ports.len() {
            if self.ports[i].as_ref().is_some_and(|h| h.is_finished()) {
                let h = self.ports[i].take().unwrap();
                self.port_done[i] = h.await.unwrap_or('?');
            }
        }
        // names
        let mut names: Vec<(u64, usize)> = vec![];
        for n in self.names_used.clone() {
            if let Some(c) = ractor::registry::where_is(self.aname(n)) {
                if let Some(i) = self.idx_of_pid(c.get_id().pid()) {
                    names.push((n, i));
                } else {
                    names.push((n, 99999));
                }
            }
        }
        names.sort();
        let n = names.iter().map(|(k, v)| format!("{k}>{v}")).collect::<Vec<_>>().join(",");
        // actors
        let sh_handled: Vec<u64> = self.shared.lock().unwrap().handled.clone();
        let mut rows = vec![];
        for (i, s) in self.slots.iter().enumerate() {
            let (phase, groups, children, handled) = match &s.cell {
                None => ("stopped".to_string(), vec![], vec![], 0),
                Some(c) => {
                    let phase = match c.get_status() {
                        ActorStatus::Unstarted | ActorStatus::Starting => "starting",
                        ActorStatus::Running | ActorStatus::Upgrading | ActorStatus::Draining => "running",
                        ActorStatus::Stopping => "stopping",
                        ActorStatus::Stopped => "stopped",
                    };
                    let mut gs: Vec<u64> = self
                        .groups_used
                        .iter()
                        .filter(|g| ractor::pg::get_members(&self.gname(**g)).iter().any(|m| m.get_id() == c.get_id()))
                        .cloned()
                        .collect();
                    gs.sort();
                    let mut ch: Vec<usize> = c.get_children().iter().filter_map(|k| self.idx_of_pid(k.get_id().pid())).collect();
                    ch.sort();
                    let h = sh_handled.iter().filter(|p| **p == c.get_id().pid()).count();
                    (phase.to_string(), gs, ch, h)
                }
            };
            let d = |v: Vec<String>| if v.is_empty() { "-".to_string() } else { v.join(".") };
            rows.push(format!(
                "{i}:{phase}:{}:{}:{handled}",
                d(groups.iter().map(|g| g.to_string()).collect()),
                d(children.iter().map(|g| g.to_string()).collect())
            ));
        }
        // events
        let mut evs: Vec<String> = self
            .shared
            .lock()
            .unwrap()
            .events
            .iter()
            .map(|(p, c, k)| {
                format!(
                    "{}>{}:{k}",
                    self.idx_of_pid(*p).map(|x| x.to_string()).unwrap_or("?".into()),
                    self.idx_of_pid(*c).map(|x| x.to_string()).unwrap_or("?".into())
                )
            })
            .collect();
        evs.sort();
        let p: String = self.port_done.iter().collect();
        format!("N[{n}] A[{}] E[{}] P[{p}]", rows.join("|"), evs.join(","))
    }

    async fn teardown(&mut self) {
        for b in self.blocked.iter_mut() {
            if let Some(tx) = b.take() {
                let _ = tx.send(());
            }
        }
        for s in self.slots.iter_mut() {
            if let Some(t) = s.task.take() {
                t.abort();
            }
            if let Some(c) = &s.cell {
                c.kill();
            }
        }
        self.quiesce().await;
        for h in self.ports.drain(..).flatten() {
            h.abort();
        }
        self.quiesce().await;
    }

    async fn exec(&mut self, line: &str) -> String {
        let w: Vec<&str> = line.split_whitespace().collect();
        let us = |s: &str| s.parse::<usize>().unwrap_or(9999);
        match w.as_slice() {
            ["begintl", name, sup, kind, spawner] => {
                let nm = if *name == "-" { None } else { name.parse().ok() };
                let sp = if *sup == "-" { None } else { sup.parse().ok() };
                self.begin(nm, sp, *kind == "instant", us(spawner)).await
            }
            ["block", a] => self.block(us(a)).await,
            ["unblock", a] => self.unblock(us(a)).await,
            // drop the spawn future of a start that is still queued in a blocked spawner
            ["cutq", a] => self.cut(us(a)).await,
            ["join", a, g] => {
                let g: u64 = g.parse().unwrap_or(0);
                if !self.groups_used.contains(&g) {
                    self.groups_used.push(g);
                }
                let gn = self.gname(g);
                self.cmd(us(a), Cmd::Join(gn)).await
            }
            ["monitor", a, g] => {
                let gn = self.gname(g.parse().unwrap_or(0));
                self.cmd(us(a), Cmd::Monitor(gn)).await
            }
            ["selfsend", a] => self.cmd(us(a), Cmd::SelfSend).await,
            ["selflink", a, w] => match self.slots.get(us(w)).and_then(|s| s.cell.clone()) {
                Some(wc) => self.cmd(us(a), Cmd::SelfLink(wc)).await,
                None => "ok".into(),
            },
            ["spawnchild", a] => {
                let r = self.cmd(us(a), Cmd::SpawnChild).await;
                self.adopt_children(us(a));
                r
            }
            ["cast", a] => self.cast(us(a)).await,
            ["call", a] => self.call(us(a)).await,
            ["finish", a, o] => {
                let k = match *o {
                    "ok" => 0,
                    "err" => 1,
                    _ => 2,
                };
                self.cmd(us(a), Cmd::Finish(k)).await
            }
            ["cut", a] => self.cut(us(a)).await,
            ["kill", a] => self.kill(us(a)).await,
            ["stop", a] => self.stop(us(a)).await,
            ["obs"] => self.obs().await,
            _ => "bad-op".into(),
        }
    }
}

async fn gen_case(log: &mut Log, st: &mut Stats, rng: &mut Rng, case_no: u64) {
    let mut w = World::new(case_no);
    log.rec("case", "ok");
    #[derive(Clone, Copy, PartialEq)]
    enum Ph {
        Starting,
        Running,
        Stopped,
    }
    let mut ph: Vec<Ph> = vec![];
    // one op + the observation after it; keeps `ph` in step with the real world
    async fn one(w: &mut World, log: &mut Log, st: &mut Stats, ph: &mut Vec<Ph>, line: String) -> String {
        st.bump(line.split(' ').next().unwrap());
        {
            let t: Vec<&str> = line.split(' ').collect();
            if matches!(t[0], "kill" | "stop") {
                if let Ok(a) = t[1].parse::<usize>() {
                    if a < ph.len() && ph[a] == Ph::Running && (0..ph.len()).any(|c| ph[c] == Ph::Starting && w.slots[c].sup == Some(a)) {
                        st.bump("supervisor_exit_with_starting_child");
                    }
                }
            }
        }
        let obs = w.exec(&line).await;
        let t: Vec<&str> = line.split(' ').collect();
        match t[0] {
            "begintl" => ph.push(if obs == "ok" { Ph::Starting } else { Ph::Stopped }),
            "spawnchild" => {
                while ph.len() < w.slots.len() {
                    ph.push(Ph::Running);
                }
            }
            _ => {}
        }
        if obs == "err-sup" {
            st.bump("refused_link");
        }
        log.rec(&line, &obs);
        let snap = w.exec("obs").await;
        if let Some(a_part) = snap.split("A[").nth(1).and_then(|s| s.split(']').next()) {
            for (i, row) in a_part.split('|').enumerate() {
                if i < ph.len() {
                    ph[i] = match row.split(':').nth(1).unwrap_or("") {
                        "starting" => Ph::Starting,
                        "running" => Ph::Running,
                        _ => Ph::Stopped,
                    };
                }
            }
        }
        if snap.contains(":stopped:") {
            st.bump("obs_with_stopped_actor");
        }
        log.rec("obs", snap);
        obs
    }
    let steps = rng.range(6, 26);
    for _ in 0..steps {
        let starting: Vec<usize> = (0..ph.len()).filter(|i| ph[*i] == Ph::Starting).collect();
        let running: Vec<usize> = (0..ph.len()).filter(|i| ph[*i] == Ph::Running).collect();
        let stopped: Vec<usize> = (0..ph.len()).filter(|i| ph[*i] == Ph::Stopped && w.slots[*i].cell.is_some()).collect();
        let k = rng.below(100);
        if starting.is_empty() || k < 22 {
            let name = if rng.chance(1, 2) { rng.below(3).to_string() } else { "-".into() };
            // mostly a running supervisor; sometimes one that has already stopped (refused link)
            let sup = if !running.is_empty() && rng.chance(3, 5) {
                rng.pick(&running).to_string()
            } else if !stopped.is_empty() && rng.chance(1, 4) {
                rng.pick(&stopped).to_string()
            } else {
                "-".into()
            };
            let kind = if rng.chance(1, 2) { "plain" } else { "instant" };
            one(&mut w, log, st, &mut ph, format!("begintl {name} {sup} {kind} {}", rng.below(2))).await;
            continue;
        }
        let a = *rng.pick(&starting);
        if (93..=99).contains(&k) {
            // the second await point: a start that is still queued in a busy spawner
            let sp = w.slots[a].spawner;
            one(&mut w, log, st, &mut ph, format!("block {a}")).await;
            let mut queued: Vec<usize> = vec![];
            for _ in 0..rng.range(1, 2) {
                let running: Vec<usize> = (0..ph.len()).filter(|i| ph[*i] == Ph::Running).collect();
                // the queued actor must be findable before its pre_start runs: instant, named or linked
                let kind = if rng.chance(1, 2) { "plain" } else { "instant" };
                let mut name = if rng.chance(1, 2) { rng.below(3).to_string() } else { "-".into() };
                let mut sup = if !running.is_empty() && rng.chance(1, 2) { rng.pick(&running).to_string() } else { "-".into() };
                if kind == "plain" && name == "-" && sup == "-" {
                    if running.is_empty() {
                        name = (3 + rng.below(2)).to_string();
                    } else {
                        sup = rng.pick(&running).to_string();
                    }
                }
                let before = ph.len();
                let r = one(&mut w, log, st, &mut ph, format!("begintl {name} {sup} {kind} {sp}")).await;
                if r == "ok" {
                    queued.push(before);
                    st.bump("queued_start");
                }
            }
            for q in queued {
                match rng.below(4) {
                    0 => {
                        one(&mut w, log, st, &mut ph, format!("cast {q}")).await;
                    }
                    1 => {
                        one(&mut w, log, st, &mut ph, format!("call {q}")).await;
                    }
                    _ => {}
                }
                if rng.chance(2, 3) {
                    one(&mut w, log, st, &mut ph, format!("cutq {q}")).await;
                    st.bump("cut_queued_start");
                }
            }
            one(&mut w, log, st, &mut ph, format!("unblock {a}")).await;
            continue;
        }
        let line = match k {
            22..=31 => format!("join {a} {}", rng.below(3)),
            32..=36 => format!("monitor {a} {}", rng.below(3)),
            37..=39 => format!("selfsend {a}"),
            40..=41 if !running.is_empty() => format!("selflink {a} {}", rng.pick(&running)),
            40..=41 => format!("selfsend {a}"),
            42..=47 => format!("spawnchild {a}"),
            48..=52 => format!("cast {a}"),
            53..=58 => format!("call {a}"),
            59..=67 => format!("finish {a} ok"),
            68..=73 => format!("finish {a} {}", if rng.chance(1, 2) { "err" } else { "panic" }),
            74..=81 => format!("cut {a}"),
            82..=86 => format!("kill {a}"),
            87..=92 if !running.is_empty() => {
                // prefer a supervisor that has a child which is still starting (the early link)
                let sups: Vec<usize> = running.iter().cloned().filter(|p| starting.iter().any(|c| w.slots[*c].sup == Some(*p))).collect();
                let target = if !sups.is_empty() && rng.chance(3, 4) { *rng.pick(&sups) } else { *rng.pick(&running) };
                format!("{} {target}", if rng.chance(1, 2) { "stop" } else { "kill" })
            }
            _ => format!("cut {a}"),
        };
        one(&mut w, log, st, &mut ph, line).await;
    }
    w.teardown().await;
}

async fn replay_file(log: &mut Log, st: &mut Stats, path: &str, case_base: u64) {
    let text = std::fs::read_to_string(path).unwrap_or_default();
    let mut n = case_base;
    let mut w = World::new(n);
    for line in text.lines() {
        st.bump("replayed_ops");
        if line.trim() == "case" {
            w.teardown().await;
            n += 1;
            w = World::new(n);
            log.rec("case", "ok");
            continue;
        }
        let obs = w.exec(line).await;
        log.rec(line, obs);
    }
    w.teardown().await;
}

#[tokio::main(flavor = "current_thread")]
async fn main() {
    std::panic::set_hook(Box::new(|_| {}));
    let args = Args::parse();
    let seed = args.u64("seed", 1);
    let cases = args.u64("cases", 100);
    let out = args.str("out", "/tmp/ports-spawnfail-tl");
    let mut rng = Rng::new(seed);
    let mut log = Log::create(std::path::Path::new(&out)).unwrap();
    let mut st = Stats::default();
    let mut base = 1_000_000;
    for f in args.str("replay-ops", "").split(',').filter(|f| !f.is_empty()) {
        replay_file(&mut log, &mut st, f, base).await;
        base += 1000;
    }
    if args.u64("only-replay", 0) != 1 {
        for c in 0..cases {
            gen_case(&mut log, &mut st, &mut rng, c).await;
        }
    }
    st.add("lines", log.lines);
    st.write_json(&std::path::Path::new(&out).join("stats.json"));
    log.finish();
}
