import RactorModel.Model.ExitRace
import RactorModel.Model.WaitForms
import Driver.Common

/-! Driver for the `ExitRace` model (C06).

ops (written by `harness/hcore/src/bin/exitrace.rs`):
  `case <cause> <n> <d> [forms=k,…]` → `ok <fields> at=<exiter point>`   cause = stop|kill|drain|panic|stoppanic;
                            k = wait|waitT|stop|stopT|kill|killT|drain|drainT|join (the call waiter i makes)
  `step d<i> drain.status`→ `<fields> at=done`
  `succ`                  → `<fields> at=ok|refused`
  `step e <point>`        → `<fields> at=<next|done>`
  `step w<i> <point>`     → `<fields> at=<next|done>[ ret| ret=<ok|err|timeout>]`
  `timeout <i>`           → `<fields> at=done ret=<ok|timeout>`
  `abandon <i>`           → `<fields> at=done`
  `end <cause> <n> <sig>` → `<fields> waiters=<r|a|p,…>`
fields = `st= name= succ= pid= pg= mon= kids= link= sup= post= sp= kp=`

One `step` line = one `ExitRace.step`; a waiter's line = the steps of `WaitForms.callStep` its poll
covers (send step + creation of `Notified` in the first poll; `drain_and_wait`: `drain.close` alone,
then `drain.status` + marker + creation of `Notified`). A `ret`/`ret=ok` is judged by `formOk` on the
implementation's snapshot (`premature-return`). The oracle clauses judge the implementation's observations
only: `premature-return`, `lost-wakeup`, `status-backwards`, `cleanup-twice`, `timeout-effect`,
`not-stopped-at-end`, `successor-lost-name`.
-/

namespace Driver.ExitRace
open _root_.ExitRace Driver

def b01 (b : Bool) : String := if b then "1" else "0"

def showFields (g : G) (ports : Ports) (unsup : Bool := false) : String :=
  let f := g.sh.flags
  let kid : Kid := { g := g, ports := ports }
  s!"st={g.sh.status} name={b01 (g.sh.name == .self)} succ={b01 (g.sh.name == .succ)} pid={b01 !f.unregPid} pg={b01 !f.pgLeft} mon={b01 !f.pgDemon} kids={if f.terminated || (g.sh.killPending && g.exiter.pc.loopGone) then 0 else 1} link={b01 !f.unlinked} sup={if unsup then 0 else 1 + g.sh.supEvents} post={b01 f.postStop} sp={b01 kid.stopOpen} kp={b01 kid.signalOpen}"

def exiterAt (g : G) : String := g.exiter.pc.point

def waiterAt (g : G) (i : Nat) : String :=
  match g.waiters[i]? with
  | some w => w.pc.point
  | none => "done"

structure Case where
  cause : String := "stop"
  lastFields : List String := []
  lastSt : Nat := 0
  unregRuns : Nat := 0
  notifyRuns : Nat := 0
  succSeen : Bool := false  -- the successor has held the name
  /-- from the implementation's own lines: the exiter has been seen at `post_stop`; the signal port was
  open on the previous line; a `kill_and_wait` was accepted before `post_stop` was reached (the exit is
  then a killed one: no `post_stop` to wait for) -/
  sawPost : Bool := false
  lastKp : Bool := false
  killedEarly : Bool := false
  raced : Bool := false     -- a waiter acted before the exiter had finished
  deriving Inhabited

/-- children-wrapper cases (`wcase`): the `WaitForms` state plus what the quiescent-point engine adds:
which child sits in a handler, which has an accepted stop/drain request it has not acted upon yet -/
structure WSt where
  kind : String := "stop"
  timed : Bool := false
  x : X := {}
  busy : List Bool := []
  pending : List Bool := []
  killed : List Bool := []
  exited : List Bool := []
  wrapped : Bool := false
  advanced : Bool := false
  reported : Bool := false
  acc : String := "-"
  deriving Inhabited

structure St where
  w : WSt := {}
  g : G := {}
  ports : Ports := {}
  /-- caller `i` = waiter thread `i` (its `Notified` slot is waiter `i` of `g`) -/
  callers : List Caller := []
  /-- `drain_and_wait` caller `i` has passed `drain.close` and is parked at `drain.status` -/
  closed : List Bool := []
  c : Case := {}
  diverged : Bool := false
  deriving Inhabited

def parseForm (s : String) : Form × Bool :=
  match s with
  | "waitT" => (.wait, true) | "stop" => (.stopWait, false) | "stopT" => (.stopWait, true)
  | "kill" => (.killWait, false) | "killT" => (.killWait, true) | "drain" => (.drainWait, false)
  | "drainT" => (.drainWait, true) | "join" => (.join, false) | _ => (.wait, false)

def waiterAbandoned (g : G) (i : Nat) : Bool :=
  match g.waiters[i]? with
  | some ⟨.abandoned, _⟩ => true
  | _ => false

/-- the point the thread of caller `i` is parked at -/
def callerAt (st : St) (i : Nat) : String :=
  match st.callers[i]? with
  | none => "done"
  | some c =>
    if waiterAbandoned st.g i then "done" else
    match c.pc with
    | .done _ => "done"
    | .send => if c.form == .drainWait && st.closed.getD i false then "drain.status" else "wait.poll"
    | .waiting => if c.form == .join then "wait.poll" else waiterAt st.g i

def resName : Res → String
  | .ok _ => "ok" | .sendErr => "err" | .timeout => "timeout"

/-- `unwound`: a statement of `cleanup` panicked, so the actor's task ended by a panic and its join
handle completes with `Err(JoinError)` -/
def retSuffix (c : Caller) (unwound : Bool := false) : String :=
  match c.pc with
  | .done r =>
    if c.form == .wait && !c.timed then " ret"
    else if c.form == .join && unwound then " ret=err"
    else s!" ret={resName r}"
  | _ => ""

/-- the actor's task ended by a panic (its join handle completes with `Err(JoinError)`): a statement of
`cleanup` panicked, or — cause `stoppanic` after an early kill — the exploding state was dropped at the
end of the task instead of inside the terminal event -/
def taskPanicked (st : St) : Bool :=
  st.g.exiter.unwound || (st.c.cause == "stoppanic" && st.g.sh.killPending) || st.c.cause == "abort"

def sf (st : St) : String := showFields st.g st.ports (st.c.cause == "stoppanic")

def kv (ws : List String) (k : String) : Option String :=
  ws.findSome? (fun w => if w.startsWith (k ++ "=") then some (w.drop (k.length + 1)).toString else none)

def fieldsOf (ws : List String) : List String :=
  ws.filter (fun w => ["st=", "name=", "succ=", "pid=", "pg=", "mon=", "kids=", "link=", "sup=", "post="].any (w.startsWith ·))

/-- `Ok` was reported on this line (`ret` of a plain `wait(None)`, `ret=ok` of the other forms) -/
def saysOk (iw : List String) : Bool := iw.contains "ret" || iw.contains "ret=ok"

/-- a waiter returned on this line: the snapshot it sees must be that of a fully stopped actor —
`ExitRace.snapshotOk` (the predicate of `C06.waiter_returns_only_after_full_stop`) on the
implementation's observation -/
def returnOk (cause : String) (ws : List String) (killedEarly : Bool := false) : Bool :=
  let is0 (k : String) : Bool := kv ws k == some "0"
  let flags : Flags :=
    { unregPid := is0 "pid", unregName := is0 "name", pgDemon := is0 "mon", pgLeft := is0 "pg",
      postStop := kv ws "post" == some "1", terminated := is0 "kids",
      -- an unsupervised actor (cause `stoppanic`) has nobody to notify
      supNotified := cause == "stoppanic" || ((kv ws "sup").bind (·.toNat?)).getD 0 ≥ 2, unlinked := is0 "link" }
  snapshotOk (((kv ws "st").bind (·.toNat?)).getD 0) flags
    ((cause == "stop" || cause == "drain" || cause == "stoppanic") && !killedEarly)

def track (c : Case) (iw : List String) : Case × List String :=
  let st := ((kv iw "st").bind (·.toNat?)).getD 0
  let succ := kv iw "succ" == some "1"
  let orc := (if st < c.lastSt then ["status-backwards"] else []) ++
    (if c.succSeen && !succ then ["successor-lost-name"] else [])
  -- (reported once per loss)
  ({ c with lastFields := fieldsOf iw, lastSt := st, succSeen := succ, lastKp := kv iw "kp" == some "1",
            sawPost := c.sawPost || iw.contains "at=post_stop" }, orc)

/-! ### children wrappers -/

def xsteps (x : X) (l : List XTid) : X := xrun x l

/-- the whole exit sequence of child `j` (at a quiescent point it has either not begun or finished) -/
def runExit (x : X) (j : Nat) : X := xsteps x (List.replicate 19 (.kid j .e))

/-- run to quiescence: every child that is not in a handler and has an accepted request exits; the
`JoinSet` tasks are polled; the wrapper looks at its set -/
def settle (w : WSt) : WSt :=
  let n := w.x.kids.length
  let (x, exited) := (List.range n).foldl (fun (acc : X × List Bool) j =>
      if !(w.busy.getD j false) && w.pending.getD j false && !(acc.2.getD j false) then
        (runExit acc.1 j, acc.2.set j true) else acc) (w.x, w.exited)
  let polls := (List.range x.callers.length).flatMap (fun i => [XTid.call i, .call i, .call i, .call i])
  let x := xsteps x (polls ++ (if w.wrapped then [.wrap 0] else []))
  { w with x := x, exited := exited }

def wDone (w : WSt) : Bool := w.x.wrappers.any (·.returned)

def wSnap (w : WSt) : String :=
  let l := w.x.callers.map (fun c =>
    match w.x.kids[c.kid]? with
    | some k =>
      let f := k.g.sh.flags
      s!"{c.kid}:{k.g.sh.status}:{b01 (k.g.sh.name == .self)}:{b01 !f.unregPid}:{b01 !f.pgLeft}:{b01 !f.unlinked}:{b01 f.postStop}:{b01 f.supNotified}"
    | none => "?")
  if l.isEmpty then "-" else ",".intercalate l

def wShow (w : WSt) (withSnap : Bool := true) : WSt × String :=
  let sts := ",".intercalate (w.x.kids.map (fun k => toString k.g.sh.status))
  let ws := if wDone w then "done" else if w.wrapped then "pending" else "-"
  let snap := if withSnap && wDone w && !w.reported then s!" snap={wSnap w}" else ""
  ({ w with reported := w.reported || (withSnap && wDone w) }, s!"w={ws} kids={sts} acc={w.acc}{snap}")

/-- The wrapper oracle on the implementation's own snapshot, taken by the wrapper task the moment the
wrapper returned: `wrapperChildOk` for every child of the `get_children()` snapshot. -/
def wSnapOracle (w : WSt) (iw : List String) : List String :=
  match kv iw "snap" with
  | none => []
  | some "-" => []
  | some s =>
    let accs := ((kv iw "acc").getD "").splitOn ","
    let bad := (s.splitOn ",").any (fun e =>
      match e.splitOn ":" with
      | [j, st, name, pid, pg, link, post, ev] =>
        let j := j.toNat?.getD 0
        let flags : Flags :=
          { unregPid := pid == "0", unregName := name == "0", pgDemon := true, pgLeft := pg == "0",
            postStop := post == "1", terminated := true, supNotified := ev == "1", unlinked := link == "0" }
        let full := snapshotOk (st.toNat?.getD 0) flags (!(w.killed.getD j false))
        !wrapperChildOk (accs.getD j "0" == "1") (w.timed && w.advanced) full
      | _ => true)
    if bad then ["wrapper-returned-before-accepted-child-stopped"] else []

def wstep (st : St) (op impl : String) : St × StepOut :=
  let iw := words impl
  let w := st.w
  match words op with
  | ["wcase", kind, t, states] =>
    let sts := states.splitOn ","
    let n := sts.length
    let g0 : G := init true [] [] 1 2
    let x0 : X := { kids := List.replicate n { g := g0 }, wrappers := [{}] }
    let x := sts.zipIdx.foldl (fun (x : X) (sj : String × Nat) =>
      match sj.1 with
      | "stopreq" | "dead" => xstep x (.stop sj.2)
      | "drainreq" => xsteps x [.kid sj.2 (.d 0), .mark sj.2]
      | _ => x) x0
    let w0 : WSt :=
      { kind := kind, timed := t == "t=1", x := x,
        busy := sts.map (fun s => s == "busy" || s == "stopreq" || s == "drainreq"),
        pending := sts.map (fun s => s == "stopreq" || s == "drainreq" || s == "dead"),
        killed := List.replicate n false, exited := List.replicate n false }
    let w1 := settle w0
    let (w2, _) := wShow w1 false
    let sts' := ",".intercalate (w2.x.kids.map (fun k => toString k.g.sh.status))
    ({ st with w := w2, diverged := false }, { model := s!"ok kids={sts'}" })
  | ["wrap"] =>
    if w.wrapped then (st, { model := "bad-op" }) else
    let n := w.x.kids.length
    let live := (List.range n).filter (fun j => !(w.exited.getD j false))
    let form : Form := if w.kind == "stop" then .stopWait else .drainWait
    let callers : List Caller := live.map (fun j => { kid := j, form := form, timed := w.timed, w := 0, d := 1 })
    let x : X := { w.x with callers := callers, wrappers := [{ callers := List.range callers.length }] }
    let x := xsteps x ((List.range callers.length).map XTid.call)
    let accOf (j : Nat) : Bool := x.callers.any (fun c => c.kid == j && c.accepted)
    let pending := (List.range n).map (fun j => w.pending.getD j false || accOf j)
    let acc := ",".intercalate ((List.range n).map (fun j => b01 (accOf j)))
    let w1 := settle { w with x := x, pending := pending, wrapped := true, acc := acc }
    let (w2, model) := wShow w1
    ({ st with w := w2 }, { model := model, oracle := wSnapOracle w iw, nontrivial := w.busy.any id })
  | ["release", j] =>
    let j := j.toNat?.getD 0
    let w1 := settle { w with busy := w.busy.set j false }
    let (w2, model) := wShow w1
    ({ st with w := w2 }, { model := model, oracle := wSnapOracle w iw, nontrivial := (kv iw "snap").isSome })
  | ["kill", j] =>
    let j := j.toNat?.getD 0
    let w1 :=
      if w.exited.getD j false then w else
      match w.x.kids[j]? with
      | none => w
      | some k =>
        -- a killed actor skips `post_stop`
        let k' : Kid := { k with g := { k.g with exiter := { k.g.exiter with hasPostStop := false } } }
        let x := runExit (xstep { w.x with kids := w.x.kids.set j k' } (.kill j)) j
        { w with x := x, killed := w.killed.set j true, exited := w.exited.set j true }
    let w1 := settle w1
    let (w2, model) := wShow w1
    let wk := { w with killed := w.killed.set j true }
    ({ st with w := w2 }, { model := model, oracle := wSnapOracle wk iw, nontrivial := (kv iw "snap").isSome })
  | ["advance"] =>
    let x := if w.timed then xsteps w.x ((List.range w.x.callers.length).map XTid.timeout) else w.x
    let w1 := settle { w with x := x, advanced := w.advanced || w.wrapped }
    let (w2, model) := wShow w1
    ({ st with w := w2 }, { model := model, oracle := wSnapOracle { w with advanced := w.advanced || w.wrapped } iw,
                             nontrivial := (kv iw "snap").isSome })
  | ["wend"] =>
    let (w2, model) := wShow w false
    -- every child has been let go: a wrapper still pending now hangs
    let orc := if kv iw "w" == some "pending" then ["wrapper-hung"] else []
    ({ st with w := w2 }, { model := model, oracle := orc })
  | _ => (st, { model := "bad-op" })

def step1 (st : St) (op impl : String) : St × StepOut :=
  let iw := words impl
  match words op with
  | "case" :: cause :: n :: rest =>
    let post := cause == "stop" || cause == "drain" || cause == "stoppanic"
    let nd := match rest with | d :: _ => d.toNat?.getD 0 | _ => 0
    let nw := n.toNat?.getD 0
    let forms : List (Form × Bool) :=
      match rest.find? (·.startsWith "forms=") with
      | some f => ((f.drop 6).toString.splitOn ",").map parseForm
      | none => List.replicate nw (.wait, false)
    -- drainer slots: the `nd` late drainers, then one per `drain_and_wait` caller
    let (callers, ndw) := forms.zipIdx.foldl (fun (acc : List Caller × Nat) (fi : (Form × Bool) × Nat) =>
        let ((f, t), i) := fi
        (acc.1 ++ [{ kid := 0, form := f, timed := t, w := i, d := nd + acc.2 }],
         acc.2 + (if f == .drainWait then 1 else 0))) ([], 0)
    let g0 := init post [] [] nw (nd + ndw)
    -- a kill signal makes the actor terminate its children before the exit sequence starts
    let g := if cause == "kill" then { g0 with sh := { g0.sh with flags := { g0.sh.flags with terminated := true } } }
      -- `drain()` has already published `Draining`
      else if cause == "drain" then { g0 with sh := { g0.sh with status := 4 } }
      -- unsupervised: never linked, nobody to notify (shown as `link=0 sup=0`)
      else if cause == "stoppanic" then { g0 with sh := { g0.sh with flags := { g0.sh.flags with unlinked := true } } }
      else g0
    -- what the trigger did to the ports: `stop()` / `kill()` took the one-shot sender, `drain()` enqueued the
    -- marker, a handler panic dropped the processing loop's future (and the port set with it)
    let ports : Ports :=
      { stop := !(cause == "stop" || cause == "stoppanic"), signal := cause != "kill", marker := cause == "drain",
        rx0 := cause != "panic" && cause != "abort" }
    let (c, _) := track { cause := cause } iw
    ({ g := g, ports := ports, callers := callers, closed := List.replicate nw false, c := c, diverged := false },
     { model := s!"ok {showFields g ports (cause == "stoppanic")} at={exiterAt g}" })
  | ["step", "e", point] =>
    let pre := exiterAt st.g
    -- cause `stoppanic`: the state's destructor panics inside `notify_supervisor`, i.e. the
    -- statement at `cleanup.notify` panics (once) and the guard's `Drop` re-runs `cleanup`
    -- (only a clean shutdown hands the state to the terminal event; after an early kill it is dropped when
    -- the task ends, after `cleanup`)
    let panics := st.c.cause == "stoppanic" && point == "cleanup.notify" && !st.g.exiter.unwound && !st.g.sh.killPending
    let g1 := _root_.ExitRace.step st.g (if panics then .unwind else .e)
    -- task cancellation: only the guard's `cleanup` runs, i.e. ONE `set_status(Stopping)` (the model's `set1`,
    -- elected); the model's second call (`set2`, never elected: a stutter) has no counterpart
    let g' := if st.c.cause == "abort" && g1.exiter.pc == .set2 (.publish stStopping) && !(st.g.exiter.pc == g1.exiter.pc)
      then _root_.ExitRace.step g1 .e else g1
    let model := (if pre == point then "" else s!"model-at={pre} ") ++ s!"{sf { st with g := g' }} at={exiterAt g'}"
    let (c, orc) := track st.c iw
    let c := { c with unregRuns := c.unregRuns + (if point == "status.unreg_pid" then 1 else 0),
                      notifyRuns := c.notifyRuns + (if point == "notify.waiters" then 1 else 0) }
    ({ st with g := g', c := c }, { model := model, oracle := orc })
  | ["succ"] =>
    let g' := _root_.ExitRace.step st.g .succ
    let ok := st.g.sh.name == .none
    let model := s!"{sf { st with g := g' }} at={if ok then "ok" else "refused"}"
    let (c, orc) := track st.c iw
    ({ st with g := g', c := { c with raced := true } }, { model := model, oracle := orc })
  | ["step", w, point] =>
    match (w.drop 1).toString.toNat? with
    | none => (st, { model := "bad-op" })
    | some i =>
      if w.startsWith "d" then
        -- a late `drain()` thread: only its status `fetch_update` is a model step
        let g' := _root_.ExitRace.step st.g (.d i)
        -- … and then reaches `send_drain_marker` (`XTid.mark`)
        let st' := { st with g := g', ports := { st.ports with marker := true } }
        let model := s!"{sf st'} at=done"
        let (c, orc) := track st.c iw
        ({ st' with c := { c with raced := true } }, { model := model, oracle := orc })
      else
      match st.callers[i]? with
      | none => (st, { model := "bad-op" })
      | some cl =>
        let pre := callerAt st i
        let kid : Kid := { g := st.g, ports := st.ports }
        let st' : St :=
          if cl.pc == .send && cl.form == .drainWait && !(st.closed.getD i false) then
            -- first poll of `drain_and_wait` up to `drain.status`: `close_message_admission` only
            { st with closed := st.closed.set i true }
          else
            let r1 := callStep kid cl
            -- the same poll goes on: `notified()` is created (join handle: polled)
            let r2 := if cl.pc == .send && r1.2.pc == .waiting then callStep r1.1 r1.2 else r1
            { st with g := r2.1.g, ports := r2.1.ports, callers := st.callers.set i r2.2 }
        let cl' := (st'.callers[i]?).getD cl
        let model := (if pre == point then "" else s!"model-at={pre} ") ++
          s!"{sf st'} at={callerAt st' i}{retSuffix cl' (taskPanicked st')}"
        let early := st.c.killedEarly || (cl.form == .killWait && cl.pc == .send && st.c.lastKp && kv iw "kp" == some "0" && !st.c.sawPost)
        let (c, orc) := track { st.c with killedEarly := early } iw
        -- the run-time oracle of every wait form: `Ok` ⇒ the snapshot is that of a fully stopped actor;
        -- a join handle: completed (with `Ok` or `Err(JoinError)`) ⇒ fully stopped
        let completed := saysOk iw || (cl.form == .join && iw.contains "ret=err")
        let orc := orc ++ (if completed && !formOk (.ok (returnOk c.cause iw c.killedEarly)) then ["premature-return"] else [])
        let c := { c with raced := c.raced || !st.g.exiter.finished }
        ({ st' with c := c }, { model := model, oracle := orc })
  | ["timeout", w] =>
    match w.toNat? with
    | none => (st, { model := "bad-op" })
    | some i =>
      match st.callers[i]? with
      | none => (st, { model := "bad-op" })
      | some cl =>
        let r := timeoutStep { g := st.g, ports := st.ports } cl
        let st' := { st with g := r.1.g, ports := r.1.ports, callers := st.callers.set i r.2 }
        let model := s!"{sf st'} at={callerAt st' i}{retSuffix r.2}"
        let before := st.c.lastFields
        let (c, orc) := track st.c iw
        let orc := orc ++ (if fieldsOf iw == before then [] else ["timeout-effect"]) ++
          (if saysOk iw && !formOk (.ok (returnOk c.cause iw c.killedEarly)) then ["premature-return"] else [])
        ({ st' with c := { c with raced := true } }, { model := model, oracle := orc })
  | ["abandon", w] =>
    match w.toNat? with
    | none => (st, { model := "bad-op" })
    | some i =>
      let g' := _root_.ExitRace.step st.g (.abandon i)
      let st' := { st with g := g' }
      let model := s!"{sf st'} at={callerAt st' i}"
      let before := st.c.lastFields
      let (c, orc) := track st.c iw
      let orc := orc ++ (if fieldsOf iw == before then [] else ["timeout-effect"])
      ({ st' with c := { c with raced := true } }, { model := model, oracle := orc })
  | "end" :: _ =>
    let g := st.g
    let ws := st.callers.zipIdx.map (fun (cl, i) => match cl.pc with
      | .done (.ok _) => if cl.form == .join && taskPanicked st then "e" else "r"
      | .done .sendErr => "e" | .done .timeout => "t"
      | _ => if waiterAbandoned g i then "a" else "p")
    let model := s!"{sf st} waiters={if ws.isEmpty then "-" else ",".intercalate ws}"
    let (c, orc) := track st.c iw
    let implWs := ((kv iw "waiters").getD "-").splitOn ","
    let orc := orc ++
      (if implWs.contains "p" then ["lost-wakeup"] else []) ++
      (if c.unregRuns ≤ 1 && c.notifyRuns ≤ 1 then [] else ["cleanup-twice"]) ++
      (if kv iw "st" == some "6" then [] else ["not-stopped-at-end"])
    ({ st with c := c }, { model := model, oracle := orc, nontrivial := c.raced })
  | "xstress" :: _ =>
    -- free-running tasks: `w=<kind:result:st:name:pid:pg:mon:kids:link:post,…> sup=<events> st=<final>`
    let ws := ((kv iw "w").getD "").splitOn ","
    let sup := ((kv iw "sup").getD "").splitOn ","
    let terminal := sup.filter (fun e => e.startsWith "Terminated" || e == "Failed")
    let graceful := sup.contains "Terminated:-" || sup.contains "Terminated:Drained"
    let bad (w : String) : List String :=
      match w.splitOn ":" with
      | [kind, res, st, name, pid, pg, mon, kids, link, post] =>
        (if res == "ok" && !(st == "6" && name == "0" && pid == "0" && pg == "0" && mon == "0" && kids == "0"
            && link == "0" && (!graceful || post == "1")) then ["premature-return"] else []) ++
        (if res == "timeout" && !kind.endsWith "_timeout" then ["spurious-timeout"] else [])
      | [_, "hung", _] => ["lost-wakeup"]
      | _ => ["unparsable"]
    let orc := (ws.map bad).foldl (· ++ ·) [] ++
      (if terminal.length == 1 then [] else ["terminal-event-count"]) ++
      (if kv iw "st" == some "6" then [] else ["not-stopped-at-end"])
    (st, { model := impl, oracle := orc.eraseDups, nontrivial := true })
  | "xtimeout" :: _ :: opts =>
    -- free-running, real clock: `kind=<wait|stop_and_wait|drain_and_wait> d=<µs>` |
    -- `res=<ok|timeout|err> el=<µs> st=<u8> ev=<k> fin=<u8> term=<k>`; the target cannot finish before the
    -- harness lets it, so the call must report the timeout, no earlier than `d` (and within a generous real-time
    -- bound); a timed-out `wait` has no effect on the actor (still Running = 2, no terminal event); afterwards
    -- the actor stops normally with exactly one terminal event
    let kind := (opts.findSome? fun w => if w.startsWith "kind=" then some (w.drop 5).toString else none).getD ""
    let d := (opts.findSome? fun w => if w.startsWith "d=" then (w.drop 2).toString.toNat? else none)
    let el := (kv iw "el").bind (·.toNat?)
    let orc : List String := match d, el with
      | some d, some el =>
        (if kv iw "res" == some "timeout" then [] else ["timeout-missed"]) ++
        (if d ≤ el then [] else ["timeout-early"]) ++
        (if el ≤ d + 3000000 then [] else ["timeout-late"]) ++
        (if kind == "wait" && !(kv iw "st" == some "2" && kv iw "ev" == some "0") then ["timeout-effect"] else []) ++
        (if kv iw "term" == some "1" then [] else ["terminal-event-count"]) ++
        (if kv iw "fin" == some "6" then [] else ["not-stopped-at-end"])
      | _, _ => ["unparsable"]
    (st, { model := impl, oracle := orc, nontrivial := true })
  | "xchildren" :: _ =>
    -- free-running: `ret=<0|1> kids=<st,…> parent=<st>` after `stop_children_and_wait` / `drain_children_and_wait`
    -- on running children: returned (no lost wake-up), every child Stopped (= 6) at that moment, parent Running (= 2)
    let kids := ((kv iw "kids").getD "").splitOn ","
    let orc : List String :=
      (if kv iw "ret" == some "1" then [] else ["lost-wakeup"]) ++
      (if kv iw "ret" == some "1" && !(kids.all (· == "6")) then ["premature-return"] else []) ++
      (if kv iw "parent" == some "2" then [] else ["children-wait-effect"])
    (st, { model := impl, oracle := orc, nontrivial := true })
  | _ => (st, { model := "bad-op" })

def isWOp (op : String) : Bool :=
  ["wcase ", "wrap", "release ", "kill ", "advance", "wend"].any (op.startsWith ·)

def step (st : St) (op impl : String) : St × StepOut :=
  let (st', out) := if isWOp op then wstep st op impl else step1 st op impl
  if st.diverged && !(op.startsWith "case ") && !(op.startsWith "wcase ") && !(op.startsWith "xstress ") && !(op.startsWith "xtimeout ") && !(op.startsWith "xchildren ") then (st', { out with model := impl })
  else if out.model != impl then ({ st' with diverged := true }, out)
  else (st', out)

def run (ops impl : Array String) : IO Tally :=
  replay ({} : St) step ops impl

end Driver.ExitRace
