import RactorModel.Lemmas.PgBasic
import RactorModel.Model.PgConc

/-!
# `leave_scoped`'s entry region one relations lock at a time (wave 2)

In `Pg.Conc` the entry region of `leave_scoped` is ONE step, although `pg.rs` takes — while it holds the
group entry — the relations lock of one actor of the call after the other (`memberships.remove(&key)`)
and only then updates the forward entry. This file proves what justifies the merged step:

* `leave_stepped`: the region IS the per-actor iterations `leaveRelOne` (each touches only `rel[x].mem`,
  `leaveRelOne_frame`) followed by the forward part `leaveFwdSt` (forward map and scope index of the held key
  only, computed from them alone);
* `comm_*`: an iteration `leaveRelOne st k x` commutes — as far as any lookup can tell (`SEq`) — with every
  region function of `Pg.Conc` another thread can run while the group entry `k` is held: all regions of all
  exits (also of `x` itself), `joinLock`/`joinOne`/`joinCommit`/clean-up of joins, entry regions of leaves
  of other groups, all monitor / demonitor regions;
* the two places where something can be told apart, and why it does not matter: (i) `take` of `x`'s own exit
  commutes on the state but lists `k` among its pending keys in one order only — the later `lvKey k` finds `x`
  no longer a member and is the identity without a record (`leaveKey_nonmember`); (ii) a
  `remove_empty_actor_relations(x)` (finish of `x`'s exit, re-check of a `monitor*` naming a stopping `x`,
  clean-up of a join naming a stopping `x`) commutes unless `k` is the last thing in `x`'s reverse-index entry,
  and then the two orders differ exactly by an EMPTY reverse-index entry of `x`
  (`removeEmptyRel_leaveRelOne`) — the transient the model abstracts from anyway.
-/

namespace Pg.Conc
open AList Pg Pg.Fine

/-- one iteration of `leave_scoped`'s loop on the reverse index: `get_actor_relations(x)` and, if it
exists, `memberships.remove(key)` under x's relations lock — touches only `rel[x].mem` -/
def leaveH (k : Key) (o : Option Rel) : Option Rel := o.map (fun r => { r with mem := del k r.mem })

def leaveRelOne (st : State) (k : Key) (x : Nat) : State := { st with rel := alter st.rel x (leaveH k) }

/-- the forward part of the region: members, normalisation of the entry, scope index — reads and writes only
the forward map and the scope index -/
def leaveFwdSt (st : State) (k : Key) (actors : List Nat) : State :=
  match get st.map k with
  | none => st
  | some gs =>
    let members' := gs.members.filter (fun a => !actors.contains a)
    { st with map := alter st.map k (fun _ => gsNorm ⟨members', gs.listeners⟩),
              index := if members' = [] then removeFromIndex st.index k else st.index }

theorem foldl_leaveRelOne (st : State) (k : Key) (as : List Nat) :
    as.foldl (fun st x => leaveRelOne st k x) st =
      { st with rel := as.foldl (fun r a => alter r a (leaveH k)) st.rel } := by
  induction as generalizing st with
  | nil => rfl
  | cons a as ih => rw [List.foldl_cons, ih]; rfl

/-- **The entry region of `leave_scoped` is its per-actor relations-lock iterations, then the forward part**
(no group entry: the call returns before its loop). -/
theorem leave_stepped (st : State) (s g : Nat) (as : List Nat) :
    (leaveEntry st s g as).1 =
      if (get st.map (s, g)).isSome then leaveFwdSt (as.foldl (fun st x => leaveRelOne st (s, g) x) st) (s, g) as
      else st := by
  rw [foldl_leaveRelOne]
  cases h : get st.map (s, g) with
  | none => simp [leaveEntry, h]
  | some gs =>
    simp only [leaveEntry, leaveFwdSt, leave, h, Option.isSome_some, if_true]
    rfl

/-! ### frame -/

/-- an iteration touches only `rel[x].mem`: every other index, every other actor's reverse-index entry, the
existence of `x`'s entry and its monitor sets are untouched -/
theorem leaveRelOne_frame (st : State) (k : Key) (x : Nat) :
    (leaveRelOne st k x).map = st.map ∧ (leaveRelOne st k x).index = st.index ∧
    (leaveRelOne st k x).world = st.world ∧ (leaveRelOne st k x).dead = st.dead ∧
    (leaveRelOne st k x).remote = st.remote ∧
    (∀ y, y ≠ x → get (leaveRelOne st k x).rel y = get st.rel y) ∧
    get (leaveRelOne st k x).rel x = (get st.rel x).map (fun r => { r with mem := del k r.mem }) := by
  refine ⟨rfl, rfl, rfl, rfl, rfl, fun y hy => ?_, ?_⟩
  · simp [leaveRelOne, hy]
  · simp [leaveRelOne, leaveH]

/-! ### commutation, as far as any lookup can tell -/

/-- states equal as far as any lookup can tell (an association list may list its keys in another order) -/
def SEq (st st' : State) : Prop :=
  st.map = st'.map ∧ st.index = st'.index ∧ st.world = st'.world ∧ st.dead = st'.dead ∧ st.remote = st'.remote ∧
  ∀ a, get st.rel a = get st'.rel a

def REq (r r' : List (Nat × Rel)) : Prop := ∀ a, get r a = get r' a

theorem alter_congr {r r' : List (Nat × Rel)} (h : REq r r') (a : Nat) (f : Option Rel → Option Rel) :
    REq (alter r a f) (alter r' a f) := by
  intro b; simp only [get_alter, h a, h b]

/-- two per-actor updates of the reverse index commute if they are for different actors or commute on
that actor's entry -/
theorem alter_alter_comm (r : List (Nat × Rel)) (a x : Nat) (f h : Option Rel → Option Rel)
    (hc : a = x → f (h (get r x)) = h (f (get r x))) :
    REq (alter (alter r x h) a f) (alter (alter r a f) x h) := by
  intro b
  simp only [get_alter]
  by_cases hax : a = x
  · subst hax
    by_cases hb : b = a
    · simp [hb, hc rfl]
    · simp [hb]
  · have hxa : ¬ x = a := fun e => hax e.symm
    by_cases hb : b = a
    · subst hb; simp [hax]
    · by_cases hbx : b = x
      · subst hbx; simp [hxa]
      · simp [hb, hbx]

/-- a transformation of the reverse index that respects lookups and commutes with a `leave_scoped` iteration -/
def RComm (k : Key) (x : Nat) (Φ : List (Nat × Rel) → List (Nat × Rel)) : Prop :=
  (∀ r r', REq r r' → REq (Φ r) (Φ r')) ∧ ∀ r, REq (Φ (alter r x (leaveH k))) (alter (Φ r) x (leaveH k))

theorem rcomm_id (k : Key) (x : Nat) : RComm k x id := ⟨fun _ _ h => h, fun _ _ => rfl⟩

theorem rcomm_alter (k : Key) (x a : Nat) (f : Option Rel → Option Rel)
    (hc : a = x → ∀ o, f (leaveH k o) = leaveH k (f o)) : RComm k x (fun r => alter r a f) :=
  ⟨fun _ _ h => alter_congr h a f, fun r => alter_alter_comm r a x f (leaveH k) (fun e => hc e _)⟩

theorem rcomm_comp {k : Key} {x : Nat} {Φ Ψ : List (Nat × Rel) → List (Nat × Rel)} (h1 : RComm k x Φ)
    (h2 : RComm k x Ψ) : RComm k x (fun r => Ψ (Φ r)) :=
  ⟨fun r r' h => h2.1 _ _ (h1.1 r r' h), fun r b => by
    rw [h2.1 _ _ (h1.2 r) b]; exact h2.2 (Φ r) b⟩

theorem rcomm_foldl {k : Key} {x : Nat} {α : Type} (F : List (Nat × Rel) → α → List (Nat × Rel))
    (hF : ∀ y, RComm k x (fun r => F r y)) (ys : List α) : RComm k x (fun r => ys.foldl F r) := by
  induction ys with
  | nil => exact rcomm_id k x
  | cons y ys ih => exact rcomm_comp (hF y) ih

/-- from the reverse index to the state: a region whose other indexes do not depend on the reverse index -/
theorem seq_of_rcomm {k : Key} {x : Nat} {Φ : List (Nat × Rel) → List (Nat × Rel)} (h : RComm k x Φ)
    (st : State) (m : List (Key × GS)) (i w : List (Nat × List Nat)) (d : List Nat) :
    SEq ⟨m, i, w, Φ (leaveRelOne st k x).rel, d, st.remote⟩ (leaveRelOne ⟨m, i, w, Φ st.rel, d, st.remote⟩ k x) :=
  ⟨rfl, rfl, rfl, rfl, rfl, h.2 st.rel⟩

/-! pointwise facts -/

theorem del_del_comm {α : Type} [DecidableEq α] (a b : α) (l : List α) : del a (del b l) = del b (del a l) := by
  simp only [del, List.filter_filter]
  congr 1; funext y; exact Bool.and_comm _ _

theorem del_ins_comm {α : Type} [DecidableEq α] {a b : α} (h : a ≠ b) (l : List α) : del a (ins b l) = ins b (del a l) := by
  unfold ins
  have hm : b ∈ del a l ↔ b ∈ l := by
    simp only [del, List.mem_filter]
    constructor
    · exact fun h => h.1
    · exact fun hb => ⟨hb, by simpa using fun e => h e.symm⟩
  by_cases hb : b ∈ l
  · rw [if_pos hb, if_pos (hm.mpr hb)]
  · rw [if_neg hb, if_neg (fun e => hb (hm.mp e))]
    simp only [del, List.filter_append, List.filter_cons, List.filter_nil]
    have : (!decide (b = a)) = true := by simpa using fun e => h e.symm
    rw [this]; rfl

theorem leaveH_map_comm (k : Key) (f : Rel → Rel) (hf : ∀ r, (f { r with mem := del k r.mem }) = { f r with mem := del k (f r).mem })
    (o : Option Rel) : (leaveH k o).map f = leaveH k (o.map f) := by
  cases o with
  | none => rfl
  | some r => simp [leaveH, hf]

/-- `get_or_create` + modification commutes with the iteration if the modification does -/
theorem leaveH_update_comm (k : Key) (f : Rel → Rel) (hf : ∀ r, (f { r with mem := del k r.mem }) = { f r with mem := del k (f r).mem })
    (o : Option Rel) : some (f ((leaveH k o).getD Rel.empty)) = leaveH k (some (f (o.getD Rel.empty))) := by
  cases o with
  | none =>
    simp only [leaveH, Option.map_none, Option.getD_none, Option.map_some]
    have := hf Rel.empty
    simp only [Rel.empty, del, List.filter_nil] at this ⊢
    rw [← this]
  | some r => simp [leaveH, hf]

/-! ### the regions of an exit (of any actor `a`, `a = x` included) -/

theorem comm_markDead (st : State) (k : Key) (x a : Nat) :
    SEq (markDead (leaveRelOne st k x) a) (leaveRelOne (markDead st a) k x) :=
  ⟨rfl, rfl, rfl, rfl, rfl, fun _ => rfl⟩

theorem comm_demonTake (st : State) (k : Key) (x a : Nat) :
    SEq (demonTake (leaveRelOne st k x) a) (leaveRelOne (demonTake st a) k x) :=
  seq_of_rcomm (rcomm_alter k x a _ (fun _ o => leaveH_map_comm k _ (fun _ => rfl) o)) st st.map st.index st.world st.dead

theorem comm_takeMem (st : State) (k : Key) (x a : Nat) :
    SEq (takeMem (leaveRelOne st k x) a) (leaveRelOne (takeMem st a) k x) :=
  seq_of_rcomm (rcomm_alter k x a _ (fun _ o => leaveH_map_comm k _ (fun _ => by simp [del]) o)) st st.map st.index st.world st.dead

theorem comm_demonKey (st : State) (k k' : Key) (x a : Nat) :
    SEq (demonKey (leaveRelOne st k x) a k') (leaveRelOne (demonKey st a k') k x) :=
  ⟨rfl, rfl, rfl, rfl, rfl, fun _ => rfl⟩

theorem comm_demonWKey (st : State) (k : Key) (x a s : Nat) :
    SEq (demonWKey (leaveRelOne st k x) a s) (leaveRelOne (demonWKey st a s) k x) :=
  ⟨rfl, rfl, rfl, rfl, rfl, fun _ => rfl⟩

/-- a `leave_all` iteration (on a key other than the held one — on the held one it is blocked): same state,
same removal record -/
theorem comm_leaveKey (st : State) (k k' : Key) (x a : Nat) :
    SEq (leaveKey (leaveRelOne st k x) a k').1 (leaveRelOne (leaveKey st a k').1 k x) ∧
    (leaveKey (leaveRelOne st k x) a k').2 = (leaveKey st a k').2 := by
  unfold leaveKey
  have hm : membersOf (leaveRelOne st k x) k' = membersOf st k' := rfl
  rw [hm]
  by_cases h : a ∈ membersOf st k'
  · rw [if_pos h, if_pos h]; exact ⟨⟨rfl, rfl, rfl, rfl, rfl, fun _ => rfl⟩, rfl⟩
  · rw [if_neg h, if_neg h]; exact ⟨⟨rfl, rfl, rfl, rfl, rfl, fun _ => rfl⟩, rfl⟩

/-- (i) `take` of `x`'s own exit run BEFORE the iteration lists `k` among the pending keys, run after it does
not; the `lvKey k` it then makes once the entry is released finds `x` no longer a member: identity, no record -/
theorem leaveKey_nonmember (st : State) (a : Nat) (k : Key) (h : a ∉ membersOf st k) :
    leaveKey st a k = (st, none) := by
  unfold leaveKey; rw [if_neg h]

/-! ### the regions of callers -/

theorem comm_touchGroup (st : State) (k k' : Key) (x : Nat) :
    SEq (touchGroup (leaveRelOne st k x) k') (leaveRelOne (touchGroup st k') k x) :=
  ⟨rfl, rfl, rfl, rfl, rfl, fun _ => rfl⟩

/-- `joinOne` of a join holding ANOTHER entry (or looking at another actor) -/
theorem comm_joinOne (st : State) (k k' : Key) (x y : Nat) (h : y = x → k' ≠ k) :
    SEq (joinOne (leaveRelOne st k x) k' y) (leaveRelOne (joinOne st k' y) k x) := by
  refine seq_of_rcomm (Φ := fun r => relUpdate r y (fun r => { r with mem := ins k' r.mem })) ?_ st st.map st.index st.world st.dead
  refine rcomm_alter k x y _ (fun e o => leaveH_update_comm k (fun r => { r with mem := ins k' r.mem }) (fun r => ?_) o)
  simp only [del_ins_comm (fun e' => h e e'.symm)]

theorem comm_joinCommit (st : State) (k k' : Key) (x : Nat) (joined : List Nat) :
    SEq (joinCommit (leaveRelOne st k x) k' joined) (leaveRelOne (joinCommit st k' joined) k x) := by
  unfold joinCommit
  by_cases h : joined = []
  · rw [if_pos h, if_pos h]; exact ⟨rfl, rfl, rfl, rfl, rfl, fun _ => rfl⟩
  · rw [if_neg h, if_neg h]; exact ⟨rfl, rfl, rfl, rfl, rfl, fun _ => rfl⟩

/-- the entry region of a `leave_scoped` of any group (also naming `x`) -/
theorem comm_leaveEntry (st : State) (k : Key) (x s g : Nat) (as : List Nat) :
    SEq (leaveEntry (leaveRelOne st k x) s g as).1 (leaveRelOne (leaveEntry st s g as).1 k x) ∧
    (leaveEntry (leaveRelOne st k x) s g as).2 = (leaveEntry st s g as).2 := by
  have hR : RComm k x (fun r => as.foldl (fun r a => alter r a (leaveH (s, g))) r) :=
    rcomm_foldl _ (fun a => rcomm_alter k x a _ (fun _ o => by
      cases o with
      | none => rfl
      | some r => simp [leaveH, del_del_comm])) as
  have hm : get (leaveRelOne st k x).map (s, g) = get st.map (s, g) := rfl
  cases h : get st.map (s, g) with
  | none =>
    rw [h] at hm
    simp only [leaveEntry, hm, h]
    exact ⟨⟨rfl, rfl, rfl, rfl, rfl, fun _ => rfl⟩, trivial⟩
  | some gs =>
    rw [h] at hm
    simp only [leaveEntry, hm, h, leave]
    exact ⟨⟨rfl, rfl, rfl, rfl, rfl, hR.2 st.rel⟩, rfl⟩

/-- `get_or_create_actor_relations` of a `monitor` / `monitor_scope` -/
theorem comm_relCreate (st : State) (k : Key) (x b : Nat) :
    SEq { leaveRelOne st k x with rel := relUpdate (leaveRelOne st k x).rel b id }
      (leaveRelOne { st with rel := relUpdate st.rel b id } k x) :=
  seq_of_rcomm (Φ := fun r => relUpdate r b id)
    (rcomm_alter k x b _ (fun _ o => leaveH_update_comm k id (fun _ => rfl) o)) st st.map st.index st.world st.dead

theorem comm_demonitor (st : State) (k : Key) (x g b : Nat) :
    SEq (Pg.demonitor (leaveRelOne st k x) g b) (leaveRelOne (Pg.demonitor st g b) k x) :=
  seq_of_rcomm (rcomm_alter k x b _ (fun _ o => leaveH_map_comm k _ (fun _ => rfl) o)) st _ st.index st.world st.dead

theorem comm_demonitorScope (st : State) (k : Key) (x s b : Nat) :
    SEq (Pg.demonitorScope (leaveRelOne st k x) s b) (leaveRelOne (Pg.demonitorScope st s b) k x) :=
  seq_of_rcomm (rcomm_alter k x b _ (fun _ o => leaveH_map_comm k _ (fun _ => rfl) o)) st st.map st.index _ st.dead

theorem comm_demonitorFwd (st : State) (k : Key) (x g b : Nat) :
    SEq (demonitorFwdSt (leaveRelOne st k x) g b) (leaveRelOne (demonitorFwdSt st g b) k x) :=
  ⟨rfl, rfl, rfl, rfl, rfl, fun _ => rfl⟩

theorem comm_demonitorScopeFwd (st : State) (k : Key) (x s b : Nat) :
    SEq (demonitorScopeFwdSt (leaveRelOne st k x) s b) (leaveRelOne (demonitorScopeFwdSt st s b) k x) :=
  ⟨rfl, rfl, rfl, rfl, rfl, fun _ => rfl⟩

theorem rcomm_relUpdate (k : Key) (x b : Nat) (f : Rel → Rel)
    (hf : ∀ r, (f { r with mem := del k r.mem }) = { f r with mem := del k (f r).mem }) :
    RComm k x (fun r => relUpdate r b f) :=
  rcomm_alter k x b _ (fun _ o => leaveH_update_comm k f hf o)

/-- the entry + relations-lock region of `monitor` -/
theorem comm_monitorEntry (st : State) (k : Key) (x g b : Nat) :
    SEq (monitorEntry (leaveRelOne st k x) g b) (leaveRelOne (monitorEntry st g b) k x) := by
  unfold monitorEntry
  have ha : alive (leaveRelOne st k x) b = alive st b := rfl
  rw [ha]
  by_cases h : alive st b = true
  · rw [if_pos h, if_pos h]
    unfold Pg.monitor
    rw [ha, if_pos h, if_pos h]
    exact seq_of_rcomm (rcomm_comp (rcomm_relUpdate k x b id (fun _ => rfl))
      (rcomm_relUpdate k x b (fun r => { r with gmon := ins (defaultScope, g) r.gmon }) (fun _ => rfl))) st _ st.index st.world st.dead
  · rw [if_neg h, if_neg h]; exact comm_touchGroup st k _ x

theorem comm_monitorScopeEntry (st : State) (k : Key) (x s b : Nat) :
    SEq (monitorScopeEntry (leaveRelOne st k x) s b) (leaveRelOne (monitorScopeEntry st s b) k x) := by
  unfold monitorScopeEntry
  have ha : alive (leaveRelOne st k x) b = alive st b := rfl
  rw [ha]
  by_cases h : alive st b = true
  · rw [if_pos h, if_pos h]
    unfold Pg.monitorScope
    rw [ha, if_pos h, if_pos h]
    exact seq_of_rcomm (rcomm_comp (rcomm_relUpdate k x b id (fun _ => rfl))
      (rcomm_relUpdate k x b (fun r => { r with wmon := ins s r.wmon }) (fun _ => rfl))) st st.map st.index _ st.dead
  · rw [if_neg h, if_neg h]; exact ⟨rfl, rfl, rfl, rfl, rfl, fun _ => rfl⟩

/-! ### (ii) `remove_empty_actor_relations` -/

theorem rcomm_removeEmptyRel (k : Key) (x a : Nat) (h : a ≠ x) : RComm k x (fun r => removeEmptyRel r a) :=
  rcomm_alter k x a _ (fun e => absurd e h)

/-- `remove_empty_actor_relations(x)` against the iteration for the same actor `x`: every lookup agrees, except
that when `k` was the last thing in `x`'s reverse-index entry the order "iteration first" has removed the entry
and the order "iteration last" leaves it behind EMPTY -/
theorem removeEmptyRel_leaveRelOne (r : List (Nat × Rel)) (k : Key) (x b : Nat) :
    get (removeEmptyRel (alter r x (leaveH k)) x) b = get (alter (removeEmptyRel r x) x (leaveH k)) b ∨
    (b = x ∧ get (removeEmptyRel (alter r x (leaveH k)) x) x = none ∧
      ∃ r', get (alter (removeEmptyRel r x) x (leaveH k)) x = some r' ∧ r'.isEmpty = true ∧
        ∃ r0, get r x = some r0 ∧ r0.isEmpty = false) := by
  unfold removeEmptyRel
  simp only [get_alter]
  by_cases hb : b = x
  · subst hb
    simp only [if_true]
    cases hr : get r b with
    | none => left; rfl
    | some r0 =>
      simp only [leaveH, Option.map_some, Option.bind_some]
      by_cases h0 : r0.isEmpty = true
      · left
        have : ({ r0 with mem := del k r0.mem } : Rel).isEmpty = true := by
          simp only [Rel.isEmpty, Bool.and_eq_true, List.isEmpty_iff] at h0 ⊢
          refine ⟨⟨?_, h0.1.2⟩, h0.2⟩
          rw [h0.1.1]; rfl
        simp [h0, this]
      · by_cases h1 : ({ r0 with mem := del k r0.mem } : Rel).isEmpty = true
        · right
          refine ⟨by first | rfl | trivial, by simp [h1], { r0 with mem := del k r0.mem }, by simp [h0], h1, r0, rfl, by simpa using h0⟩
        · left; simp [h0, h1]
  · left; simp [hb]

/-- the iteration is invisible when `k` is not in `x`'s reverse index (then everything commutes with it) -/
theorem leaveRelOne_noop (st : State) (k : Key) (x : Nat) (h : k ∉ relMem st x) : SEq (leaveRelOne st k x) st := by
  refine ⟨rfl, rfl, rfl, rfl, rfl, fun a => ?_⟩
  simp only [leaveRelOne, get_alter]
  by_cases ha : a = x
  · subst ha
    simp only [if_true, leaveH]
    cases hr : get st.rel a with
    | none => rfl
    | some r =>
      have hk : k ∉ r.mem := by simpa [relMem, relOf, hr] using h
      have : del k r.mem = r.mem := by
        unfold del
        refine List.filter_eq_self.mpr (fun y hy => ?_)
        have hne : y ≠ k := fun e => hk (e ▸ hy)
        simpa using hne
      simp [this]
  · simp [ha]

/-- `finish` of the exit of another actor; for `x`'s own exit see `removeEmptyRel_leaveRelOne` -/
theorem comm_finishLeave (st : State) (k : Key) (x a : Nat) (rm : List (Key × List Nat)) (h : a ≠ x) :
    SEq (finishLeave (leaveRelOne st k x) a rm).1 (leaveRelOne (finishLeave st a rm).1 k x) ∧
    (finishLeave (leaveRelOne st k x) a rm).2 = (finishLeave st a rm).2 :=
  ⟨seq_of_rcomm (rcomm_removeEmptyRel k x a h) st st.map st.index st.world st.dead, rfl⟩

/-- the re-check region of a `monitor` naming another actor (or an actor that is not stopping) -/
theorem comm_monitorRecheck (st : State) (k : Key) (x g b : Nat) (h : b ≠ x ∨ alive st b = true) :
    SEq (Pg.monitorRecheck (leaveRelOne st k x) g b) (leaveRelOne (Pg.monitorRecheck st g b) k x) := by
  unfold Pg.monitorRecheck
  have ha : alive (leaveRelOne st k x) b = alive st b := rfl
  rw [ha]
  by_cases hl : alive st b = true
  · rw [if_pos hl, if_pos hl]; exact ⟨rfl, rfl, rfl, rfl, rfl, fun _ => rfl⟩
  · rw [if_neg hl, if_neg hl]
    exact seq_of_rcomm (rcomm_removeEmptyRel k x b (h.resolve_right hl)) st _ st.index st.world st.dead

theorem comm_monitorScopeRecheck (st : State) (k : Key) (x s b : Nat) (h : b ≠ x ∨ alive st b = true) :
    SEq (Pg.monitorScopeRecheck (leaveRelOne st k x) s b) (leaveRelOne (Pg.monitorScopeRecheck st s b) k x) := by
  unfold Pg.monitorScopeRecheck
  have ha : alive (leaveRelOne st k x) b = alive st b := rfl
  rw [ha]
  by_cases hl : alive st b = true
  · rw [if_pos hl, if_pos hl]; exact ⟨rfl, rfl, rfl, rfl, rfl, fun _ => rfl⟩
  · rw [if_neg hl, if_neg hl]
    exact seq_of_rcomm (rcomm_removeEmptyRel k x b (h.resolve_right hl)) st st.map st.index _ st.dead

theorem rcomm_foldl_mem {k : Key} {x : Nat} {α : Type} (F : List (Nat × Rel) → α → List (Nat × Rel)) (ys : List α)
    (hF : ∀ y ∈ ys, RComm k x (fun r => F r y)) : RComm k x (fun r => ys.foldl F r) := by
  induction ys with
  | nil => exact rcomm_id k x
  | cons y ys ih =>
    exact rcomm_comp (hF y (List.mem_cons_self ..)) (ih (fun z hz => hF z (List.mem_cons_of_mem _ hz)))

/-- the clean-up region of a `join_scoped` that does not name a stopping `x` -/
theorem comm_joinCleanup (st : State) (k : Key) (x s g : Nat) (as : List Nat) (h : x ∉ as ∨ alive st x = true) :
    SEq (joinCleanup (leaveRelOne st k x) s g as) (leaveRelOne (joinCleanup st s g as) k x) := by
  unfold joinCleanup
  have ha : (as.filter fun a => !alive (leaveRelOne st k x) a) = as.filter fun a => !alive st a := rfl
  rw [ha]
  refine seq_of_rcomm (Φ := fun r => (as.filter fun a => !alive st a).foldl removeEmptyRel r)
    (rcomm_foldl_mem _ _ (fun y hy => rcomm_removeEmptyRel k x y ?_)) st _ st.index st.world st.dead
  rw [List.mem_filter] at hy
  rintro rfl
  rcases h with h | h
  · exact h hy.1
  · rw [h] at hy; simp at hy

/-! ### what the other threads read is not changed by an iteration -/

/-- every value a region of `Pg.Conc` reads to DECIDE something (status, membership, recipients, the existence
of a reverse-index entry, the monitor sets an exit drains) is the same before and after an iteration; only
`x`'s membership set — read by `take` of `x`'s own exit, case (i) — has lost `k` -/
theorem leaveRelOne_reads (st : State) (k : Key) (x : Nat) :
    (∀ a, alive (leaveRelOne st k x) a = alive st a) ∧
    (∀ k', membersOf (leaveRelOne st k x) k' = membersOf st k') ∧
    (∀ k', recipients (leaveRelOne st k x) k' = recipients st k') ∧
    (∀ a, (get (leaveRelOne st k x).rel a).isSome = (get st.rel a).isSome) ∧
    (∀ a, relGmonOf (leaveRelOne st k x) a = relGmonOf st a) ∧
    (∀ a, relWmonOf (leaveRelOne st k x) a = relWmonOf st a) ∧
    (∀ a, a ≠ x → relMemOf (leaveRelOne st k x) a = relMemOf st a) ∧
    relMemOf (leaveRelOne st k x) x = del k (relMemOf st x) := by
  refine ⟨fun _ => rfl, fun _ => rfl, fun _ => rfl, fun a => ?_, fun a => ?_, fun a => ?_, fun a ha => ?_, ?_⟩
  all_goals simp only [relGmonOf, relWmonOf, relMemOf, leaveRelOne, get_alter, leaveH]
  · by_cases h : a = x
    · subst h; cases get st.rel a <;> simp
    · simp [h]
  · by_cases h : a = x
    · subst h; cases get st.rel a <;> simp
    · simp [h]
  · by_cases h : a = x
    · subst h; cases get st.rel a <;> simp
    · simp [h]
  · simp [ha]
  · cases get st.rel x <;> simp [del]

/-! ### at the level of `Pg.Conc.step`: an iteration moves past every region of every exit -/

theorem seq_refl (st : State) : SEq st st := ⟨rfl, rfl, rfl, rfl, rfl, fun _ => rfl⟩

theorem relGmon'_leaveRelOne (st : State) (k : Key) (x a : Nat) :
    fstep.relGmon' (leaveRelOne st k x) a = fstep.relGmon' st a := by
  simp only [fstep.relGmon', leaveRelOne, get_alter, leaveH]
  by_cases h : a = x
  · subst h; cases get st.rel a <;> simp
  · simp [h]

theorem relWmon'_leaveRelOne (st : State) (k : Key) (x a : Nat) :
    fstep.relWmon' (leaveRelOne st k x) a = fstep.relWmon' st a := by
  simp only [fstep.relWmon', leaveRelOne, get_alter, leaveH]
  by_cases h : a = x
  · subst h; cases get st.rel a <;> simp
  · simp [h]

theorem relMem'_leaveRelOne (st : State) (k : Key) (x a : Nat) (h : a ≠ x) :
    fstep.relMem' (leaveRelOne st k x) a = fstep.relMem' st a := by
  simp [fstep.relMem', leaveRelOne, get_alter, h]

/-- one region of the exit of `a` (every region; for `x`'s own exit every region but `take` and `finish`, the
residual cases (i) and (ii)): same next phase, same state for every lookup -/
theorem fstep_comm (st : State) (k : Key) (x a : Nat) (ph : Phase) (r : ExReg)
    (hx : a = x → r ≠ .take ∧ r ≠ .finish) :
    (fstep a ⟨leaveRelOne st k x, ph⟩ r.toFOp).ph = (fstep a ⟨st, ph⟩ r.toFOp).ph ∧
    SEq (fstep a ⟨leaveRelOne st k x, ph⟩ r.toFOp).st (leaveRelOne (fstep a ⟨st, ph⟩ r.toFOp).st k x) := by
  cases r with
  | mark =>
    cases ph <;> first | exact ⟨rfl, comm_markDead st k x a⟩ | exact ⟨rfl, seq_refl _⟩
  | demTake =>
    cases ph with
    | marked =>
      simp only [ExReg.toFOp, fstep, relGmon'_leaveRelOne, relWmon'_leaveRelOne]
      exact ⟨by first | rfl | trivial, comm_demonTake st k x a⟩
    | _ => exact ⟨rfl, seq_refl _⟩
  | demKey k' =>
    cases ph with
    | demon gk wk =>
      simp only [ExReg.toFOp, fstep]
      by_cases h : k' ∈ gk
      · rw [if_pos h, if_pos h]; exact ⟨rfl, comm_demonKey st k k' x a⟩
      · rw [if_neg h, if_neg h]; exact ⟨rfl, seq_refl _⟩
    | _ => exact ⟨rfl, seq_refl _⟩
  | demWKey s =>
    cases ph with
    | demon gk wk =>
      simp only [ExReg.toFOp, fstep]
      by_cases h : s ∈ wk
      · rw [if_pos h, if_pos h]; exact ⟨rfl, comm_demonWKey st k x a s⟩
      · rw [if_neg h, if_neg h]; exact ⟨rfl, seq_refl _⟩
    | _ => exact ⟨rfl, seq_refl _⟩
  | demDone =>
    cases ph with
    | demon gk wk =>
      cases gk <;> cases wk <;> exact ⟨rfl, seq_refl _⟩
    | _ => exact ⟨rfl, seq_refl _⟩
  | take =>
    have hax : a ≠ x := fun e => (hx e).1 rfl
    cases ph with
    | demonDone =>
      simp only [ExReg.toFOp, fstep, relMem'_leaveRelOne st k x a hax]
      exact ⟨by first | rfl | trivial, comm_takeMem st k x a⟩
    | _ => exact ⟨rfl, seq_refl _⟩
  | lvKey k' =>
    cases ph with
    | leaving mk rm =>
      simp only [ExReg.toFOp, fstep]
      by_cases h : k' ∈ mk
      · rw [if_pos h, if_pos h]
        have hc := comm_leaveKey st k k' x a
        exact ⟨by simp only [hc.2], hc.1⟩
      · rw [if_neg h, if_neg h]; exact ⟨rfl, seq_refl _⟩
    | _ => exact ⟨rfl, seq_refl _⟩
  | finish =>
    have hax : a ≠ x := fun e => (hx e).2 rfl
    cases ph with
    | leaving mk rm =>
      cases mk with
      | nil => exact ⟨rfl, (comm_finishLeave st k x a rm hax).1⟩
      | cons _ _ => exact ⟨rfl, seq_refl _⟩
    | _ => exact ⟨rfl, seq_refl _⟩

/-- global states equal for every lookup (ghosts, program counters, lock table, phases: equal) -/
def GEq (g g' : G) : Prop :=
  SEq g.st g'.st ∧ g.exits = g'.exits ∧ g.thr = g'.thr ∧ g.locks = g'.locks ∧ g.staleG = g'.staleG ∧
  g.staleW = g'.staleW ∧ g.sent = g'.sent ∧ g.changes = g'.changes

/-- the global state with an iteration of a `leave_scoped` applied -/
def withLeaveOne (g : G) (k : Key) (x : Nat) : G := { g with st := leaveRelOne g.st k x }

/-- **An iteration of `leave_scoped` moves past every region of every exit** in `Pg.Conc.step` itself — blocked or
not, whatever the phase: same phases, same records, same notifications, same state for every lookup; for `x`'s own
exit every region but `take` / `finish` (residual cases (i), (ii)). -/
theorem step_ex_comm (g : G) (k : Key) (x a : Nat) (r : ExReg) (hx : a = x → r ≠ .take ∧ r ≠ .finish) :
    GEq (step (withLeaveOne g k x) (.ex a r)) (withLeaveOne (step g (.ex a r)) k x) := by
  simp only [step]
  have hd : (withLeaveOne g k x).st.dead = g.st.dead := rfl
  have hl : locked (withLeaveOne g k x) = locked g := rfl
  have hp : phaseOf (withLeaveOne g k x) a = phaseOf g a := rfl
  rw [hd, hl, hp]
  split
  · exact ⟨seq_refl _, rfl, rfl, rfl, rfl, rfl, rfl, rfl⟩
  · have hc := fstep_comm g.st k x a (phaseOf g a) r hx
    refine ⟨hc.2, ?_, rfl, rfl, rfl, rfl, ?_, ?_⟩
    · exact congrArg (AList.set g.exits a) hc.1
    · show g.sent ++ exEvs (leaveRelOne g.st k x) a (phaseOf g a) r = g.sent ++ exEvs g.st a (phaseOf g a) r
      cases r <;> first | rfl | (cases phaseOf g a <;> rfl)
    · show g.changes ++ exRecs (leaveRelOne g.st k x) a (phaseOf g a) r = g.changes ++ exRecs g.st a (phaseOf g a) r
      cases r with
      | lvKey k' =>
        simp only [exRecs]
        cases phaseOf g a with
        | leaving mk rm => simp only [(comm_leaveKey g.st k k' x a).2]
        | _ => rfl
      | _ => rfl

/-- what must not be the case for a caller region to move: it is not the `joinOne` of `x` for the held entry `k`
(impossible while a leave holds `k`), and it is not a `remove_empty_actor_relations` of a stopping `x` (case (ii)) -/
def callMovable (st : State) (k : Key) (x : Nat) : Pc → Prop
  | .joinIn s g _ (y :: _) => y = x → (s, g) ≠ k
  | .joinEntered _ _ as _ => x ∉ as ∨ alive st x = true
  | .monitorRecheck _ b => b ≠ x ∨ alive st b = true
  | .monitorScopeRecheck _ b => b ≠ x ∨ alive st b = true
  | _ => True

/-- a caller region other than `join_scoped`'s entry region: same next pc, same records, same notifications, same
state for every lookup -/
theorem callStep_comm (st : State) (k : Key) (x : Nat) (pc : Pc) (hm : callMovable st k x pc) :
    (callStep (leaveRelOne st k x) pc).2 = (callStep st pc).2 ∧
    SEq (callStep (leaveRelOne st k x) pc).1 (leaveRelOne (callStep st pc).1 k x) := by
  cases pc with
  | join s g as => exact ⟨rfl, seq_refl _⟩
  | joinFiltered s g as => exact ⟨rfl, seq_refl _⟩
  | joinIn s g as todo => exact ⟨rfl, seq_refl _⟩
  | joinEntered s g as p => exact ⟨rfl, comm_joinCleanup st k x s g as hm⟩
  | notify p => exact ⟨rfl, seq_refl _⟩
  | leave s g as =>
    have hc := comm_leaveEntry st k x s g as
    exact ⟨by simp only [callStep, hc.2], hc.1⟩
  | monitor g b => exact ⟨rfl, comm_relCreate st k x b⟩
  | monitorRel g b => exact ⟨rfl, comm_monitorEntry st k x g b⟩
  | monitorRecheck g b => exact ⟨rfl, comm_monitorRecheck st k x g b hm⟩
  | monitorScope s b => exact ⟨rfl, comm_relCreate st k x b⟩
  | monitorScopeRel s b => exact ⟨rfl, comm_monitorScopeEntry st k x s b⟩
  | monitorScopeRecheck s b => exact ⟨rfl, comm_monitorScopeRecheck st k x s b hm⟩
  | demonitorCall g b =>
    exact ⟨by simp only [callStep, (leaveRelOne_reads st k x).2.2.2.1 b], seq_refl _⟩
  | demonitor g b => exact ⟨rfl, comm_demonitor st k x g b⟩
  | demonitorFwd g b => exact ⟨rfl, comm_demonitorFwd st k x g b⟩
  | demonitorScopeCall s b =>
    exact ⟨by simp only [callStep, (leaveRelOne_reads st k x).2.2.2.1 b], seq_refl _⟩
  | demonitorScope s b => exact ⟨rfl, comm_demonitorScope st k x s b⟩
  | demonitorScopeFwd s b => exact ⟨rfl, comm_demonitorScopeFwd st k x s b⟩
  | done => exact ⟨rfl, seq_refl _⟩

theorem needsKey_leaveRelOne (st : State) (k : Key) (x : Nat) (pc : Pc) :
    needsKey (leaveRelOne st k x) pc = needsKey st pc := by
  cases pc <;> rfl

/-- the global state after a caller region with result `r` (the last arm of `Pg.Conc.step`) -/
def afterCall (g : G) (i : Nat) (pc : Pc) (r : State × Pc × List Pending × List Ev) : G :=
  { g with st := r.1, thr := g.thr.set i r.2.1, changes := g.changes ++ r.2.2.1, sent := g.sent ++ r.2.2.2,
           staleG := g.staleG ++ staleGOf pc, staleW := g.staleW ++ staleWOf pc }

theorem afterCall_comm (g : G) (k : Key) (x i : Nat) (pc : Pc) (hmv : callMovable g.st k x pc) :
    GEq (afterCall (withLeaveOne g k x) i pc (callStep (leaveRelOne g.st k x) pc))
      (withLeaveOne (afterCall g i pc (callStep g.st pc)) k x) := by
  have hc := callStep_comm g.st k x pc hmv
  refine ⟨hc.2, rfl, ?_, rfl, rfl, rfl, ?_, ?_⟩
  · show g.thr.set i _ = g.thr.set i _; rw [hc.1]
  · show g.sent ++ _ = g.sent ++ _; rw [hc.1]
  · show g.changes ++ _ = g.changes ++ _; rw [hc.1]

/-- **An iteration of `leave_scoped` moves past every region of every caller thread** in `Pg.Conc.step` itself
(blocked or not): filters, `joinLock`, `joinOne`, `joinCommit` with its record and recipients, clean-ups, notification
regions, entry regions of other leaves with their records, every `monitor*` / `demonitor*` region — same program
counters, lock table, records, notifications, stale ghosts, same state for every lookup. -/
theorem step_call_comm (g : G) (k : Key) (x i : Nat)
    (hm : ∀ pc, g.thr[i]? = some pc → callMovable g.st k x pc) :
    GEq (step (withLeaveOne g k x) (.call i)) (withLeaveOne (step g (.call i)) k x) := by
  simp only [step]
  have ht : (withLeaveOne g k x).thr = g.thr := rfl
  rw [ht]
  cases hpc : g.thr[i]? with
  | none => exact ⟨seq_refl _, rfl, rfl, rfl, rfl, rfl, rfl, rfl⟩
  | some pc =>
    have hmv := hm pc hpc
    simp only []
    have hn : needsKey (withLeaveOne g k x).st pc = needsKey g.st pc := needsKey_leaveRelOne g.st k x pc
    have hl : locked (withLeaveOne g k x) = locked g := rfl
    rw [hn, hl]
    split
    · exact ⟨seq_refl _, rfl, rfl, rfl, rfl, rfl, rfl, rfl⟩
    · have hgen := afterCall_comm g k x i pc hmv
      cases pc with
      | joinFiltered s g' as => exact ⟨comm_touchGroup g.st k (s, g') x, rfl, rfl, rfl, rfl, rfl, rfl, rfl⟩
      | joinIn s g' as todo =>
        cases todo with
        | nil =>
          simp only []
          have ha : asOf (withLeaveOne g k x) (s, g') = asOf g (s, g') := rfl
          have hacc : accOf (withLeaveOne g k x) (s, g') = accOf g (s, g') := rfl
          rw [ha, hacc]
          exact ⟨comm_joinCommit g.st k (s, g') x _, rfl, rfl, rfl, rfl, rfl, rfl, rfl⟩
        | cons y todo =>
          simp only []
          have ha : asOf (withLeaveOne g k x) (s, g') = asOf g (s, g') := rfl
          have hacc : accOf (withLeaveOne g k x) (s, g') = accOf g (s, g') := rfl
          have hal : alive (withLeaveOne g k x).st y = alive g.st y := rfl
          rw [ha, hacc, hal]
          refine ⟨?_, rfl, rfl, rfl, rfl, rfl, rfl, rfl⟩
          show SEq (if _ then joinOne (leaveRelOne g.st k x) (s, g') y else leaveRelOne g.st k x)
            (leaveRelOne (if _ then joinOne g.st (s, g') y else g.st) k x)
          split
          · exact comm_joinOne g.st k (s, g') x y hmv
          · exact seq_refl _
      | join s g' as => exact hgen
      | joinEntered s g' as p => exact hgen
      | notify p => exact hgen
      | leave s g' as => exact hgen
      | monitor g' b => exact hgen
      | monitorRel g' b => exact hgen
      | monitorRecheck g' b => exact hgen
      | monitorScope s b => exact hgen
      | monitorScopeRel s b => exact hgen
      | monitorScopeRecheck s b => exact hgen
      | demonitorCall g' b => exact hgen
      | demonitor g' b => exact hgen
      | demonitorFwd g' b => exact hgen
      | demonitorScopeCall s b => exact hgen
      | demonitorScope s b => exact hgen
      | demonitorScopeFwd s b => exact hgen
      | done => exact hgen

end Pg.Conc
