import RactorModel.Lemmas.Rpc

/-! `call_and_forward` (C09): in every reachable state each forward-call that got `Success v` has
EXACTLY ONE entry in the ghost log of forwards — to its own target, with its own reply — and every
other call has none. -/

namespace Rpc

def isSucc : Option Res → Bool
  | some (.success _) => true
  | _ => false

/-- the relation every operation other than `resolve` keeps between a call record before and after:
same forward target, and it did not become (or stop being) a success -/
def RelF (c c' : Call) : Prop :=
  c'.forward = c.forward ∧ ∀ v, c'.res = some (.success v) ↔ c.res = some (.success v)

theorem RelF.refl (c : Call) : RelF c c := ⟨rfl, fun _ => Iff.rfl⟩

theorem RelF.isSucc {c c' : Call} (h : RelF c c') : isSucc c'.res = isSucc c.res := by
  cases h1 : c.res with
  | none =>
    cases h2 : c'.res with
    | none => rfl
    | some r' => cases r' <;> first | rfl | (have := (h.2 _).mp h2; rw [h1] at this; cases this)
  | some r =>
    cases r with
    | success v => have := (h.2 v).mpr h1; rw [this]
    | senderError | timeout | sendErr | abandoned =>
      cases h2 : c'.res with
      | none => rfl
      | some r' => cases r' <;> first | rfl | (have := (h.2 _).mp h2; rw [h1] at this; cases this)

structure StepF (s s' : S) : Prop where
  log : s'.fwdlog = s.fwdlog
  le : s.calls.length ≤ s'.calls.length
  old : ∀ (i : Nat) (c : Call), s.calls[i]? = some c → ∃ c', s'.calls[i]? = some c' ∧ RelF c c'
  new : ∀ (i : Nat) (c' : Call), s.calls.length ≤ i → s'.calls[i]? = some c' → ∀ v, c'.res ≠ some (.success v)

theorem StepF.frame {s s' : S} (hc : s'.calls = s.calls) (hl : s'.fwdlog = s.fwdlog) : StepF s s' :=
  ⟨hl, by rw [hc]; exact Nat.le_refl _, fun i c hi => ⟨c, by rw [hc]; exact hi, RelF.refl c⟩,
   fun i c' hle hi => by
     rw [hc] at hi
     have := (List.getElem?_eq_some_iff.mp hi).1
     omega⟩

theorem StepF.refl (s : S) : StepF s s := StepF.frame rfl rfl

theorem StepF.trans {s s' s'' : S} (h1 : StepF s s') (h2 : StepF s' s'') : StepF s s'' := by
  refine ⟨h2.log.trans h1.log, Nat.le_trans h1.le h2.le, ?_, ?_⟩
  · intro i c hi
    obtain ⟨c1, hc1, r1⟩ := h1.old i c hi
    obtain ⟨c2, hc2, r2⟩ := h2.old i c1 hc1
    exact ⟨c2, hc2, r2.1.trans r1.1, fun v => (r2.2 v).trans (r1.2 v)⟩
  · intro i c'' hle hi v
    by_cases hlt : i < s'.calls.length
    · obtain ⟨c2, hc2, r2⟩ := h2.old i s'.calls[i] (List.getElem?_eq_getElem hlt)
      rw [hi] at hc2; cases hc2
      intro hv
      exact h1.new i _ hle (List.getElem?_eq_getElem hlt) v ((r2.2 v).mp hv)
    · exact h2.new i c'' (by omega) hi v

theorem StepF.map {s s' : S} (f : Call → Call) (hc : s'.calls = s.calls.map f) (hl : s'.fwdlog = s.fwdlog)
    (hf : ∀ c, RelF c (f c)) : StepF s s' :=
  ⟨hl, by rw [hc, List.length_map]; exact Nat.le_refl _,
   fun i c hi => ⟨f c, by rw [hc, List.getElem?_map, hi]; rfl, hf c⟩,
   fun i c' hle hi => by
     rw [hc] at hi
     have := (List.getElem?_eq_some_iff.mp hi).1
     rw [List.length_map] at this; omega⟩

theorem StepF.setCall (s : S) (p : Nat) (l : Loc) : StepF s (setCall s p (fun c => { c with loc := l })) :=
  ⟨rfl, by simp [Rpc.setCall],
   fun i c hi => by
     refine ⟨if p = i then { c with loc := l } else c, ?_, ?_⟩
     · simp [Rpc.setCall, List.getElem?_modify, hi]
     · split
       · exact ⟨rfl, fun _ => Iff.rfl⟩
       · exact RelF.refl c,
   fun i c' hle hi => by
     have := (List.getElem?_eq_some_iff.mp hi).1
     simp [Rpc.setCall] at this; omega⟩

theorem StepF.replyOn (s : S) (p v : Nat) : StepF s (replyOn s p v) :=
  (StepF.setCall s p (.replied v)).trans (StepF.frame rfl rfl)

theorem StepF.append {s s' : S} (c : Call) (hc : s'.calls = s.calls ++ [c]) (hl : s'.fwdlog = s.fwdlog)
    (hn : ∀ v, c.res ≠ some (.success v)) : StepF s s' :=
  ⟨hl, by rw [hc, List.length_append]; omega,
   fun i d hi => ⟨d, by rw [hc, List.getElem?_append_left (List.getElem?_eq_some_iff.mp hi).1]; exact hi, RelF.refl d⟩,
   fun i c' hle hi => by
     rw [hc, List.getElem?_append_right hle] at hi
     have := List.mem_of_getElem? hi
     simp only [List.mem_singleton] at this; subst this; exact hn⟩

theorem relF_dropPortsOf (a : Nat) (c : Call) : RelF c (dropPortsOf a c) := by
  unfold dropPortsOf; repeat (first | exact RelF.refl c | exact ⟨rfl, fun _ => Iff.rfl⟩ | split)
theorem relF_toEvent (a : Nat) (c : Call) : RelF c (toEvent a c) := by
  unfold toEvent; repeat (first | exact RelF.refl c | exact ⟨rfl, fun _ => Iff.rfl⟩ | split)
theorem relF_dropOrphan (U : List Sup) (c : Call) : RelF c (dropOrphan U c) := by
  unfold dropOrphan; repeat (first | exact RelF.refl c | exact ⟨rfl, fun _ => Iff.rfl⟩ | split)

theorem stepF_exit (s : S) (a : Nat) : StepF s (exitActor s a) := by
  unfold exitActor
  cases s.actors[a]? with
  | none => exact StepF.refl s
  | some x =>
    simp only
    split
    · exact StepF.map (dropPortsOf a) rfl rfl (relF_dropPortsOf a)
    · exact StepF.refl s

theorem stepF_stop (s : S) (a : Nat) : StepF s (stopActor s a) := by
  unfold stopActor
  cases s.actors[a]? with
  | none => exact StepF.refl s
  | some x =>
    simp only
    split
    · cases x.sup with
      | none => exact stepF_exit s a
      | some u =>
        simp only
        split
        · have h1 : StepF s { s with sups := s.sups.modify u (fun y => { y with inbox := y.inbox ++ [a] }),
                                      calls := s.calls.map (toEvent a) } :=
            StepF.map (toEvent a) rfl rfl (relF_toEvent a)
          exact h1.trans (stepF_exit _ a)
        · exact stepF_exit s a
    · exact StepF.refl s

theorem stepF_sweep (s : S) (U : List Sup) : StepF s (sweep { s with sups := U }) :=
  StepF.map (dropOrphan U) rfl rfl (relF_dropOrphan U)

theorem stepF_killChildren (s : S) (u : Nat) : StepF s (killChildren s u) := by
  unfold killChildren
  generalize List.range s.actors.length = l
  suffices ∀ s0, StepF s s0 → StepF s (l.foldl (fun s a =>
      match s.actors[a]? with
      | some y => if y.sup == some u then exitActor s a else s
      | none => s) s0) from this s (StepF.refl s)
  induction l with
  | nil => intro s0 h; exact h
  | cons a rest ih =>
    intro s0 h
    simp only [List.foldl_cons]
    apply ih
    cases s0.actors[a]? with
    | none => exact h
    | some x =>
      simp only
      split
      · exact h.trans (stepF_exit s0 a)
      · exact h

theorem stepF_drainExits (s : S) : StepF s (drainExits s) := by
  unfold drainExits
  generalize List.range s.actors.length = l
  suffices ∀ s0, StepF s s0 → StepF s (l.foldl (fun s a =>
      match s.actors[a]? with
      | some x => if x.alive && x.draining && x.mailbox.isEmpty then stopActor s a else s
      | none => s) s0) from this s (StepF.refl s)
  induction l with
  | nil => intro s0 h; exact h
  | cons a rest ih =>
    intro s0 h
    simp only [List.foldl_cons]
    apply ih
    cases s0.actors[a]? with
    | none => exact h
    | some x =>
      simp only
      split
      · exact h.trans (stepF_stop s0 a)
      · exact h

theorem stepF_sendCall (s : S) (a : Nat) (t g f : Option Nat) : StepF s (sendCall s a t g f).1 := by
  unfold sendCall
  simp only
  split
  · exact StepF.append _ rfl rfl (by intro v hv; cases hv)
  · exact StepF.append _ rfl rfl (by intro v hv; cases hv)

theorem stepF_sendMulti (g : Nat) (t : Option Nat) : ∀ (as : List Nat) (s : S), StepF s (sendMulti s g t as) := by
  intro as
  induction as with
  | nil => intro s; exact StepF.refl s
  | cons a rest ih =>
    intro s
    simp only [sendMulti]
    split
    · exact (stepF_sendCall s a t (some g) none).trans (ih _)
    · refine (stepF_sendCall s a t (some g) none).trans (StepF.map _ rfl rfl (fun c => ?_))
      split
      · rename_i hc
        simp only [Bool.and_eq_true, beq_iff_eq] at hc
        exact ⟨rfl, fun v => by simp [hc.2]⟩
      · exact RelF.refl c

theorem stepF_handle (s : S) (a : Nat) (act : Act) : StepF s (handleCore s a act) := by
  unfold handleCore
  cases s.actors[a]? with
  | none => exact StepF.refl s
  | some x =>
    simp only
    split
    · exact StepF.refl s
    · cases x.mailbox with
      | nil => simp only; split; exact stepF_stop s a; exact StepF.refl s
      | cons it rest =>
        cases it with
        | fwd v => exact StepF.frame rfl rfl
        | call p =>
          simp only
          have h1 : StepF s (setActor s a (fun y => { y with mailbox := y.mailbox.tail })) := StepF.frame rfl rfl
          unfold applyAct
          cases act with
          | reply v => exact h1.trans (StepF.replyOn _ p v)
          | drop => exact h1.trans (StepF.setCall _ p _)
          | keep => exact h1.trans (StepF.setCall _ p _)
          | detach => exact h1.trans (StepF.setCall _ p _)

theorem stepF_later (s : S) (p : Nat) (act : Act) : StepF s (stepCore s (.later p act)) := by
  simp only [stepCore]
  cases s.calls[p]? with
  | none => exact StepF.refl s
  | some c =>
    simp only
    cases c.loc <;> cases act <;> simp only <;> first
      | exact StepF.refl s
      | exact StepF.replyOn s p _
      | exact StepF.setCall s p _
      | (split
         · first
           | exact StepF.replyOn s p _
           | exact StepF.setCall s p _
         · exact StepF.refl s)

theorem stepF_stepCore (s : S) (op : Op) : StepF s (stepCore s op) := by
  cases op with
  | spawn => exact StepF.frame rfl rfl
  | call a t => exact stepF_sendCall s a t none none
  | mcall as t =>
    simp only [stepCore]
    exact (stepF_sendMulti s.groups t as s).trans (StepF.frame rfl rfl)
  | fcall a f t => exact stepF_sendCall s a t none (some f)
  | handle a act => exact stepF_handle s a act
  | later p act => exact stepF_later s p act
  | exit a => exact stepF_exit s a
  | stop a act =>
    simp only [stepCore]
    exact (stepF_handle s a act).trans (stepF_stop _ a)
  | drain a => exact StepF.frame rfl rfl
  | advance d => exact StepF.frame rfl rfl
  | spawnSup => exact StepF.frame rfl rfl
  | spawnl u =>
    simp only [stepCore]
    split
    · exact StepF.frame rfl rfl
    · exact StepF.refl s
  | suphandle u keep =>
    simp only [stepCore]
    cases s.sups[u]? with
    | none => exact StepF.refl s
    | some x =>
      simp only
      split
      · exact StepF.refl s
      · cases x.inbox with
        | nil => exact StepF.refl s
        | cons a rest =>
          simp only
          split
          · exact StepF.frame rfl rfl
          · exact stepF_sweep s _
  | supdrop u a =>
    simp only [stepCore]
    cases s.sups[u]? with
    | none => exact StepF.refl s
    | some x =>
      simp only
      split
      · exact stepF_sweep s _
      · exact StepF.refl s
  | supexit u =>
    simp only [stepCore]
    unfold supExit
    cases s.sups[u]? with
    | none => exact StepF.refl s
    | some x =>
      simp only
      split
      · exact (stepF_sweep s _).trans (stepF_killChildren _ u)
      · exact StepF.refl s
  | cast a v => exact StepF.frame rfl rfl
  | fail a =>
    simp only [stepCore]
    cases s.actors[a]? with
    | none => exact StepF.refl s
    | some x =>
      simp only
      split
      · exact stepF_exit s a
      · exact StepF.refl s
  | handleAt a act d => exact (stepF_handle s a act).trans (StepF.frame rfl rfl)

/-! ### the invariant -/

structure FInv (s : S) : Prop where
  bound : ∀ e ∈ s.fwdlog, e.1 < s.calls.length
  once : ∀ (p : Nat) (c : Call), s.calls[p]? = some c →
    (s.fwdlog.filter (fun e => e.1 == p)).length = (if (c.forward.isSome && isSucc c.res) = true then 1 else 0)
  val : ∀ e ∈ s.fwdlog, ∀ c, s.calls[e.1]? = some c → c.forward = some e.2.1 ∧ c.res = some (.success e.2.2.1)

theorem finv_init : FInv init := by
  refine ⟨?_, ?_, ?_⟩ <;> intros <;> simp_all [init]

theorem finv_stepF {s s' : S} (h : FInv s) (st : StepF s s') : FInv s' := by
  refine ⟨?_, ?_, ?_⟩
  · intro e he
    rw [st.log] at he
    exact Nat.lt_of_lt_of_le (h.bound e he) st.le
  · intro p c' hc'
    rw [st.log]
    by_cases hlt : p < s.calls.length
    · obtain ⟨c1, hc1, r⟩ := st.old p s.calls[p] (List.getElem?_eq_getElem hlt)
      rw [hc'] at hc1; cases hc1
      rw [h.once p _ (List.getElem?_eq_getElem hlt), r.1, r.isSucc]
    · have hz : (s.fwdlog.filter (fun e => e.1 == p)).length = 0 := by
        rw [List.length_eq_zero_iff, List.filter_eq_nil_iff]
        intro e he heq
        have := h.bound e he
        have : e.1 = p := by simpa using heq
        omega
      have hns : isSucc c'.res = false := by
        have := st.new p c' (by omega) hc'
        cases hr : c'.res with
        | none => rfl
        | some r => cases r <;> first | rfl | exact absurd hr (this _)
      rw [hz, hns]; simp
  · intro e he c' hc'
    rw [st.log] at he
    have hlt := h.bound e he
    obtain ⟨c1, hc1, r⟩ := st.old e.1 s.calls[e.1] (List.getElem?_eq_getElem hlt)
    rw [hc'] at hc1; cases hc1
    obtain ⟨h1, h2⟩ := h.val e he _ (List.getElem?_eq_getElem hlt)
    exact ⟨r.1.trans h1, (r.2 _).mpr h2⟩

/-! ### `resolve`: the entries it appends -/

theorem newFwdFrom_mem (acc : Nat → Bool) (g : Call → Call) : ∀ (l : List Call) (off : Nat) (e : Nat × Nat × Nat × Bool),
    e ∈ newFwdFrom acc g off l → ∃ (i : Nat) (b : Call), l[i]? = some b ∧ e.1 = off + i ∧ b.res = none ∧
      (g b).res = some (.success e.2.2.1) ∧ (g b).forward = some e.2.1 := by
  intro l
  induction l with
  | nil => intro off e he; simp [newFwdFrom] at he
  | cons b rest ih =>
    intro off e he
    simp only [newFwdFrom, List.mem_append] at he
    rcases he with he | he
    · refine ⟨0, b, rfl, ?_⟩
      split at he
      · rename_i v f h1 h2 h3
        simp only [List.mem_singleton] at he
        subst he
        exact ⟨rfl, h1, h2, h3⟩
      · simp at he
    · obtain ⟨i, b', hb', h1, h2⟩ := ih (off + 1) e he
      exact ⟨i + 1, b', by simpa using hb', by omega, h2⟩

theorem newFwdFrom_count (acc : Nat → Bool) (g : Call → Call) : ∀ (l : List Call) (off p : Nat),
    ((newFwdFrom acc g off l).filter (fun e => e.1 == p)).length =
      (if off ≤ p then
        (match l[p - off]? with
         | some b => if (b.res.isNone && (g b).forward.isSome && isSucc (g b).res) = true then 1 else 0
         | none => 0)
       else 0) := by
  intro l
  induction l with
  | nil => intro off p; simp [newFwdFrom]
  | cons b rest ih =>
    intro off p
    simp only [newFwdFrom, List.filter_append, List.length_append, ih (off + 1) p]
    have hz : ∀ L : List (Nat × Nat × Nat × Bool), (∀ e ∈ L, e.1 = off) → off ≠ p →
        (L.filter (fun e => e.1 == p)).length = 0 := by
      intro L hL hne
      rw [List.length_eq_zero_iff, List.filter_eq_nil_iff]
      intro e he heq
      have h1 := hL e he
      have h2 : e.1 = p := by simpa using heq
      omega
    by_cases hp : off = p
    · subst hp
      have h2 : ¬ (off + 1 ≤ off) := by omega
      simp only [h2, if_false, Nat.le_refl, if_true, Nat.sub_self, List.getElem?_cons_zero, Nat.add_zero]
      cases h1 : b.res with
      | some r => simp
      | none =>
        cases h3 : (g b).res with
        | none => simp [isSucc]
        | some r => cases r <;> cases h4 : (g b).forward <;> simp [isSucc]
    · by_cases hlt : off < p
      · have h1 : off ≤ p := by omega
        have h2 : off + 1 ≤ p := by omega
        have h3 : p - off = (p - (off + 1)) + 1 := by omega
        rw [hz _ (by intro e he; split at he <;> simp_all) hp]
        simp only [h1, h2, if_true, h3, List.getElem?_cons_succ, Nat.zero_add]
      · have h1 : ¬ off ≤ p := by omega
        have h2 : ¬ off + 1 ≤ p := by omega
        rw [hz _ (by intro e he; split at he <;> simp_all) hp]
        simp only [h1, h2, if_false]

/-- the ghost entries are exactly the `newly` list `deliverForwards` enqueues from (same calls, same
targets, same values, same order) -/
theorem newly_eq_log (acc : Nat → Bool) (g : Call → Call) : ∀ (l : List Call) (off : Nat),
    (List.zip l (l.map g)).filterMap (fun x : Call × Call =>
      match x.1.res, x.2.res, x.2.forward with
      | none, some (.success v), some f => some (f, v)
      | _, _, _ => none) = (newFwdFrom acc g off l).map (fun e => (e.2.1, e.2.2.1)) := by
  intro l
  induction l with
  | nil => intro off; rfl
  | cons b rest ih =>
    intro off
    simp only [List.map_cons, List.zip_cons_cons, List.filterMap_cons, newFwdFrom, List.map_append, ih (off + 1)]
    cases h1 : b.res with
    | some r => simp
    | none =>
      cases h3 : (g b).res with
      | none => simp
      | some r => cases r <;> cases h4 : (g b).forward <;> simp

theorem deliverForwards_eq_log (s : S) :
    deliverForwards s.calls (s.calls.map (resolveCall s.now)) s.actors =
      ((newFwdFrom (acceptingIn s.actors) (resolveCall s.now) 0 s.calls).map (fun e => (e.2.1, e.2.2.1))).foldl
        (fun acts (f, v) => acts.modify f (fun x =>
          if x.alive && !x.draining then { x with mailbox := x.mailbox ++ [.fwd v] } else x)) s.actors := by
  unfold deliverForwards
  exact congrArg (List.foldl _ s.actors) (newly_eq_log (acceptingIn s.actors) (resolveCall s.now) s.calls 0)

theorem resolveCall_forward (now : Nat) (c : Call) : (resolveCall now c).forward = c.forward := by
  unfold resolveCall; repeat (first | rfl | split)

theorem resolveCall_res_of_some (now : Nat) (c : Call) (r : Res) (h : c.res = some r) :
    (resolveCall now c).res = some r := by
  unfold resolveCall; rw [h]; exact h

theorem finv_resolveLocal {s : S} (h : FInv s) : FInv (resolveLocal s) := by
  have hlen : (resolveLocal s).calls.length = s.calls.length := by simp [resolveLocal]
  have hget : ∀ (p : Nat) (c' : Call), (resolveLocal s).calls[p]? = some c' → ∃ c, s.calls[p]? = some c ∧ c' = resolveCall s.now c := by
    intro p c' hc'
    simp only [resolveLocal, List.getElem?_map] at hc'
    cases hs : s.calls[p]? with
    | none => rw [hs] at hc'; cases hc'
    | some c => rw [hs] at hc'; exact ⟨c, rfl, by simpa using hc'.symm⟩
  have hlog : (resolveLocal s).fwdlog = s.fwdlog ++ newFwdFrom (acceptingIn s.actors) (resolveCall s.now) 0 s.calls := rfl
  refine ⟨?_, ?_, ?_⟩
  · intro e he
    rw [hlog, List.mem_append] at he
    rw [hlen]
    rcases he with he | he
    · exact h.bound e he
    · obtain ⟨i, b, hb, hi, _⟩ := newFwdFrom_mem _ _ _ _ _ he
      have := (List.getElem?_eq_some_iff.mp hb).1
      omega
  · intro p c' hc'
    obtain ⟨c, hc, rfl⟩ := hget p c' hc'
    rw [hlog, List.filter_append, List.length_append, h.once p c hc, newFwdFrom_count]
    simp only [Nat.zero_le, if_true, Nat.sub_zero, hc, resolveCall_forward]
    cases hr : c.res with
    | some r =>
      rw [resolveCall_res_of_some s.now c r hr]
      simp
    | none =>
      have h1 : isSucc (none : Option Res) = false := rfl
      simp only [h1, Option.isNone_none, Bool.true_and, Bool.and_false, Bool.false_eq_true, if_false, Nat.zero_add]
  · intro e he c' hc'
    obtain ⟨c, hc, rfl⟩ := hget e.1 c' hc'
    rw [hlog, List.mem_append] at he
    rcases he with he | he
    · obtain ⟨h1, h2⟩ := h.val e he c hc
      exact ⟨by rw [resolveCall_forward]; exact h1, resolveCall_res_of_some _ _ _ h2⟩
    · obtain ⟨i, b, hb, hi, _, h3, h4⟩ := newFwdFrom_mem _ _ _ _ _ he
      have : e.1 = i := by omega
      rw [this] at hc
      rw [hb] at hc; cases hc
      exact ⟨h4, h3⟩

theorem finv_run (ops : List Op) : FInv (run ops) := by
  unfold run
  suffices ∀ s, Inv s → Wire s → FInv s → FInv (ops.foldl step s) from this init inv_init wire_init finv_init
  induction ops with
  | nil => intro s _ _ h; exact h
  | cons op rest ih =>
    intro s hi hw hf
    have hs := inv_step hi hw op
    refine ih (step s op) hs.1 hs.2 ?_
    rw [step_eq_local hi.toPre hw op]
    exact finv_resolveLocal (finv_stepF hf ((stepF_stepCore s op).trans (stepF_drainExits _)))

end Rpc
