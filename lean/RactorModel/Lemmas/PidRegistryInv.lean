import RactorModel.Lemmas.PidRegistry

/-! The invariant of the `PidRegistry` model: ids are unique, the pid table IS the list of live local
actors (the refinement `get_all_pids` ↦ abstract set), the listener list has no duplicates and only
holds created actors. -/

namespace PidRegistry

def isLive (x : Actor) : Bool := !x.remote && x.phase == 0

theorem liveLocals_def (s : State) : liveLocals s = (s.actors.filter isLive).map (·.id) := rfl

structure Inv (s : State) : Prop where
  ids : (s.actors.map (·.id)).Nodup
  pids : s.pids = liveLocals s
  mons : s.mons.Nodup
  monsKnown : ∀ m ∈ s.mons, known s m = true

theorem inv_init : Inv init := ⟨List.nodup_nil, rfl, List.nodup_nil, fun _ h => by cases h⟩

theorem unique_of_nodup {l : List Actor} (h : (l.map (·.id)).Nodup) {x y : Actor}
    (hx : x ∈ l) (hy : y ∈ l) (hid : x.id = y.id) : x = y := by
  induction l with
  | nil => cases hx
  | cons z l ih =>
    simp only [List.map_cons, List.nodup_cons, List.mem_map, not_exists, not_and] at h
    simp only [List.mem_cons] at hx hy
    rcases hx with rfl | hx <;> rcases hy with rfl | hy
    · rfl
    · exact absurd hid.symm (h.1 y hy)
    · exact absurd hid (h.1 x hx)
    · exact ih h.2 hx hy

/-- removing `a` from the live ids = marking `a` as exiting -/
theorem live_setPhase (l : List Actor) (a p : Nat) (hp : p ≠ 0) :
    ((setPhase l a p).filter isLive).map (·.id) = ((l.filter isLive).map (·.id)).filter (· != a) := by
  induction l with
  | nil => rfl
  | cons x l ih =>
    have e : setPhase (x :: l) a p = (if x.id = a then { x with phase := p } else x) :: setPhase l a p := rfl
    rw [e]
    by_cases hx : x.id = a
    · subst hx
      have h1 : isLive { x with phase := p } = false := by simp [isLive, hp]
      simp only [↓reduceIte, List.filter_cons, h1, Bool.false_eq_true]
      rw [ih]
      cases hl : isLive x <;> simp
    · simp only [hx, ↓reduceIte, List.filter_cons]
      cases hl : isLive x
      · simpa using ih
      · simp [ih, hx]

theorem mem_liveLocals {s : State} {a : Nat} :
    a ∈ liveLocals s ↔ ∃ x ∈ s.actors, x.id = a ∧ x.remote = false ∧ x.phase = 0 := by
  simp only [liveLocals, List.mem_map, List.mem_filter, Bool.and_eq_true, Bool.not_eq_true',
    beq_iff_eq]
  constructor
  · rintro ⟨x, ⟨hx, hr, hp⟩, hid⟩; exact ⟨x, hx, hid, hr, hp⟩
  · rintro ⟨x, hx, hid, hr, hp⟩; exact ⟨x, ⟨hx, hr, hp⟩, hid⟩

/-- with unique ids, `getA` decides everything about the id -/
theorem mem_liveLocals_getA {s : State} (hn : (s.actors.map (·.id)).Nodup) {a : Nat} {x : Actor}
    (hx : getA s a = some x) : a ∈ liveLocals s ↔ (x.remote = false ∧ x.phase = 0) := by
  rw [mem_liveLocals]
  constructor
  · rintro ⟨y, hy, hid, hr, hp⟩
    have : y = x := unique_of_nodup hn hy (getA_mem hx) (by rw [hid, getA_id hx])
    subst this; exact ⟨hr, hp⟩
  · rintro ⟨hr, hp⟩; exact ⟨x, getA_mem hx, getA_id hx, hr, hp⟩

theorem liveLocals_nodup {s : State} (hn : (s.actors.map (·.id)).Nodup) : (liveLocals s).Nodup :=
  List.Nodup.sublist (List.Sublist.map _ List.filter_sublist) hn

theorem filter_ne_self {l : List Nat} {a : Nat} (h : a ∉ l) : l.filter (· != a) = l := by
  rw [List.filter_eq_self]
  intro b hb
  simp only [bne_iff_ne, ne_eq]
  rintro rfl; exact h hb

theorem inv_step {s : State} (h : Inv s) (op : Op) : Inv (step s op) := by
  have hmk : ∀ m ∈ s.mons, known (step s op) m = true := fun m hm => known_step_mono op (h.monsKnown m hm)
  cases op with
  | spawn a =>
    simp only [step] at hmk ⊢
    cases hk : known s a
    · simp only [hk, Bool.false_eq_true, ↓reduceIte] at hmk ⊢
      refine ⟨?_, ?_, h.mons, hmk⟩
      · simp only [List.map_append, List.map_cons, List.map_nil]
        rw [List.nodup_append]
        refine ⟨h.ids, by simp, ?_⟩
        intro b hb c hc
        simp only [List.mem_singleton] at hc
        subst hc
        rintro rfl
        have := (known_iff s b).mpr hb
        rw [hk] at this; cases this
      · simp only [liveLocals, List.filter_append, List.map_append]
        rw [h.pids]; rfl
    · simpa [hk] using h
  | remote a =>
    simp only [step] at hmk ⊢
    cases hk : known s a
    · simp only [hk, Bool.false_eq_true, ↓reduceIte] at hmk ⊢
      refine ⟨?_, ?_, h.mons, hmk⟩
      · simp only [List.map_append, List.map_cons, List.map_nil]
        rw [List.nodup_append]
        refine ⟨h.ids, by simp, ?_⟩
        intro b hb c hc
        simp only [List.mem_singleton] at hc
        subst hc
        rintro rfl
        have := (known_iff s b).mpr hb
        rw [hk] at this; cases this
      · simp only [liveLocals, List.filter_append, List.map_append]
        rw [h.pids]; simp [liveLocals]
    · simpa [hk] using h
  | exitBegin a =>
    simp only [step] at hmk ⊢
    cases hx : getA s a with
    | none => simpa [hx] using h
    | some x =>
      simp only [hx] at hmk ⊢
      by_cases hp : x.phase = 0
      · simp only [hp, ne_eq, not_true_eq_false, ↓reduceIte] at hmk ⊢
        refine ⟨?_, ?_, List.Nodup.sublist List.filter_sublist h.mons, ?_⟩
        · simp only [map_id_setPhase]; exact h.ids
        · show _ = ((setPhase s.actors a 1).filter isLive).map (·.id)
          rw [live_setPhase _ _ _ (by decide), ← liveLocals_def, ← h.pids]
          cases hr : x.remote
          · simp
          · simp only [↓reduceIte]
            refine (filter_ne_self ?_).symm
            rw [h.pids, mem_liveLocals_getA h.ids hx]
            simp [hr]
        · intro m hm
          exact hmk m (List.mem_filter.mp hm).1
      · simpa [hp] using h
  | exitEnd a =>
    simp only [step] at hmk ⊢
    cases hx : getA s a with
    | none => simpa [hx] using h
    | some x =>
      simp only [hx] at hmk ⊢
      by_cases hp : x.phase = 1
      · simp only [hp, ne_eq, not_true_eq_false, ↓reduceIte] at hmk ⊢
        refine ⟨?_, ?_, h.mons, hmk⟩
        · simp only [map_id_setPhase]; exact h.ids
        · show _ = ((setPhase s.actors a 2).filter isLive).map (·.id)
          rw [live_setPhase _ _ _ (by decide), ← liveLocals_def, ← h.pids]
          refine (filter_ne_self ?_).symm
          rw [h.pids, mem_liveLocals_getA h.ids hx]
          simp [hp]
      · simpa [hp] using h
  | monitor m =>
    simp only [step] at hmk ⊢
    cases hc : (known s m && !s.mons.contains m)
    · simpa [hc] using h
    · simp only [↓reduceIte] at hmk ⊢
      simp only [Bool.and_eq_true, Bool.not_eq_true', List.contains_eq_mem, decide_eq_false_iff_not] at hc
      refine ⟨h.ids, h.pids, ?_, ?_⟩
      · rw [List.nodup_append]
        refine ⟨h.mons, by simp, ?_⟩
        intro b hb c hc'
        simp only [List.mem_singleton] at hc'
        subst hc'
        rintro rfl; exact hc.2 hb
      · intro b hb
        simp only [List.mem_append, List.mem_singleton] at hb
        rcases hb with hb | rfl
        · exact h.monsKnown b hb
        · exact hc.1
  | demonitor m =>
    exact ⟨h.ids, h.pids, List.Nodup.sublist List.filter_sublist h.mons,
      fun b hb => h.monsKnown b (List.mem_filter.mp hb).1⟩
  | getAll => exact h
  | whereIs a => exact h

theorem inv_run {s : State} (h : Inv s) (ops : List Op) : Inv (run s ops) := by
  induction ops generalizing s with
  | nil => exact h
  | cons op ops ih => exact ih (inv_step h op)

end PidRegistry
