import RactorModel.Lemmas.FactoryCount
import RactorModel.Lemmas.FactoryLimit
import RactorModel.Lemmas.FactoryWid

/-! Conservation of jobs (C13), factory level: every function of `FactoryState` preserves
`total i` (a dispatched job adds one occurrence). -/

namespace Factory

/-- `w'` holds the same jobs in the same places as `w` (only router state etc. differs) -/
def SameJobs (w w' : W) : Prop :=
  w'.inbox = w.inbox ∧ w'.queue = w.queue ∧ w'.pool = w.pool ∧ w'.env = w.env

theorem SameJobs.total {w w' : W} (h : SameJobs w w') (i : Nat) : total i w' = total i w := by
  obtain ⟨h1, h2, h3, h4⟩ := h
  simp [Factory.total, h1, h2, h3, h4]

theorem SameJobs.refl (w : W) : SameJobs w w := ⟨rfl, rfl, rfl, rfl⟩

theorem availChange_same (w : W) (wid : Nat) (b : Bool) : SameJobs w (w.availChange wid b) := by
  unfold W.availChange
  split
  · split
    · exact SameJobs.refl w
    · exact ⟨rfl, rfl, rfl, rfl⟩
  · exact ⟨rfl, rfl, rfl, rfl⟩

theorem total_availChange (i : Nat) (w : W) (wid : Nat) (b : Bool) : total i (w.availChange wid b) = total i w :=
  (availChange_same w wid b).total i

theorem chooseTargetWorker_same (w : W) (j : Job) (hint : Option Nat) :
    SameJobs w (w.chooseTargetWorker j hint).2 := by
  unfold W.chooseTargetWorker
  split
  · -- kp
    split
    · exact SameJobs.refl w
    · split
      · exact SameJobs.refl w
      · split
        · exact SameJobs.refl w
        · exact SameJobs.refl w
  · -- q
    split
    · exact SameJobs.refl w
    · exact ⟨rfl, rfl, rfl, rfl⟩
  · -- sq
    split
    · exact SameJobs.refl w
    · split
      · exact SameJobs.refl w
      · split
        · exact SameJobs.refl w
        · exact ⟨rfl, rfl, rfl, rfl⟩
  · -- rr
    split
    · exact SameJobs.refl w
    · split
      · exact SameJobs.refl w
      · exact ⟨rfl, rfl, rfl, rfl⟩
  · -- cu
    split
    · exact SameJobs.refl w
    · exact SameJobs.refl w

/-- what a routing attempt adds: the job, if it was handed to a worker -/
def placed (i : Nat) (r : RouteResult) (j : Job) : Nat := if r = .handled then cj i [j] else 0

theorem total_routeInner (i : Nat) (w : W) (j : Job) (hint : Option Nat) :
    total i (w.routeInner j hint).2 = total i w + placed i (w.routeInner j hint).1 j := by
  unfold W.routeInner
  have hs := chooseTargetWorker_same w j hint
  cases hc : w.chooseTargetWorker j hint with
  | mk t w1 =>
    rw [hc] at hs
    simp only at hs ⊢
    cases t with
    | none => simp [placed, hs.total i]
    | some wid =>
      simp only
      cases hg : getW w1.pool wid with
      | none => simp [placed, hs.total i]
      | some p =>
        simp only
        have he := enqueueJob_count i p w1.env j
        have hp := cPool_setW i w1.pool wid p (p.enqueueJob w1.env j).1 hg
        have ht := hs.total i
        simp only [total, placed, if_true] at ht ⊢
        omega

theorem total_routeLimited (i : Nat) (w : W) (j : Job) (hint : Option Nat) :
    total i (w.routeLimited j hint).2 = total i w + placed i (w.routeLimited j hint).1 j := by
  unfold W.routeLimited
  split
  · exact total_routeInner i w j hint
  · rename_i c lb _
    simp only
    split
    · -- rate limited
      simp only [placed]
      split
      · split
        · rw [total_availChange]; simp [total]
        · simp [total]
      · simp [total]
    · have h := total_routeInner i { w with rl := some (c, (LeakyBucket.check c lb w.env.now).1) } j hint
      cases hr : W.routeInner { w with rl := some (c, (LeakyBucket.check c lb w.env.now).1) } j hint with
      | mk r w2 =>
        rw [hr] at h
        simp only at h ⊢
        split
        · simp only [total] at h ⊢; exact h
        · exact h

theorem total_routeMessage (i : Nat) (w : W) (j : Job) (hint : Option Nat) :
    total i (w.routeMessage j hint).2 = total i w + placed i (w.routeMessage j hint).1 j := by
  unfold W.routeMessage
  have h := total_routeLimited i w j hint
  cases hr : w.routeLimited j hint with
  | mk r w2 =>
    rw [hr] at h
    simp only [total] at h ⊢
    exact h

/-! ### the factory queue -/

theorem popByPrio_count (i : Nat) {cfg : Cfg} {ps : List Nat} {q : List Job} {x : Job} {r : List Job}
    (h : popByPrio cfg ps q = some (x, r)) : cj i q = cj i [x] + cj i r := by
  have := (popByPrio_perm h).countP_eq (fun j => j.id == i)
  simp only [cj] at *
  rw [this, List.countP_cons]
  simp only [List.countP_cons, List.countP_nil]
  omega

theorem total_dropExpiredHead (i : Nat) (fuel : Nat) (w : W) : total i (W.dropExpiredHead fuel w) = total i w := by
  induction fuel generalizing w with
  | zero => rfl
  | succ fuel ih =>
    unfold W.dropExpiredHead
    split
    · split
      · split
        · rename_i j' q hp
          rw [ih]
          have := popByPrio_count i (show popByPrio w.cfg prioUp w.queue = some (j', q) from hp)
          simp only [total, cEnv_reject, cEnv_discard]
          omega
        · rfl
      · rfl
    · rfl

theorem total_routeLoop (i : Nat) (hint : Option Nat) (fuel : Nat) (w : W) :
    total i (W.routeLoop hint fuel w) = total i w := by
  induction fuel generalizing w with
  | zero => rfl
  | succ fuel ih =>
    unfold W.routeLoop
    split
    · rfl
    · rename_i j hpeek
      have hs := chooseTargetWorker_same w j hint
      cases hc : w.chooseTargetWorker j hint with
      | mk t w1 =>
        rw [hc] at hs
        simp only at hs ⊢
        cases t with
        | none => exact hs.total i
        | some worker =>
          simp only
          cases hp : qPopFront w1.cfg w1.queue with
          | none => exact hs.total i
          | some jq =>
            obtain ⟨j', q⟩ := jq
            simp only
            have hcnt := popByPrio_count i (show popByPrio w1.cfg prioUp w1.queue = some (j', q) from hp)
            have hr := total_routeMessage i { w1 with queue := q } j' (some worker)
            have ht := hs.total i
            cases hrm : W.routeMessage { w1 with queue := q } j' (some worker) with
            | mk r w2 =>
              rw [hrm] at hr
              have hr' : total i w2 = cInbox i w1.inbox + cj i q + cPool i w1.pool + cEnv i w1.env + placed i r j' := hr
              have ht' : cInbox i w1.inbox + cj i w1.queue + cPool i w1.pool + cEnv i w1.env = total i w := ht
              cases r with
              | handled =>
                simp only [placed, if_true] at hr'
                simp only [total] at hr' ht' ⊢
                omega
              | rateLimited =>
                simp only
                rw [ih]
                have hp0 : placed i RouteResult.rateLimited j' = 0 := rfl
                rw [hp0] at hr'
                simp only [total, cEnv_reject, cEnv_discard] at hr' ht' ⊢
                omega
              | backlog =>
                -- `panic!` in the source: the job is gone with the handler
                have hp0 : placed i RouteResult.backlog j' = 0 := rfl
                rw [hp0] at hr'
                have hd : cEnv i ((w2.env.emit Ev.panicked).emit (Ev.dropped j'.id)) = cEnv i w2.env + cj i [j'] := by
                  have := cEnv_discard i (w2.env.emit Ev.panicked) (h := none) .shutdown j'
                  rw [cEnv_emit _ _ _ rfl] at this
                  simpa [cEnv, Env.discard, Env.emit, cTerm, isTerm, List.countP_append, List.countP_cons] using this
                simp only [W.emit, total] at hr' ht' ⊢
                rw [hd]
                omega

theorem total_tryRoute (i : Nat) (w : W) (hint : Option Nat) : total i (w.tryRouteNextActiveJob hint) = total i w := by
  unfold W.tryRouteNextActiveJob
  rw [total_routeLoop, total_dropExpiredHead]

theorem total_shedQueueOldest (i : Nat) (limit fuel : Nat) (w : W) :
    total i (W.shedQueueOldest limit fuel w) = total i w := by
  induction fuel generalizing w with
  | zero => rfl
  | succ fuel ih =>
    unfold W.shedQueueOldest
    split
    · split
      · rename_i j q hd
        rw [ih]
        have := popByPrio_count i (show popByPrio w.cfg prioDown w.queue = some (j, q) from hd)
        simp only [total, cEnv_discard]
        omega
      · exact ih w
    · rfl

theorem total_maybeEnqueue (i : Nat) (w : W) (j : Job) : total i (w.maybeEnqueue j) = total i w + cj i [j] := by
  unfold W.maybeEnqueue
  split
  · split
    · simp only [total, cEnv_reject, cEnv_discard]; omega
    · simp only [total, cEnv_accept, cj_append, cj_port]; omega
  · rw [total_shedQueueOldest]
    simp only [total, cEnv_accept, cj_append, cj_port]; omega
  · simp only [total, cEnv_accept, cj_append, cj_port]; omega

theorem total_growOne (i : Nat) (w : W) (wid : Nat) : total i (w.growOne wid) = total i w := by
  unfold W.growOne
  split
  · rename_i p hg
    have hp := cPool_setW i w.pool wid p { p with draining := false } hg
    split
    · rw [total_availChange]; simp only [total] at hp ⊢; omega
    · simp only [total] at hp ⊢; omega
  · rw [total_availChange]
    simp only [total, cEnv_spawn]
    rw [cPool_append]
    simp only [cPool, List.map_cons, List.map_nil, List.sum_cons, List.sum_nil, cj_nil]
    omega

theorem total_foldl_range {f : W → Nat → W} (i : Nat) (hf : ∀ w k, total i (f w k) = total i w) (l : List Nat) (w : W) :
    total i (l.foldl f w) = total i w := by
  induction l generalizing w with
  | nil => rfl
  | cons a l ih => rw [List.foldl_cons, ih, hf]

theorem total_growPool (i : Nat) (w : W) (n : Nat) : total i (w.growPool n) = total i w := by
  unfold W.growPool
  exact total_foldl_range i (fun w k => total_growOne i w _) _ w

theorem isWorking_false_mq {p : WP} (h : p.isWorking = false) : p.mq = [] := by
  unfold WP.isWorking WP.isAvailable at h
  simp only [Bool.not_eq_false', Bool.and_eq_true, List.isEmpty_iff] at h
  exact h.2

theorem total_shrinkOne (i : Nat) (w : W) (wid : Nat) : total i (w.shrinkOne wid) = total i w := by
  unfold W.shrinkOne
  split
  · rename_i p hg
    split
    · have hp := cPool_setW i w.pool wid p { p with draining := true } hg
      simp only [total] at hp ⊢; omega
    · rename_i hw
      have hmq := isWorking_false_mq (by simpa using hw)
      have hs := availChange_same w wid false
      have hp := cPool_removeW i (w.availChange wid false).pool wid p (by rw [hs.2.2.1]; exact hg)
      have ht := hs.total i
      simp only [total, cEnv_stop, hmq, cj_nil] at hp ht ⊢
      omega
  · rfl

theorem total_shrinkPool (i : Nat) (w : W) (n : Nat) : total i (w.shrinkPool n) = total i w := by
  unfold W.shrinkPool
  exact total_foldl_range i (fun w k => total_shrinkOne i w _) _ w

theorem total_flushAfterGrow (i : Nat) (fuel : Nat) (w : W) : total i (W.flushAfterGrow fuel w) = total i w := by
  induction fuel generalizing w with
  | zero => rfl
  | succ fuel ih =>
    unfold W.flushAfterGrow
    simp only
    split
    · rfl
    · split
      · exact total_tryRoute i w none
      · rw [ih, total_tryRoute]

theorem total_poolSize (i : Nat) (w : W) (n : Nat) : total i { w with poolSize := n } = total i w := rfl

theorem total_resizePool (i : Nat) (w : W) (n : Nat) : total i (w.resizePool n) = total i w := by
  unfold W.resizePool
  split
  · rfl
  · simp only
    split
    · rw [total_flushAfterGrow, total_poolSize, total_growPool]
    · split
      · rw [total_poolSize, total_shrinkPool]
      · rw [total_poolSize]

theorem total_dispatch (i : Nat) (w : W) (j : Job) : total i (w.dispatch j) = total i w + cj i [j] := by
  unfold W.dispatch
  split
  · simp only [total, cEnv_reject, cEnv_discard]; omega
  · split
    · have hr := total_routeMessage i w j none
      cases hrm : w.routeMessage j none with
      | mk r w2 =>
        rw [hrm] at hr
        cases r with
        | handled => simpa [placed] using hr
        | rateLimited =>
          have hp0 : placed i RouteResult.rateLimited j = 0 := rfl
          simp only [hp0, Nat.add_zero] at hr
          simp only [total, cEnv_reject, cEnv_discard] at hr ⊢
          omega
        | backlog =>
          have hp0 : placed i RouteResult.backlog j = 0 := rfl
          simp only [hp0, Nat.add_zero] at hr
          simp only
          rw [total_maybeEnqueue, hr]
    · simp only [total, cEnv_reject, cEnv_discard]; omega

theorem total_ite (i : Nat) (c : Prop) [Decidable c] (a b : W) (t : Nat) (ha : total i a = t) (hb : total i b = t) :
    total i (if c then a else b) = t := by
  split <;> assumption

theorem total_workerFinishedJob (i : Nat) (w : W) (who key : Nat) :
    total i (w.workerFinishedJob who key) = total i w := by
  unfold W.workerFinishedJob
  split
  · rename_i p hg
    have hc := workerComplete_count i p w.env key
    have hp := cPool_setW i w.pool who p (p.workerComplete w.env key).1 hg
    have hwid : (p.workerComplete w.env key).1.wid = who := by
      rw [workerComplete_wid]; exact getW_wid hg
    have hget := getW_setW_same (p' := (p.workerComplete w.env key).1) hg hwid
    cases hwc : p.workerComplete w.env key with
    | mk p' e' =>
      rw [hwc] at hc hp hget
      simp only at hc hp hget ⊢
      split
      · split
        · rename_i hnw
          have hmq := isWorking_false_mq (p := p') (by simpa using hnw)
          have hr := cPool_removeW i (setW w.pool who p') who p' hget
          simp only [total, cEnv_stop, hmq, cj_nil] at hp hr hc ⊢
          omega
        · simp only [total] at hp ⊢; omega
      · have ht : total i { w with pool := setW w.pool who p', env := e' } = total i w := by
          simp only [total] at hp ⊢; omega
        apply total_ite
        · rw [total_availChange, total_tryRoute, ht]
        · rw [total_tryRoute, ht]
  · exact total_tryRoute i w (some who)

/-! ### expiry sweep -/

theorem cj_filter_split (i : Nat) (f : Job → Bool) (q : List Job) :
    cj i (q.filter f) + cj i (q.filter fun j => !f j) = cj i q := by
  induction q with
  | nil => rfl
  | cons j q ih =>
    cases hf : f j <;> simp [List.filter_cons, hf, cj_cons_ite] <;> omega

theorem cj_expiredInOrder (i : Nat) (cfg : Cfg) (now : Nat) (q : List Job) :
    cj i (expiredInOrder cfg now q) = cj i (q.filter fun j => j.expired now) := by
  unfold expiredInOrder prioUp
  simp only [List.flatMap_cons, List.flatMap_nil, List.append_nil, cj_append]
  induction q with
  | nil => rfl
  | cons j q ih =>
    have hlt := prioOf_lt cfg j
    have hcases : prioOf cfg j = 0 ∨ prioOf cfg j = 1 ∨ prioOf cfg j = 2 ∨ prioOf cfg j = 3 ∨ prioOf cfg j = 4 := by omega
    cases he : j.expired now
    · simp only [List.filter_cons, he, Bool.and_false, Bool.false_eq_true, if_false]
      exact ih
    · rcases hcases with h | h | h | h | h <;>
        simp [List.filter_cons, he, h, cj_cons_ite] <;> omega

theorem cEnv_foldl_discard (i : Nat) (h : Option Nat) (r : Reason) (l : List Job) (e : Env) :
    cEnv i (l.foldl (fun e j => e.discard h r j) e) = cEnv i e + cj i l := by
  induction l generalizing e with
  | nil => rfl
  | cons j l ih => rw [List.foldl_cons, ih, cEnv_discard, cj_cons i j l]; omega

theorem total_removeExpired (i : Nat) (w : W) : total i w.removeExpired = total i w := by
  unfold W.removeExpired
  split
  · have h1 := cj_filter_split i (fun j => j.expired w.env.now) w.queue
    have h2 := cj_expiredInOrder i w.cfg w.env.now w.queue
    simp only [total, cEnv_foldl_discard]
    omega
  · rfl

theorem total_calcRest (i : Nat) (w : W) : total i w.calcRest = total i w := by
  unfold W.calcRest
  exact total_removeExpired i w

theorem cPool_map_disc (i : Nat) (pool : List WP) (d : Option (Nat × Mode)) :
    cPool i (pool.map fun p => { p with disc := d }) = cPool i pool := by
  simp [cPool, List.map_map, Function.comp_def]

theorem total_setHandler (i : Nat) (w : W) (h : Option Nat) : total i (w.setHandler h) = total i w := by
  simp [W.setHandler, total, cPool, List.map_map, Function.comp_def, cEnv_emit i w.env (.installed h) rfl]

theorem total_updateSettings (i : Nat) (w : W) (d : Option (Option (Nat × Mode))) (n : Option Nat) :
    total i (w.updateSettings d n) = total i w := by
  unfold W.updateSettings
  have h1 : total i (match d with
      | some d => { w with pool := w.pool.map (fun p => { p with disc := w.workerDiscard d }), disc := d }
      | none => w) = total i w := by
    cases d with
    | none => rfl
    | some d => simp only [total, cPool_map_disc]
  cases n with
  | none => exact h1
  | some n => simp only; rw [total_resizePool]; exact h1

theorem total_retire (i : Nat) (w w' : W) (wid : Nat) (h : w.retireIdleDrainingWorker wid = some w') :
    total i w' = total i w := by
  unfold W.retireIdleDrainingWorker at h
  split at h
  · rename_i p hg
    split at h
    · rename_i hc
      simp only [Option.some.injEq] at h
      subst h
      have hnw : p.isWorking = false := by
        simp only [Bool.and_eq_true, Bool.not_eq_true'] at hc; exact hc.2
      have hmq := isWorking_false_mq hnw
      have hr := cPool_removeW i w.pool wid p hg
      simp only [total, cEnv_stop, hmq, cj_nil] at hr ⊢
      omega
    · simp at h
  · simp at h

theorem total_afterReplace (i : Nat) (w : W) (wid : Nat) : total i (w.afterReplace wid) = total i w := by
  unfold W.afterReplace
  cases hret : w.retireIdleDrainingWorker wid with
  | some w2 => exact total_retire i w w2 wid hret
  | none =>
    simp only
    apply total_ite
    · rw [total_availChange, total_tryRoute]
    · rw [total_tryRoute]

theorem total_handleSupervisorEvt (i : Nat) (w : W) (who : Nat) : total i (w.handleSupervisorEvt who) = total i w := by
  unfold W.handleSupervisorEvt
  split
  · rfl
  · rename_i wid _
    split
    · rfl
    · rename_i p hg
      simp only
      have hc := replaceWorker_count i p (w.env.spawn wid w.nextAid) w.nextAid
      have hp := cPool_setW i w.pool wid p (p.replaceWorker (w.env.spawn wid w.nextAid) w.nextAid).1 hg
      cases hrw : p.replaceWorker (w.env.spawn wid w.nextAid) w.nextAid with
      | mk p' e' =>
        rw [hrw] at hc hp
        simp only at hc hp ⊢
        rw [cEnv_spawn] at hc
        rw [total_afterReplace]
        simp only [total] at hp ⊢; omega

/-! ### `post_stop` -/

theorem cEnv_foldl_add (i : Nat) (f : Env → Job → Env) (hf : ∀ e j, cEnv i (f e j) = cEnv i e + cj i [j])
    (l : List Job) (e : Env) : cEnv i (l.foldl f e) = cEnv i e + cj i l := by
  induction l generalizing e with
  | nil => rfl
  | cons j l ih => rw [List.foldl_cons, ih, hf, cj_cons i j l]; omega

theorem cEnv_dropped (i : Nat) (e : Env) (j : Job) : cEnv i (e.emit (.dropped j.id)) = cEnv i e + cj i [j] := by
  have := cEnv_discard i e (h := none) .shutdown j
  simpa [cEnv, Env.discard, Env.emit, cTerm, isTerm, List.countP_append, List.countP_cons] using this

theorem cEnv_abandoned (i : Nat) (e : Env) (j : Job) : cEnv i (e.emit (.abandoned j.id)) = cEnv i e + cj i [j] := by
  have := cEnv_discard i e (h := none) .shutdown j
  simpa [cEnv, Env.discard, Env.emit, cTerm, isTerm, List.countP_append, List.countP_cons] using this

theorem cEnv_dropMsg (i : Nat) (e : Env) (m : FMsg) : cEnv i (e.dropMsg m) = cEnv i e + cInbox i [m] := by
  cases m with
  | dispatch j =>
    have hd : cInbox i [FMsg.dispatch j] = cj i [j] := by
      cases h : (j.id == i) <;> simp [cInbox, List.countP_cons, isDispatchOf, cj, h]
    rw [hd]
    show cEnv i (if j.port then (e.emit (.dropped j.id)).emit (.portClosed j.id) else e.emit (.dropped j.id)) = _
    cases j.port
    · simp only [Bool.false_eq_true, if_false]; rw [cEnv_dropped]
    · simp only [if_true]; rw [cEnv_emit _ _ _ rfl, cEnv_dropped]
  | _ => simp [Env.dropMsg, cInbox, List.countP_cons, isDispatchOf]

theorem cInbox_cons (i : Nat) (m : FMsg) (ms : List FMsg) : cInbox i (m :: ms) = cInbox i [m] + cInbox i ms := by
  simp only [cInbox, List.countP_cons, List.countP_nil]; omega

theorem cInbox_append (i : Nat) (a b : List FMsg) : cInbox i (a ++ b) = cInbox i a + cInbox i b := by
  simp [cInbox, List.countP_append]

theorem cEnv_foldl_dropMsg (i : Nat) (inbox : List FMsg) (e : Env) :
    cEnv i (inbox.foldl Env.dropMsg e) = cEnv i e + cInbox i inbox := by
  induction inbox generalizing e with
  | nil => simp [cInbox]
  | cons m ms ih => rw [List.foldl_cons, ih, cEnv_dropMsg, cInbox_cons i m ms]; omega

theorem total_postStop (i : Nat) (w : W) : total i w.postStop = total i w := by
  unfold W.postStop
  simp only
  have h1 : ∀ e : Env, cEnv i (w.queue.foldl (Env.dropQueued w.handler) e) = cEnv i e + cj i w.queue := by
    intro e
    apply cEnv_foldl_add
    intro e j
    unfold Env.dropQueued
    split
    · exact cEnv_discard i e _ j
    · exact cEnv_abandoned i e j
  have h2 : ∀ (pool : List WP) (e : Env), cEnv i (pool.foldl Env.dropWorkerQueue e) = cEnv i e + cPool i pool := by
    intro pool
    induction pool with
    | nil => intro e; simp [cPool]
    | cons p ps ih =>
      intro e
      rw [List.foldl_cons, ih]
      unfold Env.dropWorkerQueue
      rw [cEnv_foldl_add i _ (fun e j => cEnv_abandoned i e j)]
      simp only [cPool, List.map_cons, List.sum_cons]
      omega
  have h3 : ∀ (pool : List WP) (e : Env), cEnv i (pool.foldl (fun e p => e.stop p.actor) e) = cEnv i e := by
    intro pool
    induction pool with
    | nil => intro e; rfl
    | cons p ps ih => intro e; rw [List.foldl_cons, ih, cEnv_stop]
  have h5 : cPool i ([] : List WP) = 0 := rfl
  have hsup : ∀ (e : Env) (s : List Nat), cEnv i { e with sup := s } = cEnv i e := fun _ _ => rfl
  simp only [total, h5, cj_nil]
  rw [hsup, h3, h2, h1]
  omega

theorem total_tryFinishStop (i : Nat) (w : W) : total i w.tryFinishStop = total i w := by
  unfold W.tryFinishStop
  split
  · have hsup : ∀ (e : Env) (s : List Nat), cEnv i { e with sup := s } = cEnv i e := fun _ _ => rfl
    simp only [total]
    rw [hsup, cEnv_killAll, cEnv_foldl_dropMsg, cEnv_emit _ _ _ rfl]
    simp only [cInbox, List.countP_nil]
    omega
  · rfl

/-! ### the factory actor's loop -/

theorem total_emit (i : Nat) (w : W) (ev : Ev) (h : isTerm i ev = false) : total i (w.emit ev) = total i w := by
  simp only [total, W.emit, cEnv_emit i w.env ev h]

theorem total_handleMsg (i : Nat) (w : W) (m : FMsg) : total i (w.handleMsg m) = total i w + cInbox i [m] := by
  have h0 : ∀ m', isDispatchOf i m' = false → cInbox i [m'] = 0 := by
    intro m' h; simp [cInbox, List.countP_cons, h]
  cases m with
  | dispatch j =>
    have hd : cInbox i [FMsg.dispatch j] = cj i [j] := by
      cases h : (j.id == i) <;> simp [cInbox, List.countP_cons, isDispatchOf, cj, h]
    rw [hd]; exact total_dispatch i w j
  | finished who key => rw [h0 _ rfl]; exact total_workerFinishedJob i w who key
  | adjust n => rw [h0 _ rfl]; exact total_resizePool i w n
  | updateSettings d n => rw [h0 _ rfl]; exact total_updateSettings i w d n
  | setHandler h => rw [h0 _ rfl]; exact total_setHandler i w h
  | drainRequests => rw [h0 _ rfl]; exact total_emit i _ _ rfl
  | calculate =>
    rw [h0 _ rfl]
    show total i (if w.cfg.hasCC && w.armed then { w with armed := false, blocked := true } else w.calcRest) = _
    split
    · rfl
    · exact total_calcRest i w
  | getQueueDepth => rw [h0 _ rfl]; rfl
  | getNumActiveWorkers => rw [h0 _ rfl]; rfl
  | getAvailableCapacity => rw [h0 _ rfl]; rfl

theorem isDrained_same (w : W) : SameJobs w w.isDrained.2 := by
  unfold W.isDrained
  split
  · exact SameJobs.refl w
  · exact SameJobs.refl w
  · split
    · exact ⟨rfl, rfl, rfl, rfl⟩
    · exact SameJobs.refl w

theorem total_afterHandle (i : Nat) (w : W) : total i w.afterHandle = total i w := by
  unfold W.afterHandle
  split
  · rfl
  · have hs := isDrained_same w
    cases hd : w.isDrained with
    | mk d w2 =>
      rw [hd] at hs
      simp only at hs ⊢
      split
      · have := hs.total i
        simp only [total] at this ⊢; exact this
      · exact hs.total i

theorem total_loopStep (i : Nat) (w w' : W) (h : w.loopStep = some w') : total i w' = total i w := by
  unfold W.loopStep at h
  split at h
  · simp at h
  · split at h
    · simp only [Option.some.injEq] at h; subst h; exact total_postStop i w
    · split at h
      · rename_i who rest hs
        simp only [Option.some.injEq] at h; subst h
        rw [total_handleSupervisorEvt]
        rfl
      · split at h
        · rename_i m rest hi
          simp only [Option.some.injEq] at h; subst h
          rw [total_afterHandle, total_handleMsg]
          simp only [total, hi, cInbox_cons i m rest]
          omega
        · simp at h

theorem total_runQ (i : Nat) (fuel : Nat) (w : W) : total i (W.runQ fuel w) = total i w := by
  induction fuel generalizing w with
  | zero => rfl
  | succ fuel ih =>
    unfold W.runQ
    cases hl : w.loopStep with
    | some w' => simp only; rw [ih, total_loopStep i w w' hl]
    | none =>
      simp only
      have hs : total i (W.tryFinishStop { w with env := w.env.settle }) = total i w := by
        rw [total_tryFinishStop]
        simp only [total, cEnv_settle]
      split
      · exact hs
      · rw [ih, hs]

theorem total_send (i : Nat) (w : W) (m : FMsg) (h : isDispatchOf i m = false) : total i (w.send m) = total i w := by
  unfold W.send
  split
  · rfl
  · simp [total, cInbox_append, cInbox, List.countP_cons, h]

theorem total_setNow (i : Nat) (w : W) (t : Nat) : total i (w.setNow t) = total i w := rfl

theorem total_advanceTo (i : Nat) (t fuel : Nat) (w : W) : total i (W.advanceTo t fuel w) = total i w := by
  induction fuel generalizing w with
  | zero => rfl
  | succ fuel ih =>
    unfold W.advanceTo
    split
    · simp only
      rw [ih, total_runQ, total_send _ _ _ rfl]
      rfl
    · rfl

theorem total_finish (i : Nat) (w : W) (aid : Nat) (ok : Bool) : total i (w.finish aid ok) = total i w := by
  unfold W.finish
  cases ha : w.env.getActor aid with
  | none => rfl
  | some a =>
    simp only
    cases hr : a.running with
    | none => rfl
    | some j =>
      simp only
      split
      · rfl
      · split
        · simp only [total, cEnv_die]
          rw [cEnv_emit _ _ _ rfl]
        · -- the handler returned Ok
          have haid := getActor_aid ha
          have hsend : ∀ w0 : W, (w0.send (.finished a.wid j.key)).env = w0.env := by
            intro w0; unfold W.send; split <;> rfl
          have hsendt := total_send i { w with env := (w.env.emit (.finishOk aid)).emit (.handled aid j.id) }
            (.finished a.wid j.key) rfl
          generalize hw1 : W.send { w with env := (w.env.emit (.finishOk aid)).emit (.handled aid j.id) }
            (.finished a.wid j.key) = w1 at hsendt
          have henv : w1.env = (w.env.emit (.finishOk aid)).emit (.handled aid j.id) := by
            rw [← hw1, hsend]
          have hget : w1.env.getActor ({ a with running := none } : Actor).aid = some a := by
            rw [henv]; simpa [Env.getActor, haid] using ha
          have hset := cEnv_setActor i w1.env a { a with running := none } hget
          have hh : cEnv i ((w.env.emit (.finishOk aid)).emit (.handled aid j.id)) = cEnv i w.env + cj i [j] := by
            have := cEnv_discard i (w.env.emit (.finishOk aid)) (h := none) .shutdown j
            rw [cEnv_emit _ _ _ rfl] at this
            simpa [cEnv, Env.discard, Env.emit, cTerm, isTerm, List.countP_append, List.countP_cons] using this
          have h1 : cEnv i w1.env = cEnv i w.env + cj i [j] := by rw [henv]; exact hh
          simp only [total, cEnv_settleOne] at hsendt ⊢
          simp only [Actor.heldJobs, hr, cj_append, cj_nil] at hset
          rw [hh] at hsendt
          omega

/-- occurrences of job `i` an accepted `dispatch` op adds -/
def opAdds (i : Nat) (w : W) : Op → Nat
  | .dispatch id _ _ _ _ => if w.stopped then 0 else (if id == i then 1 else 0)
  | _ => 0

theorem total_applyOp (i : Nat) (w : W) (op : Op) : total i (w.applyOp op) = total i w + opAdds i w op := by
  cases op with
  | dispatch id key hash ttl acc =>
    simp only [W.applyOp, opAdds]
    split
    · rfl
    · rename_i hs
      unfold W.send
      have hs' : (w.emit (.dispatched id key acc)).stopped = w.stopped := rfl
      simp only [hs', hs, Bool.false_eq_true, if_false]
      have := total_emit i w (.dispatched id key acc) rfl
      simp only [total, cInbox_append] at this ⊢
      have hd : cInbox i [FMsg.dispatch { id := id, key := key, hash := hash, expiry := ttl.map (w.env.now + ·), port := acc }]
          = if id == i then 1 else 0 := by
        cases h : (id == i) <;> simp [cInbox, List.countP_cons, isDispatchOf, h]
      simp only [W.emit] at this ⊢
      rw [hd]
      omega
  | finish aid ok => simp only [W.applyOp, opAdds, Nat.add_zero]; exact total_finish i w aid ok
  | kill aid =>
    simp only [W.applyOp, opAdds, Nat.add_zero, total, cEnv_die]
    rw [cEnv_emit _ _ _ rfl]
  | resize n =>
    simp only [W.applyOp, opAdds, Nat.add_zero]
    rw [total_send _ _ _ rfl, total_emit _ _ _ rfl]
  | settings d n =>
    simp only [W.applyOp, opAdds, Nat.add_zero]
    rw [total_send _ _ _ rfl]
    cases d with
    | none =>
      cases n with
      | none => rfl
      | some n => exact total_emit i w _ rfl
    | some d =>
      cases n with
      | none => exact total_emit i w _ rfl
      | some n => simp only; rw [total_emit _ _ _ rfl]; exact total_emit i w _ rfl
  | drain =>
    simp only [W.applyOp, opAdds, Nat.add_zero]
    rw [total_send _ _ _ rfl, total_emit _ _ _ rfl]
  | setHandler h =>
    simp only [W.applyOp, opAdds, Nat.add_zero]
    rw [total_send _ _ _ rfl, total_emit _ _ _ rfl]
  | advance => rfl
  | block => rfl
  | release n =>
    simp only [W.applyOp, opAdds, Nat.add_zero]
    split
    · rw [total_afterHandle, total_calcRest]
      split
      · rw [total_resizePool]; exact total_emit i w _ rfl
      · exact total_emit i w _ rfl
    · rfl
  | nop => rfl

theorem total_ask (i : Nat) (w : W) (m : FMsg) (h : isDispatchOf i m = false) : total i (w.ask m) = total i w := by
  unfold W.ask
  split
  · rfl
  · simp only
    split
    · show total i (W.runQ RUN_FUEL (w.send m)) = _
      rw [total_runQ, total_send _ _ _ h]
    · rw [total_runQ, total_send _ _ _ h]

theorem total_queries (i : Nat) (w : W) : total i w.queries = total i w := by
  unfold W.queries
  split
  · rfl
  · rw [total_ask _ _ _ rfl, total_ask _ _ _ rfl, total_ask _ _ _ rfl]
    rfl

/-- the world right before the op of a step is applied -/
def W.atOp (w : W) (t0 : Nat) : W := W.advanceTo t0 (advanceFuel w t0) w

theorem total_stepOp (i : Nat) (w : W) (op : Op) (t0 tq te : Nat) :
    total i (w.stepOp op t0 tq te) = total i w + opAdds i (w.atOp t0) op := by
  unfold W.stepOp
  simp only
  rw [total_emit _ _ _ rfl]
  show total i (W.advanceTo te _ _) = _
  rw [total_advanceTo, total_queries, total_advanceTo, total_runQ, total_applyOp, W.atOp, total_advanceTo]

/-! ### whole runs -/

/-- number of accepted `dispatch` ops with id `i` along a run (a stopped factory accepts nothing) -/
def accepted (i : Nat) : W → List Step → Nat
  | _, [] => 0
  | w, s :: rest => opAdds i (w.atOp s.t0) s.op + accepted i (w.stepOp s.op s.t0 s.tq s.te) rest

theorem total_runSteps (i : Nat) (w : W) (steps : List Step) :
    total i (w.runSteps steps) = total i w + accepted i w steps := by
  induction steps generalizing w with
  | nil => rfl
  | cons s rest ih =>
    simp only [W.runSteps, accepted]
    rw [ih, total_stepOp]
    omega

theorem total_init (i : Nat) (c : CaseCfg) : total i (init c) = 0 := by
  unfold init
  simp only
  rw [total_emit _ _ _ rfl, total_poolSize, total_growPool]
  simp [total, cInbox, cj, cPool, cEnv, cActors, cTerm]

def isDispatchOp (i : Nat) : Step → Bool
  | ⟨.dispatch id _ _ _ _, _, _, _⟩ => id == i
  | _ => false

theorem opAdds_le (i : Nat) (w : W) (s : Step) : opAdds i w s.op ≤ if isDispatchOp i s then 1 else 0 := by
  obtain ⟨op, t0, tq, te⟩ := s
  cases op <;> simp only [opAdds, isDispatchOp] <;> (try split) <;> (try split) <;> simp_all

theorem accepted_le (i : Nat) (w : W) (steps : List Step) : accepted i w steps ≤ steps.countP (isDispatchOp i) := by
  induction steps generalizing w with
  | nil => simp [accepted]
  | cons s rest ih =>
    simp only [accepted, List.countP_cons]
    have := opAdds_le i (w.atOp s.t0) s
    have := ih (w.stepOp s.op s.t0 s.tq s.te)
    omega

end Factory
