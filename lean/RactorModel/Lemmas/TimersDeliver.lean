import RactorModel.Lemmas.TimersDrop

/-! Round 4 (audit): delivery-level at-most-once — no message is in the mailbox or handled twice. -/

namespace Timers

theorem nodupB_iff (l : List (Nat × Nat)) : nodupB l = true ↔ l.Nodup := by
  induction l with
  | nil => simp [nodupB]
  | cons x xs ih =>
    simp only [nodupB, Bool.and_eq_true, Bool.not_eq_true', List.nodup_cons, ih]
    constructor
    · intro ⟨a, b⟩
      refine ⟨fun hm => ?_, b⟩
      have := List.contains_iff_mem.mpr hm
      rw [this] at a; cases a
    · intro ⟨a, b⟩
      refine ⟨?_, b⟩
      cases hc : xs.contains x with
      | false => rfl
      | true => exact absurd (List.contains_iff_mem.mp hc) a

/-- ids of the messages accepted and not yet handled, then of the handled ones -/
def Target.ids (T : Target) : List (Nat × Nat) := T.mbox ++ T.handled.map (fun h => (h.1, h.2.1))

/-! ### what one poll adds to the mailbox -/

structure MExt (id n0 : Nat) (T0 : Target) (x : Timer × Target) : Prop where
  len : n0 ≤ x.1.sentAt.length
  closed : x.2.closedAt = T0.closedAt
  ext : ∃ l, x.2.mbox = T0.mbox ++ l ∧ l.Nodup ∧
    (∀ m ∈ l, m.1 = id ∧ n0 < m.2 ∧ m.2 ≤ x.1.sentAt.length) ∧ (T0.closedAt ≠ none → l = [])

theorem MExt.of_same {id n0 : Nat} {T0 : Target} {x y : Timer × Target} (h : MExt id n0 T0 x)
    (hle : x.1.sentAt.length ≤ y.1.sentAt.length) (hm : y.2.mbox = x.2.mbox)
    (hc : y.2.closedAt = x.2.closedAt) : MExt id n0 T0 y := by
  obtain ⟨l, e, nd, b, c⟩ := h.ext
  exact ⟨Nat.le_trans h.len hle, hc.trans h.closed,
    l, hm.trans e, nd, fun m hmm => ⟨(b m hmm).1, (b m hmm).2.1, Nat.le_trans (b m hmm).2.2 hle⟩, c⟩

theorem MExt.push {id n0 now : Nat} {T0 T : Target} {τ τ' : Timer} (h : MExt id n0 T0 (τ, T))
    (hacc : τ.canSend T = true) (hs : τ'.sentAt = τ.sentAt ++ [now]) :
    MExt id n0 T0 (τ', T.push (id, τ.sentAt.length + 1)) := by
  obtain ⟨l, e, nd, b, c⟩ := h.ext
  have hlen : τ'.sentAt.length = τ.sentAt.length + 1 := by rw [hs]; simp
  have hl : n0 ≤ τ.sentAt.length := h.len
  have hcl : T.closedAt = T0.closedAt := h.closed
  have hnone : T.closedAt = none := by simpa [Target.accepts] using canSend_accepts hacc
  refine ⟨by show n0 ≤ τ'.sentAt.length; omega, hcl, l ++ [(id, τ.sentAt.length + 1)], ?_, ?_, ?_, ?_⟩
  · show T.mbox ++ [(id, τ.sentAt.length + 1)] = T0.mbox ++ (l ++ [(id, τ.sentAt.length + 1)])
    have e' : T.mbox = T0.mbox ++ l := e
    rw [e', List.append_assoc]
  · rw [List.nodup_append]
    refine ⟨nd, by simp, ?_⟩
    intro a ha x hx
    simp only [List.mem_singleton] at hx
    subst hx
    intro heq
    have := (b a ha).2.2
    have h2 : a.2 ≤ τ.sentAt.length := this
    rw [heq] at h2
    have h3 : τ.sentAt.length + 1 ≤ τ.sentAt.length := h2
    omega
  · intro m hm
    simp only [List.mem_append, List.mem_singleton] at hm
    show m.1 = id ∧ n0 < m.2 ∧ m.2 ≤ τ'.sentAt.length
    rcases hm with hm | rfl
    · have := b m hm
      have h3 : m.2 ≤ τ.sentAt.length := this.2.2
      exact ⟨this.1, this.2.1, by omega⟩
    · exact ⟨rfl, by simp; omega, by simp; omega⟩
  · intro hne
    rw [← hcl, hnone] at hne
    exact absurd rfl hne

theorem Micro.mext {now id n0 : Nat} {T0 : Target} {x y : Timer × Target} (m : Micro now id x y)
    (h : MExt id n0 T0 x) : MExt id n0 T0 y := by
  have hle := m.le.length_le
  cases m with
  | arm τ T _ _ _ => exact h.of_same hle rfl rfl
  | panic τ T _ _ _ => exact h.of_same hle rfl rfl
  | prime τ T a _ _ _ _ _ => exact h.of_same hle rfl rfl
  | primeHead τ T a _ _ _ _ _ => exact h.of_same hle rfl rfl
  | ivFail τ T a _ _ _ _ _ => exact h.of_same hle rfl rfl
  | ivHead τ T _ _ _ _ => exact h.of_same hle rfl rfl
  | saErr τ T a _ _ _ _ _ => exact h.of_same hle rfl rfl
  | ivSend τ T a hp hk ha hd hacc => exact h.push hacc rfl
  | saOk τ T a hp hk ha hd hacc => exact h.push hacc rfl
  | exit τ T a hp hk ha hd => exact h.of_same hle (by simp) (by simp)
  | kill τ T a hp hk ha hd => exact h.of_same hle (by simp) (by simp)

theorem fireOne_mext (now id : Nat) (τ : Timer) (T : Target) :
    MExt id τ.sentAt.length T (fireOne now id τ T) :=
  fireOne_ind now id (fun x => MExt id τ.sentAt.length T x) (fun _ _ m hx => m.mext hx) τ T
    ⟨Nat.le_refl _, rfl, [], by simp, List.nodup_nil, by simp, fun _ => rfl⟩

/-! ### the delivery invariant -/

structure DInv (s : State) : Prop where
  nodup : s.target.ids.Nodup
  exit_mbox : s.target.exit ≠ none → s.target.mbox = []

theorem DInv.init : DInv init := ⟨List.nodup_nil, fun _ => rfl⟩

theorem handledOk_spec {s : State} {h : Nat × Nat × Nat} (hh : handledOk s h = true) :
    ∃ τ, s.timers[h.1]? = some τ ∧ τ.kind.sends = true ∧ 1 ≤ h.2.1 ∧
      ∃ t, τ.sentAt[h.2.1 - 1]? = some t ∧ t ≤ h.2.2 := by
  unfold handledOk at hh
  cases hτ : s.timers[h.1]? with
  | none => simp [hτ] at hh
  | some τ =>
    simp only [hτ, Bool.and_eq_true, decide_eq_true_eq] at hh
    obtain ⟨⟨h1, h2⟩, h3⟩ := hh
    cases ht : τ.sentAt[h.2.1 - 1]? with
    | none => simp [ht] at h3
    | some t =>
      simp only [ht, decide_eq_true_eq] at h3
      exact ⟨τ, rfl, h1, h2, t, ht, h3⟩

/-- every message in flight or handled is one of the attempts its timer has made so far -/
theorem Inv.ids_bound {s : State} (h : Inv s) : ∀ m ∈ s.target.ids, ∀ τ, s.timers[m.1]? = some τ →
    m.2 ≤ τ.sentAt.length := by
  intro m hm τ hτ
  simp only [Target.ids, List.mem_append, List.mem_map] at hm
  rcases hm with hm | ⟨hd, hhd, rfl⟩
  · obtain ⟨τ', e, _, _, hle⟩ := h.mbox_ok m hm
    rw [hτ] at e; cases e; exact hle
  · obtain ⟨τ', e, _, h1, t, ht, _⟩ := handledOk_spec (h.handled_ok hd hhd)
    have e' : s.timers[hd.1]? = some τ := hτ
    rw [e'] at e; cases e
    have hlt : hd.2.1 - 1 < τ.sentAt.length := by
      rcases Nat.lt_or_ge (hd.2.1 - 1) τ.sentAt.length with h' | h'
      · exact h'
      · rw [List.getElem?_eq_none h'] at ht; cases ht
    show hd.2.1 ≤ τ.sentAt.length
    omega

theorem ids_exitWith (T : Target) (r : Reason) (now : Nat) :
    (T.exitWith r now).ids = T.handled.map (fun h => (h.1, h.2.1)) := by
  simp [Target.ids, Target.exitWith]

theorem ids_endLoop (T : Target) (r : Reason) (now : Nat) :
    (T.endLoop r now).ids = T.handled.map (fun h => (h.1, h.2.1)) := by
  unfold Target.endLoop
  split
  · simp [Target.ids]
  · exact ids_exitWith T r now

theorem mbox_endLoop (T : Target) (r : Reason) (now : Nat) : (T.endLoop r now).mbox = [] := by
  unfold Target.endLoop
  split <;> simp [Target.exitWith]

theorem hmap_sub (T : Target) : (T.handled.map (fun h => (h.1, h.2.1))).Sublist T.ids :=
  List.sublist_append_right _ _

theorem untag (l : List (Nat × Nat)) (now : Nat) :
    (l.map (fun m => (m.1, m.2, now))).map (fun h => (h.1, h.2.1)) = l := by
  rw [List.map_map]
  have : ((fun h : Nat × Nat × Nat => (h.1, h.2.1)) ∘ fun m : Nat × Nat => (m.1, m.2, now)) = id := by
    funext m; rfl
  rw [this, List.map_id]

theorem moved_nodup (T : Target) (now : Nat) (h : T.ids.Nodup) (l : List (Nat × Nat)) (hl : l.Sublist T.mbox) :
    ((T.handled ++ l.map (fun m => (m.1, m.2, now))).map (fun h => (h.1, h.2.1))).Nodup := by
  rw [List.map_append, untag]
  have h2 : (T.handled.map (fun h => (h.1, h.2.1)) ++ T.mbox).Nodup := List.Perm.nodup List.perm_append_comm h
  exact (List.Sublist.append_left hl _).nodup h2

theorem run_cases (T : Target) (now : Nat) :
    T.run now = T ∨ ((T.run now).mbox = [] ∧ ∃ l : List (Nat × Nat), l.Sublist T.mbox ∧
      (T.run now).handled = T.handled ++ l.map (fun m => (m.1, m.2, now))) := by
  unfold Target.run
  split
  · exact .inl rfl
  split
  · exact .inr ⟨rfl, [], List.nil_sublist _, by simp [Target.exitWith]⟩
  split
  · exact .inl rfl
  split
  · exact .inl rfl
  split
  · right; unfold Target.endLoop; split <;> exact ⟨rfl, [], List.nil_sublist _, by simp [Target.exitWith]⟩
  · right
    split
    · exact ⟨rfl, _, List.take_sublist _ _, rfl⟩
    · dsimp only
      split
      · unfold Target.endLoop; split <;> exact ⟨rfl, _, List.Sublist.refl _, rfl⟩
      · exact ⟨rfl, _, List.Sublist.refl _, rfl⟩

theorem DInv.run {T : Target} (now : Nat) (hn : T.ids.Nodup) (hx : T.exit ≠ none → T.mbox = []) :
    (T.run now).ids.Nodup ∧ ((T.run now).exit ≠ none → (T.run now).mbox = []) := by
  have hsub : (T.handled.map (fun h => (h.1, h.2.1))).Nodup := (hmap_sub T).nodup hn
  rcases run_cases T now with e | ⟨em, l, hl, eh⟩
  · rw [e]; exact ⟨hn, hx⟩
  · refine ⟨?_, fun _ => em⟩
    unfold Target.ids; rw [em, eh, List.nil_append]; exact moved_nodup T now hn l hl

theorem DInv.step {s : State} (h : DInv s) (hi : Inv s) (op : Op) : DInv (Timers.step s op) := by
  cases op with
  | create k p => exact ⟨h.nodup, h.exit_mbox⟩
  | createX k p => exact ⟨h.nodup, h.exit_mbox⟩
  | tick d => exact ⟨h.nodup, h.exit_mbox⟩
  | mark => exact ⟨h.nodup, h.exit_mbox⟩
  | dropHandle i => exact ⟨h.nodup, h.exit_mbox⟩
  | fail =>
    have e : Timers.step s .fail = { s with target := s.target.poisonMsg } := rfl
    rw [e]
    unfold Target.poisonMsg
    split <;> exact ⟨h.nodup, h.exit_mbox⟩
  | abort i =>
    cases hτ : s.timers[i]? with
    | none => rw [step_abort_none hτ]; exact h
    | some τ => rw [step_abort_some hτ]; split <;> exact ⟨h.nodup, h.exit_mbox⟩
  | stop =>
    have e : (Timers.step s .stop).target.ids = s.target.ids := by simp [Timers.step, Target.ids]
    exact ⟨by rw [e]; exact h.nodup, by simpa [Timers.step] using h.exit_mbox⟩
  | kill =>
    have e : (Timers.step s .kill).target.ids = s.target.ids := by simp [Timers.step, Target.ids]
    exact ⟨by rw [e]; exact h.nodup, by simpa [Timers.step] using h.exit_mbox⟩
  | drain =>
    have e : Timers.step s .drain = { s with target := s.target.drain s.now } := rfl
    rw [e]
    unfold Target.drain
    split
    · exact ⟨h.nodup, h.exit_mbox⟩
    · exact ⟨h.nodup, h.exit_mbox⟩
  | hold => exact ⟨h.nodup, h.exit_mbox⟩
  | startHold => exact ⟨h.nodup, h.exit_mbox⟩
  | started => exact ⟨h.nodup, h.exit_mbox⟩
  | psrelease =>
    have e : Timers.step s .psrelease = { s with target := s.target.release s.now } := rfl
    rw [e]
    unfold Target.release
    split
    · exact ⟨by
        show (Target.exitWith _ _ _).ids.Nodup
        rw [ids_exitWith]; exact (hmap_sub s.target).nodup h.nodup, fun _ => rfl⟩
    · exact ⟨h.nodup, h.exit_mbox⟩
  | target =>
    have e : Timers.step s .target = { s with target := s.target.run s.now } := rfl
    rw [e]
    obtain ⟨a, b⟩ := DInv.run s.now h.nodup h.exit_mbox
    exact ⟨a, b⟩
  | fire i =>
    cases hτ : s.timers[i]? with
    | none => rw [step_fire_none hτ]; exact h
    | some τ =>
      rw [step_fire_some hτ]
      have hm : τ ∈ s.timers := List.mem_iff_getElem?.mpr ⟨i, hτ⟩
      obtain ⟨_, _, hf⟩ := fireOne_spec s.now i τ s.target hi.closed_le (hi.tinv τ hm)
      have hx := fireOne_mext s.now i τ s.target
      generalize fireOne s.now i τ s.target = r at hf hx
      obtain ⟨l, e, nd, b, c⟩ := hx.ext
      refine ⟨?_, ?_⟩
      · show (r.2.mbox ++ r.2.handled.map (fun h => (h.1, h.2.1))).Nodup
        rw [e, hf.handled]
        have hn := h.nodup
        unfold Target.ids at hn
        rw [List.nodup_append] at hn
        obtain ⟨n1, n2, n3⟩ := hn
        have hbound := hi.ids_bound
        have fresh : ∀ x ∈ s.target.ids, ∀ y ∈ l, x ≠ y := by
          intro x hx' y hy heq
          obtain ⟨y1, y2, _⟩ := b y hy
          have := hbound x hx' τ (by rw [heq, y1]; exact hτ)
          rw [heq] at this
          omega
        rw [List.nodup_append]
        refine ⟨?_, n2, ?_⟩
        · rw [List.nodup_append]
          exact ⟨n1, nd, fun a ha y hy => fresh a (by simp [Target.ids, ha]) y hy⟩
        · intro a ha y hy
          simp only [List.mem_append] at ha
          rcases ha with ha | ha
          · exact n3 a ha y hy
          · exact (fresh y (by unfold Target.ids; exact List.mem_append_right _ hy) a ha).symm
      · intro hne
        show r.2.mbox = []
        rw [hf.exit] at hne
        have h0 := h.exit_mbox hne
        cases hex : s.target.exit with
        | none => exact absurd hex hne
        | some x =>
          obtain ⟨rr, te⟩ := x
          obtain ⟨_, ⟨tc, hc, _⟩, _⟩ := hi.exit_ok rr te hex
          have := c (by rw [hc]; simp)
          rw [e, h0, this]; rfl

theorem DInv.steps {s : State} (h : DInv s) (hi : Inv s) (ops : List Op) : DInv (Timers.steps s ops) := by
  induction ops generalizing s with
  | nil => exact h
  | cons op ops ih => exact ih (h.step hi op) (hi.step op)

theorem ok2_of_inv {s : State} (hi : Inv s) (hd : DInv s) : ok2 s = true := by
  unfold Timers.ok2 deliveredOk
  rw [hi.ok1, Bool.true_and, Bool.and_eq_true, nodupB_iff]
  refine ⟨(hmap_sub s.target).nodup hd.nodup, ?_⟩
  cases he : s.target.exit with
  | none => rfl
  | some x =>
    have := hd.exit_mbox (by rw [he]; simp)
    simp [this]

theorem delivered' {s : State} (hi : Inv s) (hd : DInv s) :
    (s.target.mbox ++ s.target.handled.map (fun h => (h.1, h.2.1))).Nodup ∧
    (∀ h ∈ s.target.handled, ∃ τ, s.timers[h.1]? = some τ ∧ τ.kind.sends = true ∧ 1 ≤ h.2.1 ∧
        ∃ t, τ.sentAt[h.2.1 - 1]? = some t ∧ t ≤ h.2.2) ∧
    (s.target.exit ≠ none → s.target.mbox = []) :=
  ⟨hd.nodup, fun h hh => handledOk_spec (hi.handled_ok h hh), hd.exit_mbox⟩

theorem filter_le_one {α β} [DecidableEq β] (f : α → β) (l : List α) (p : α → Bool) (c : β)
    (hn : (l.map f).Nodup) (hc : ∀ x ∈ l, p x = true → f x = c) : (l.filter p).length ≤ 1 := by
  induction l with
  | nil => simp
  | cons x xs ih =>
    simp only [List.map_cons, List.nodup_cons] at hn
    have ih' := ih hn.2 (fun y hy => hc y (List.mem_cons_of_mem _ hy))
    by_cases hp : p x = true
    · have hx := hc x (List.mem_cons_self ..) hp
      have : xs.filter p = [] := by
        rw [List.filter_eq_nil_iff]
        intro y hy hpy
        have := hc y (List.mem_cons_of_mem _ hy) hpy
        exact hn.1 (List.mem_map.mpr ⟨y, hy, by rw [this, hx]⟩)
      simp [hp, this]
    · simp [hp]; exact ih'

theorem oneShot_handled_once' {s : State} (hi : Inv s) (hd : DInv s) (i : Nat) (τ : Timer)
    (hτ : s.timers[i]? = some τ) (hk : τ.kind.oneShot = true) :
    (s.target.handled.filter (fun h => h.1 == i)).length ≤ 1 := by
  have hlen := (oneShot_once_never_early' hi τ (List.mem_iff_getElem?.mpr ⟨i, hτ⟩) hk).1
  apply filter_le_one (fun h : Nat × Nat × Nat => (h.1, h.2.1)) _ _ (i, 1) ((hmap_sub s.target).nodup hd.nodup)
  intro x hx hp
  have e : x.1 = i := by simpa using hp
  have hb := hi.ids_bound (x.1, x.2.1) (by
    unfold Target.ids
    exact List.mem_append_right _ (List.mem_map.mpr ⟨x, hx, rfl⟩)) τ (by rw [e]; exact hτ)
  obtain ⟨_, _, _, h1, _⟩ := handledOk_spec (hi.handled_ok x hx)
  have : x.2.1 = 1 := by
    have hb' : x.2.1 ≤ τ.sentAt.length := hb
    omega
  rw [← e, ← this]

end Timers
