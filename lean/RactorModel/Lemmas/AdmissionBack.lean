import RactorModel.Lemmas.AdmissionBase

/-!
Invariant behind C07 (2) "a rejected send hands back exactly its own message": `Res.sendErr b`
carries the id `b` of the message inside `Err(MessagingErr::SendErr(m))`. No frame that is about to
return `sendErr b` (parked at `ticket.release` or, through the ticket drop, inside the marker
program) carries an id `b` other than its own, and no logged return of a send does.
-/

namespace Admission

/-- the frame will return `sendErr b` with `b` not its own message id -/
def Frame.backBad (f : Frame) : Bool :=
  match f.pc with
  | .rel (.sendErr b) => b != f.id
  | .mLoad (some (.sendErr b)) => b != f.id
  | .mCas _ (some (.sendErr b)) => b != f.id
  | .mEnq (some (.sendErr b)) => b != f.id
  | _ => false

structure BackN (s : Shared) (M : Nat) : Prop where
  back_pc : M = 0
  back_log : s.rets.countP Ret.backBad = 0

set_option hygiene false in
macro "admission_back_case" : tactic => `(tactic| (
  obtain ⟨h1, h2⟩ := h
  obtain ⟨e1, l1⟩ := d1
  (try (cases ops <;> try (rename_i op ops'; cases op))) <;>
  simp only [stepThread, finish, startOp, mRet, Option.getD] at hs <;> (repeat' (split at hs)) <;>
  (try (simp only [Option.some.injEq, Prod.mk.injEq, reduceCtorEq] at hs)) <;>
  (try (obtain ⟨rfl, rfl⟩ := hs)) <;>
  simp only [List.countP_cons, List.countP_append, List.countP_nil, Frame.backBad,
    Ret.backBad, kindOf] at * <;>
  generalize List.countP Frame.backBad rest = a at * <;>
  (try (simp only [Bool.false_eq_true, ↓reduceIte, Nat.add_zero, Bool.and_true, Bool.and_false,
    Bool.true_and, Bool.false_and, bne_self_eq_false] at *)) <;>
  (constructor <;>
    (try (simp only [List.countP_cons, List.countP_append, List.countP_nil, Ret.backBad])) <;>
    grind)))

section
variable {s s' : Shared} {rest stack' : List Frame} {id : Nat} {late bf : Bool} {ops : List Op} {sk : List Nat}
  {A A' : Nat} {seen : Word} {b : Nat}

set_option hygiene false in
macro "back_lemma " n:ident pc:term : command => `(
  theorem $n (hs : stepThread s (⟨$pc, id, late, ops, bf, sk⟩ :: rest) = some (s', stack'))
    (d1 : Delta Frame.backBad (⟨$pc, id, late, ops, bf, sk⟩ :: rest) stack' A A')
    (h : BackN s A) : BackN s' A' := by
  admission_back_case)

back_lemma back_run Pc.run
back_lemma back_sStatus Pc.sStatus
back_lemma back_aLoad Pc.aLoad
back_lemma back_aCas (Pc.aCas seen)
back_lemma back_box Pc.box
back_lemma back_boxing Pc.boxing
back_lemma back_enq Pc.enq
back_lemma back_rel_ok (Pc.rel .ok)
back_lemma back_rel_err (Pc.rel (.sendErr b))
back_lemma back_rel_inv (Pc.rel .invalidType)
back_lemma back_rel_derr (Pc.rel .drainErr)
back_lemma back_dClose Pc.dClose
back_lemma back_dStatus Pc.dStatus
back_lemma back_mLoad_none (Pc.mLoad none)
back_lemma back_mLoad_ok (Pc.mLoad (some .ok))
back_lemma back_mLoad_err (Pc.mLoad (some (.sendErr b)))
back_lemma back_mLoad_inv (Pc.mLoad (some .invalidType))
back_lemma back_mLoad_derr (Pc.mLoad (some .drainErr))
back_lemma back_mCas_none (Pc.mCas seen none)
back_lemma back_mCas_ok (Pc.mCas seen (some .ok))
back_lemma back_mCas_err (Pc.mCas seen (some (.sendErr b)))
back_lemma back_mCas_inv (Pc.mCas seen (some .invalidType))
back_lemma back_mCas_derr (Pc.mCas seen (some .drainErr))
back_lemma back_mEnq_none (Pc.mEnq none)
back_lemma back_mEnq_ok (Pc.mEnq (some .ok))
back_lemma back_mEnq_err (Pc.mEnq (some (.sendErr b)))
back_lemma back_mEnq_inv (Pc.mEnq (some .invalidType))
back_lemma back_mEnq_derr (Pc.mEnq (some .drainErr))
back_lemma back_bad Pc.bad
end

theorem backN_stepThread {s s' : Shared} {stack stack' : List Frame}
    (hs : stepThread s stack = some (s', stack')) {A A' : Nat}
    (d1 : Delta Frame.backBad stack stack' A A')
    (h : BackN s A) : BackN s' A' := by
  cases stack with
  | nil => simp [stepThread] at hs
  | cons f rest =>
    obtain ⟨pc, id, late, ops, bf, sk⟩ := f
    cases pc with
    | run => exact back_run hs d1 h
    | sStatus => exact back_sStatus hs d1 h
    | aLoad => exact back_aLoad hs d1 h
    | aCas seen => exact back_aCas hs d1 h
    | box => exact back_box hs d1 h
    | boxing => exact back_boxing hs d1 h
    | enq => exact back_enq hs d1 h
    | rel r =>
      cases r with
      | ok => exact back_rel_ok hs d1 h
      | sendErr b => exact back_rel_err hs d1 h
      | invalidType => exact back_rel_inv hs d1 h
      | drainErr => exact back_rel_derr hs d1 h
    | dClose => exact back_dClose hs d1 h
    | dStatus => exact back_dStatus hs d1 h
    | mLoad ret =>
      cases ret with
      | none => exact back_mLoad_none hs d1 h
      | some r =>
        cases r with
        | ok => exact back_mLoad_ok hs d1 h
        | sendErr b => exact back_mLoad_err hs d1 h
        | invalidType => exact back_mLoad_inv hs d1 h
        | drainErr => exact back_mLoad_derr hs d1 h
    | mCas seen ret =>
      cases ret with
      | none => exact back_mCas_none hs d1 h
      | some r =>
        cases r with
        | ok => exact back_mCas_ok hs d1 h
        | sendErr b => exact back_mCas_err hs d1 h
        | invalidType => exact back_mCas_inv hs d1 h
        | drainErr => exact back_mCas_derr hs d1 h
    | mEnq ret =>
      cases ret with
      | none => exact back_mEnq_none hs d1 h
      | some r =>
        cases r with
        | ok => exact back_mEnq_ok hs d1 h
        | sendErr b => exact back_mEnq_err hs d1 h
        | invalidType => exact back_mEnq_inv hs d1 h
        | drainErr => exact back_mEnq_derr hs d1 h
    | bad => exact back_bad hs d1 h

theorem backN_rx {s : Shared} {A : Nat} (tid : Tid) (h : BackN s A) :
    BackN (stepRx s tid) A := by
  obtain ⟨h1, h2⟩ := h
  cases tid <;> simp only [stepRx] <;> (repeat' split) <;> constructor <;> simp_all

def BackInv (g : G) : Prop := BackN g.sh (cnt Frame.backBad g)

theorem backInv_init (progs : List (List Op)) : BackInv (init progs) := by
  unfold BackInv
  rw [cnt_init Frame.backBad (fun _ => rfl)]
  constructor <;> simp [init]

theorem backInv_step (g : G) (tid : Tid) (h : BackInv g) : BackInv (step g tid) := by
  cases tid with
  | t i =>
    simp only [step]
    split
    · exact h
    · rename_i stack hi
      split
      · exact h
      · rename_i s' stack' hs
        exact backN_stepThread hs (delta_of_set _ g i s' stack stack' hi) h
  | recv => exact backN_rx .recv h
  | rxStop => exact backN_rx .rxStop h
  | rxClose => exact backN_rx .rxClose h
  | rxFlush => exact backN_rx .rxFlush h
  | setStatus st => exact backN_rx (.setStatus st) h

theorem backInv_run (g : G) (sched : List Tid) (h : BackInv g) : BackInv (run g sched) := by
  induction sched generalizing g with
  | nil => exact h
  | cons t l ih => exact ih _ (backInv_step g t h)

/-- Every logged send return `sendErr b` has `b` = the send's own message id. -/
theorem BackInv.own {g : G} (h : BackInv g) :
    ∀ r ∈ g.sh.rets, r.kind = .send → ∀ b, r.res = .sendErr b → b = r.id := by
  intro r hr hk b hb
  have := List.countP_eq_zero.mp h.back_log r hr
  simp only [Ret.backBad, hk, hb, Bool.true_and, Bool.not_eq_true, bne_eq_false_iff_eq] at this
  exact this

end Admission
