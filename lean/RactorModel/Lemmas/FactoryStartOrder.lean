import RactorModel.Lemmas.FactoryKeyOrder

/-!
# Jobs of one key START in submission order (key-persistent routing, no stale completion)

`FactoryKeyOrder.lean` orders the jobs that wait in queues. Here the worker's mailbox joins the picture: the
"worker pipeline" of a slot is `wq p e` = mailbox of its actor ++ its own queue, and `S k` is the list of ids of
the jobs of key `k` that have started so far (from the log). Invariant: every started id of key `k` is smaller than
every waiting id of key `k`, and `S k` is increasing. A start takes the head of a worker pipeline; by the pipeline
order and key-persistent affinity (through the coupling invariant `Core`) it is the oldest waiting job of its key.
-/

namespace Factory

/-- the jobs in the mailbox of actor `aid` -/
def mbox (e : Env) (aid : Nat) : List Job :=
  match e.getActor aid with
  | some a => a.mailbox
  | none => []

/-- the worker pipeline of a slot: what its actor has in the mailbox, then the worker's own queue -/
def wq (p : WP) (e : Env) : List Job := mbox e p.actor ++ p.mq

theorem mbox_of_actors {e e' : Env} (h : e'.actors = e.actors) (aid : Nat) : mbox e' aid = mbox e aid := by
  unfold mbox Env.getActor; rw [h]

theorem mbox_emit (e : Env) (ev : Ev) (aid : Nat) : mbox (e.emit ev) aid = mbox e aid := rfl

/-- `dispatch_job`: the job is appended to the actor's mailbox, or (closed actor) put back at the queue head —
either way it sits between the mailbox and the rest of the queue -/
theorem wq_dispatchJob (p : WP) (e : Env) (j : Job) :
    (p.dispatchJob e j).1.actor = p.actor ∧
    wq (p.dispatchJob e j).1 (p.dispatchJob e j).2 = mbox e p.actor ++ j :: p.mq ∧
    ∀ b, b ≠ p.actor → mbox (p.dispatchJob e j).2 b = mbox e b := by
  unfold WP.dispatchJob Env.cast
  cases g : e.getActor p.actor with
  | none =>
    refine ⟨rfl, ?_, fun _ _ => rfl⟩
    simp only [wq, mbox, g]
  | some a =>
    have haid := getActor_aid g
    by_cases hal : a.alive = true
    · have hn : ¬ ((!a.alive) = true) := by rw [hal]; exact Bool.false_ne_true
      simp only [if_neg hn]
      generalize ha' : ({ a with mailbox := a.mailbox ++ [j] } : Actor) = a'
      have haid' : a'.aid = p.actor := by subst ha'; exact haid
      have g' : e.getActor a'.aid = some a := by rw [haid']; exact g
      have gs := getActor_setActor_self e a a' g'
      rw [haid'] at gs
      refine ⟨trivial, ?_, ?_⟩
      · simp only [wq, mbox, gs, g]
        subst ha'
        simp only [List.append_assoc, List.singleton_append]
      · intro b hb
        unfold mbox
        rw [getActor_setActor_other e a' b (by rw [haid']; exact hb)]
    · have hal' : a.alive = false := by simpa using hal
      have hn : (!a.alive) = true := by rw [hal']; rfl
      simp only [if_pos hn]
      exact ⟨trivial, by simp only [wq], fun _ _ => trivial⟩

theorem getNext_mbox (p : WP) (e : Env) (aid : Nat) : mbox (p.getNext e).2.2 aid = mbox e aid :=
  mbox_of_actors (getNext_actors p e) aid

/-- the tail of `worker_complete` / `replace_worker`: the pipeline only loses (expired) jobs -/
theorem wq_nextJob (p : WP) (e : Env) :
    (p.nextJob e).1.actor = p.actor ∧ (wq (p.nextJob e).1 (p.nextJob e).2).Sublist (wq p e) ∧
    ∀ b, b ≠ p.actor → mbox (p.nextJob e).2 b = mbox e b := by
  obtain ⟨sk, hsk⟩ := getNext_split p e
  have hmb := getNext_mbox p e
  have hact := getNext_actor p e
  unfold WP.nextJob
  cases hg : p.getNext e with
  | mk r pe =>
    obtain ⟨p2, e2⟩ := pe
    rw [hg] at hsk hmb hact
    simp only at hsk hmb hact ⊢
    cases r with
    | none =>
      simp only [Option.toList_none, List.nil_append] at hsk
      refine ⟨hact, ?_, fun b _ => hmb b⟩
      unfold wq
      rw [hact, hmb, hsk]
      exact List.Sublist.append (List.Sublist.refl _) (List.sublist_append_right _ _)
    | some j =>
      simp only [Option.toList_some, List.cons_append, List.nil_append] at hsk
      obtain ⟨d1, d2, d3⟩ := wq_dispatchJob p2 e2 j
      refine ⟨d1.trans hact, ?_, fun b hb => (d3 b (by rw [hact]; exact hb)).trans (hmb b)⟩
      rw [d2, hact, hmb]
      unfold wq
      rw [hsk]
      exact List.Sublist.append (List.Sublist.refl _) (List.sublist_append_right _ _)

theorem shedOldest_mbox (limit fuel : Nat) (p : WP) (e : Env) (aid : Nat) : mbox (shedOldest limit fuel p e).2 aid = mbox e aid :=
  mbox_of_actors (shedOldest_envEq limit fuel p e).actors aid

/-- `enqueue_job`: the pipeline only loses jobs, and gains the new one at its very end -/
theorem wq_enqueueJob (p : WP) (e : Env) (j : Job) :
    (p.enqueueJob e j).1.actor = p.actor ∧
    (wq (p.enqueueJob e j).1 (p.enqueueJob e j).2).Sublist (wq p e ++ [{ j with port := false }]) ∧
    ∀ b, b ≠ p.actor → mbox (p.enqueueJob e j).2 b = mbox e b := by
  unfold WP.enqueueJob
  split
  · refine ⟨rfl, ?_, fun b _ => mbox_of_actors ((envEq_discard e _ _ j).trans (envEq_reject _ j)).actors b⟩
    have : wq p ((e.discard p.handler .loadshed j).reject j) = wq p e := by
      unfold wq; rw [mbox_of_actors ((envEq_discard e _ _ j).trans (envEq_reject _ j)).actors]
    show (wq p ((e.discard p.handler .loadshed j).reject j)).Sublist _
    rw [this]
    exact List.sublist_append_left _ _
  · generalize ({ j with port := false } : Job) = j1
    have hm1 : (p.track j.key).mq = p.mq := rfl
    have ha1 : (p.track j.key).actor = p.actor := rfl
    generalize p.track j.key = p1 at hm1 ha1
    have he1 : ∀ b, mbox (e.accept j) b = mbox e b := fun b => mbox_of_actors (envEq_accept e j).actors b
    generalize e.accept j = e1 at he1
    have hwq1 : wq p1 e1 = wq p e := by unfold wq; rw [ha1, he1, hm1]
    rw [← hwq1, ← ha1]
    have goal : (p1.enqueueAccepted e1 j1).1.actor = p1.actor ∧
        (wq (p1.enqueueAccepted e1 j1).1 (p1.enqueueAccepted e1 j1).2).Sublist (wq p1 e1 ++ [j1]) ∧
        ∀ b, b ≠ p1.actor → mbox (p1.enqueueAccepted e1 j1).2 b = mbox e1 b := by
      unfold WP.enqueueAccepted
      split
      · obtain ⟨sk, hsk⟩ := getNext_split p1 e1
        have hmb := getNext_mbox p1 e1
        have hact := getNext_actor p1 e1
        cases hg : p1.getNext e1 with
        | mk r pe =>
          obtain ⟨p2, e2⟩ := pe
          rw [hg] at hsk hmb hact
          simp only at hsk hmb hact ⊢
          cases r with
          | none =>
            simp only [Option.toList_none, List.nil_append] at hsk
            simp only
            obtain ⟨d1, d2, d3⟩ := wq_dispatchJob p2 e2 j1
            refine ⟨d1.trans hact, ?_, fun b hb => (d3 b (by rw [hact]; exact hb)).trans (hmb b)⟩
            rw [d2, hact, hmb]
            have hnil : p2.mq = [] := by
              have h1 : (p1.getNext e1).1 = none := by rw [hg]
              have := getNextNonExpired_none_nil (hd := p1.handler) p1.mq p1.pending e1 h1
              have h2 : (p1.getNext e1).2.1.mq = [] := this
              rw [hg] at h2; exact h2
            rw [hnil]
            unfold wq
            exact List.Sublist.append (List.sublist_append_left _ _) (List.Sublist.refl _)
          | some older =>
            simp only [Option.toList_some, List.cons_append, List.nil_append] at hsk
            simp only
            obtain ⟨d1, d2, d3⟩ := wq_dispatchJob { p2 with mq := p2.mq ++ [j1] } e2 older
            refine ⟨d1.trans hact, ?_, fun b hb => (d3 b (by show b ≠ p2.actor; rw [hact]; exact hb)).trans (hmb b)⟩
            rw [d2]
            show (mbox e2 p2.actor ++ older :: (p2.mq ++ [j1])).Sublist (wq p1 e1 ++ [j1])
            rw [hact, hmb]
            unfold wq
            rw [hsk]
            have : mbox e1 p1.actor ++ older :: (p2.mq ++ [j1]) = (mbox e1 p1.actor ++ older :: p2.mq) ++ [j1] := by simp
            rw [this]
            refine List.Sublist.append ?_ (List.Sublist.refl _)
            exact List.Sublist.append (List.Sublist.refl _) (List.sublist_append_right _ _)
      · simp only
        split
        · refine ⟨shedOldest_actor _ _ _ _, ?_, fun b _ => shedOldest_mbox _ _ _ _ b⟩
          unfold wq
          rw [shedOldest_actor, shedOldest_mbox]
          have := shedOldest_mq_sublist (by assumption) ({ p1 with mq := p1.mq ++ [j1] }.mq.length + 1) { p1 with mq := p1.mq ++ [j1] } e1
          simp only at this
          have h2 : mbox e1 p1.actor ++ (p1.mq ++ [j1]) = (mbox e1 p1.actor ++ p1.mq) ++ [j1] := by simp
          rw [← h2]
          exact List.Sublist.append (List.Sublist.refl _) this
        · refine ⟨rfl, ?_, fun _ _ => rfl⟩
          unfold wq
          simp only [List.append_assoc]
          exact List.Sublist.refl _
    exact ⟨goal.1, goal.2.1, fun b hb => (goal.2.2 b hb).trans (he1 b)⟩

end Factory
