import RactorModel.Lemmas.OutPortV1
import RactorModel.Lemmas.OutPortV2
import RactorModel.Lemmas.OutPortV2Acct
import RactorModel.Lemmas.OutPortBatch
import RactorModel.Extracted

/-!
# C16 — output ports fan out in order without duplicates

Property theorems only. The executable model (tied to `ractor/src/port/output.rs`, both
implementations, by the correspondence check) is `Model/OutPort.lean`; the invariants are
in `Lemmas/OutPortV1.lean` and `Lemmas/OutPortV2.lean`.

Every theorem quantifies over ALL operation lists: any number of publishers' `send`s,
`subscribe`s, subscriber actors exiting, and steps of the port task (v2) / of any
forwarding task (v1), in any interleaving; message and output types and the converters
are arbitrary.
-/

namespace C16
open OutPort

variable {M O : Type}

/-! ## source-derived constants -/

theorem extracted_maxBatch : Extracted.outputMaxBatchSize = some OutPort.maxBatch := by decide
theorem extracted_capacity : Extracted.outputBroadcastCapacity = some OutPort.declaredCapacity := by decide
/-- tokio rounds `channel(10)` up to 16 slots -/
theorem ringCap_eq : OutPort.ringCap = 16 := by decide

/-! ## v2 (`output-port-v2`) -/

/-- (order, no duplicates, no gaps) What a subscription has received is the image under its
converter of a PREFIX of the publications enqueued after its subscription point: in
publication order, each at most once, none skipped in the middle. Holds for every
subscription ever made (current, removed, still waiting in the channel), at every moment. -/
theorem v2_prefix (ad : Bool) (ops : List (Op2 M O)) :
    ∀ s ∈ ((V2.init M O ad).run ops).all,
      s.got = s.offered.filterMap s.conv ∧ s.offered <+: ((V2.init M O ad).run ops).after s :=
  (inv_run ops (inv_init ad)).prefix

/-- (nothing missing) When the port task is parked with an empty channel, every subscription
still in its `subscribers` vector has received ALL publications made after its
subscription point (mapped by its converter). In particular the sequence does not depend
on the other subscribers, dead or alive. -/
theorem v2_exact (ad : Bool) (ops : List (Op2 M O)) (hidle : ((V2.init M O ad).run ops).idle = true) :
    ∀ s ∈ ((V2.init M O ad).run ops).live,
      s.got = (((V2.init M O ad).run ops).after s).filterMap s.conv :=
  (inv_run ops (inv_init ad)).exact hidle

/-- (up to the subscriber's death) With the public configuration (duplicates allowed) a
subscription leaves the `subscribers` vector only because its actor had exited, and exactly
at the first publication its converter maps to `Some` that could not be sent: what it
received is the image of everything before that publication. -/
theorem v2_removed_only_dead (ops : List (Op2 M O)) :
    ∀ s ∈ ((V2.init M O true).run ops).gone,
      s.actor ∈ ((V2.init M O true).run ops).dead ∧
      ∃ m tl o, ((V2.init M O true).run ops).after s = s.offered ++ m :: tl ∧ s.conv m = some o ∧
        s.got = s.offered.filterMap s.conv :=
  (inv_run ops (inv_init true)).removed (run_allowDup _ _)

/-- The channel history against which `after` is computed is exactly the sequence of
`send` / `subscribe` calls, in the order they were made. -/
theorem v2_hist (ad : Bool) (ops : List (Op2 M O)) :
    ((V2.init M O ad).run ops).hist.map Cmd.data? =
      ops.filterMap fun
        | .publish m => some (some m)
        | .subscribe _ _ => some none
        | _ => none :=
  hist_run ad ops

/-- (frame) A port-task step that calls subscription `c.key`'s converter leaves every other
subscription untouched — also when that step removes a dead subscriber. -/
theorem v2_frame (st : V2 M O) (c : Call M) (h : st.task.2 = some c) :
    ∀ x ∈ st.all, x.key ≠ c.key → x ∈ st.task.1.all :=
  task_frame st c h

/-- (no subscription lost, none invented) With the public configuration the subscription
records held anywhere in the machine — registered, removed, or still waiting in the
channel — are, up to order, exactly the `subscribe` calls made, each with its subscriber
and converter, exactly once; their keys are distinct and number the calls 0, 1, 2, …. -/
theorem v2_not_lost (ops : List (Op2 M O)) :
    let st := (V2.init M O true).run ops
    (idents st.all).Perm (idents (cmdSubs st.hist)) ∧ (st.all.map (·.key)).Nodup ∧
      (cmdSubs st.hist).map (·.key) = List.range st.nsub := by
  intro st
  have h : AInv st := ainv_init.run rfl ops
  exact ⟨h.perm, h.keys_nodup, h.keys⟩

/-- (dropped for good) A subscription that has been removed is never served again: no later
port-task step calls its converter, and its record stays in `gone` unchanged. -/
theorem v2_dead_dropped (ops : List (Op2 M O)) (c : Call M) :
    let st := (V2.init M O true).run ops
    (st.task.2 = some c → ∀ g ∈ st.gone, g.key ≠ c.key) ∧
      ∀ op, ∀ g ∈ st.gone, g ∈ (st.step op).gone := by
  intro st
  exact ⟨served_not_gone (ainv_init.run rfl ops) c, gone_mono_step st⟩

/-- (no blocking) Inside a batch every port-task step either finishes the batch or strictly
decreases the lexicographic measure (entries left in the batch, subscribers left in the
segment, messages left for the current subscriber) — whatever the state of the subscribers:
a dead subscriber costs one step and cannot stall the delivery to the others. -/
theorem v2_batch_progress (st : V2 M O) (srv todo : List (Sub M O)) (seg left : List M)
    (rest : List (Cmd M O)) (hpc : st.pc = .disp srv todo seg left rest) :
    (∃ subs, st.task.1.pc = .top subs) ∨
      Prod.Lex (· < ·) (Prod.Lex (· < ·) (· < ·)) st.task.1.pc.measure st.pc.measure :=
  batch_progress st srv todo seg left rest hpc

/-- (`dispatch_batch` in closed form) From the moment the port task has taken a batch out of
the channel until it is back at the top of its loop, the one-send-per-step machine performs
exactly `dispatchBatch` — the three nested loops of the source: segments between
`SetSubscriber` entries, subscriber-major delivery, removal on the first failed send, the
subscription applied at its position — as long as no subscriber dies meanwhile. (The E-PURE
differential compares the real `dispatch_batch` with this function.) -/
theorem v2_dispatch_batch_closed_form (st : V2 M O) (subs : List (Sub M O)) (batch : List (Cmd M O)) :
    ∃ n, V2.steps n { st with pc := (nextSeg st.allowDup subs st.gone batch).1,
                              gone := (nextSeg st.allowDup subs st.gone batch).2 } =
      ({ st with pc := .top (dispatchBatch st.allowDup st.dead subs st.gone [] batch).1,
                 gone := (dispatchBatch st.allowDup st.dead subs st.gone [] batch).2.1 },
       (dispatchBatch st.allowDup st.dead subs st.gone [] batch).2.2) :=
  task_runs_dispatchBatch st subs batch

/-- (`send` never blocks) Publishing is an unconditional enqueue: whatever the state of the
port task and of the subscribers, it only appends to the channel. -/
theorem v2_publish_nonblocking (st : V2 M O) (m : M) :
    (st.publish m).queue = st.queue ++ [.data m] ∧ (st.publish m).pc = st.pc ∧
      (st.publish m).gone = st.gone ∧ (st.publish m).dead = st.dead := ⟨rfl, rfl, rfl, rfl⟩

/-- The C16 oracle holds of the model: for the public configuration, every subscription's
sequence is an in-order duplicate-free prefix image, and complete whenever the subscriber
is alive and the port task is parked. -/
theorem v2_ok [BEq O] [LawfulBEq O] (ops : List (Op2 M O)) :
    let st := (V2.init M O true).run ops
    ∀ s ∈ st.all, okV2 s.conv (st.after s) s.got (!st.dead.contains s.actor) st.idle = true := by
  intro st s hs
  have hinv : Inv st := inv_run ops (inv_init true)
  obtain ⟨hg, hpre⟩ := hinv.prefix s hs
  have hp : s.got <+: (st.after s).filterMap s.conv := by
    rw [hg]; exact List.IsPrefix.filterMap _ hpre
  simp only [okV2, judge, Bool.and_eq_true, Bool.or_eq_true, Bool.not_eq_true',
    List.isSublist_iff_sublist, List.isPrefixOf_iff_prefix, beq_iff_eq]
  refine ⟨⟨hp.sublist, hp⟩, ?_⟩
  by_cases hai : (!st.dead.contains s.actor && st.idle) = true
  · right
    simp only [Bool.and_eq_true, Bool.not_eq_true'] at hai
    rcases all_idle hai.2 hs with hl | hgone
    · exact hinv.exact hai.2 s hl
    · have := (hinv.removed (run_allowDup _ _) s hgone).1
      have h2 := hai.1
      simp at h2
      exact absurd this h2
  · left; simpa using hai

/-! ## v1 (default: broadcast ring) -/

/-- (order, no duplicates) What a subscription has received is a subsequence of the
converter image of the publications made after its subscription point. -/
theorem v1_subseq (cap : Nat) (ops : List (Op1 M O)) :
    ∀ f ∈ ((V1.init M O cap).run ops).fwds,
      f.got.Sublist ((((V1.init M O cap).run ops).after f).filterMap f.conv) :=
  fun f hf => (inv1_run ops (inv1_init cap) f hf).subseq

/-- (exact accounting) The cursor only moves forward, one mask entry per ring position
passed; the messages handed to the converter are exactly the publications after the
subscription point whose entry is a read, in order; everything read was cast to the
subscriber except, when the task has ended, the single last message, which was rejected by
a subscriber that had exited. -/
theorem v1_account (cap : Nat) (ops : List (Op1 M O)) :
    ∀ f ∈ ((V1.init M O cap).run ops).fwds,
      f.start + f.mask.length = f.cursor ∧
      f.readMsgs = pick f.mask (((V1.init M O cap).run ops).after f) ∧
      (f.ended = false → f.got = f.readMsgs.filterMap f.conv) ∧
      (f.ended = true → ∃ init m o, f.readMsgs = init ++ [m] ∧ f.conv m = some o ∧
          f.actor ∈ ((V1.init M O cap).run ops).dead ∧ f.got = init.filterMap f.conv) := by
  intro f hf
  have h := inv1_run ops (inv1_init cap) f hf
  refine ⟨h.hLen, h.readAfter, ?_, ?_⟩
  · intro he; have := h.hGot; simpa [GotOk, he] using this
  · intro he; have := h.hGot; simpa [GotOk, he] using this

/-- (missing = overwritten) A ring position is skipped only by a `Lagged` observed when the
tail `t` was already more than the capacity ahead of it, i.e. when that entry had been
overwritten. -/
theorem v1_missing_only_overwritten (cap : Nat) (ops : List (Op1 M O)) :
    ∀ f ∈ ((V1.init M O cap).run ops).fwds, ∀ j t, f.mask[j]? = some (some t) →
      f.start + j + cap < t ∧ t ≤ ((V1.init M O cap).run ops).log.length :=
  fun f hf => by
    have h := inv1_run ops (inv1_init cap) f hf
    have hs := h.hSkip
    rw [run1_cap] at hs
    exact hs

/-- (no lag, no loss) A live subscription that never lagged has received everything up to
its cursor. -/
theorem v1_no_lag_no_loss (cap : Nat) (ops : List (Op1 M O)) :
    ∀ f ∈ ((V1.init M O cap).run ops).fwds, (∀ x ∈ f.mask, x = none) → f.ended = false →
      f.got = ((((V1.init M O cap).run ops).after f).take f.mask.length).filterMap f.conv :=
  fun f hf hn hl => (inv1_run ops (inv1_init cap) f hf).noLag hn hl

/-- (later ones still arrive) Whatever was lost to lag, a live subscription whose task has
caught up has received the last `cap` publications, as the end of its sequence. -/
theorem v1_recent (cap : Nat) (ops : List (Op1 M O)) :
    ∀ f ∈ ((V1.init M O cap).run ops).fwds, f.ended = false →
      f.cursor = ((V1.init M O cap).run ops).log.length →
      let after := ((V1.init M O cap).run ops).after f
      (after.drop (after.length - cap)).filterMap f.conv <:+ f.got := by
  intro f hf hl hp
  have hcap : ((V1.init M O cap).run ops).cap = cap := run1_cap _ _
  have := (inv1_run ops (inv1_init cap) f hf).recent hl hp
  rw [hcap] at this
  exact this

/-- (frame) A step of forwarding task `i` — including the one in which it finds its
subscriber dead and ends — touches nothing but subscription `i`; a subscriber exiting
touches no subscription at all. -/
theorem v1_frame (st : V1 M O) (i : Nat) :
    (st.task i).1.log = st.log ∧ (st.task i).1.pubs = st.pubs ∧
      ∀ j, j ≠ i → (st.task i).1.fwds[j]? = st.fwds[j]? :=
  task1_frame st i

/-- (dropped for good) A forwarding task that found its subscriber dead has returned: it
never calls the converter again and its subscription record never changes. -/
theorem v1_dead_dropped (cap : Nat) (log : List M) (dead : List Nat) (f : Fwd M O) (h : f.ended = true) :
    f.step cap log dead = (f, none) := by
  simp [Fwd.step, h]

/-- (`send` never blocks) Publishing never depends on any subscriber or forwarding task
beyond the receiver count: it appends to the ring (overwriting the oldest slot) or, with no
receiver, does nothing. -/
theorem v1_publish_nonblocking (st : V1 M O) (m : M) :
    (st.publish m).fwds = st.fwds ∧ (st.publish m).pubs = st.pubs ++ [m] ∧
      ((st.publish m).log = st.log ++ [m] ∨ (st.publish m).log = st.log) := by
  unfold V1.publish; split <;> simp

/-- The C16 oracle holds of the model. -/
theorem v1_ok [BEq O] [LawfulBEq O] (cap : Nat) (ops : List (Op1 M O)) :
    let st := (V1.init M O cap).run ops
    ∀ f ∈ st.fwds, okV1 cap f.conv (st.after f) f.got (!f.ended) (f.cursor == st.log.length) = true := by
  intro st f hf
  have h := inv1_run ops (inv1_init cap) f hf
  simp only [okV1, judge, recentOk, Bool.and_eq_true, Bool.or_eq_true, Bool.not_eq_true',
    List.isSublist_iff_sublist, List.isSuffixOf_iff_suffix]
  refine ⟨h.subseq, ?_⟩
  by_cases hc : (!f.ended && f.cursor == st.log.length) = true
  · right
    simp only [Bool.and_eq_true, Bool.not_eq_true', beq_iff_eq] at hc
    have hcap : st.cap = cap := run1_cap _ _
    have := h.recent hc.1 hc.2
    rw [hcap] at this
    exact this
  · left; simpa using hc

/-! ## non-vacuity: concrete runs -/

/-- v2: two subscribers, the second subscribing after message 1; a converter dropping odd
numbers; subscriber 7 exits before the port task runs. -/
def demo2 : V2 Nat Nat :=
  (V2.init Nat Nat true).run
    ([.subscribe 7 some, .publish 1, .subscribe 8 (fun m => if m % 2 = 0 then some (10 * m) else none),
      .publish 2, .publish 3, .publish 4, .exit 7] ++ List.replicate 40 .task)

example : demo2.idle = true := by decide
example : demo2.live.map (fun s => (s.key, s.got)) = [(1, [20, 40])] := by decide
example : demo2.gone.map (fun s => (s.key, s.got)) = [(0, [])] := by decide

/-- v1 with a ring of 4: subscription 0 is held back while 7 messages are published, then
runs: it lags, loses 1..3, and receives 4..7. -/
def demo1 : V1 Nat Nat :=
  (V1.init Nat Nat 4).run
    ([.subscribe 7 some] ++ (List.range 7).map (fun m => .publish (m + 1)) ++ List.replicate 6 (.task 0))

example : demo1.fwds.map (fun f => (f.got, f.mask, f.cursor)) =
    [([4, 5, 6, 7], [some 7, some 7, some 7, none, none, none, none], 7)] := by decide

#print axioms C16.extracted_maxBatch
#print axioms C16.extracted_capacity
#print axioms C16.ringCap_eq
#print axioms C16.v2_prefix
#print axioms C16.v2_exact
#print axioms C16.v2_removed_only_dead
#print axioms C16.v2_hist
#print axioms C16.v2_frame
#print axioms C16.v2_not_lost
#print axioms C16.v2_dead_dropped
#print axioms C16.v2_batch_progress
#print axioms C16.v2_dispatch_batch_closed_form
#print axioms C16.v1_dead_dropped
#print axioms C16.v2_publish_nonblocking
#print axioms C16.v2_ok
#print axioms C16.v1_subseq
#print axioms C16.v1_account
#print axioms C16.v1_missing_only_overwritten
#print axioms C16.v1_no_lag_no_loss
#print axioms C16.v1_recent
#print axioms C16.v1_frame
#print axioms C16.v1_publish_nonblocking
#print axioms C16.v1_ok

end C16
