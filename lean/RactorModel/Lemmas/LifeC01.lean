import RactorModel.Lemmas.Life

/-! Simulation of the `Life` actor by the C01 lifecycle automaton: every step of the model emits a
trace segment the automaton accepts, and the invariant `Inv` (phase ↔ automaton stage, pending
kill / stop bookkeeping) is preserved. -/

namespace Life.C01

/-- Phase ↔ automaton stage. -/
def stageRel : Phase → Stage → Prop
  | .fresh, st => st = .init
  | .cell, st => st = .init
  | .pre, st => st = .preOpen
  | .ready, st => st = .preOk
  | .postStart, st => st = .psOpen
  | .idle, st => st = .run
  | .inMsg, st => st = .hOpen .handle
  | .inSup, st => st = .hOpen .sup
  | .postStop _, st => st = .stopOpen
  | .done, _ => True

/-- Bookkeeping that does not depend on the phase: an accepted kill is still in the signal port,
an in-flight stop / drain marker was announced to the automaton. -/
structure Aux (a : Actor) (s : St) : Prop where
  kill : s.killed = true → a.sigVal = true
  stop : a.stopVal.isSome = true → s.stopReq = true
  drain : Item.drain ∈ a.msgQ → s.stopReq = true

def Inv (a : Actor) (s : St) : Prop :=
  a.phase = .done ∨ (stageRel a.phase s.stage ∧ Aux a s)

theorem Aux.congr {a a' : Actor} {s : St} (h1 : a'.sigVal = a.sigVal) (h2 : a'.stopVal = a.stopVal)
    (h3 : a'.msgQ = a.msgQ) (hx : Aux a s) : Aux a' s :=
  ⟨by rw [h1]; exact hx.kill, by rw [h2]; exact hx.stop, by rw [h3]; exact hx.drain⟩

/-! ### neutral events -/

@[simp] theorem next_sendRet (s : St) (b : Bool) (m : Nat) (ok : Bool) : next s (.sendRet b m ok) = .ok s := rfl
theorem next_spawnRet (s : St) (r : SpawnRet) : ∃ s', next s (.spawnRet r) = .ok s' := by
  cases r <;> exact ⟨_, rfl⟩
@[simp] theorem next_spawnRet_ok (s : St) : next s (.spawnRet .ok) = .ok s := rfl
@[simp] theorem next_spawnRet_registered (s : St) : next s (.spawnRet .registered) = .ok s := rfl
theorem next_spawnRet_nolink_init (s : St) (h : s.stage = .init) : next s (.spawnRet .nolink) = .ok s := by
  simp [next, h]
@[simp] theorem next_emit (s : St) (p : Nat) (e : SupEv) : next s (.emit p e) = .ok s := rfl
@[simp] theorem next_supArrive (s : St) (e : SupEv) : next s (.supArrive e) = .ok s := rfl
@[simp] theorem next_supIs (s : St) (p : Option Nat) : next s (.supIs p) = .ok s := rfl
theorem next_aborted (s : St) : next s .aborted = .ok (if s.stage.isOpen then s else { s with stage := .dead }) := rfl
theorem next_aborted_open (s : St) (h : s.stage.isOpen = true) : next s .aborted = .ok s := by simp [next, h]
theorem next_dropped_open (s : St) (h : s.stage.isOpen = true) : next s .dropped = .ok s := by simp [next, h]
theorem next_dropped_closed (s : St) (h : s.stage.isOpen = false) :
    next s .dropped = .ok { s with stage := .dead } := by simp [next, h]
@[simp] theorem next_join (s : St) (r : JoinRes) : next s (.join r) = .ok { s with stage := .dead } := rfl
@[simp] theorem next_fxJoin (s : St) (g : String) : next s (.fxJoin g) = .ok s := rfl
@[simp] theorem next_fxReply (s : St) (k v : Nat) (b : Bool) : next s (.fxReply k v b) = .ok s := rfl
@[simp] theorem next_fxForget (s : St) (k : Nat) (b : Bool) : next s (.fxForget k b) = .ok s := rfl
@[simp] theorem next_callRet (s : St) (k : Nat) (r : CallRes) : next s (.callRet k r) = .ok s := rfl
@[simp] theorem next_callSent (s : St) (k : Nat) (b : Bool) : next s (.callSent k b) = .ok s := rfl
@[simp] theorem next_polled (s : St) : next s .polled = .ok s := rfl
@[simp] theorem next_waitRet (s : St) (w : Nat) (b : Bool) : next s (.waitRet w b) = .ok s := rfl
@[simp] theorem next_snap (s : St) (sn : Snap) : next s (.snap sn) = .ok s := rfl
@[simp] theorem next_isLocal (s : St) : next s .isLocal = .ok s := rfl
@[simp] theorem next_monFan (s : St) (r t : List Nat) (e : SupEv) : next s (.monFan r t e) = .ok s := rfl
@[simp] theorem next_instant (s : St) : next s .instant = .ok s := rfl
@[simp] theorem next_treeKill (s : St) : next s .treeKill = .ok { s with killed := true } := rfl
@[simp] theorem next_stopRet (s : St) (b : Bool) (r : Reason) (ok : Bool) :
    next s (.stopRet b r ok) = .ok (if ok then { s with stopReq := true } else s) := by
  cases ok <;> rfl
@[simp] theorem next_killRet (s : St) (b : Bool) (ok : Bool) :
    next s (.killRet b ok) = .ok (if ok then { s with killed := true } else s) := by
  cases ok <;> rfl
@[simp] theorem next_drainRet (s : St) (ok : Bool) :
    next s (.drainRet ok) = .ok (if ok then { s with stopReq := true } else s) := by
  cases ok <;> rfl

/-! ### exit paths: they emit only neutral events and end in `done` -/

theorem cleanup_acc (a : Actor) (e : Option SupEv) (s : St) :
    accepts next s (evs (cleanup a e).2) = .ok s ∧ (cleanup a e).1.phase = a.phase := by
  unfold cleanup
  split
  · simp
  · cases e <;> cases hs : a.sup <;> cases hm : a.mons <;> simp [Actor.setStatus, hs, hm, notifyOuts, accepts_cons]

theorem finish_sim (a : Actor) (e : SupEv) (s : St) : Sim next Inv s (finish a e) := by
  refine ⟨{ s with stage := .dead }, ?_, ?_⟩
  · simp [finish, accepts_append next _ (cleanup_acc a (some e) s).1, accepts_cons]
  · left; simp [finish, Actor.dropPorts]

theorem failSpawn_sim (a : Actor) (r : SpawnRet) (s : St) : Sim next Inv s (failSpawn a r) := by
  obtain ⟨s', hs'⟩ := next_spawnRet s r
  refine ⟨s', ?_, ?_⟩
  · simp [failSpawn, accepts_append next _ (cleanup_acc a none s).1, accepts_cons, hs']
  · left; simp [failSpawn, Actor.dropPorts]

theorem killedOutsideLoop_sim (a : Actor) (s : St) : Sim next Inv s (killedOutsideLoop a) := by
  unfold killedOutsideLoop
  refine Sim.andThen next (R1 := fun _ s1 => s1 = s) ⟨s, by simp [handleSignal], rfl⟩ ?_
  intro a1 s1 h; subst h; exact finish_sim _ _ _

theorem killedInLoop_sim (a : Actor) (s : St) : Sim next Inv s (killedInLoop a) := by
  unfold killedInLoop
  refine Sim.andThen next (R1 := fun _ s1 => s1 = s) ⟨s, by simp [handleSignal], rfl⟩ ?_
  intro a1 s1 h; subst h; exact finish_sim _ _ _

/-! ### the message loop -/

theorem enterPostStop_sim (a : Actor) (r : Reason) (s : St)
    (hst : s.stage = .run) (hk : s.killed = false) (hreq : s.stopReq = true)
    (hs : a.stopVal = none) (hd : Item.drain ∈ a.msgQ → s.stopReq = true) (hsig : a.sigVal = false) :
    Sim next Inv s (enterPostStop a r) := by
  refine ⟨{ s with stage := .stopOpen }, ?_, ?_⟩
  · simp [enterPostStop, accepts_cons, next, hst, hk, hreq]
  · right
    refine ⟨by simp [enterPostStop, stageRel], ?_, ?_, ?_⟩
    · simp [hk]
    · simp [enterPostStop, Actor.setStatus, hs]
    · simpa [enterPostStop, Actor.setStatus, hreq] using hd

theorem listen_sim (a : Actor) (s : St) (hst : s.stage = .run) (hx : Aux a s) :
    Sim next Inv s (listen a) := by
  unfold listen
  split
  · exact killedInLoop_sim _ _
  · rename_i hsig
    have hk : s.killed = false := by
      cases h : s.killed with
      | false => rfl
      | true => exact absurd (hx.kill h) hsig
    simp only []
    split
    · rename_i r hr
      exact enterPostStop_sim _ _ _ hst hk (hx.stop (by simp_all)) rfl (by simpa using hx.drain) (by simpa using hsig)
    · rename_i hstop
      split
      · rename_i e q hq
        refine ⟨{ s with stage := .hOpen .sup }, ?_, ?_⟩
        · simp [accepts_cons, next, hst]
        · right
          refine ⟨by simp [stageRel], ?_, ?_, ?_⟩
          · simp [hk]
          · simp_all
          · simpa using hx.drain
      · rename_i hq
        split
        · rename_i m q hm
          refine ⟨{ s with stage := .hOpen .handle }, ?_, ?_⟩
          · simp [accepts_cons, next, hst]
          · right
            refine ⟨by simp [stageRel], ?_, ?_, ?_⟩
            · simp [hk]
            · simp_all
            · intro h
              apply hx.drain
              simp_all
        · rename_i k q hm
          refine ⟨{ s with stage := .hOpen .handle }, ?_, ?_⟩
          · simp [accepts_cons, next, hst]
          · right
            refine ⟨by simp [stageRel], ?_, ?_, ?_⟩
            · simp [hk]
            · simp_all
            · intro h
              apply hx.drain
              simp_all
        · rename_i q hm
          refine enterPostStop_sim _ _ _ hst hk (hx.drain (by simp_all)) (by simp_all) ?_ (by simpa using hsig)
          intro h
          apply hx.drain
          simp_all
        · rename_i hm
          refine ⟨s, by simp, ?_⟩
          right
          refine ⟨by simp [stageRel, hst], ?_, ?_, ?_⟩
          · simp [hk]
          · simp_all
          · simp_all

/-! ### side effects of a segment -/

theorem apiSend_aux {a : Actor} {s : St} (m : Nat) (hx : Aux a s) : Aux (apiSend a m).1 s := by
  unfold apiSend
  split
  · exact hx
  · split
    · exact hx
    · split
      · exact hx
      · exact ⟨by simpa using hx.kill, by simpa using hx.stop, by simpa using hx.drain⟩

theorem apiSend_phase (a : Actor) (m : Nat) : (apiSend a m).1.phase = a.phase := by
  unfold apiSend; (repeat' split) <;> rfl

theorem apiStop_aux {a : Actor} {s : St} (r : Reason) (hx : Aux a s) :
    Aux (apiStop a r).1 (if (apiStop a r).2 then { s with stopReq := true } else s) := by
  unfold apiStop
  split
  · simpa using hx
  · split
    · exact ⟨by simpa using hx.kill, by simpa using hx.stop, by simpa using hx.drain⟩
    · exact ⟨by simpa using hx.kill, by simp, by simp⟩

theorem apiStop_phase (a : Actor) (r : Reason) : (apiStop a r).1.phase = a.phase := by
  unfold apiStop; (repeat' split) <;> rfl

theorem apiKill_aux {a : Actor} {s : St} (hx : Aux a s) :
    Aux (apiKill a).1 (if (apiKill a).2 then { s with killed := true } else s) := by
  unfold apiKill
  split
  · simpa using hx
  · split
    · exact ⟨by simpa using hx.kill, by simpa using hx.stop, by simpa using hx.drain⟩
    · exact ⟨by simp, by simpa using hx.stop, by simpa using hx.drain⟩

theorem apiKill_phase (a : Actor) : (apiKill a).1.phase = a.phase := by
  unfold apiKill; (repeat' split) <;> rfl

theorem apiDrain_sigVal (a : Actor) : (apiDrain a).1.sigVal = a.sigVal := by
  unfold apiDrain; simp only []; (repeat' split) <;> rfl

theorem apiDrain_stopVal (a : Actor) : (apiDrain a).1.stopVal = a.stopVal := by
  unfold apiDrain; simp only []; (repeat' split) <;> rfl

theorem apiDrain_msgQ (a : Actor) :
    (apiDrain a).2 = true ∨ (apiDrain a).1.msgQ = a.msgQ := by
  unfold apiDrain; simp only []; (repeat' split) <;> simp

theorem apiDrain_aux {a : Actor} {s : St} (hx : Aux a s) :
    Aux (apiDrain a).1 (if (apiDrain a).2 then { s with stopReq := true } else s) := by
  rcases apiDrain_msgQ a with h | h
  · rw [h]
    exact ⟨by simpa [apiDrain_sigVal] using hx.kill, by simp, by simp⟩
  · refine ⟨?_, ?_, ?_⟩
    · intro hk
      rw [apiDrain_sigVal]
      apply hx.kill
      split at hk <;> simpa using hk
    · intro hv
      rw [apiDrain_stopVal] at hv
      have := hx.stop hv
      split <;> simp [this]
    · intro hv
      rw [h] at hv
      have := hx.drain hv
      split <;> simp [this]

theorem apiDrain_phase (a : Actor) : (apiDrain a).1.phase = a.phase := by
  unfold apiDrain; simp only []; (repeat' split) <;> rfl

/-- Relation after side effects: the stage did not move, the phase did not move. -/
def FxRel (ph : Phase) (st : Stage) (a : Actor) (s : St) : Prop :=
  a.phase = ph ∧ s.stage = st ∧ Aux a s

theorem runFx_sim (a : Actor) (s : St) (f : Fx) (hx : Aux a s) :
    Sim next (FxRel a.phase s.stage) s (runFx a f) := by
  cases f with
  | sendSelf m => exact ⟨s, by simp [runFx, accepts_cons], apiSend_phase a m, rfl, apiSend_aux m hx⟩
  | stopSelf r =>
    refine ⟨_, by simp [runFx, accepts_cons], apiStop_phase a _, ?_, apiStop_aux _ hx⟩
    split <;> rfl
  | killSelf =>
    refine ⟨_, by simp [runFx, accepts_cons], apiKill_phase a, ?_, apiKill_aux hx⟩
    split <;> rfl
  | joinGroup g =>
    refine ⟨s, by simp [runFx, accepts_cons], ?_, rfl, ?_⟩
    · simp only [runFx]; split <;> rfl
    · simp only [runFx]; split <;> exact hx.congr (by rfl) (by rfl) (by rfl)
  | reply k v =>
    simp only [runFx]
    split
    · exact ⟨s, by simp [accepts_cons], rfl, rfl, hx.congr (by rfl) (by rfl) (by rfl)⟩
    · exact ⟨s, by simp [accepts_cons], rfl, rfl, hx⟩
  | forget k =>
    simp only [runFx]
    split
    · exact ⟨s, by simp [accepts_cons], rfl, rfl, hx.congr (by rfl) (by rfl) (by rfl)⟩
    · exact ⟨s, by simp [accepts_cons], rfl, rfl, hx⟩
  | spawnChild c => exact ⟨s, by simp [runFx, accepts_cons, next], rfl, rfl, hx⟩

theorem runFxs_sim (fs : List Fx) (a : Actor) (s : St) (hx : Aux a s) :
    Sim next (FxRel a.phase s.stage) s (runFxs a fs) := by
  induction fs generalizing a s with
  | nil => exact ⟨s, rfl, rfl, rfl, hx⟩
  | cons f fs ih =>
    unfold runFxs
    refine Sim.andThen next (runFx_sim a s f hx) ?_
    intro a1 s1 ⟨hp, hs, hx1⟩
    have := ih a1 s1 hx1
    rw [hp, hs] at this
    exact this

/-! ### a segment inside an open callback -/

/-- The automaton stage in which callback `cb` is open. -/
def openStage : Cb → Stage
  | .preStart => .preOpen | .postStart => .psOpen | .handle => .hOpen .handle
  | .sup => .hOpen .sup | .postStop => .stopOpen

theorem isOpen_openStage (cb : Cb) : (openStage cb).isOpen = true := by cases cb <;> rfl

/-- The stage after `cb` returned `r`. -/
def exitStage (cb : Cb) (r : Res) : Stage :=
  match cb with
  | .preStart => if r = .ok then .preOk else .dead
  | .postStart => if r = .ok then .run else .dead
  | .handle | .sup => if r = .ok then .run else .dead
  | .postStop => .dead

theorem next_tick_open (s : St) (cb : Cb) (h : s.stage = openStage cb) : next s (.tick cb) = .ok s := by
  cases cb <;> simp [next, h, openStage]

theorem next_exit_open (s : St) (cb : Cb) (r : Res) (h : s.stage = openStage cb) :
    next s (.exit cb r) = .ok { s with stage := exitStage cb r } := by
  cases cb <;> simp [next, h, openStage, exitStage]

theorem next_cancelled_open (s : St) (cb : Cb) (h : s.stage = openStage cb) :
    next s (.cancelled cb) = .ok { s with stage := .dead } := by
  cases cb <;> simp [next, h, openStage]

theorem runSeg_sim (a : Actor) (s : St) (cb : Cb) (sg : Seg) (k : Actor → Res → M)
    (hst : s.stage = openStage cb) (hx : Aux a s) (hrel : stageRel a.phase (openStage cb))
    (hnd : a.phase ≠ .done)
    (hk : ∀ a1 s1 r, a1.phase = a.phase → s1.stage = exitStage cb r → Aux a1 s1 → r ≠ .ok ∨ sg.term = .ok →
        Sim next Inv s1 (k a1 r)) :
    Sim next Inv s (runSeg a cb sg k) := by
  unfold runSeg
  refine Sim.andThen next (R1 := fun a1 s1 => a1 = a ∧ s1 = s) ⟨s, by simp [say, accepts_cons, next_tick_open s cb hst], rfl, rfl⟩ ?_
  rintro a1 s1 ⟨rfl, rfl⟩
  refine Sim.andThen next (runFxs_sim sg.fx a1 s1 hx) ?_
  intro a2 s2 ⟨hp, hs2, hx2⟩
  have hst2 : s2.stage = openStage cb := by rw [hs2, hst]
  cases ht : sg.term with
  | tick =>
    refine ⟨s2, rfl, ?_⟩
    right
    refine ⟨by simpa [hp, hst2] using hrel, ?_, ?_, ?_⟩
    · simpa using hx2.kill
    · simpa using hx2.stop
    · simpa using hx2.drain
  | ok =>
    simp only []
    refine Sim.andThen next (R1 := fun a3 s3 => a3 = a2 ∧ s3 = { s2 with stage := exitStage cb .ok })
      ⟨_, by simp [say, accepts_cons, next_exit_open s2 cb _ hst2, Term.res], rfl, rfl⟩ ?_
    rintro a3 s3 ⟨rfl, rfl⟩
    exact hk a3 _ .ok hp rfl ⟨hx2.kill, hx2.stop, hx2.drain⟩ (Or.inr ht)
  | err n =>
    simp only []
    refine Sim.andThen next (R1 := fun a3 s3 => a3 = a2 ∧ s3 = { s2 with stage := exitStage cb (.err n) })
      ⟨_, by simp [say, accepts_cons, next_exit_open s2 cb _ hst2, Term.res], rfl, rfl⟩ ?_
    rintro a3 s3 ⟨rfl, rfl⟩
    exact hk a3 _ (.err n) hp rfl ⟨hx2.kill, hx2.stop, hx2.drain⟩ (Or.inl (by simp))
  | panic n =>
    simp only []
    refine Sim.andThen next (R1 := fun a3 s3 => a3 = a2 ∧ s3 = { s2 with stage := exitStage cb (.panic n) })
      ⟨_, by simp [say, accepts_cons, next_exit_open s2 cb _ hst2, Term.res], rfl, rfl⟩ ?_
    rintro a3 s3 ⟨rfl, rfl⟩
    exact hk a3 _ (.panic n) hp rfl ⟨hx2.kill, hx2.stop, hx2.drain⟩ (Or.inl (by simp))


/-! ### the ops -/

theorem Inv.congr {a a' : Actor} {s : St} (h0 : a'.phase = a.phase) (h1 : a'.sigVal = a.sigVal)
    (h2 : a'.stopVal = a.stopVal) (h3 : a'.msgQ = a.msgQ) (h : Inv a s) : Inv a' s := by
  rcases h with h | ⟨hs, hx⟩
  · left; rw [h0, h]
  · right; exact ⟨by rw [h0]; exact hs, hx.congr h1 h2 h3⟩

theorem afterExit_sim (a : Actor) (s : St) (cb : Cb) (r : Res)
    (hcb : a.phase.openCb = some cb) (htask : a.phase.isTask = true)
    (hst : s.stage = exitStage cb r) (hx : Aux a s) : Sim next Inv s (afterExit a r) := by
  unfold afterExit
  split
  · -- postStart, ok
    rename_i hph
    have : cb = .postStart := by simp [hph, Phase.openCb] at hcb; exact hcb.symm
    subst this
    refine Sim.andThen next (R1 := fun a1 s1 => s1 = s ∧ Aux a1 s1) ?_ ?_
    · refine ⟨s, ?_, rfl, hx.congr (by rfl) (by rfl) (by rfl)⟩
      cases hsup : a.sup <;> cases hm : a.mons <;> simp [Actor.setStatus, accepts_cons, hsup, hm, notifyOuts]
    · rintro a1 s1 ⟨rfl, hx1⟩
      exact listen_sim a1 s1 (by simp [hst, exitStage]) hx1
  · rename_i hph
    have : cb = .handle := by simp [hph, Phase.openCb] at hcb; exact hcb.symm
    subst this
    exact listen_sim a s (by simp [hst, exitStage]) hx
  · rename_i hph
    have : cb = .sup := by simp [hph, Phase.openCb] at hcb; exact hcb.symm
    subst this
    exact listen_sim a s (by simp [hst, exitStage]) hx
  · exact finish_sim _ _ _
  · exact finish_sim _ _ _
  · exact finish_sim _ _ _
  · exact finish_sim _ _ _

theorem afterPre_sim (a : Actor) (s : St) (supOk : Bool) (r : Res)
    (hph : a.phase = .pre) (hst : s.stage = exitStage .preStart r) (hx : Aux a s) :
    Sim next Inv s (afterPre a supOk r) := by
  unfold afterPre
  split
  · exact failSpawn_sim _ _ _
  · exact failSpawn_sim _ _ _
  · split
    · split
      · exact failSpawn_sim _ _ _
      · refine ⟨s, by simp [accepts_cons], Or.inr ⟨?_, ?_⟩⟩
        · simpa [stageRel, exitStage] using hst
        · exact hx.congr (by simp) (by simp) (by simp)
    · refine ⟨s, by simp [accepts_cons], Or.inr ⟨?_, hx.congr (by rfl) (by rfl) (by rfl)⟩⟩
      simpa [stageRel, exitStage] using hst

theorem stage_of_open {ph : Phase} {st : Stage} {cb : Cb} (h : stageRel ph st) (hcb : ph.openCb = some cb) :
    st = openStage cb := by
  cases ph <;> simp [Phase.openCb] at hcb <;> subst hcb <;> simpa [stageRel, openStage] using h

theorem stageRel_open {ph : Phase} {cb : Cb} (hcb : ph.openCb = some cb) : stageRel ph (openStage cb) := by
  cases ph <;> simp [Phase.openCb] at hcb <;> subst hcb <;> simp [stageRel, openStage]

theorem pollOpen_sim (a : Actor) (s : St) (cb : Cb) (hcb : a.phase.openCb = some cb)
    (htask : a.phase.isTask = true) (hst : s.stage = openStage cb) (hx : Aux a s) :
    Sim next Inv s (pollOpen a cb) := by
  unfold pollOpen
  simp only []
  split
  · refine Sim.andThen next (R1 := fun _ _ => True) ⟨{ s with stage := .dead }, by simp [say, accepts_cons, next_cancelled_open s cb hst], trivial⟩ ?_
    intro a1 s1 _
    split
    · exact killedInLoop_sim _ _
    · exact killedInLoop_sim _ _
    · exact killedOutsideLoop_sim _ _
  · split
    · refine ⟨s, rfl, Or.inr ⟨?_, hx.congr (by rfl) (by rfl) (by rfl)⟩⟩
      rw [hst]; exact stageRel_open hcb
    · rename_i sg hsg
      refine runSeg_sim _ s cb sg afterExit hst (hx.congr (by rfl) (by rfl) (by rfl)) (stageRel_open hcb) ?_ ?_
      · intro h; have h' : a.phase = .done := h; simp [h', Phase.isTask] at htask
      · intro a1 s1 r hp hs1 hx1 _
        exact afterExit_sim a1 s1 cb r (by rw [hp]; exact hcb) (by rw [hp]; exact htask) hs1 hx1

theorem opPoll_sim (a : Actor) (s : St) (h : Inv a s) : Sim next Inv s (opPoll a) := by
  unfold opPoll
  split
  · -- ready
    rename_i hph
    rcases h with h | ⟨hs, hx⟩
    · simp [hph] at h
    · simp only []
      split
      · exact killedOutsideLoop_sim _ _
      · rw [hph] at hs
        refine ⟨{ s with stage := .psOpen }, by simp [accepts_cons, next, show s.stage = .preOk from hs], Or.inr ⟨by simp [stageRel], ?_⟩⟩
        exact ⟨by simpa using hx.kill, by simpa using hx.stop, by simpa using hx.drain⟩
  · rename_i hph
    rcases h with h | ⟨hs, hx⟩
    · simp [hph] at h
    · rw [hph] at hs
      exact listen_sim _ s hs (hx.congr (by rfl) (by rfl) (by rfl))
  · rename_i hph
    rcases h with h | ⟨hs, hx⟩
    · simp [hph] at h
    · exact pollOpen_sim a s _ (by simp [hph, Phase.openCb]) (by simp [hph, Phase.isTask]) (stage_of_open hs (by simp [hph, Phase.openCb])) hx
  · rename_i hph
    rcases h with h | ⟨hs, hx⟩
    · simp [hph] at h
    · exact pollOpen_sim a s _ (by simp [hph, Phase.openCb]) (by simp [hph, Phase.isTask]) (stage_of_open hs (by simp [hph, Phase.openCb])) hx
  · rename_i hph
    rcases h with h | ⟨hs, hx⟩
    · simp [hph] at h
    · exact pollOpen_sim a s _ (by simp [hph, Phase.openCb]) (by simp [hph, Phase.isTask]) (stage_of_open hs (by simp [hph, Phase.openCb])) hx
  · rename_i hph
    rcases h with h | ⟨hs, hx⟩
    · simp [hph] at h
    · exact pollOpen_sim a s _ (by simp [hph, Phase.openCb]) (by simp [hph, Phase.isTask]) (stage_of_open hs (by simp [hph, Phase.openCb])) hx
  · exact ⟨s, rfl, h⟩

/-! ### non-overlap, read off the automaton -/

theorem next_enter_isOpen {s s1 : St} {cb : Cb} {a : Arg} (h : next s (.enter cb a) = .ok s1) :
    s1.stage.isOpen = true := by
  simp only [next] at h
  split at h
  all_goals first
    | (injection h with h; subst h; rfl)
    | (split at h <;> first
        | (injection h with h; subst h; rfl)
        | (split at h <;> first | (injection h with h; subst h; rfl) | cases h)
        | cases h)
    | cases h

theorem next_enter_of_isOpen (s : St) (cb : Cb) (a : Arg) (h : s.stage.isOpen = true) :
    next s (.enter cb a) = .error "c01.overlap" := by
  cases hs : s.stage <;> simp [hs, Stage.isOpen] at h <;> cases cb <;> simp [next, hs]

theorem opSpawn_sim (a : Actor) (s : St) (sup : Option Nat) (name : Option String) (nameFree : Bool)
    (isLocal supOk : Bool) (h : Inv a s) : Sim next Inv s (opSpawn a sup name nameFree isLocal supOk) := by
  unfold opSpawn
  split
  · rename_i hph
    split
    · exact ⟨s, by simp [accepts_cons], h⟩
    rcases h with h | ⟨hs, hx⟩
    · simp [hph] at h
    · rw [hph] at hs
      have hinit : s.stage = .init := hs
      have hnew : ∀ a' : Actor, a'.phase = .pre → a'.sigVal = a.sigVal → a'.stopVal = a.stopVal →
          a'.msgQ = a.msgQ → Inv a' { s with stage := .preOpen } := by
        intro a' h0 h1 h2 h3
        exact Or.inr ⟨by rw [h0]; rfl, by rw [h1]; exact hx.kill, by rw [h2]; exact hx.stop, by rw [h3]; exact hx.drain⟩
      split
      · split
        · split
          · exact ⟨s, by simp [accepts_cons, next_spawnRet_nolink_init s hinit], Or.inr ⟨by rw [hph]; exact hs, hx⟩⟩
          · exact ⟨{ s with stage := .preOpen }, by simp [accepts_cons, next, hinit], hnew _ rfl rfl rfl rfl⟩
        · exact ⟨{ s with stage := .preOpen }, by simp [accepts_cons, next, hinit], hnew _ rfl rfl rfl rfl⟩
      · exact ⟨{ s with stage := .preOpen }, by simp [accepts_cons, next, hinit], hnew _ rfl rfl rfl rfl⟩
  · exact ⟨s, rfl, h⟩

theorem beginPre_sim (a : Actor) (s : St) (hph : a.phase = .cell) (hinit : s.stage = .init) (hx : Aux a s) :
    Sim next Inv s (beginPre a) := by
  unfold beginPre
  split
  · refine Sim.andThen next (R1 := fun _ _ => True) ⟨s, by simp [handleSignal], trivial⟩ ?_
    intro a1 s1 _
    exact failSpawn_sim _ _ _
  · exact ⟨{ s with stage := .preOpen }, by simp [accepts_cons, next, hinit],
      Or.inr ⟨rfl, hx.kill, hx.stop, hx.drain⟩⟩

theorem startInstant_sim (a : Actor) (s : St) (supOk : Bool) (hph : a.phase = .cell)
    (hinit : s.stage = .init) (hx : Aux a s) : Sim next Inv s (startInstant a supOk) := by
  unfold startInstant
  split
  · exact failSpawn_sim _ _ _
  · simp only []
    split
    · split
      · split
        · exact failSpawn_sim _ _ _
        · refine Sim.andThen next (R1 := fun a1 s1 => s1 = s ∧ a1.phase = .cell ∧ Aux a1 s)
            ⟨s, by simp, rfl, by simpa using hph, hx.congr (by simp) (by simp) (by simp)⟩ ?_
          rintro a1 s1 ⟨rfl, h1, h2⟩
          exact beginPre_sim a1 s1 h1 hinit h2
      · exact beginPre_sim _ s hph hinit (hx.congr (by rfl) (by rfl) (by rfl))
    · exact beginPre_sim _ s hph hinit (hx.congr (by rfl) (by rfl) (by rfl))

theorem opSpawnInstant_sim (a : Actor) (s : St) (sup : Option Nat) (name : Option String) (nameFree : Bool)
    (isLocal : Bool) (h : Inv a s) : Sim next Inv s (opSpawnInstant a sup name nameFree isLocal) := by
  unfold opSpawnInstant
  split
  · rename_i hph
    split
    · exact ⟨s, by simp [accepts_cons], h⟩
    · rcases h with h | ⟨hs, hx⟩
      · simp [hph] at h
      · rw [hph] at hs
        split
        · exact ⟨s, by simp [accepts_cons], Or.inr ⟨hs, hx.congr (by rfl) (by rfl) (by rfl)⟩⟩
        · exact ⟨s, by simp [accepts_cons], Or.inr ⟨hs, hx.congr (by rfl) (by rfl) (by rfl)⟩⟩
  · exact ⟨s, rfl, h⟩

theorem opPollSpawn_sim (a : Actor) (s : St) (supOk : Bool) (h : Inv a s) :
    Sim next Inv s (opPollSpawn a supOk) := by
  unfold opPollSpawn
  split
  · rename_i hph
    rcases h with h | ⟨hs, hx⟩
    · simp [hph] at h
    · rw [hph] at hs
      exact startInstant_sim a s supOk hph hs hx
  · rename_i hph
    rcases h with h | ⟨hs, hx⟩
    · simp [hph] at h
    · rw [hph] at hs
      have hst : s.stage = openStage .preStart := hs
      split
      · refine Sim.andThen next (R1 := fun _ _ => True)
          ⟨{ s with stage := .dead }, by simp [say, accepts_cons, next_cancelled_open s _ hst], trivial⟩ ?_
        intro a1 s1 _
        refine Sim.andThen next (R1 := fun _ _ => True) ⟨s1, by simp [handleSignal], trivial⟩ ?_
        intro a2 s2 _
        exact failSpawn_sim _ _ _
      · split
        · exact ⟨s, rfl, Or.inr ⟨by rw [hph]; exact hs, hx⟩⟩
        · rename_i sg hsg
          refine runSeg_sim _ s .preStart sg _ hst (hx.congr (by rfl) (by rfl) (by rfl))
            (by show stageRel a.phase _; rw [hph]; rfl) (by show a.phase ≠ _; rw [hph]; simp) ?_
          intro a1 s1 r hp hs1 hx1 _
          exact afterPre_sim a1 s1 supOk r (by rw [hp]; exact hph) hs1 hx1
  · exact ⟨s, rfl, h⟩

theorem opDropSpawn_sim (a : Actor) (s : St) (h : Inv a s) : Sim next Inv s (opDropSpawn a) := by
  unfold opDropSpawn
  split
  · rename_i hph
    rcases h with h | ⟨hs, hx⟩
    · simp [hph] at h
    · rw [hph] at hs
      have hinit : s.stage = .init := hs
      refine ⟨{ s with stage := .dead }, ?_, Or.inl (by simp [Actor.dropPorts])⟩
      simp only [andThen_snd, evs_append, evs_cons_ev, evs_cons_note, evs_nil]
      rw [List.cons_append, List.nil_append,
        accepts_cons_ok next _ (next_dropped_closed s (by rw [hinit]; rfl))]
      rw [accepts_append next _ (cleanup_acc _ none _).1]
      rfl
  · rename_i hph
    rcases h with h | ⟨hs, hx⟩
    · simp [hph] at h
    · rw [hph] at hs
      have hst : s.stage = openStage .preStart := hs
      refine ⟨{ s with stage := .dead }, ?_, Or.inl ?_⟩
      · simp only [andThen_snd, evs_append, evs_cons_ev, evs_nil, evs_ite_note, List.append_nil]
        rw [List.cons_append, List.cons_append, List.nil_append]
        rw [accepts_cons_ok next _ (next_dropped_open s (by rw [hst]; rfl)),
          accepts_cons_ok next _ (next_cancelled_open s _ hst)]
        exact (cleanup_acc _ none _).1
      · simp [Actor.dropPorts]
  · exact ⟨s, rfl, h⟩

theorem opAbort_sim (a : Actor) (s : St) (h : Inv a s) : Sim next Inv s (opAbort a) := by
  unfold opAbort
  split
  · rename_i htask
    rcases h with h | ⟨hs, hx⟩
    · simp [h, Phase.isTask] at htask
    · refine Sim.andThen next (R1 := fun _ _ => True) ?_ ?_
      · cases hcb : a.phase.openCb with
        | none => exact ⟨_, by simp [accepts_cons, next_aborted]; rfl, trivial⟩
        | some cb =>
          have hst := stage_of_open hs hcb
          exact ⟨{ s with stage := .dead }, by
            simp [accepts_cons, next_aborted_open s (by rw [hst]; exact isOpen_openStage cb),
              next_cancelled_open s cb hst], trivial⟩
      · intro a1 s1 _
        refine ⟨{ s1 with stage := .dead }, ?_, Or.inl (by simp [Actor.dropPorts])⟩
        simp only [andThen_snd, evs_append, evs_cons_ev, evs_nil]
        rw [accepts_append next _ (cleanup_acc _ _ _).1]
        simp [accepts_cons]
  · exact ⟨s, rfl, h⟩

theorem opResume_sim (a : Actor) (s : St) (sg : Seg) (h : Inv a s) : Sim next Inv s (opResume a sg) := by
  unfold opResume
  split
  · exact ⟨s, rfl, h⟩
  · split
    · exact ⟨s, rfl, h⟩
    · exact ⟨s, rfl, h.congr (by rfl) (by rfl) (by rfl) (by rfl)⟩

theorem apiKill_sigVal_mono (a : Actor) (h : a.sigVal = true) : (apiKill a).1.sigVal = true := by
  unfold apiKill; (repeat' split) <;> simp [h]

theorem apiKill_stopVal (a : Actor) : (apiKill a).1.stopVal = a.stopVal := by
  unfold apiKill; (repeat' split) <;> rfl

theorem apiKill_msgQ (a : Actor) : (apiKill a).1.msgQ = a.msgQ := by
  unfold apiKill; (repeat' split) <;> rfl

theorem opTreeTaken_sim (a : Actor) (s : St) (h : Inv a s) : Sim next Inv s (opTreeTaken a) := by
  unfold opTreeTaken
  simp only []
  split
  · cases hk : (apiKill { a with sup := none }).2 with
    | false =>
      refine ⟨s, by simp [hk], ?_⟩
      rcases h with h | ⟨hs, hx⟩
      · left; simpa [apiKill_phase] using h
      · right
        refine ⟨by simpa [apiKill_phase] using hs, ?_, ?_, ?_⟩
        · intro hk'; exact apiKill_sigVal_mono _ (hx.kill hk')
        · simpa [apiKill_stopVal] using hx.stop
        · simpa [apiKill_msgQ] using hx.drain
    | true =>
      refine ⟨{ s with killed := true }, by simp [hk, accepts_cons], ?_⟩
      rcases h with h | ⟨hs, hx⟩
      · left; simpa [apiKill_phase] using h
      · right
        refine ⟨by simpa [apiKill_phase] using hs, ?_, ?_, ?_⟩
        · intro _; exact apiKill_ok_sigVal _ hk
        · simpa [apiKill_stopVal] using hx.stop
        · simpa [apiKill_msgQ] using hx.drain
  · refine ⟨s, by simp, ?_⟩
    rcases h with h | ⟨hs, hx⟩
    · left; simpa using h
    · right
      exact ⟨by simpa using hs, by simpa using hx.kill, by simpa using hx.stop, by simpa using hx.drain⟩

theorem Inv_api {a a' : Actor} {s s' : St} (hp : a'.phase = a.phase) (hs : s'.stage = s.stage)
    (hx : Aux a s → Aux a' s') (h : Inv a s) : Inv a' s' := by
  rcases h with h | ⟨h1, h2⟩
  · left; rw [hp, h]
  · right; exact ⟨by rw [hp, hs]; exact h1, hx h2⟩

theorem envOp_sim (a : Actor) (s : St) (op : AOp) (h : Inv a s) : Sim next Inv s (a.envOp op) := by
  cases op with
  | send m =>
    exact ⟨s, by simp [Actor.envOp, accepts_cons], Inv_api (apiSend_phase a m) rfl (apiSend_aux m) h⟩
  | stop r =>
    refine ⟨_, by simp [Actor.envOp, accepts_cons], Inv_api (apiStop_phase a _) ?_ (apiStop_aux _) h⟩
    split <;> rfl
  | kill =>
    refine ⟨_, by simp [Actor.envOp, accepts_cons], Inv_api (apiKill_phase a) ?_ apiKill_aux h⟩
    split <;> rfl
  | drain =>
    refine ⟨_, by simp [Actor.envOp, accepts_cons], Inv_api (apiDrain_phase a) ?_ apiDrain_aux h⟩
    split <;> rfl
  | supArrive e =>
    simp only [Actor.envOp, opSupArrive]
    split
    · exact ⟨s, by simp [accepts_cons], h.congr (by rfl) (by rfl) (by rfl) (by rfl)⟩
    · exact ⟨s, by simp [accepts_cons], h⟩
  | treeTaken => exact opTreeTaken_sim a s h
  | link p ok =>
    simp only [Actor.envOp, opLink]
    split
    · exact ⟨s, rfl, h⟩
    · exact ⟨s, by simp, h.congr (by rfl) (by rfl) (by rfl) (by rfl)⟩
  | unlink p =>
    simp only [Actor.envOp, opUnlink]
    split
    · exact ⟨s, by simp, h.congr (by rfl) (by rfl) (by rfl) (by rfl)⟩
    · exact ⟨s, rfl, h⟩
  | kidAdd c => exact ⟨s, rfl, h.congr (by rfl) (by rfl) (by rfl) (by rfl)⟩
  | monAdd m => exact ⟨s, rfl, h.congr (by rfl) (by rfl) (by rfl) (by rfl)⟩
  | monDel m => exact ⟨s, rfl, h.congr (by rfl) (by rfl) (by rfl) (by rfl)⟩
  | monDrop m => exact ⟨s, by simp [Actor.envOp], h.congr (by rfl) (by rfl) (by rfl) (by rfl)⟩
  | kidDel c => exact ⟨s, rfl, h.congr (by rfl) (by rfl) (by rfl) (by rfl)⟩
  | call k =>
    refine ⟨s, by simp [Actor.envOp, accepts_cons], ?_⟩
    simp only [Actor.envOp, apiCall]
    (repeat' split) <;> first
      | exact h
      | (rcases h with h | ⟨hs, hx⟩
         · exact Or.inl h
         · exact Or.inr ⟨hs, by simpa using hx.kill, by simpa using hx.stop, by simpa using hx.drain⟩)
  | pollCall k =>
    simp only [Actor.envOp]
    split
    · exact ⟨s, by simp [accepts_cons], h.congr (by rfl) (by rfl) (by rfl) (by rfl)⟩
    · exact ⟨s, by simp [accepts_cons], h.congr (by rfl) (by rfl) (by rfl) (by rfl)⟩
    · exact ⟨s, by simp [accepts_cons], h⟩
    · exact ⟨s, rfl, h⟩
  | pollWait w => exact ⟨s, by simp [Actor.envOp, accepts_cons], h⟩
  | _ => exact ⟨s, rfl, h⟩

theorem stepCore_sim (a : Actor) (s : St) (op : AOp) (h : Inv a s) : Sim next Inv s (a.stepCore op) := by
  cases op with
  | spawn sup name nameFree isLocal supOk => exact opSpawn_sim a s sup name nameFree isLocal supOk h
  | spawnInstant sup name nameFree isLocal => exact opSpawnInstant_sim a s sup name nameFree isLocal h
  | pollSpawn supOk => exact opPollSpawn_sim a s supOk h
  | dropSpawn => exact opDropSpawn_sim a s h
  | poll => exact Sim.pollMark next next_polled (opPoll_sim a s h)
  | abort => exact opAbort_sim a s h
  | resume sg => exact opResume_sim a s sg h
  | _ =>
    simp only [Actor.stepCore]
    split
    · exact ⟨s, rfl, h⟩
    · exact envOp_sim a s _ h

theorem step_sim (a : Actor) (s : St) (op : AOp) (h : Inv a s) : Sim next Inv s (a.step op) :=
  step_sim_of_core next next_supIs next_snap (stepCore_sim a s op h)

theorem run_sim (ops : List AOp) (a : Actor) (s : St) (h : Inv a s) :
    ∃ s', accepts next s (a.run ops).2 = .ok s' ∧ Inv (a.run ops).1 s' := by
  induction ops generalizing a s with
  | nil => exact ⟨s, rfl, h⟩
  | cons op ops ih =>
    obtain ⟨s1, hacc, hinv⟩ := step_sim a s op h
    obtain ⟨s2, hacc2, hinv2⟩ := ih _ s1 hinv
    refine ⟨s2, ?_, hinv2⟩
    simp only [Actor.run]
    rw [accepts_append next _ hacc]
    exact hacc2

theorem inv_init (id : Nat) : Inv (Actor.init id) {} := by
  right
  exact ⟨rfl, by simp [Actor.init], by simp [Actor.init], by simp [Actor.init]⟩

end Life.C01
