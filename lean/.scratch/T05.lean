import RactorModel.Lemmas.GenAdmission
namespace C05
section XlateTie
open Generated.Admission GenAdmission

theorem generated_status_discriminants_eq_model (s : ActorStatus) : (absStatus s).toNat = s.toNat := by
  cases s <;> rfl

theorem generated_status_abs_surjective (t : Tree.Status) : ∃ s, absStatus s = t := by
  cases t
  · exact ⟨.Unstarted, rfl⟩
  · exact ⟨.Starting, rfl⟩
  · exact ⟨.Running, rfl⟩
  · exact ⟨.Upgrading, rfl⟩
  · exact ⟨.Draining, rfl⟩
  · exact ⟨.Stopping, rfl⟩
  · exact ⟨.Stopped, rfl⟩

/-- the condition under which `ActorCell::terminate` kills an actor of its worklist -/
theorem generated_terminate_kill_condition_eq_model (enq : Except MessagingErr Unit) (actor : ActorCell) :
    ActorCell.terminate_kills enq actor = Tree.killCond Tree.codeFixed (absStatus actor.status) := by
  rcases actor with ⟨s⟩
  cases s <;> simp [ActorCell.terminate_kills, Tree.killCond, Tree.codeFixed, absStatus, ActorStatus.toNat, Tree.Status.toNat]
end XlateTie
end C05
