import RactorModel.Lemmas.FailingTransport
import RactorModel.Lemmas.GenJobMeta
import RactorModel.Lemmas.GenFrame
import RactorModel.Lemmas.Frames
import RactorModel.Lemmas.FramesIo
import RactorModel.Extracted

/-!
# C19 — wire decoding is total, bounded and round-trips

Property theorems only. The executable model `Model/Codec.lean` is tied to the Rust sources by
the correspondence check (`harness/hcluster/src/bin/c19.rs` + `Driver/C19.lean`); helper lemmas
are in `Lemmas/Codec.lean`, `Lemmas/Frames.lean`. All decoders of the model are total
functions; `none` stands for `Err(BoxedDowncastErr)` (generated decoders) or for a panic of a
`BytesConvertable::from_bytes` (caught by `catch_unwind` in the generated code and in
`handle_message`).
-/

namespace C19
open Codec

/-! ## integers and the built-in convertible types -/

/-- `from_be_bytes(to_be_bytes(x)) = x` for every width and every value of that width
(signed integers and floats are carried as their bit pattern). -/
theorem int_roundtrip (n x : Nat) (h : x < 256 ^ n) : decodeBE n (encodeBE n x) = some x := by
  simpa using decodeBE_encodeBE_append h []

/-- The numeric decoders read a prefix: trailing bytes do not change the value. -/
theorem int_roundtrip_trailing (n x : Nat) (h : x < 256 ^ n) (rest : Bytes) :
    decodeBE n (encodeBE n x ++ rest) = some x :=
  decodeBE_encodeBE_append h rest

/-- Short input is the only way an integer decoder fails (`bytes[..N]` panics). -/
theorem int_fails_iff_short (n : Nat) (bs : Bytes) : decodeBE n bs = none ↔ bs.length < n := by
  unfold decodeBE
  split <;> simp [*]

/-- The other direction: re-encoding what was decoded gives back the bytes read, so for each
width the codec is a bijection between `[0, 256ⁿ)` and the byte strings of length `n`. -/
theorem int_decode_then_encode (n : Nat) (bs : Bytes) (h : bs.length = n) :
    (decodeBE n bs).map (encodeBE n) = some bs := by
  subst h
  simp [decodeBE, encodeBE_beVal]

/-- Every value of every built-in convertible type survives `into_bytes` then `from_bytes`:
integers/floats of width 1, 2, 4, 8, 16, `bool`, `char`, `String`, `()`, `Vec<u8>`,
`Vec<numeric>`, `Vec<bool>`, `Vec<char>`. -/
theorem builtin_roundtrip (t : Ty) (v : Val) (h : wf t v = true) : decode t (encode t v) = some v :=
  decode_encode h

/-! ## derived cluster enums -/

/-- `unpack (pack fields) = fields` for every list of fields (any number, any content). -/
theorem pack_unpack (fs : List Bytes) (bs : Bytes) (h : pack fs = some bs)
    (hlen : bs.length < wordLimit) : unpack fs.length bs = some fs := by
  have := unpackFrom_pack fs bs [] [] h (by simpa using hlen)
  simp only [List.nil_append, List.append_nil, List.length_nil, Nat.zero_add] at this
  simp [unpack, this]

/-- (exactly the packed inputs are accepted) The generated argument decoder accepts `args` as
`n` fields `fs` iff `args` is the packing of `fs` — in particular short input, trailing bytes,
a length prefix pointing beyond the input or overflowing the word, and any re-framing of the
same bytes are all rejected. -/
theorem unpack_accepts_exactly_packed (n : Nat) (args : Bytes) (fs : List Bytes)
    (hlen : args.length < wordLimit) :
    unpack n args = some fs ↔ fs.length = n ∧ pack fs = some args := by
  constructor
  · exact unpack_sound
  · rintro ⟨rfl, hp⟩
    exact pack_unpack fs args hp hlen

/-- (data-less variants) A unit variant, an empty struct variant and an `#[rpc]` variant whose
only field is the reply port (tuple or struct style) carry no argument bytes: their decoder accepts
exactly the empty buffer — any non-empty `args` (trailing garbage, even a well-formed but unasked
field) is an error — and `serialize` produces exactly that buffer. -/
theorem dataless_variant_accepts_exactly_empty_args (args : Bytes) :
    (unpackTyped [] args = some [] ↔ args = []) ∧ (unpackTyped [] args).isSome = decide (args = []) ∧
    pack (encodeFields [] []) = some [] := by
  have h : unpackTyped [] args = if args = [] then some [] else none := by
    cases args with
    | nil => simp [unpackTyped, unpack, unpackFrom, decodeFields]
    | cons b bs => simp [unpackTyped, unpack, unpackFrom]
  refine ⟨?_, ?_, by simp [encodeFields, pack]⟩
  · rw [h]; by_cases ha : args = [] <;> simp [ha]
  · rw [h]; by_cases ha : args = [] <;> simp [ha]

/-- … and so does the whole generated `deserialize` for such a variant, cast or call. -/
theorem dataless_message_accepts_exactly_empty_args (vs : List Variant) (v : Variant) (args : Bytes)
    (hf : v.fields = []) (hv : findVariant vs v.kind v.tag = some v) :
    (deserialize vs (match v.kind with | .cast => .cast v.tag args | .call => .call v.tag args)).isSome
      = decide (args = []) := by
  have h := (dataless_variant_accepts_exactly_empty_args args).2.1
  cases hk : v.kind <;> rw [hk] at hv <;> simp only [deserialize, hv, hf, Option.isSome_map] <;> exact h

/-- Trailing bytes after the last field are rejected (`__ptr == __args.len()`). -/
theorem unpack_trailing_rejected (fs : List Bytes) (bs extra : Bytes) (h : pack fs = some bs)
    (hx : extra ≠ []) (hlen : (bs ++ extra).length < wordLimit) :
    unpack fs.length (bs ++ extra) = none := by
  have := unpackFrom_pack fs bs [] extra h (by simpa using hlen)
  simp only [List.nil_append, List.length_nil, Nat.zero_add] at this
  simp [unpack, this, hx]

/-- Fewer than `8·n` bytes can never hold `n` fields. -/
theorem unpack_short_rejected (n : Nat) (args : Bytes) (h : args.length < 8 * n) :
    unpack n args = none := by
  unfold unpack
  split
  · rename_i fs p hu
    have b := unpackFrom_bounds hu
    split
    · omega
    · rfl
  · rfl

/-- A length prefix that points beyond the argument bytes (in particular one whose sum with
the offset overflows a machine word) is rejected: whatever is accepted lies inside the input. -/
theorem unpack_length_overflow_rejected (args : Bytes) (ptr : Nat)
    (h : args.length < ptr + 8 + beVal ((args.drop ptr).take 8)) : unpackArg args ptr = none := by
  unfold unpackArg
  simp only
  repeat' split
  all_goals first | rfl | omega

theorem decodeFields_encodeFields (ts : List Ty) (vs : List Val) (h : wfFields ts vs = true) :
    decodeFields ts (encodeFields ts vs) = some vs ∧ (encodeFields ts vs).length = ts.length := by
  induction ts generalizing vs with
  | nil => cases vs <;> simp_all [wfFields, decodeFields, encodeFields]
  | cons t ts ih =>
    cases vs with
    | nil => simp [wfFields] at h
    | cons v vs =>
      simp only [wfFields, Bool.and_eq_true] at h
      have := ih vs h.2
      simp [decodeFields, encodeFields, decode_encode h.1, this]

/-- Generated `deserialize ∘ serialize = id` for every variant shape (unit / tuple / struct,
cast or `#[rpc]` call with the reply port at any position — the wire format is positional
over the data fields) and every well-typed field values. -/
theorem enum_roundtrip (vs : List Variant) (v : Variant) (vals : List Val) (m : SMsg)
    (hv : findVariant vs v.kind v.tag = some v) (hwf : wfFields v.fields vals = true)
    (hs : serialize v vals = some m)
    (hlen : ∀ bs, pack (encodeFields v.fields vals) = some bs → bs.length < wordLimit) :
    deserialize vs m = some (v.tag, vals) := by
  unfold serialize at hs
  split at hs
  · rename_i args hp
    have hf := decodeFields_encodeFields v.fields vals hwf
    have hu := pack_unpack _ args hp (hlen args hp)
    rw [hf.2] at hu
    have ht : unpackTyped v.fields args = some vals := by simp [unpackTyped, hu, hf.1]
    cases hk : v.kind <;> simp only [hk, Option.some.injEq] at hs hv <;> subst hs <;>
      simp [deserialize, hv, ht]
  · simp at hs

/-- An unknown variant (or a tag that only exists with the other kind) is an error, not a panic;
a `CallReply` is never a message. -/
theorem unknown_variant_rejected (vs : List Variant) (tag : String) (args : Bytes) :
    (findVariant vs .cast tag = none → deserialize vs (.cast tag args) = none) ∧
    (findVariant vs .call tag = none → deserialize vs (.call tag args) = none) ∧
    deserialize vs .callReply = none := by
  refine ⟨fun h => ?_, fun h => ?_, rfl⟩ <;> simp [deserialize, h]

/-- (actor) A payload that does not decode is dropped and the actor is unchanged. -/
theorem undecodable_payload_dropped (vs : List Variant) (handled : List (String × List Val)) (m : SMsg)
    (h : deserialize vs m = none) : actorStep vs handled m = handled := by
  simp [actorStep, h]

/-! ## frames -/

/-- (fragmentation independence) For every byte stream and every split of it into reads —
including empty pieces — the outcomes and the number of bytes consumed are those of the
unfragmented stream. -/
theorem frames_fragmentation_independent {Msg : Type} (dec : Bytes → Option Msg) (max : Nat)
    (chunks : List Bytes) : framesObs dec max chunks = framesObs dec max [chunks.flatten] := by
  rw [framesObs_eq, framesObs_eq]
  simp

/-- The reader's life is: successfully decoded frames, then exactly one error (EOF, oversize,
unallocatable, undecodable) after which it stops; it never stops silently and never reads on. -/
theorem frames_stop_at_first_error {Msg : Type} (dec : Bytes → Option Msg) (max : Nat)
    (chunks : List Bytes) : stopsAtFirstError (framesObs dec max chunks).1 = true := by
  rw [framesObs_eq]
  exact stops_parseFrames dec max _ _ (by omega)

/-- (bounded) A declared length above the configured maximum, or above `isize::MAX`, is
rejected after consuming exactly the 8 header bytes: the transport still holds every later
byte and the only read requests ever made are those of the header read. -/
theorem oversize_rejected_before_payload {Msg : Type} (dec : Bytes → Option Msg) (max : Nat)
    (chunks : List Bytes) (h8 : 8 ≤ chunks.flatten.length)
    (hbig : max < beVal (chunks.flatten.take 8) ∨ isizeMax < beVal (chunks.flatten.take 8)) :
    ((readFrame dec max chunks).1 = .err .tooLarge ∨ (readFrame dec max chunks).1 = .err .unalloc) ∧
    (readFrame dec max chunks).2.1.flatten = chunks.flatten.drop 8 ∧
    (readFrame dec max chunks).2.2 = (readN 8 8 chunks).2.2 ∧
    traceOk 8 8 0 (readFrame dec max chunks).2.2 = true := by
  have hH := (readN_spec (cs := 8) (by decide) 8 chunks).1 h8
  have hT := readN_traceOk 8 8 chunks
  rcases hh : readN 8 8 chunks with ⟨o, chunks', tr⟩
  rw [hh] at hH hT
  simp only at hH hT
  obtain ⟨h1, h2⟩ := hH
  subst h1
  unfold readFrame
  rw [hh]
  simp only
  have hc : ∃ e, checkedFrameLength (beVal (List.take 8 chunks.flatten)) max = .error e ∧
      (e = .tooLarge ∨ e = .unalloc) := by
    unfold checkedFrameLength
    by_cases hm : beVal (List.take 8 chunks.flatten) > max
    · exact ⟨_, if_pos hm, Or.inl rfl⟩
    · rw [if_neg hm]
      have : beVal (List.take 8 chunks.flatten) > isizeMax := by omega
      exact ⟨_, if_pos this, Or.inr rfl⟩
  obtain ⟨e, he, hk⟩ := hc
  rw [he]
  simp only
  refine ⟨?_, h2, trivial, hT⟩
  rcases hk with rfl | rfl <;> simp

/-- (bounded, for every configured limit) Whatever limit `max` the node was configured with —
the model takes it as a parameter, nothing is specific to the 16 MiB default —, every frame the
reader hands on as decoded declared a length within that limit (and within `isize::MAX`), for
every stream and every fragmentation. -/
theorem accepted_frames_within_configured_limit {Msg : Type} (dec : Bytes → Option Msg) (max : Nat)
    (chunks : List Bytes) : withinLimit max (framesObs dec max chunks).1 chunks.flatten = true := by
  rw [framesObs_eq]
  exact withinLimit_parseFrames dec max _ _

/-- (bounded) Read discipline of `read_n_bytes` and of the header read: every request is at
most `FRAME_READ_CHUNK_SIZE` and at most what the current frame still misses, and the
receive buffer holds exactly the bytes received so far — it grows only as data arrives. -/
theorem buffer_grows_only_with_received_bytes (len : Nat) (chunks : List Bytes) :
    traceOk chunkSize len 0 (readN chunkSize len chunks).2.2 = true ∧
    traceOk 8 8 0 (readN 8 8 chunks).2.2 = true :=
  ⟨readN_traceOk _ _ _, readN_traceOk _ _ _⟩

/-- (a transport that FAILS) When the transport, after delivering the pieces `chunks`, answers the
next read with an I/O error instead of EOF (every `?` of `read_u64` / `read_n_bytes`), the reader's
life is still: decoded frames, then exactly one error, then nothing; it does not depend on the
fragmentation; the frames decoded before the failure are exactly those of the same bytes followed
by EOF; and the failure is never reported as a clean EOF (stop reason `frame_read_error`, not
`channel_closed`). -/
theorem io_error_stops_reader {Msg : Type} (dec : Bytes → Option Msg) (max : Nat) (chunks : List Bytes)
    (endIo : Bool) :
    stopsAtFirstError (readFramesIo dec max chunks endIo).1 = true ∧
    (readFramesIo dec max chunks endIo).1 = (readFramesIo dec max [chunks.flatten] endIo).1 ∧
    (∀ m, FrameRes.ok m ∈ (readFramesIo dec max chunks endIo).1 ↔ FrameRes.ok m ∈ (readFrames dec max chunks).1) ∧
    (endIo = true → FrameRes.err FrameErr.eof ∉ (readFramesIo dec max chunks endIo).1) ∧
    (∀ e, FrameRes.err e ∈ (readFramesIo dec max chunks true).1 → stopReason e = "frame_read_error") := by
  refine ⟨?_, ?_, ?_, ?_, ?_⟩
  · simp only [readFramesIo, stops_map_ioEnd]
    exact readFrames_stops dec max chunks
  · simp only [readFramesIo]
    rw [readFrames_fst_eq dec max chunks]
  · intro m
    simp only [readFramesIo]
    exact ok_mem_map_ioEnd endIo _ m
  · intro h
    subst h
    exact no_eof_after_ioEnd _
  · intro e he
    have := no_eof_after_ioEnd (readFrames dec max chunks).1
    cases e with
    | eof => exact absurd he this
    | tooLarge => rfl
    | unalloc => rfl
    | undecodable => rfl
    | io => rfl

/-- (round trip) Frames written by `encode_network_message`, each within the limit, are read
back in order whatever the fragmentation, followed by EOF; every byte is consumed. -/
theorem frames_roundtrip {Msg : Type} (dec : Bytes → Option Msg) (max : Nat) (ps : List Bytes)
    (chunks : List Bytes) (hs : chunks.flatten = ps.flatMap encodeFrame)
    (hmax : ∀ p ∈ ps, p.length ≤ max ∧ p.length ≤ isizeMax) (hdec : ∀ p ∈ ps, (dec p).isSome) :
    framesObs dec max chunks = (ps.map (okOf dec) ++ [.err .eof], chunks.flatten.length) := by
  rw [framesObs_eq, hs]
  apply parseFrames_encode dec max ps hmax hdec
  have : ps.length ≤ (ps.flatMap encodeFrame).length := by
    clear hs hmax hdec
    induction ps with
    | nil => simp
    | cons p ps ih =>
      simp only [List.flatMap_cons, List.length_append, length_encodeFrame, List.length_cons]
      omega
  omega

/-- A truncated stream (cut anywhere inside a frame) ends with `UnexpectedEof` after all
available bytes were consumed — the reader neither blocks on a length it cannot satisfy nor
invents data. -/
theorem truncated_frame_is_eof {Msg : Type} (dec : Bytes → Option Msg) (max : Nat) (s : Bytes)
    (h : s.length < 8 ∨ (checkedFrameLength (beVal (s.take 8)) max).toOption.any (fun len => s.length < 8 + len)) :
    parseOne dec max s = (.err .eof, s.length) := by
  unfold parseOne
  rcases h with h | h
  · simp [h]
  · by_cases h8 : s.length < 8
    · simp [h8]
    · rw [if_neg h8]
      cases hc : checkedFrameLength (beVal (List.take 8 s)) max with
      | error e => simp [hc, Except.toOption] at h
      | ok len =>
        simp only [hc, Except.toOption, Option.any_some, decide_eq_true_eq] at h
        simp [h]

/-- (oracle = theorem) The decidable predicate `framesOk`, which the driver evaluates on the
observations of the real `read_network_message`, holds of the model's own observation for
every stream, every fragmentation, every limit and every payload decoder: no clause can fail. -/
theorem model_satisfies_frames_oracle {Msg : Type} [DecidableEq Msg] (dec : Bytes → Option Msg)
    (max : Nat) (chunks : List Bytes) :
    framesOk max chunks.flatten
      { whole := framesObs dec max [chunks.flatten], split := framesObs dec max chunks,
        maxReq := maxReq (readFrames dec max chunks).2.2, panicked := false } = [] := by
  have hw : framesObs dec max [chunks.flatten] = framesObs dec max chunks :=
    (frames_fragmentation_independent dec max chunks).symm
  have hstop := frames_stop_at_first_error dec max chunks
  have hreq : maxReq (readFrames dec max chunks).2.2 ≤ chunkSize :=
    maxReq_le _ (readFramesLoop_req_le dec max _ chunks)
  have heq := framesObs_eq dec max chunks
  have hlim := withinLimit_parseFrames dec max (chunks.flatten.length + 1) chunks.flatten
  have hle := parseFrames_consumed_le dec max (chunks.flatten.length + 1) chunks.flatten
  have hrej := rejectPoint_parseFrames dec max (chunks.flatten.length + 1) chunks.flatten
  unfold framesOk
  simp only [hw, hstop, beq_self_eq_true, Bool.and_self, if_true, Bool.false_eq_true, if_false,
    List.nil_append, List.append_nil]
  rw [heq] at hstop ⊢
  generalize chunks.flatten = S at *
  generalize parseFrames dec max (S.length + 1) S = P at *
  simp only [hreq, hlim, hle, if_true, List.nil_append, List.append_nil, decide_true]
  by_cases hl : lastIsReject P.1 = true
  · simp only [hl, if_true, hrej hl, beq_self_eq_true, List.append_nil]
  · have : lastIsReject P.1 = false := by simpa using hl
    simp only [this, Bool.false_eq_true, if_false, List.append_nil]

/-! ## job metadata -/

/-- Missing metadata or fewer than 16 bytes is rejected. -/
theorem meta_short_rejected (bs : Bytes) (h : bs.length < 16) :
    decodeMeta (some bs) = none ∧ decodeMeta none = none := by
  simp [decodeMeta, h]

/-- Round trip of `(submit time, ttl, key bytes)` for `0 < ttl < 2⁶⁴` ns (or no ttl). -/
theorem meta_roundtrip (m : JobMeta) (h : metaOk m = true) : decodeMeta (some (encodeMeta m)) = some m := by
  obtain ⟨submit, ttl, key⟩ := m
  simp only [metaOk, Bool.and_eq_true, decide_eq_true_eq] at h
  obtain ⟨hs, ht⟩ := h
  have hs' : submit < 256 ^ 8 := by simpa using hs
  have hE1 := length_encodeBE 8 submit
  have hE2 := length_encodeBE 8 (ttl.getD 0)
  have e1 : encodeMeta ⟨submit, ttl, key⟩ = encodeBE 8 submit ++ (encodeBE 8 (ttl.getD 0) ++ key) := by
    simp [encodeMeta]
  have e2 : encodeMeta ⟨submit, ttl, key⟩ = (encodeBE 8 submit ++ encodeBE 8 (ttl.getD 0)) ++ key := by
    simp [encodeMeta]
  have hlen : (encodeMeta ⟨submit, ttl, key⟩).length = 16 + key.length := by
    simp [encodeMeta, hE1, hE2]; omega
  have ht' : ttl.getD 0 < 256 ^ 8 := by
    cases ttl with
    | none => simp
    | some t => simp only [decide_eq_true_eq] at ht; simpa using ht.2
  simp only [decodeMeta]
  rw [if_neg (by omega)]
  have h1 : (encodeMeta ⟨submit, ttl, key⟩).take 8 = encodeBE 8 submit := by
    rw [e1, List.take_left' hE1]
  have h2 : ((encodeMeta ⟨submit, ttl, key⟩).drop 8).take 8 = encodeBE 8 (ttl.getD 0) := by
    rw [e1, List.drop_left' hE1, List.take_left' hE2]
  have h3 : (encodeMeta ⟨submit, ttl, key⟩).drop 16 = key := by
    rw [e2, List.drop_left' (by simp [hE1, hE2])]
  simp only [h1, h2, h3, beVal_encodeBE_of_lt hs', beVal_encodeBE_of_lt ht']
  cases ttl with
  | none => simp
  | some t =>
    simp only [decide_eq_true_eq] at ht
    simp [ht.1]

/-- Observation (not a violation of the statement, `JobOptions` is not one of the built-in
convertible types): the hypothesis of `meta_roundtrip` is needed — `ttl = Some(0)` comes back
as `None`, and a ttl of `2⁶⁴` ns or more is truncated. -/
theorem meta_ttl_zero_and_huge_are_lossy :
    decodeMeta (some (encodeMeta ⟨5, some 0, []⟩)) = some ⟨5, none, []⟩ ∧
    decodeMeta (some (encodeMeta ⟨5, some (2 ^ 64 + 7), []⟩)) = some ⟨5, some 7, []⟩ := by
  decide

/-! ## the model's constants are the source's -/

theorem chunk_size_value : chunkSize = 8192 ∧ defaultMaxFrame = 16777216 := by decide

/-- E-SRC: `FRAME_READ_CHUNK_SIZE` as extracted from `ractor_cluster/src/net/session.rs`. -/
theorem src_frame_chunk : Extracted.frameReadChunkSize = some Codec.chunkSize := by decide

/-- E-SRC: `DEFAULT_MAX_INBOUND_FRAME_SIZE` as extracted from `ractor_cluster/src/node.rs`. -/
theorem src_default_max_frame : Extracted.defaultMaxInboundFrameSize = some Codec.defaultMaxFrame := by decide

/-! ## non-vacuity -/

example : wf (.vecUint 2) (.nats [0, 65535, 258]) = true ∧
    encode (.vecUint 2) (.nats [0, 65535, 258]) = [0, 0, 255, 255, 1, 2] := by decide

example : pack [[1, 2], [], [9]] = some
    [0,0,0,0,0,0,0,2, 1,2, 0,0,0,0,0,0,0,0, 0,0,0,0,0,0,0,1, 9] := by decide

example : unpack 3 [0,0,0,0,0,0,0,2, 1,2, 0,0,0,0,0,0,0,0, 0,0,0,0,0,0,0,1, 9] = some [[1, 2], [], [9]] := by
  decide

example : unpack 1 [255,255,255,255,255,255,255,255, 1] = none := by decide

/-- two frames, delivered byte by byte with an empty piece, then a truncated third one -/
example :
    framesObs (fun p => some p) 4
      [[0], [0,0,0,0,0,0], [], [2, 7], [8, 0,0,0,0], [0,0,0,0, 0], [0,0,0]]
      = ([.ok [7, 8], .ok [], .err .eof], 22) := by decide

/-- oversize: one byte above the limit is rejected having consumed exactly the header -/
example : framesObs (fun p => some p) 4 [[0,0,0,0,0,0,0,5, 1,2,3,4,5]] = ([.err .tooLarge], 8) := by decide

example : metaOk ⟨1700000000000000000, some 1500, [1, 2]⟩ = true := by decide

/-- (an undecodable message harms nobody) Whatever `from_boxed` does with a serialized message that
is not a message of the actor — return `Err` or panic —, `handle` is not called, the actor keeps
running with its state untouched, and if the message was a `Call` its reply port is dropped: the
caller observes an absence, never a value. For the generated decoders (`decodedOf`) this is the
case exactly when the model's `deserialize` rejects the message. -/
theorem undecodable_message_harms_nobody (vs : List Variant) (st : ActorSt) (m : SMsg) :
    (handleMessage st m .err).handled = st.handled ∧ (handleMessage st m .panic).handled = st.handled ∧
    (handleMessage st m .err).running = st.running ∧ (handleMessage st m .panic).running = st.running ∧
    (handleMessage st m .err).droppedPorts = st.droppedPorts + (if m.isCall then 1 else 0) ∧
    (handleMessage st m .panic).droppedPorts = st.droppedPorts + (if m.isCall then 1 else 0) ∧
    (deserialize vs m = none → (handleMessage st m (decodedOf vs m)).handled = st.handled ∧
      (handleMessage st m (decodedOf vs m)).running = st.running) ∧
    (∀ d, deserialize vs m = some d → (handleMessage st m (decodedOf vs m)).handled = st.handled ++ [d]) := by
  refine ⟨rfl, rfl, rfl, rfl, rfl, rfl, ?_, ?_⟩
  · intro h; simp [decodedOf, h, handleMessage]
  · intro d h; simp [decodedOf, h, handleMessage]

/-! ## `Job` messages, reply-port position, reply bridge -/

/-- (`Job::deserialize` rejects) A job message is decoded iff its metadata is present with at
least 16 bytes, the key decoder accepts the key bytes AND the inner message decodes; a
`CallReply` never is. In every other case the result is `none` — the message is dropped
(`undecodable_payload_dropped`), whatever the other parts say. -/
theorem job_decodes_iff (kty : Ty) (vs : List Variant) (m : SMsg) (md : Option Bytes) :
    (decodeJob kty vs m md).isSome ↔
      (m ≠ .callReply ∧ ∃ jm, decodeMeta md = some jm ∧ (decode kty jm.key).isSome ∧ (deserialize vs m).isSome) := by
  cases m with
  | callReply => simp [decodeJob]
  | cast tag args =>
    simp only [decodeJob]
    cases hm : decodeMeta md with
    | none => simp
    | some jm =>
      cases hk : decode kty jm.key with
      | none => simp [hk]
      | some k => simp [hk]
  | call tag args =>
    simp only [decodeJob]
    cases hm : decodeMeta md with
    | none => simp
    | some jm =>
      cases hk : decode kty jm.key with
      | none => simp [hk]
      | some k => simp [hk]

/-- (`Job` round trip) key, options (submit time, `0 < ttl < 2⁶⁴` or none) and the inner message
of every variant shape survive `Job::serialize` followed by `Job::deserialize`. -/
theorem job_roundtrip (kty : Ty) (key : Val) (submit : Nat) (ttl : Option Nat) (vs : List Variant)
    (v : Variant) (vals : List Val) (sm : SMsg) (md : Bytes)
    (hk : wf kty key = true) (hm : metaOk ⟨submit, ttl, encode kty key⟩ = true)
    (hv : findVariant vs v.kind v.tag = some v) (hwf : wfFields v.fields vals = true)
    (hlen : ∀ bs, pack (encodeFields v.fields vals) = some bs → bs.length < wordLimit)
    (he : encodeJob kty key submit ttl v vals = some (sm, md)) :
    decodeJob kty vs sm (some md) = some (key, ⟨submit, ttl, encode kty key⟩, v.tag, vals) := by
  unfold encodeJob at he
  cases hs : serialize v vals with
  | none => simp [hs] at he
  | some sm' =>
    simp only [hs, Option.map_some, Option.some.injEq, Prod.mk.injEq] at he
    obtain ⟨rfl, rfl⟩ := he
    have hd := enum_roundtrip vs v vals sm' hv hwf hs hlen
    have hmeta := meta_roundtrip _ hm
    have hkey := builtin_roundtrip kty key hk
    have hne : sm' ≠ .callReply := by
      intro h; rw [h] at hd; simp [deserialize] at hd
    cases sm' with
    | callReply => exact absurd rfl hne
    | cast tag args => simp [decodeJob, hmeta, hkey, hd]
    | call tag args => simp [decodeJob, hmeta, hkey, hd]

/-- (reply port anywhere) For a tuple-style `#[rpc]` variant whose port is the field number
`idx` of `n + 1` fields: the generated pattern / constructor list has the port exactly at `idx`,
and removing it gives back the data fields in declaration order — the order in which they are
packed and unpacked — for EVERY position of the port. -/
theorem reply_port_position {α : Type} (data : List α) (port : α) (idx : Nat) (h : idx ≤ data.length) :
    (orderedBindings port data idx).length = data.length + 1 ∧
    (orderedBindings port data idx)[idx]? = some port ∧
    dataFieldsOf (orderedBindings port data idx) idx = data := by
  induction data generalizing idx with
  | nil =>
    have : idx = 0 := by simpa using h
    subst this
    simp [orderedBindings, dataFieldsOf]
  | cons d ds ih =>
    cases idx with
    | zero => simp [orderedBindings, dataFieldsOf]
    | succ k =>
      have := ih k (by simpa using h)
      simp only [orderedBindings, dataFieldsOf, List.length_cons, List.getElem?_cons_succ, List.eraseIdx_cons_succ]
      exact ⟨by omega, this.2.1, by rw [show List.eraseIdx (orderedBindings port ds k) k = ds from this.2.2]⟩

/-- (reply value) What the real actor answers on the typed port reaches the caller unchanged
through the two bridges (`into_bytes` on the callee's node, `from_bytes` on the caller's) for
every reply type and well-formed value; and a reply whose bytes do not decode (a panic inside
`from_bytes`, caught) yields no value at all, never a wrong one. -/
theorem reply_bridge_roundtrip (rt : Ty) (v : Val) (h : wf rt v = true) : replyBridge rt v = some v :=
  builtin_roundtrip rt v h

example : (orderedBindings "port" ["a", "b"] 1, dataFieldsOf ["a", "port", "b"] 1) = (["a", "port", "b"], ["a", "b"]) := by
  decide

#print axioms C19.io_error_stops_reader
#print axioms C19.undecodable_message_harms_nobody
#print axioms C19.job_decodes_iff
#print axioms C19.job_roundtrip
#print axioms C19.reply_port_position
#print axioms C19.reply_bridge_roundtrip



/-! ### Translator tie (rs2lean): kernel-checked equivalence between the definitions that
`extract/rs2lean.py` regenerates from the CURRENT Rust source on every run
(`RactorModel/Generated/*.lean`) and the hand-written model functions the theorems above are
about. A semantic change of the Rust function changes the generated text and these stop checking. -/

section XlateTie
open Generated.Frame GenFrame

theorem generated_checked_frame_length_eq_model (len max : Nat) :
    (checked_frame_length len max).mapError absErr = Codec.checkedFrameLength len max := by
  unfold checked_frame_length Codec.checkedFrameLength
  by_cases h1 : len > max
  · simp [h1, Except.mapError, absErr]
  · have hx : Rust.unwrap (Rust.tryFrom 64 9223372036854775807) = Codec.isizeMax := by decide
    simp only [h1, decide_false, Bool.false_eq_true, ↓reduceIte, hx]
    by_cases h2 : len > Codec.isizeMax
    · simp [h2, Except.mapError, absErr]
    · have h3 : len < 2 ^ 64 := by unfold Codec.isizeMax at h2; omega
      simp [h2, Rust.tryFrom, h3, Rust.okOr, Except.mapError]

theorem generated_frame_constants :
    FRAME_READ_CHUNK_SIZE = Codec.chunkSize ∧ DEFAULT_MAX_INBOUND_FRAME_SIZE = Codec.defaultMaxFrame := by
  decide

/-- write side: `encode_network_message` appends the 8-byte big-endian length and the payload,
i.e. `Codec.encodeFrame` (for a payload whose length fits `u64`, else the real code panics). -/
theorem generated_encode_network_message_eq_model (msg buf : List UInt8) (h : msg.length < 2 ^ 64) :
    encode_network_message msg buf = buf ++ Codec.encodeFrame msg := by
  simp [encode_network_message, Codec.encodeFrame, Rust.unwrap, Rust.tryFrom, h, List.append_assoc]
end XlateTie

section XlateTieMeta
open Generated.JobMeta GenJobMeta Codec

/-- `JobOptions::into_bytes`: exactly 16 bytes, submit time then ttl (`None ↦ 0`), both `as u64`. -/
theorem generated_job_options_into_bytes_eq_model (dflt o : JobOptions) :
    JobOptions.into_bytes dflt o
      = encodeBE 8 (o.submit_time % 2 ^ 64) ++ encodeBE 8 ((o.ttl.map (· % 2 ^ 64)).getD 0) := by
  unfold JobOptions.into_bytes
  simp only [Rust.cast, Nat.sub_zero]
  exact copy_two (0 : UInt8) _ _ 8 (length_encodeBE _ _) (length_encodeBE _ _)

/-- `Job::serialize_meta` = `Codec.encodeMeta` for metadata within the `u64` ranges. -/
theorem generated_serialize_meta_eq_model (dflt : JobOptions) (j : Job)
    (hs : j.options.submit_time < 2 ^ 64) (ht : ∀ t, j.options.ttl = some t → t < 2 ^ 64)
    (hk : 16 + j.key.length < 2 ^ 64) :
    (Job.serialize_meta dflt j).1 = encodeMeta (absMeta j.key j.options) := by
  unfold Job.serialize_meta
  simp only [generated_job_options_into_bytes_eq_model]
  have hw : Rust.wAdd 64 16 j.key.length = 16 + j.key.length := by unfold Rust.wAdd; omega
  rw [hw]
  have hl : (encodeBE 8 (j.options.submit_time % 2 ^ 64)
      ++ encodeBE 8 ((j.options.ttl.map (· % 2 ^ 64)).getD 0)).length = 16 := by
    simp [length_encodeBE]
  rw [copy_head_tail (0 : UInt8) _ j.key 16 hl]
  have h1 : j.options.submit_time % 2 ^ 64 = j.options.submit_time := Nat.mod_eq_of_lt hs
  have h2 : (j.options.ttl.map (· % 2 ^ 64)).getD 0 = j.options.ttl.getD 0 := by
    cases h : j.options.ttl with
    | none => rfl
    | some t => simp [Nat.mod_eq_of_lt (ht t h)]
  simp [encodeMeta, absMeta, h1, h2]

/-- `Job::deserialize_meta` (+ `JobOptions::from_bytes` on the 16-byte prefix) = `Codec.decodeMeta`,
for every input and every default value. -/
theorem generated_deserialize_meta_eq_model (dflt : JobOptions) (ob : Option (List UInt8)) :
    (match Job.deserialize_meta dflt ob with
     | .ok (k, o) => some (absMeta k o)
     | .error _ => none) = decodeMeta ob := by
  cases ob with
  | none => rfl
  | some bs =>
    unfold Job.deserialize_meta decodeMeta
    by_cases h : bs.length < 16
    · simp [h]
    · have hl : (List.take 16 bs).length = 16 := by simp; omega
      simp only [h, decide_false, Bool.false_eq_true, ↓reduceIte, JobOptions.from_bytes, hl, ne_eq,
        not_true_eq_false, absMeta]
      simp [List.take_take, List.drop_take]
end XlateTieMeta

/-! ## F16 (known finding, clause `c19-jobopts-ttl-not-roundtripped`): `JobOptions`' TTL on the wire

"For every value of every supported type encode followed by decode yields the original value" is FALSE for the job
metadata: the TTL field is `as_nanos() as u64` with 0 standing for `None`. Negation on the witness
`corpus/C19/e-jobwire-f16_ttl_not_roundtripped.ops` (real output `jo 0` → `len=16 wire=0 back=- submit_same=1`,
`jo 18446744073709551617` → `wire=1 back=1`): a TTL of zero comes back as no TTL — the job can never expire at the remote
factory —, 2^64 ns likewise, 2^64 + 1 ns comes back as 1 ns. `meta_roundtrip` keeps its hypothesis `0 < ttl < 2^64`. -/
theorem f16_jobopts_ttl_not_roundtripped :
    decodeMeta (some (encodeMeta ⟨5, some 0, []⟩)) ≠ some ⟨5, some 0, []⟩ ∧
    decodeMeta (some (encodeMeta ⟨5, some (2 ^ 64), []⟩)) ≠ some ⟨5, some (2 ^ 64), []⟩ ∧
    decodeMeta (some (encodeMeta ⟨5, some (2 ^ 64 + 1), []⟩)) ≠ some ⟨5, some (2 ^ 64 + 1), []⟩ ∧
    (decodeMeta (some (encodeMeta ⟨5, some 0, []⟩))).map (·.ttl) = some none ∧
    (decodeMeta (some (encodeMeta ⟨5, some (2 ^ 64 + 1), []⟩))).map (·.ttl) = some (some 1) := by
  decide

/-! ## Round 4, wave 2 -/

/-- an undecodable SERIALIZED message in the loop: one step, whatever the decoder did -/
theorem processMessage_undecodable (st : ActorSt) (x : Inbox) (hr : st.running = true)
    (hs : x.serialized = true) (hd : x.decoded = none) :
    (processMessage st x).running = true ∧ (processMessage st x).handled = st.handled ∧
    (processMessage st x).droppedPorts = st.droppedPorts + (if x.msg.isCall then 1 else 0) := by
  cases hdec : x.dec with
  | ok d => simp [Inbox.decoded, hdec] at hd
  | err => simp [processMessage, hr, hdec, hs, dropPort]
  | panic => simp [processMessage, hr, hdec, hs, dropPort]

/-- (an undecodable message harms nobody — over the message LOOP, where harm is possible) In the
model of `process_message` / `handle_message` with both of its branches — a decoder failure on a
LOCAL message (`from_boxed(msg)?`) and a failing `handle` DO end the loop (`running := false`, see
`local_decode_failure_stops_the_actor`) — for every sequence of messages in which `handle` never
fails and every decoder failure (an `Err` or a panic) is on a serialized message: the actor is
still running, `handle` was called with exactly the decodable messages in order, and exactly the
undecodable / answered-by-the-probe calls had their port dropped (their callers see an absence). -/
theorem undecodable_serialized_messages_never_stop_the_actor (xs : List Inbox)
    (hh : ∀ x ∈ xs, x.hres = .ok) (hl : ∀ x ∈ xs, x.serialized = false → x.decoded ≠ none) :
    (messageLoop {} xs).running = true ∧ (messageLoop {} xs).handled = xs.filterMap Inbox.decoded ∧
    (messageLoop {} xs).droppedPorts = xs.countP (·.msg.isCall) := by
  suffices h : ∀ st : ActorSt, st.running = true →
      (messageLoop st xs).running = true ∧ (messageLoop st xs).handled = st.handled ++ xs.filterMap Inbox.decoded ∧
      (messageLoop st xs).droppedPorts = st.droppedPorts + xs.countP (·.msg.isCall) by
    simpa using h {} rfl
  induction xs with
  | nil => intro st hr; simp [messageLoop, hr]
  | cons x xs ih =>
    intro st hr
    have hx := hh x (by simp)
    have ih' := ih (fun y hy => hh y (by simp [hy])) (fun y hy => hl y (by simp [hy]))
    simp only [messageLoop, List.foldl_cons] at ih' ⊢
    cases hdec : x.dec with
    | ok d =>
      have h1 : processMessage st x =
          { dropPort st x.msg with handled := st.handled ++ [d] } := by
        simp [processMessage, hr, hdec, hx]
      obtain ⟨a, b, c⟩ := ih' (processMessage st x) (by rw [h1]; simpa [dropPort] using hr)
      refine ⟨a, ?_, ?_⟩
      · rw [b, h1]; simp [Inbox.decoded, hdec, dropPort]
      · rw [c, h1]; by_cases hc : x.msg.isCall = true <;> simp [dropPort, hc, List.countP_cons] <;> omega
    | err =>
      have hs : x.serialized = true := by
        cases hs : x.serialized with
        | true => rfl
        | false => exact absurd (by simp [Inbox.decoded, hdec]) (hl x (by simp) hs)
      obtain ⟨p1, p2, p3⟩ := processMessage_undecodable st x hr hs (by simp [Inbox.decoded, hdec])
      obtain ⟨a, b, c⟩ := ih' (processMessage st x) p1
      refine ⟨a, ?_, ?_⟩
      · rw [b, p2]; simp [Inbox.decoded, hdec]
      · rw [c, p3]; by_cases hc : x.msg.isCall = true <;> simp [hc, List.countP_cons] <;> omega
    | panic =>
      have hs : x.serialized = true := by
        cases hs : x.serialized with
        | true => rfl
        | false => exact absurd (by simp [Inbox.decoded, hdec]) (hl x (by simp) hs)
      obtain ⟨p1, p2, p3⟩ := processMessage_undecodable st x hr hs (by simp [Inbox.decoded, hdec])
      obtain ⟨a, b, c⟩ := ih' (processMessage st x) p1
      refine ⟨a, ?_, ?_⟩
      · rw [b, p2]; simp [Inbox.decoded, hdec]
      · rw [c, p3]; by_cases hc : x.msg.isCall = true <;> simp [hc, List.countP_cons] <;> omega

/-- the branch is real: the SAME decoder failure on a local message, or a failing `handle`, ends the
message loop, and nothing is handled afterwards -/
theorem local_decode_failure_stops_the_actor (st : ActorSt) (m : SMsg) (rest : List Inbox) (hr : st.running = true) :
    (processMessage st ⟨false, m, .err, .ok⟩).running = false ∧
    (processMessage st ⟨false, m, .panic, .ok⟩).running = false ∧
    (∀ d, (processMessage st ⟨true, m, .ok d, .err⟩).running = false) ∧
    (messageLoop (processMessage st ⟨false, m, .err, .ok⟩) rest).handled = st.handled := by
  refine ⟨by simp [processMessage, hr, dropPort], by simp [processMessage, hr, dropPort],
    fun d => by simp [processMessage, hr, dropPort], ?_⟩
  have h0 : (processMessage st ⟨false, m, .err, .ok⟩).running = false := by simp [processMessage, hr, dropPort]
  have h1 : (processMessage st ⟨false, m, .err, .ok⟩).handled = st.handled := by simp [processMessage, hr, dropPort]
  generalize processMessage st ⟨false, m, .err, .ok⟩ = t at h0 h1
  induction rest generalizing t with
  | nil => exact h1
  | cons x xs ih =>
    simp only [messageLoop, List.foldl_cons]
    have : processMessage t x = t := by simp [processMessage, h0]
    rw [this]; exact ih t h0 h1

example : (messageLoop {} [⟨true, .cast "x" [], .err, .ok⟩, ⟨true, .call "y" [], .panic, .ok⟩,
    ⟨true, .cast "A" [], .ok ("A", []), .ok⟩]).running = true := by decide
example : (messageLoop {} [⟨false, .cast "x" [], .err, .ok⟩, ⟨true, .cast "A" [], .ok ("A", []), .ok⟩]).handled = [] := by decide

/-- (`reply_port_position` connected to `enum_roundtrip`) A tuple-style `#[rpc]` variant DECLARED
with `fields.length + 1` fields, the reply port (`none`) at ANY position `idx`: the wire variant is
the declaration without the port (`dataFieldsOf`, what `parse_rpc_variant` computes); the sender's
constructor arguments `args` have the port at `idx` (`orderedBindings`, what the generated pattern
binds); the data bindings are packed in declaration order. Then the receiving node decodes the
message, and the constructor argument list IT builds (`orderedBindings` with its own fresh port) is
the sender's argument list: every value arrives at its declared position, the port at `idx`. -/
theorem rpc_variant_roundtrip_any_port_position (vs : List Variant) (tag : String) (fields : List Ty)
    (vals : List Val) (idx : Nat) (hidx : idx ≤ fields.length) (hidx' : idx ≤ vals.length) (m : SMsg)
    (hv : findVariant vs .call tag =
      some ⟨tag, .call, (dataFieldsOf (orderedBindings none (fields.map some) idx) idx).filterMap id⟩)
    (hwf : wfFields fields vals = true)
    (hs : serialize ⟨tag, .call, (dataFieldsOf (orderedBindings none (fields.map some) idx) idx).filterMap id⟩
      ((dataFieldsOf (orderedBindings none (vals.map some) idx) idx).filterMap id) = some m)
    (hlen : ∀ bs, pack (encodeFields fields vals) = some bs → bs.length < wordLimit) :
    ∃ vals', deserialize vs m = some (tag, vals') ∧
      orderedBindings none (vals'.map some) idx = orderedBindings none (vals.map some) idx ∧
      (orderedBindings none (vals'.map some) idx)[idx]? = some none := by
  have hf : (dataFieldsOf (orderedBindings none (fields.map some) idx) idx).filterMap id = fields := by
    rw [(reply_port_position (fields.map some) none idx (by simpa using hidx)).2.2]; simp
  have hvv : (dataFieldsOf (orderedBindings none (vals.map some) idx) idx).filterMap id = vals := by
    rw [(reply_port_position (vals.map some) none idx (by simpa using hidx')).2.2]; simp
  rw [hf] at hv hs
  rw [hvv] at hs
  have := enum_roundtrip vs ⟨tag, .call, fields⟩ vals m hv hwf hs hlen
  exact ⟨vals, this, rfl, (reply_port_position (vals.map some) none idx (by simpa using hidx')).2.1⟩

/-- (a transport that fails — as a BRANCH of the read loop) `Model/FailingTransport.lean`: the
transport answers some read — at any byte offset, inside a length header or a payload, with
anything after it — with an I/O error, and `read_u64` / `read_n_bytes` / `read_network_message` /
the reader loop propagate it (`?`). For every fragmentation `chunks` of the bytes before the failure
and everything `rest` after it: the reader's life is exactly what `readFramesIo` describes (so
`io_error_stops_reader` is a theorem about this reader, no longer a renaming): frames, then
exactly one error, never reported as a clean EOF (`frame_read_error`, not `channel_closed`), the
frames decoded before the failure being those of the same bytes followed by EOF; and without a
failure it is `readFrames`. -/
theorem reader_over_failing_transport {Msg : Type} (dec : Bytes → Option Msg) (max : Nat) (chunks : List Bytes)
    (rest : List Piece) :
    readFramesT dec max (chunks.map .data ++ .fail :: rest) = (readFramesIo dec max chunks true).1 ∧
    readFramesT dec max (chunks.map .data) = (readFrames dec max chunks).1 ∧
    stopsAtFirstError (readFramesT dec max (chunks.map .data ++ .fail :: rest)) = true ∧
    FrameRes.err FrameErr.eof ∉ readFramesT dec max (chunks.map .data ++ .fail :: rest) ∧
    (∀ e, FrameRes.err e ∈ readFramesT dec max (chunks.map .data ++ .fail :: rest) → stopReason e = "frame_read_error") ∧
    (∀ m, FrameRes.ok m ∈ readFramesT dec max (chunks.map .data ++ .fail :: rest) ↔
      FrameRes.ok m ∈ (readFrames dec max chunks).1) ∧
    readFramesT dec max (chunks.map .data ++ .fail :: rest) = readFramesT dec max ([chunks.flatten].map .data ++ [.fail]) := by
  have key : ∀ (cs : List Bytes) (r : List Piece),
      readFramesT dec max (cs.map .data ++ .fail :: r) = (readFramesIo dec max cs true).1 := by
    intro cs r
    have h1 := dataLen_tl true r cs
    have h2 := readFramesLoopT_eq dec max true r (streamLen cs + 1) cs
    simp only [tl, ↓reduceIte] at h1 h2
    simp only [readFramesT, h1, h2, readFramesIo, readFrames]
  have h0 : readFramesT dec max (chunks.map .data) = (readFrames dec max chunks).1 := by
    have h1 := dataLen_tl false [] chunks
    have h2 := readFramesLoopT_eq dec max false [] (streamLen chunks + 1) chunks
    simp only [tl, Bool.false_eq_true, ↓reduceIte, List.append_nil] at h1 h2
    simp only [readFramesT, h1, h2, readFrames]
    have : ∀ rs : List (FrameRes Msg), rs.map (ioEnd false) = rs := by
      intro rs
      induction rs with
      | nil => rfl
      | cons r rs ih =>
        simp only [List.map_cons, ih]
        congr 1
        cases r with
        | ok m => rfl
        | err e => cases e <;> rfl
    exact this _
  obtain ⟨a, b, c, d, e⟩ := io_error_stops_reader dec max chunks true
  rw [key chunks rest]
  refine ⟨rfl, h0, a, d rfl, e, c, ?_⟩
  rw [key [chunks.flatten] []]
  exact b

example : readFramesT (fun b => some b) 100 [.data [0, 0, 0, 0, 0, 0, 0, 2, 7], .data [8, 0, 0], .fail, .data [0]] =
    [.ok [7, 8], .err .io] := by decide
example : readFramesT (fun b => some b) 100 [.data [0, 0, 0, 0, 0, 0, 0, 2, 7], .data [8, 0, 0]] =
    [.ok [7, 8], .err .eof] := by decide

/-- E-SRC tie of `Codec.processMessage`: in `handle_message` the serialized branch answers a decoder
`Err` and a decoder panic with `return Ok(())` (the loop goes on), the local branch propagates with `?`. -/
theorem extracted_handle_message_branches :
    Extracted.handleMessageSerializedArms =
      ["Ok(Ok(message))=>message", "Ok(Err(_))=>{returnOk(());}", "Err(_)=>{returnOk(());}"] ∧
    Extracted.handleMessageLocalBranch = "TActor::Msg::from_boxed(msg)?" := by decide

end C19

#print axioms C19.int_roundtrip
#print axioms C19.int_roundtrip_trailing
#print axioms C19.int_fails_iff_short
#print axioms C19.int_decode_then_encode
#print axioms C19.builtin_roundtrip
#print axioms C19.pack_unpack
#print axioms C19.unpack_accepts_exactly_packed
#print axioms C19.dataless_variant_accepts_exactly_empty_args
#print axioms C19.dataless_message_accepts_exactly_empty_args
#print axioms C19.unpack_trailing_rejected
#print axioms C19.unpack_short_rejected
#print axioms C19.unpack_length_overflow_rejected
#print axioms C19.decodeFields_encodeFields
#print axioms C19.enum_roundtrip
#print axioms C19.unknown_variant_rejected
#print axioms C19.undecodable_payload_dropped
#print axioms C19.frames_fragmentation_independent
#print axioms C19.frames_stop_at_first_error
#print axioms C19.oversize_rejected_before_payload
#print axioms C19.accepted_frames_within_configured_limit
#print axioms C19.buffer_grows_only_with_received_bytes
#print axioms C19.frames_roundtrip
#print axioms C19.truncated_frame_is_eof
#print axioms C19.model_satisfies_frames_oracle
#print axioms C19.meta_short_rejected
#print axioms C19.meta_roundtrip
#print axioms C19.meta_ttl_zero_and_huge_are_lossy
#print axioms C19.chunk_size_value
#print axioms C19.src_frame_chunk
#print axioms C19.src_default_max_frame
-- rs2lean tie
#print axioms C19.generated_checked_frame_length_eq_model
#print axioms C19.generated_frame_constants
#print axioms C19.generated_encode_network_message_eq_model
#print axioms C19.generated_job_options_into_bytes_eq_model
#print axioms C19.generated_serialize_meta_eq_model
#print axioms C19.generated_deserialize_meta_eq_model
#print axioms C19.f16_jobopts_ttl_not_roundtripped
#print axioms C19.undecodable_serialized_messages_never_stop_the_actor
#print axioms C19.local_decode_failure_stops_the_actor
#print axioms C19.rpc_variant_roundtrip_any_port_position
#print axioms C19.reader_over_failing_transport
#print axioms C19.extracted_handle_message_branches
#print axioms C19.processMessage_undecodable
