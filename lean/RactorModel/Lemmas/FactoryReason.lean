import RactorModel.Lemmas.FactoryNoDrop
import RactorModel.Lemmas.FactoryStop

/-! Discard reasons over whole runs: a `RateLimited` discard occurs only in a factory that has a rate limiter, a `Shutdown`
discard only after `DrainRequests` has been handled (the draining hook has run). The projection `rsOf` keeps these two
kinds of discard and the draining hook as a marker. Frame scheme of `FactoryNoDrop.lean`. -/

namespace Factory

inductive REv | rl | sd | mark
  deriving DecidableEq, Repr

def rsEv : Ev → Option REv
  | .discard .rateLimited _ _ => some .rl
  | .discard .shutdown _ _ => some .sd
  | .hook .draining => some .mark
  | _ => none

def rsOf (log : List Ev) : List REv := log.filterMap rsEv

def isRs (ev : Ev) : Bool := (rsEv ev).isSome

theorem rsOf_append (a b : List Ev) : rsOf (a ++ b) = rsOf a ++ rsOf b := by
  simp [rsOf, List.filterMap_append]

theorem rsOf_single (ev : Ev) (h : isRs ev = false) : rsOf [ev] = [] := by
  unfold isRs at h
  cases hp : rsEv ev with
  | none => simp [rsOf, hp]
  | some x => simp [hp] at h

/-- the environment's log gained none of the three tracked events -/
def CalmRE (e e' : Env) : Prop := rsOf e'.log = rsOf e.log

theorem CalmRE.refl (e : Env) : CalmRE e e := rfl
theorem CalmRE.trans {a b c : Env} (h1 : CalmRE a b) (h2 : CalmRE b c) : CalmRE a c := Eq.trans h2 h1

theorem calmRE_emit (e : Env) (ev : Ev) (h : isRs ev = false) : CalmRE e (e.emit ev) := by
  simp [CalmRE, Env.emit, rsOf_append, rsOf_single ev h]

/-- reasons of the worker side and of expiry / load shedding -/
def plainReason : Reason → Bool
  | .ttlExpired | .loadshed => true
  | _ => false

theorem calmRE_discard (e : Env) {h : Option Nat} (r : Reason) (j : Job) (hr : plainReason r = true := by rfl) :
    CalmRE e (e.discard h r j) := by
  apply calmRE_emit
  cases r <;> first | rfl | (simp [plainReason] at hr)

theorem calmRE_reject (e : Env) (j : Job) : CalmRE e (e.reject j) := by
  unfold Env.reject; split
  · exact calmRE_emit e _ rfl
  · exact CalmRE.refl e
theorem calmRE_accept (e : Env) (j : Job) : CalmRE e (e.accept j) := by
  unfold Env.accept; split
  · exact calmRE_emit e _ rfl
  · exact CalmRE.refl e

theorem calmRE_setActor (e : Env) (a : Actor) : CalmRE e (e.setActor a) := rfl

theorem calmRE_cast (e e' : Env) (aid : Nat) (j : Job) (h : e.cast aid j = some e') : CalmRE e e' := by
  unfold Env.cast at h
  cases ha : e.getActor aid with
  | none => simp [ha] at h
  | some a =>
    simp only [ha] at h
    split at h
    · simp at h
    · simp only [Option.some.injEq] at h; subst h; rfl

theorem rsOf_lost (aid : Nat) (l : List Job) : rsOf (l.map fun j => Ev.lost aid j.id) = [] := by
  induction l with
  | nil => rfl
  | cons j l ih => simpa [rsOf, rsEv] using ih

theorem calmRE_die (e : Env) (aid : Nat) : CalmRE e (e.die aid) := by
  unfold Env.die
  cases ha : e.getActor aid with
  | none => rfl
  | some a =>
    simp only
    split
    · rfl
    · simp [CalmRE, rsOf_append, rsOf_lost, Env.setActor]

theorem calmRE_killAll (e : Env) : CalmRE e e.killAll := by
  unfold Env.killAll
  generalize e.actors.map (·.aid) = ids
  induction ids generalizing e with
  | nil => rfl
  | cons a as ih => rw [List.foldl_cons]; exact (calmRE_die e a).trans (ih _)

theorem calmRE_stop (e : Env) (aid : Nat) : CalmRE e (e.stop aid) := by
  unfold Env.stop
  cases ha : e.getActor aid with
  | none => rfl
  | some a => simp only; split <;> rfl

theorem calmRE_settleOne (e : Env) (aid : Nat) : CalmRE e (e.settleOne aid) := by
  unfold Env.settleOne
  cases ha : e.getActor aid with
  | none => rfl
  | some a =>
    simp only
    split
    · rfl
    · split
      · exact calmRE_die e aid
      · cases hm : a.mailbox with
        | nil => rfl
        | cons j rest => simp only; exact (calmRE_setActor e _).trans (calmRE_emit _ _ rfl)

theorem calmRE_settle (e : Env) : CalmRE e e.settle := by
  unfold Env.settle
  generalize e.actors.map (·.aid) = ids
  induction ids generalizing e with
  | nil => rfl
  | cons a as ih => rw [List.foldl_cons]; exact (calmRE_settleOne e a).trans (ih _)

theorem calmRE_spawn (e : Env) (wid aid : Nat) : CalmRE e (e.spawn wid aid) := by
  simp [CalmRE, Env.spawn, rsOf, rsEv]

theorem calmRE_getNextNonExpired {h : Option Nat} (mq : List Job) (pend : List Nat) (e : Env) :
    CalmRE e (getNextNonExpired h mq pend e).2.2.2 := by
  induction mq generalizing pend e with
  | nil => rfl
  | cons j rest ih =>
    unfold getNextNonExpired
    split
    · rfl
    · exact (calmRE_discard e _ j).trans (ih _ _)

theorem calmRE_getNext (p : WP) (e : Env) : CalmRE e (p.getNext e).2.2 :=
  calmRE_getNextNonExpired p.mq p.pending e

theorem calmRE_dispatchJob (p : WP) (e : Env) (j : Job) : CalmRE e (p.dispatchJob e j).2 := by
  unfold WP.dispatchJob
  cases hc : e.cast p.actor j with
  | none => rfl
  | some e' => exact calmRE_cast e e' _ j hc

theorem calmRE_shedOldest (limit fuel : Nat) (p : WP) (e : Env) : CalmRE e (shedOldest limit fuel p e).2 := by
  induction fuel generalizing p e with
  | zero => rfl
  | succ fuel ih =>
    unfold shedOldest
    split
    · have hg := calmRE_getNext p e
      cases hn : p.getNext e with
      | mk r pe =>
        obtain ⟨p', e'⟩ := pe
        rw [hn] at hg
        cases r with
        | none => simp only; exact hg.trans (ih _ _)
        | some d => simp only; exact (hg.trans (calmRE_discard _ _ _)).trans (ih _ _)
    · rfl

theorem calmRE_enqueueAccepted (p : WP) (e : Env) (j : Job) : CalmRE e (p.enqueueAccepted e j).2 := by
  unfold WP.enqueueAccepted
  split
  · have hg := calmRE_getNext p e
    cases hn : p.getNext e with
    | mk r pe =>
      obtain ⟨p', e'⟩ := pe
      rw [hn] at hg
      cases r with
      | none => simp only; exact hg.trans (calmRE_dispatchJob _ _ _)
      | some d => simp only; exact hg.trans (calmRE_dispatchJob _ _ _)
  · simp only
    split
    · exact calmRE_shedOldest _ _ _ _
    · rfl

theorem calmRE_enqueueJob (p : WP) (e : Env) (j : Job) : CalmRE e (p.enqueueJob e j).2 := by
  unfold WP.enqueueJob
  split
  · exact (calmRE_discard e _ j).trans (calmRE_reject _ j)
  · exact (calmRE_accept e j).trans (calmRE_enqueueAccepted _ _ _)

theorem calmRE_workerComplete (p : WP) (e : Env) (key : Nat) : CalmRE e (p.workerComplete e key).2 := by
  unfold WP.workerComplete
  split
  · generalize ({ p with curr := p.curr.filter (fun x => x.1 != key), pending := p.pending.erase key } : WP) = p0
    have hg := calmRE_getNext p0 e
    cases hn : p0.getNext e with
    | mk r pe =>
      obtain ⟨p', e'⟩ := pe
      rw [hn] at hg
      cases r with
      | none => simp only [hn]; exact hg
      | some d => simp only [hn]; exact hg.trans (calmRE_dispatchJob _ _ _)
  · rfl

theorem calmRE_replaceWorker (p : WP) (e : Env) (naid : Nat) : CalmRE e (p.replaceWorker e naid).2 := by
  unfold WP.replaceWorker
  simp only
  generalize ({ p with curr := [], pending := p.curr.foldl (fun acc x => acc.erase x.1) p.pending, actor := naid } : WP) = p0
  have hg := calmRE_getNext p0 e
  cases hn : p0.getNext e with
  | mk r pe =>
    obtain ⟨p', e'⟩ := pe
    rw [hn] at hg
    cases r with
    | none => simp only [hn]; exact hg
    | some d => simp only [hn]; exact hg.trans (calmRE_dispatchJob _ _ _)

/-! ### the factory -/

/-- the factory is draining, about to stop, or stopping -/
def drainish (w : W) : Bool := w.drain != .notDraining || w.stopSignal || w.stopped

/-- what a tracked event needs in the state in which it is logged -/
def okNew (w : W) : REv → Prop
  | .rl => w.rl.isSome = true
  | .sd => drainish w = true
  | .mark => False

/-- limiter presence and drain state are kept; the tracked part of the history grew only by events the state allows -/
structure Sound (w w' : W) : Prop where
  rl : w'.rl.isSome = w.rl.isSome
  dr : drainish w' = drainish w
  rs : ∃ new, rsOf w'.env.log = rsOf w.env.log ++ new ∧ ∀ r ∈ new, okNew w r

theorem okNew_of {w w' : W} (hrl : w'.rl.isSome = w.rl.isSome) (hd : drainish w' = drainish w) {r : REv} (h : okNew w' r) :
    okNew w r := by
  cases r with
  | rl => simp only [okNew] at h ⊢; rw [← hrl]; exact h
  | sd => simp only [okNew] at h ⊢; rw [← hd]; exact h
  | mark => exact h

theorem Sound.refl (w : W) : Sound w w := ⟨rfl, rfl, [], by simp, by simp⟩
theorem Sound.trans {a b c : W} (h1 : Sound a b) (h2 : Sound b c) : Sound a c := by
  obtain ⟨n1, e1, o1⟩ := h1.rs
  obtain ⟨n2, e2, o2⟩ := h2.rs
  refine ⟨h2.rl.trans h1.rl, h2.dr.trans h1.dr, n1 ++ n2, by rw [e2, e1, List.append_assoc], ?_⟩
  intro r hr
  rcases List.mem_append.mp hr with h | h
  · exact o1 r h
  · exact okNew_of h1.rl h1.dr (o2 r h)

theorem Sound.of_env {w w' : W} (he : CalmRE w.env w'.env) (hrl : w'.rl.isSome = w.rl.isSome) (hd : drainish w' = drainish w) :
    Sound w w' := ⟨hrl, hd, [], by rw [he]; simp, by simp⟩

theorem Sound.same {w w' : W} (hrl : w'.rl.isSome = w.rl.isSome) (hd : drainish w' = drainish w) (hl : w'.env.log = w.env.log) :
    Sound w w' := ⟨hrl, hd, [], by rw [hl]; simp, by simp⟩

theorem Sound.of_frames {w w' : W} (f : RouterFrame w w') (c : Ctl w w') : Sound w w' :=
  Sound.same (by rw [f.rl]) (by unfold drainish; rw [c.drain, c.stopSignal, c.stopped]) (by rw [f.env])

/-- one tracked event, allowed by the state -/
theorem Sound.one {w w' : W} (r : REv) (hrl : w'.rl.isSome = w.rl.isSome) (hd : drainish w' = drainish w)
    (he : rsOf w'.env.log = rsOf w.env.log ++ [r]) (ok : okNew w r) : Sound w w' :=
  ⟨hrl, hd, [r], he, by intro x hx; simp only [List.mem_singleton] at hx; subst hx; exact ok⟩

theorem sound_availChange (w : W) (wid : Nat) (b : Bool) : Sound w (w.availChange wid b) :=
  Sound.of_frames (availChange_frame w wid b) (ctl_availChange w wid b)

theorem sound_choose (w : W) (j : Job) (hint : Option Nat) : Sound w (w.chooseTargetWorker j hint).2 :=
  Sound.of_frames (chooseTargetWorker_frame w j hint) (ctl_choose w j hint)

theorem sound_routeInner (w : W) (j : Job) (hint : Option Nat) : Sound w (w.routeInner j hint).2 := by
  unfold W.routeInner
  have hs := sound_choose w j hint
  cases hc : w.chooseTargetWorker j hint with
  | mk t w1 =>
    rw [hc] at hs
    simp only at hs ⊢
    cases t with
    | none => exact hs
    | some wid =>
      simp only
      cases hg : getW w1.pool wid with
      | none => exact hs
      | some p => exact hs.trans (Sound.of_env (calmRE_enqueueJob p w1.env j) rfl rfl)

theorem sound_routeLimited (w : W) (j : Job) (hint : Option Nat) : Sound w (w.routeLimited j hint).2 := by
  unfold W.routeLimited
  split
  · exact sound_routeInner w j hint
  · rename_i c lb heq
    simp only
    have h0 : Sound w { w with rl := some (c, (LeakyBucket.check c lb w.env.now).1) } :=
      Sound.same (by rw [heq]; rfl) rfl rfl
    split
    · split
      · split
        · rename_i hh _
          exact h0.trans (sound_availChange _ hh true)
        · exact h0
      · exact h0
    · have hi := sound_routeInner { w with rl := some (c, (LeakyBucket.check c lb w.env.now).1) } j hint
      cases hr : W.routeInner { w with rl := some (c, (LeakyBucket.check c lb w.env.now).1) } j hint with
      | mk r w2 =>
        rw [hr] at hi
        simp only at hi ⊢
        split
        · exact h0.trans (hi.trans (Sound.same (by cases w2.rl <;> rfl) rfl rfl))
        · exact h0.trans hi

theorem sound_routeMessage (w : W) (j : Job) (hint : Option Nat) : Sound w (w.routeMessage j hint).2 := by
  unfold W.routeMessage
  have hi := sound_routeLimited w j hint
  cases hr : w.routeLimited j hint with
  | mk r w2 => rw [hr] at hi; exact hi.trans (Sound.same rfl rfl rfl)

theorem routeInner_not_limited (w : W) (j : Job) (hint : Option Nat) : (w.routeInner j hint).1 ≠ .rateLimited := by
  unfold W.routeInner
  cases hc : w.chooseTargetWorker j hint with
  | mk t w1 =>
    simp only
    cases t with
    | none => simp
    | some wid =>
      simp only
      cases hg : getW w1.pool wid with
      | none => simp
      | some p => simp

/-- only a router wrapped in a limiter ever answers `RateLimited` -/
theorem routeMessage_limited_rl (w : W) (j : Job) (hint : Option Nat) (h : (w.routeMessage j hint).1 = .rateLimited) :
    w.rl.isSome = true := by
  cases hrl : w.rl with
  | some x => rfl
  | none =>
    exfalso
    unfold W.routeMessage W.routeLimited at h
    simp only [hrl] at h
    exact routeInner_not_limited w j hint h

theorem rs_rl (e : Env) (h : Option Nat) (j : Job) :
    rsOf ((e.discard h .rateLimited j).reject j).log = rsOf e.log ++ [.rl] := by
  rw [calmRE_reject]; simp [Env.discard, Env.emit, rsOf_append, rsOf, rsEv]

theorem rs_sd (e : Env) (h : Option Nat) (j : Job) :
    rsOf ((e.discard h .shutdown j).reject j).log = rsOf e.log ++ [.sd] := by
  rw [calmRE_reject]; simp [Env.discard, Env.emit, rsOf_append, rsOf, rsEv]

theorem sound_dropExpiredHead (fuel : Nat) (w : W) : Sound w (W.dropExpiredHead fuel w) := by
  induction fuel generalizing w with
  | zero => exact Sound.refl w
  | succ fuel ih =>
    unfold W.dropExpiredHead
    split
    · split
      · split
        · rename_i j' q _
          refine Sound.trans ?_ (ih _)
          exact Sound.of_env ((calmRE_discard w.env _ j').trans (calmRE_reject _ j')) rfl rfl
        · exact Sound.refl w
      · exact Sound.refl w
    · exact Sound.refl w

theorem sound_routeLoop (hint : Option Nat) (fuel : Nat) (w : W) : Sound w (W.routeLoop hint fuel w) := by
  induction fuel generalizing w with
  | zero => exact Sound.refl w
  | succ fuel ih =>
    unfold W.routeLoop
    split
    · exact Sound.refl w
    · rename_i j hpk
      have hs := sound_choose w j hint
      cases hc : w.chooseTargetWorker j hint with
      | mk t w1 =>
        rw [hc] at hs
        simp only at hs ⊢
        cases t with
        | none => exact hs
        | some worker =>
          simp only
          cases hp : qPopFront w1.cfg w1.queue with
          | none => exact hs
          | some jq =>
            obtain ⟨j', q⟩ := jq
            simp only
            have h1 : Sound w { w1 with queue := q } := hs.trans (Sound.same rfl rfl rfl)
            have hr := sound_routeMessage { w1 with queue := q } j' (some worker)
            cases hrm : W.routeMessage { w1 with queue := q } j' (some worker) with
            | mk r w2 =>
              rw [hrm] at hr
              cases r with
              | handled => exact h1.trans hr
              | rateLimited =>
                simp only
                refine (h1.trans hr).trans (Sound.trans ?_ (ih _))
                refine Sound.one .rl rfl rfl (rs_rl w2.env _ j') ?_
                show w2.rl.isSome = true
                rw [hr.rl]
                exact routeMessage_limited_rl _ _ _ (by rw [hrm])
              | backlog =>
                -- unreachable: the router was asked a moment ago and named `worker`
                exfalso
                have hfr := chooseTargetWorker_frame w j hint
                rw [hc] at hfr
                simp only at hfr
                have hpk' : qPeek w.cfg w.queue = some j' := by
                  rw [← hfr.cfg, ← hfr.queue]; exact popByPrio_peek hp
                rw [hpk] at hpk'
                simp only [Option.some.injEq] at hpk'
                subst hpk'
                have := routeMessage_after_choice w j hint worker w1 hc q
                rw [hrm] at this
                exact this rfl

theorem sound_tryRoute (w : W) (hint : Option Nat) : Sound w (w.tryRouteNextActiveJob hint) := by
  unfold W.tryRouteNextActiveJob
  exact (sound_dropExpiredHead _ w).trans (sound_routeLoop _ _ _)

theorem sound_shedQueueOldest (limit fuel : Nat) (w : W) : Sound w (W.shedQueueOldest limit fuel w) := by
  induction fuel generalizing w with
  | zero => exact Sound.refl w
  | succ fuel ih =>
    unfold W.shedQueueOldest
    split
    · split
      · rename_i j q _
        refine Sound.trans ?_ (ih _)
        exact Sound.of_env (calmRE_discard w.env _ j) rfl rfl
      · exact ih w
    · exact Sound.refl w

theorem sound_maybeEnqueue (w : W) (j : Job) : Sound w (w.maybeEnqueue j) := by
  unfold W.maybeEnqueue
  split
  · split
    · exact Sound.of_env ((calmRE_discard w.env _ j).trans (calmRE_reject _ j)) rfl rfl
    · exact Sound.of_env (calmRE_accept w.env j) rfl rfl
  · dsimp only
    refine Sound.trans ?_ (sound_shedQueueOldest _ _ _)
    exact Sound.of_env (calmRE_accept w.env j) rfl rfl
  · exact Sound.of_env (calmRE_accept w.env j) rfl rfl

theorem sound_growOne (w : W) (wid : Nat) : Sound w (w.growOne wid) := by
  unfold W.growOne
  split
  · dsimp only
    split
    · apply Sound.trans _ (sound_availChange _ _ _)
      exact (Sound.same rfl rfl rfl)
    · exact (Sound.same rfl rfl rfl)
  · dsimp only
    apply Sound.trans _ (sound_availChange _ _ _)
    exact Sound.of_env (calmRE_spawn w.env _ _) rfl rfl

theorem sound_foldl {f : W → Nat → W} (hf : ∀ w k, Sound w (f w k)) (l : List Nat) (w : W) : Sound w (l.foldl f w) := by
  induction l generalizing w with
  | nil => exact Sound.refl w
  | cons a l ih => exact (hf w a).trans (ih _)

theorem sound_growPool (w : W) (n : Nat) : Sound w (w.growPool n) := by
  unfold W.growPool; exact sound_foldl (fun w k => sound_growOne w _) _ w

theorem sound_shrinkOne (w : W) (wid : Nat) : Sound w (w.shrinkOne wid) := by
  unfold W.shrinkOne
  split
  · rename_i p _
    split
    · exact (Sound.same rfl rfl rfl)
    · refine (sound_availChange w wid false).trans ?_
      exact Sound.of_env (calmRE_stop _ p.actor) rfl rfl
  · exact Sound.refl w

theorem sound_shrinkPool (w : W) (n : Nat) : Sound w (w.shrinkPool n) := by
  unfold W.shrinkPool; exact sound_foldl (fun w k => sound_shrinkOne w _) _ w

theorem sound_flushAfterGrow (fuel : Nat) (w : W) : Sound w (W.flushAfterGrow fuel w) := by
  induction fuel generalizing w with
  | zero => exact Sound.refl w
  | succ fuel ih =>
    unfold W.flushAfterGrow
    simp only
    split
    · exact Sound.refl w
    · split
      · exact sound_tryRoute w none
      · exact (sound_tryRoute w none).trans (ih _)

theorem sound_resizePool (w : W) (n : Nat) : Sound w (w.resizePool n) := by
  unfold W.resizePool
  split
  · exact Sound.refl w
  · simp only
    split
    · apply Sound.trans _ (sound_flushAfterGrow _ _)
      exact (sound_growPool w _).trans (Sound.same rfl rfl rfl)
    · split
      · exact (sound_shrinkPool w _).trans (Sound.same rfl rfl rfl)
      · exact (Sound.same rfl rfl rfl)

theorem sound_dispatch (w : W) (j : Job) : Sound w (w.dispatch j) := by
  unfold W.dispatch
  split
  · exact Sound.of_env ((calmRE_discard w.env _ j).trans (calmRE_reject _ j)) rfl rfl
  · split
    · have hr := sound_routeMessage w j none
      cases hrm : w.routeMessage j none with
      | mk r w2 =>
        rw [hrm] at hr
        cases r with
        | handled => exact hr
        | rateLimited =>
          refine hr.trans (Sound.one .rl rfl rfl (rs_rl w2.env _ j) ?_)
          show w2.rl.isSome = true
          rw [hr.rl]
          exact routeMessage_limited_rl _ _ _ (by rw [hrm])
        | backlog => exact hr.trans (sound_maybeEnqueue w2 j)
    · rename_i hnd
      refine Sound.one .sd rfl rfl (rs_sd w.env _ j) ?_
      show drainish w = true
      unfold drainish
      cases hd : w.drain <;> simp_all

theorem sound_ite (c : Prop) [Decidable c] (w a b : W) (ha : Sound w a) (hb : Sound w b) : Sound w (if c then a else b) := by
  split <;> assumption

theorem sound_workerFinishedJob (w : W) (who key : Nat) : Sound w (w.workerFinishedJob who key) := by
  unfold W.workerFinishedJob
  split
  · rename_i p _
    have hq := calmRE_workerComplete p w.env key
    cases hwc : p.workerComplete w.env key with
    | mk p' e' =>
      rw [hwc] at hq
      simp only at hq ⊢
      have h1 : Sound w { w with pool := setW w.pool who p', env := e' } := Sound.of_env hq rfl rfl
      split
      · split
        · exact h1.trans (Sound.of_env (calmRE_stop e' p'.actor) rfl rfl)
        · exact h1
      · apply sound_ite
        · exact (h1.trans (sound_tryRoute _ _)).trans (sound_availChange _ _ _)
        · exact h1.trans (sound_tryRoute _ _)
  · exact sound_tryRoute w _

theorem calmRE_foldl_discard (h : Option Nat) (r : Reason) (l : List Job) (e : Env) (hr : plainReason r = true := by rfl) :
    CalmRE e (l.foldl (fun e j => e.discard h r j) e) := by
  induction l generalizing e with
  | nil => rfl
  | cons j l ih => rw [List.foldl_cons]; exact (calmRE_discard e r j hr).trans (ih _)

theorem sound_removeExpired (w : W) : Sound w w.removeExpired := by
  unfold W.removeExpired
  split
  · exact Sound.of_env (calmRE_foldl_discard _ _ _ _) rfl rfl
  · exact Sound.refl w

theorem sound_calcRest (w : W) : Sound w w.calcRest := by
  unfold W.calcRest
  exact (sound_removeExpired w).trans (Sound.same rfl rfl rfl)

theorem sound_updateSettings (w : W) (d : Option (Option (Nat × Mode))) (n : Option Nat) : Sound w (w.updateSettings d n) := by
  unfold W.updateSettings
  have h1 : Sound w (match d with
      | some d => { w with pool := w.pool.map (fun p => { p with disc := w.workerDiscard d }), disc := d }
      | none => w) := by
    cases d with
    | none => exact Sound.refl w
    | some d => exact (Sound.same rfl rfl rfl)
  cases n with
  | none => exact h1
  | some n => exact h1.trans (sound_resizePool _ n)

theorem sound_afterReplace (w : W) (wid : Nat) : Sound w (w.afterReplace wid) := by
  unfold W.afterReplace
  cases hret : w.retireIdleDrainingWorker wid with
  | some w2 =>
    simp only
    unfold W.retireIdleDrainingWorker at hret
    split at hret
    · rename_i p _
      split at hret
      · simp only [Option.some.injEq] at hret; subst hret
        exact Sound.of_env (calmRE_stop w.env p.actor) rfl rfl
      · simp at hret
    · simp at hret
  | none =>
    simp only
    apply sound_ite
    · exact (sound_tryRoute _ _).trans (sound_availChange _ _ _)
    · exact sound_tryRoute _ _

theorem sound_handleSupervisorEvt (w : W) (who : Nat) : Sound w (w.handleSupervisorEvt who) := by
  unfold W.handleSupervisorEvt
  split
  · exact Sound.refl w
  · rename_i wid _
    split
    · exact Sound.refl w
    · rename_i p _
      simp only
      have hq := calmRE_replaceWorker p (w.env.spawn wid w.nextAid) w.nextAid
      cases hrw : p.replaceWorker (w.env.spawn wid w.nextAid) w.nextAid with
      | mk p' e' =>
        rw [hrw] at hq
        simp only at hq ⊢
        refine Sound.trans ?_ (sound_afterReplace _ wid)
        exact Sound.of_env ((calmRE_spawn w.env wid w.nextAid).trans hq) rfl rfl

theorem calmRE_foldl (f : Env → Job → Env) (hf : ∀ e j, CalmRE e (f e j)) (l : List Job) (e : Env) : CalmRE e (l.foldl f e) := by
  induction l generalizing e with
  | nil => rfl
  | cons j l ih => rw [List.foldl_cons]; exact (hf e j).trans (ih _)

/-- the tracked part of the log grew by `Shutdown` discards only -/
def SdExt (e e' : Env) : Prop := ∃ new, rsOf e'.log = rsOf e.log ++ new ∧ ∀ r ∈ new, r = REv.sd

theorem SdExt.of_calm {e e' : Env} (h : CalmRE e e') : SdExt e e' := ⟨[], by rw [h]; simp, by simp⟩
theorem SdExt.trans {a b c : Env} (h1 : SdExt a b) (h2 : SdExt b c) : SdExt a c := by
  obtain ⟨n1, e1, o1⟩ := h1
  obtain ⟨n2, e2, o2⟩ := h2
  refine ⟨n1 ++ n2, by rw [e2, e1, List.append_assoc], ?_⟩
  intro r hr
  rcases List.mem_append.mp hr with h | h
  · exact o1 r h
  · exact o2 r h

theorem sdExt_dropQueued (h : Option Nat) (e : Env) (j : Job) : SdExt e (Env.dropQueued h e j) := by
  unfold Env.dropQueued; split
  · exact ⟨[.sd], by simp [Env.discard, Env.emit, rsOf_append, rsOf, rsEv], by simp⟩
  · exact SdExt.of_calm (calmRE_emit e _ rfl)

theorem sdExt_foldl (h : Option Nat) (l : List Job) (e : Env) : SdExt e (l.foldl (Env.dropQueued h) e) := by
  induction l generalizing e with
  | nil => exact SdExt.of_calm rfl
  | cons j l ih => rw [List.foldl_cons]; exact (sdExt_dropQueued h e j).trans (ih _)

theorem calmRE_dropWorkerQueue (e : Env) (p : WP) : CalmRE e (e.dropWorkerQueue p) := by
  unfold Env.dropWorkerQueue
  exact calmRE_foldl _ (fun e j => calmRE_emit e _ rfl) _ e

theorem calmRE_foldlW (f : Env → WP → Env) (hf : ∀ e p, CalmRE e (f e p)) (l : List WP) (e : Env) : CalmRE e (l.foldl f e) := by
  induction l generalizing e with
  | nil => rfl
  | cons p l ih => rw [List.foldl_cons]; exact (hf e p).trans (ih _)

/-- `post_stop` (it runs only on the stop signal): the remaining queue goes to the handler as `Shutdown` -/
theorem sound_postStop (w : W) (hs : w.stopSignal = true) : Sound w w.postStop := by
  have hdr : drainish w = true := by simp [drainish, hs]
  have h1 := sdExt_foldl w.handler w.queue w.env
  have h2 := calmRE_foldlW Env.dropWorkerQueue calmRE_dropWorkerQueue w.pool (w.queue.foldl (Env.dropQueued w.handler) w.env)
  have h3 := calmRE_foldlW (fun e p => e.stop p.actor) (fun e p => calmRE_stop e p.actor) w.pool
    (w.pool.foldl Env.dropWorkerQueue (w.queue.foldl (Env.dropQueued w.handler) w.env))
  obtain ⟨new, e1, o1⟩ := h1.trans (SdExt.of_calm (h2.trans h3))
  refine ⟨rfl, ?_, new, e1, ?_⟩
  · rw [hdr]; simp [drainish, W.postStop]
  · intro r hr; rw [o1 r hr]; exact hdr

theorem isDrained_sound (w : W) : Sound w w.isDrained.2 := by
  unfold W.isDrained
  split
  · exact Sound.refl w
  · exact Sound.refl w
  · rename_i heq
    split
    · exact Sound.same rfl (by simp only [drainish, heq]; rfl) rfl
    · exact Sound.refl w

theorem isDrained_drainish (w : W) (h : w.isDrained.1 = true) : drainish w.isDrained.2 = true := by
  unfold W.isDrained at h ⊢
  cases hd : w.drain with
  | notDraining => simp [hd] at h
  | drained => simp [hd, drainish]
  | draining =>
    simp only [hd] at h ⊢
    split
    · simp [drainish]
    · simp [drainish, hd]

theorem sound_afterHandle (w : W) : Sound w w.afterHandle := by
  unfold W.afterHandle
  split
  · exact Sound.refl w
  · have hs := isDrained_sound w
    cases hd : w.isDrained with
    | mk d w2 =>
      rw [hd] at hs
      simp only at hs ⊢
      split
      · rename_i hdt
        have hdd : drainish w2 = true := by
          have := isDrained_drainish w (by rw [hd]; exact hdt)
          rw [hd] at this; exact this
        exact hs.trans (Sound.same rfl (by rw [hdd]; simp [drainish]) rfl)
      · exact hs


theorem sound_send (w : W) (m : FMsg) : Sound w (w.send m) := by
  unfold W.send; split
  · exact Sound.refl w
  · exact (Sound.same rfl rfl rfl)


theorem sound_finish (w : W) (aid : Nat) (ok : Bool) : Sound w (w.finish aid ok) := by
  unfold W.finish
  cases ha : w.env.getActor aid with
  | none => exact Sound.refl w
  | some a =>
    simp only
    cases hr : a.running with
    | none => exact Sound.refl w
    | some j =>
      simp only
      split
      · exact Sound.refl w
      · split
        · exact Sound.of_env ((calmRE_emit w.env _ rfl).trans (calmRE_die _ aid)) rfl rfl
        · have h1 : Sound w { w with env := (w.env.emit (.finishOk aid)).emit (.handled aid j.id) } :=
            Sound.of_env ((calmRE_emit w.env _ rfl).trans (calmRE_emit _ _ rfl)) rfl rfl
          have h2 := sound_send { w with env := (w.env.emit (.finishOk aid)).emit (.handled aid j.id) } (.finished a.wid j.key)
          refine (h1.trans h2).trans ?_
          exact Sound.of_env ((calmRE_setActor _ _).trans (calmRE_settleOne _ aid)) rfl rfl


theorem sound_emit (w : W) (ev : Ev) (h : isRs ev = false) : Sound w (w.emit ev) :=
  Sound.of_env (calmRE_emit w.env ev h) rfl rfl


theorem sound_applyOp (w : W) (op : Op) : Sound w (w.applyOp op) := by
  cases op with
  | dispatch id key hash ttl acc =>
    simp only [W.applyOp]
    split
    · exact Sound.refl w
    · exact (sound_emit w _ rfl).trans (sound_send _ _)
  | finish aid ok => exact sound_finish w aid ok
  | kill aid => exact Sound.of_env ((calmRE_emit w.env _ rfl).trans (calmRE_die _ aid)) rfl rfl
  | resize n => exact (sound_emit w _ rfl).trans (sound_send _ _)
  | settings d n =>
    simp only [W.applyOp]
    refine Sound.trans ?_ (sound_send _ _)
    cases d with
    | none => cases n with
      | none => exact Sound.refl w
      | some n => exact sound_emit w _ rfl
    | some d => cases n with
      | none => exact sound_emit w _ rfl
      | some n => exact (sound_emit w _ rfl).trans (sound_emit _ _ rfl)
  | drain => exact (sound_emit w _ rfl).trans (sound_send _ _)
  | setHandler hd => exact (sound_emit w _ rfl).trans (sound_send _ _)
  | advance => exact Sound.refl w
  | block => exact (Sound.same rfl rfl rfl)
  | release n =>
    simp only [W.applyOp]
    split
    · refine Sound.trans ?_ (sound_afterHandle _)
      refine Sound.trans ?_ (sound_calcRest _)
      have h0 : Sound w { w.emit (.released n) with blocked := false } :=
        (sound_emit w _ rfl).trans (Sound.same rfl rfl rfl)
      split
      · exact h0.trans (sound_resizePool _ _)
      · exact h0
    · exact Sound.refl w
  | nop => exact Sound.refl w






/-! ### over a run -/

/-- the run invariant, relative to the case the run started from -/
structure RsOk (c : CaseCfg) (w : W) : Prop where
  rl : w.rl.isSome = c.rl.isSome
  mark : drainish w = true → REv.mark ∈ rsOf w.env.log
  okRl : REv.rl ∈ rsOf w.env.log → c.rl.isSome = true
  okSd : ∀ pre post, rsOf w.env.log = pre ++ REv.sd :: post → REv.mark ∈ pre

theorem RsOk.grow {c : CaseCfg} {w w' : W} (h : RsOk c w) (new : List REv) (hrl : w'.rl.isSome = w.rl.isSome)
    (hmark : drainish w' = true → drainish w = true ∨ REv.mark ∈ new)
    (he : rsOf w'.env.log = rsOf w.env.log ++ new) (ok : ∀ r ∈ new, r = REv.mark ∨ okNew w r) : RsOk c w' := by
  refine ⟨hrl.trans h.rl, ?_, ?_, ?_⟩
  · intro hd
    rw [he]
    rcases hmark hd with h1 | h1
    · exact List.mem_append_left _ (h.mark h1)
    · exact List.mem_append_right _ h1
  · intro hm
    rw [he] at hm
    rcases List.mem_append.mp hm with h1 | h1
    · exact h.okRl h1
    · rcases ok _ h1 with h2 | h2
      · cases h2
      · rw [← h.rl]; exact h2
  · intro pre post hsplit
    rw [he] at hsplit
    rcases List.append_eq_append_iff.mp hsplit with ⟨a', hpre, hnew⟩ | ⟨c', hold, hrest⟩
    · -- the discard lies in the new part
      have hsd : REv.sd ∈ new := by rw [hnew]; simp
      rcases ok _ hsd with h2 | h2
      · cases h2
      · rw [hpre]; exact List.mem_append_left _ (h.mark h2)
    · cases c' with
      | nil =>
        simp only [List.nil_append] at hrest
        simp only [List.append_nil] at hold
        have hsd : REv.sd ∈ new := by rw [← hrest]; simp
        rcases ok _ hsd with h2 | h2
        · cases h2
        · rw [← hold]; exact h.mark h2
      | cons x c'' =>
        simp only [List.cons_append, List.cons.injEq] at hrest
        obtain ⟨rfl, _⟩ := hrest
        exact h.okSd pre c'' hold

theorem RsOk.sound {c : CaseCfg} {w w' : W} (h : RsOk c w) (s : Sound w w') : RsOk c w' := by
  obtain ⟨new, e1, o1⟩ := s.rs
  exact h.grow new s.rl (fun hd => Or.inl (by rw [← s.dr]; exact hd)) e1 (fun r hr => Or.inr (o1 r hr))

theorem sound_handleMsg (w : W) (m : FMsg) (hm : m ≠ .drainRequests) : Sound w (w.handleMsg m) := by
  cases m with
  | dispatch j => exact sound_dispatch w j
  | finished who key => exact sound_workerFinishedJob w who key
  | adjust n => exact sound_resizePool w n
  | updateSettings d n => exact sound_updateSettings w d n
  | setHandler hd => exact Sound.of_env (calmRE_emit w.env _ rfl) rfl rfl
  | drainRequests => exact absurd rfl hm
  | calculate =>
    show Sound w (if w.cfg.hasCC && w.armed then { w with armed := false, blocked := true } else w.calcRest)
    split
    · exact (Sound.same rfl rfl rfl)
    · exact sound_calcRest w
  | getQueueDepth => exact (Sound.same rfl rfl rfl)
  | getNumActiveWorkers => exact (Sound.same rfl rfl rfl)
  | getAvailableCapacity => exact (Sound.same rfl rfl rfl)

/-- `DrainRequests` is handled: the draining hook runs; from now on `Shutdown` discards are in order -/
theorem rsOk_drainRequests {c : CaseCfg} (w : W) (h : RsOk c w) : RsOk c (w.handleMsg .drainRequests) := by
  refine h.grow [.mark] rfl (fun _ => Or.inr (by simp)) ?_ (fun r hr => Or.inl (by simpa using hr))
  show rsOf (w.env.log ++ [Ev.hook .draining]) = _
  rw [rsOf_append]; rfl

theorem rsOk_tryFinishStop {c : CaseCfg} (w : W) (h : RsOk c w) : RsOk c w.tryFinishStop := by
  unfold W.tryFinishStop
  split
  · apply h.sound
    refine Sound.of_env ?_ rfl rfl
    show CalmRE w.env ((w.inbox.foldl Env.dropMsg (w.env.emit (.hook .stopped))).killAll)
    refine (calmRE_emit w.env (.hook .stopped) rfl).trans (CalmRE.trans ?_ (calmRE_killAll _))
    generalize w.env.emit (.hook .stopped) = e
    generalize w.inbox = l
    induction l generalizing e with
    | nil => rfl
    | cons m l ih =>
      rw [List.foldl_cons]
      refine CalmRE.trans ?_ (ih _)
      cases m with
      | dispatch j =>
        show CalmRE e (if j.port then (e.emit (.dropped j.id)).emit (.portClosed j.id) else e.emit (.dropped j.id))
        by_cases hp : j.port = true
        · rw [if_pos hp]; exact (calmRE_emit e (.dropped j.id) rfl).trans (calmRE_emit _ (.portClosed j.id) rfl)
        · rw [if_neg hp]; exact calmRE_emit e (.dropped j.id) rfl
      | _ => rfl
  · exact h

theorem rsOk_loopStep {c : CaseCfg} (w w' : W) (h : RsOk c w) (hl : w.loopStep = some w') : RsOk c w' := by
  unfold W.loopStep at hl
  split at hl
  · simp at hl
  · split at hl
    · rename_i hss
      simp only [Option.some.injEq] at hl; subst hl
      exact h.sound (sound_postStop w hss)
    · split at hl
      · rename_i who rest _
        simp only [Option.some.injEq] at hl; subst hl
        have h1 : RsOk c ({ w with env := { w.env with sup := rest } } : W) := ⟨h.rl, h.mark, h.okRl, h.okSd⟩
        exact h1.sound (sound_handleSupervisorEvt _ who)
      · split at hl
        · rename_i m rest _
          simp only [Option.some.injEq] at hl; subst hl
          have h1 : RsOk c ({ w with inbox := rest } : W) := ⟨h.rl, h.mark, h.okRl, h.okSd⟩
          by_cases hm : m = .drainRequests
          · subst hm
            exact (rsOk_drainRequests _ h1).sound (sound_afterHandle _)
          · exact (h1.sound (sound_handleMsg _ m hm)).sound (sound_afterHandle _)
        · simp at hl

theorem rsOk_runQ {c : CaseCfg} (fuel : Nat) (w : W) (h : RsOk c w) : RsOk c (W.runQ fuel w) := by
  induction fuel generalizing w with
  | zero => exact h
  | succ fuel ih =>
    unfold W.runQ
    cases hl : w.loopStep with
    | some w' => simp only; exact ih _ (rsOk_loopStep w w' h hl)
    | none =>
      simp only
      have h1 : RsOk c ({ w with env := w.env.settle } : W) :=
        h.sound (Sound.of_env (calmRE_settle w.env) rfl rfl)
      have hs := rsOk_tryFinishStop _ h1
      split
      · exact hs
      · exact ih _ hs

theorem rsOk_advanceTo {c : CaseCfg} (t fuel : Nat) (w : W) (h : RsOk c w) : RsOk c (W.advanceTo t fuel w) := by
  induction fuel generalizing w with
  | zero => exact ⟨h.rl, h.mark, h.okRl, h.okSd⟩
  | succ fuel ih =>
    unfold W.advanceTo
    split
    · simp only
      apply ih
      apply rsOk_runQ
      have h1 : RsOk c ({ w.setNow w.nextCalc with nextCalc := t + CALCULATE_FREQUENCY * 1000000 } : W) :=
        ⟨h.rl, h.mark, h.okRl, h.okSd⟩
      exact h1.sound (sound_send _ _)
    · exact ⟨h.rl, h.mark, h.okRl, h.okSd⟩

theorem rsOk_ask {c : CaseCfg} (w : W) (m : FMsg) (h : RsOk c w) : RsOk c (w.ask m) := by
  unfold W.ask
  split
  · exact ⟨h.rl, h.mark, h.okRl, h.okSd⟩
  · simp only
    have h1 := rsOk_runQ RUN_FUEL _ (h.sound (sound_send w m))
    split
    · exact ⟨h1.rl, h1.mark, h1.okRl, h1.okSd⟩
    · exact h1

theorem rsOk_queries {c : CaseCfg} (w : W) (h : RsOk c w) : RsOk c w.queries := by
  unfold W.queries
  split
  · exact ⟨h.rl, h.mark, h.okRl, h.okSd⟩
  · have h0 : RsOk c ({ w with answers := [] } : W) := ⟨h.rl, h.mark, h.okRl, h.okSd⟩
    exact rsOk_ask _ _ (rsOk_ask _ _ (rsOk_ask _ _ h0))

theorem rsOk_stepOp {c : CaseCfg} (w : W) (op : Op) (t0 tq te : Nat) (h : RsOk c w) : RsOk c (w.stepOp op t0 tq te) := by
  unfold W.stepOp
  simp only
  generalize hw1 : W.advanceTo t0 (advanceFuel w t0) w = w1
  have h1 : RsOk c w1 := by rw [← hw1]; exact rsOk_advanceTo _ _ _ h
  generalize hw2 : W.runQ RUN_FUEL (w1.applyOp op) = w2
  have h2 : RsOk c w2 := by rw [← hw2]; exact rsOk_runQ _ _ (h1.sound (sound_applyOp _ _))
  generalize hw3 : W.advanceTo tq (advanceFuel w2 tq) w2 = w3
  have h3 : RsOk c w3 := by rw [← hw3]; exact rsOk_advanceTo _ _ _ h2
  generalize hw4 : w3.queries = w4
  have h4 : RsOk c w4 := by rw [← hw4]; exact rsOk_queries _ h3
  generalize hw5 : W.advanceTo te (advanceFuel w4 te) w4 = w5
  have h5 : RsOk c w5 := by rw [← hw5]; exact rsOk_advanceTo _ _ _ h4
  have h6 : RsOk c ({ w5 with lastWq := none } : W) := ⟨h5.rl, h5.mark, h5.okRl, h5.okSd⟩
  exact h6.sound (sound_emit _ _ rfl)

theorem rsOk_runSteps {c : CaseCfg} (w : W) (steps : List Step) (h : RsOk c w) : RsOk c (w.runSteps steps) := by
  induction steps generalizing w with
  | nil => exact h
  | cons s rest ih => exact ih _ (rsOk_stepOp w s.op s.t0 s.tq s.te h)

theorem rsOk_of_fresh (c : CaseCfg) (w : W) (hrl : w.rl.isSome = c.rl.isSome) (hd : drainish w = false)
    (hl : w.env.log = []) : RsOk c w := by
  refine ⟨hrl, fun h => (by rw [hd] at h; cases h), fun h => (by rw [hl] at h; cases h), fun pre post h => ?_⟩
  rw [hl] at h
  cases pre <;> cases h

theorem rsOk_init (c : CaseCfg) : RsOk c (init c) := by
  unfold init
  simp only
  have hq := sound_growPool
    ({ cfg := c.cfg, poolSize := 0, pool := [], byActor := [], avail := [], inQ := [], last := 0,
       rl := c.rl.map fun (r : Nat × Nat × Nat × Nat) =>
          let lc : LeakyBucket.Cfg := ⟨r.1, r.2.1, r.2.2.1, 10 ^ 40⟩
          (lc, LeakyBucket.new lc (some r.2.2.2) 0),
       queue := [], disc := c.disc, drain := .notDraining,
       handler := if c.cfg.hasHandler then some 0 else none,
       env := { actors := [], log := [], now := 0, sup := [] },
       nextAid := 0, stopSignal := false, stopped := false, inbox := [], blocked := false, armed := false,
       nextCalc := CALCULATE_FREQUENCY, answers := [], lastWq := none } : W) c.n
  have h1 := (rsOk_of_fresh c _ (by cases c.rl <;> rfl) rfl rfl).sound hq
  have h2 : RsOk c ({ (W.growPool _ c.n) with poolSize := c.n } : W) := ⟨h1.rl, h1.mark, h1.okRl, h1.okSd⟩
  exact h2.sound (sound_emit _ _ rfl)

theorem rsOf_mem {log : List Ev} {ev : Ev} {r : REv} (h : ev ∈ log) (hr : rsEv ev = some r) : r ∈ rsOf log :=
  List.mem_filterMap.mpr ⟨ev, h, hr⟩

/-- a split of the log at an event is a split of its tracked part -/
theorem rsOf_split {pre post : List Ev} {ev : Ev} {r : REv} (hr : rsEv ev = some r) :
    rsOf (pre ++ ev :: post) = rsOf pre ++ r :: rsOf post := by
  rw [rsOf_append]
  simp [rsOf, List.filterMap_cons, hr]

theorem mark_mem {log : List Ev} (h : REv.mark ∈ rsOf log) : Ev.hook .draining ∈ log := by
  obtain ⟨ev, hm, he⟩ := List.mem_filterMap.mp h
  cases ev with
  | hook hk => cases hk <;> first | exact hm | (simp [rsEv] at he)
  | discard r i hd => cases r <;> simp [rsEv] at he
  | _ => simp [rsEv] at he

/-- REASONS over whole runs: a `RateLimited` discard is reported only by a factory built with a rate limiter -/
theorem rate_limited_needs_limiter_run (c : CaseCfg) (steps : List Step) (id : Nat) (h : Option Nat)
    (hm : Ev.discard .rateLimited id h ∈ ((init c).runSteps steps).env.log) : c.rl.isSome = true :=
  (rsOk_runSteps _ steps (rsOk_init c)).okRl (rsOf_mem hm rfl)

/-- REASONS over whole runs: every `Shutdown` discard in a history comes AFTER the draining hook, i.e. after the factory
handled `DrainRequests` -/
theorem shutdown_after_drain_run (c : CaseCfg) (steps : List Step) (id : Nat) (h : Option Nat) (pre post : List Ev)
    (hs : ((init c).runSteps steps).env.log = pre ++ Ev.discard .shutdown id h :: post) : Ev.hook .draining ∈ pre := by
  have hk := (rsOk_runSteps _ steps (rsOk_init c)).okSd (rsOf pre) (rsOf post) (by rw [hs]; exact rsOf_split rfl)
  exact mark_mem hk

end Factory
