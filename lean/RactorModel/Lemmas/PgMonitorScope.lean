import RactorModel.Lemmas.PgMonitor

namespace Pg
open AList

theorem monitorScope_dead_get {st : State} (h : Inv st) (s a : Nat) (hd : a ∈ st.dead) :
    (∀ k, get (monitorScope st s a).world k = get st.world k) ∧ (∀ b, get (monitorScope st s a).rel b = get st.rel b) ∧
    (monitorScope st s a).index = st.index ∧ (monitorScope st s a).map = st.map ∧ (monitorScope st s a).dead = st.dead := by
  have hal : alive st a = false := by simp [alive, hd]
  unfold monitorScope
  simp only [hal, Bool.false_eq_true, ↓reduceIte, and_self, and_true]
  constructor
  · intro k
    simp only [get_alter, get_set, ↓reduceIte, Option.bind_some]
    by_cases e : k = s
    · subst e
      rw [if_pos rfl]
      cases hg : get st.world k with
      | none => simp
      | some l =>
        simp only [Option.getD_some]
        have := h.worldNE k
        rw [hg] at this
        rw [if_neg]
        intro c; exact this (by rw [c])
    · rw [if_neg e, if_neg e]
  · intro b
    rw [removeEmptyRel_get, relUpdate_id_get]
    by_cases e : b = a
    · subst e
      rw [if_pos rfl, if_pos rfl, h.dead b hd]
      simp [Rel.empty_isEmpty]
    · rw [if_neg e, relUpdate_id_get, if_neg e]

theorem monitorScope_alive_state (st : State) (s a : Nat) (hal : a ∉ st.dead) :
    monitorScope st s a =
      { st with world := set st.world s (ins a (worldOf st s)),
                rel := relUpdate (relUpdate st.rel a id) a (fun x => { x with wmon := ins s x.wmon }) } := by
  have : alive st a = true := alive_iff.mpr hal
  unfold monitorScope
  simp only [this, ↓reduceIte, worldOf]

theorem monitorScope_alive_rel_get (st : State) (s a : Nat) (hal : a ∉ st.dead) (b : Nat) :
    get (monitorScope st s a).rel b =
      if b = a then some ⟨relMem st a, relGmon st a, ins s (relWmon st a)⟩ else get st.rel b := by
  rw [monitorScope_alive_state st s a hal]
  simp only [relUpdate, get_alter]
  by_cases e : b = a
  · subst e; simp [relMem, relGmon, relWmon, relOf]
  · simp [e]

theorem inv_monitorScope {st : State} (h : Inv st) (s a : Nat) : Inv (monitorScope st s a) := by
  by_cases hd : a ∈ st.dead
  · obtain ⟨h1, h2, h3, h4, h5⟩ := monitorScope_dead_get h s a hd
    refine inv_congr h (by rw [h4]; intro; rfl) (by rw [h3]; intro; rfl) h1 h2 h5 (by rw [h4]; exact h.kMap)
      (by rw [h3]; exact h.kIdx) ?_ ?_
    · have hal : alive st a = false := by simp [alive, hd]
      unfold monitorScope
      simp only [hal, Bool.false_eq_true, ↓reduceIte]
      exact nodupKeys_alter (nodupKeys_set h.kWorld _ _) _ _
    · have hal : alive st a = false := by simp [alive, hd]
      unfold monitorScope
      simp only [hal, Bool.false_eq_true, ↓reduceIte]
      exact nodupKeys_alter (nodupKeys_alter h.kRel _ _) _ _
  · have hst := monitorScope_alive_state st s a hd
    have hrel := monitorScope_alive_rel_get st s a hd
    have hworld : ∀ k, get (monitorScope st s a).world k =
        if k = s then some (ins a (worldOf st s)) else get st.world k := by
      intro k; rw [hst]; simp
    have hWm : ∀ k m, m ∈ worldOf (monitorScope st s a) k ↔ m ∈ worldOf st k ∨ (k = s ∧ m = a) := by
      intro k m; unfold worldOf; rw [hworld]
      by_cases e : k = s
      · rw [if_pos e, e]
        simp only [Option.getD_some, mem_ins, true_and, worldOf]
        constructor
        · rintro (x | x)
          · exact Or.inr x
          · exact Or.inl x
        · rintro (x | x)
          · exact Or.inr x
          · exact Or.inl x
      · rw [if_neg e]; simp [e]
    have hRM : ∀ b, relMem (monitorScope st s a) b = relMem st b := by
      intro b; unfold relMem relOf; rw [hrel]
      by_cases e : b = a
      · rw [if_pos e, e]; rfl
      · rw [if_neg e]
    have hRG : ∀ b, relGmon (monitorScope st s a) b = relGmon st b := by
      intro b; unfold relGmon relOf; rw [hrel]
      by_cases e : b = a
      · rw [if_pos e, e]; rfl
      · rw [if_neg e]
    have hRW : ∀ b k, k ∈ relWmon (monitorScope st s a) b ↔ k ∈ relWmon st b ∨ (k = s ∧ b = a) := by
      intro b k; unfold relWmon relOf; rw [hrel]
      by_cases e : b = a
      · rw [if_pos e, e]
        simp only [Option.getD_some, mem_ins, and_true, relWmon, relOf]
        constructor
        · rintro (x | x)
          · exact Or.inr x
          · exact Or.inl x
        · rintro (x | x)
          · exact Or.inr x
          · exact Or.inl x
      · rw [if_neg e]; simp [e]
    have hMp : (monitorScope st s a).map = st.map := by rw [hst]
    have hI : (monitorScope st s a).index = st.index := by rw [hst]
    have hD : (monitorScope st s a).dead = st.dead := by rw [hst]
    have hM : ∀ k, membersOf (monitorScope st s a) k = membersOf st k := by
      intro k; unfold membersOf; rw [hMp]
    have hL : ∀ k, listenersOf (monitorScope st s a) k = listenersOf st k := by
      intro k; unfold listenersOf; rw [hMp]
    constructor
    · rw [hMp]; exact h.kMap
    · rw [hI]; exact h.kIdx
    · rw [hst]; exact nodupKeys_set h.kWorld _ _
    · rw [hst]; dsimp only [relUpdate]; exact nodupKeys_alter (nodupKeys_alter h.kRel _ _) _ _
    · intro k b; rw [hM, hRM]; exact h.mem k b
    · intro k m; rw [hL, hRG]; exact h.gmon k m
    · intro s' m; rw [hWm, hRW, h.wmon]
    · intro s' g'
      have := h.idx s' g'
      unfold idxOf at this ⊢
      rw [hI, hM, this]
    · intro s'; rw [hI]; exact h.idxNE s'
    · intro k gs; rw [hMp]; exact h.mapNE k gs
    · intro s'
      rw [hworld]
      by_cases e : s' = s
      · rw [if_pos e]
        intro x
        simp only [Option.some.injEq] at x
        have : a ∈ ins a (worldOf st s) := mem_ins.mpr (Or.inl rfl)
        rw [x] at this; cases this
      · rw [if_neg e]; exact h.worldNE s'
    · intro b hb
      rw [hD] at hb
      rw [hrel]
      by_cases e : b = a
      · subst e; exact absurd hb hd
      · rw [if_neg e]; exact h.dead b hb
    · intro k; rw [hM]; exact h.ndM k
    · intro k; rw [hL]; exact h.ndL k
    · intro s'
      unfold worldOf; rw [hworld]
      by_cases e : s' = s
      · rw [if_pos e]; exact nodup_ins (h.ndW _)
      · rw [if_neg e]; exact h.ndW s'
    · intro s'; unfold idxOf; rw [hI]; exact h.ndI s'
    · intro b
      rw [hRM, hRG]
      refine ⟨(h.ndR b).1, (h.ndR b).2.1, ?_⟩
      unfold relWmon relOf; rw [hrel]
      by_cases e : b = a
      · rw [if_pos e]; exact nodup_ins (h.ndR a).2.2
      · rw [if_neg e]; exact (h.ndR b).2.2

end Pg
