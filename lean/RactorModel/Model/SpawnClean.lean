/-
Model `SpawnClean` (C08, round 4): ONE spawn of a Send actor followed step by step through
`ActorCell::new`, `start` and — when the spawn does not produce a running actor — through
`ActorLifecycleGuard::cleanup(None)` in the order the code runs it, each step changing ONE
component of the world (name registry, pid registry, process groups, supervision tree, waiters,
mailbox / reply ports), with the requests of other threads (casts, calls, `wait()`, external
`pg::join`, `stop`, `drain`, `kill`, the supervisor's own status changes) interleaved at every
step. Cleanliness of a failed spawn is DERIVED from what the steps did to the components; nothing
assigns it.

One model step = the code between two schedule points of the real spawn thread (`verif::point`
names in brackets; the engine parks the real thread at exactly these):

  begin        ActorCell::new: register the name (a clash fails the spawn here, nothing else
               happened); cluster builds register the pid; spawn_instant hands the reference out
               [h.unstarted], the other flavours go on to `start`
  (unstarted)  the start task is polled — or dropped before its first poll (`cut`)
  [status.publish] set_status(Starting); pre_start runs its side effects (pg joins and monitors,
               casts to itself, optionally `myself.get_cell().link(sup)` [tree.link]) up to its gate [h.pre]
  [h.pre]      pre_start returns Ok / Err / panics / is dropped (cut) / loses against a pending kill
               (`handle_signal` → `terminate` → `take_children` [tree.take])
  [tree.link]  linked flavours, pre_start Ok: `link_starting` — refused iff the child is >= Stopping
               or the supervisor is >= Draining or its child set is closed
  cleanup(None):
  [status.publish]      publish Stopping            [status.unreg_pid]   pid registry (cluster)
  [status.unreg_name]   name registry               [status.pg_demonitor] pg monitors
  [status.pg_leave]     pg memberships              [cleanup.terminate] → [tree.take] child set closed
  [cleanup.notify]      no event (notify_on_cancel = false)
  [cleanup.unlink]      → [tree.unlink] if a supervisor is set
  [cleanup.stopped] → [status.publish] publish Stopped → [status.notify] → [notify.waiters] waiters
  released; then `start`'s frame drops the port set: mailbox flushed, queued reply ports closed.

Children of the starting actor are not in this model (they are in `Model/Spawn.lean`). Import-free.
-/

namespace SpawnClean

inductive Outcome | ok | err | panic | cut | yieldThenOk   -- `yieldThenOk`: awaits once more (a pending kill wins)
  deriving Repr, DecidableEq

structure Cfg where
  cluster : Bool := false
  named : Bool := false
  nameTaken : Bool := false        -- somebody else holds the requested name
  linked : Bool := false
  instant : Bool := false
  cut0 : Bool := false             -- instant: the start task is dropped before its first poll
  joins : List Nat := []           -- groups pre_start joins
  mons : List Nat := []            -- groups pre_start monitors
  selfsends : Nat := 0
  selflink : Bool := false         -- pre_start links itself to the supervisor cell: `myself.get_cell().link(sup)`
  outcome : Outcome := .err
  deriving Repr, DecidableEq

inductive Pc
  | init | unstarted | pubStarting | selfLink | pre | kTake | link | started
  | cStopping | cUnregPid | cUnregName | cPgDemon | cPgLeave | cTerminate | cTake | cNotify | cUnlink
  | cTreeUnlink | cStopped | cPubStopped | cStatusNotify | cNotifyWaiters
  | done
  deriving Repr, DecidableEq

inductive PortSt | waiting | replied | senderError | sendErr
  deriving Repr, DecidableEq

inductive Res | pending | ok | errName | err | cut
  deriving Repr, DecidableEq

/-- an item of the mailbox: a cast, or a call with its reply port -/
inductive Item | cast | call (p : Nat)
  deriving Repr, DecidableEq

structure W where
  pc : Pc := .init
  res : Res := .pending
  -- the cell
  exists_ : Bool := false           -- ActorCell::new succeeded (there is a cell to talk to)
  status : Nat := 0                 -- ActorStatus discriminant
  -- component: name registry (one name)
  nameMine : Bool := false          -- the requested name maps to this cell
  -- component: pid registry (cluster builds)
  pidReg : Bool := false
  -- component: process groups
  members : List Nat := []
  monitors : List Nat := []
  -- component: supervision tree
  supSlot : Bool := false           -- this cell's supervisor slot points to the supervisor
  supKids : Bool := false           -- the supervisor's child set contains this cell
  kidsOpen : Bool := true           -- this cell's own child set accepts children
  supStatus : Nat := 2              -- the supervisor's status (Running); its set is closed from Stopped on
  -- component: waiters
  waiting : Nat := 0                -- `wait()` calls parked
  released : Nat := 0               -- `wait()` calls that returned
  -- component: ports
  portsOpen : Bool := false         -- the receivers exist
  mailbox : List Item := []
  ports : List PortSt := []
  admClosed : Bool := false         -- admission closed by a drain
  markerSent : Bool := false        -- the drain marker bit (the first drain of a stopped cell reports Err)
  stopReq : Bool := false
  killReq : Bool := false
  handled : Nat := 0
  events : Nat := 0                 -- supervision events about this cell handed to the supervisor
  deriving Repr, DecidableEq

inductive Op
  | begin | step
  | cast | call | wait | joinExt (g : Nat) | stop | drain | kill
  | supSet (st : Nat)               -- the supervisor's status rises to `st` (Draining 4, Stopping 5, Stopped 6)
  deriving Repr, DecidableEq

def addNew (l : List Nat) (g : Nat) : List Nat := if l.contains g then l else l ++ [g]

/-- the port set is dropped: mailbox flushed, queued reply ports closed -/
def dropPorts (w : W) : W :=
  { w with portsOpen := false, mailbox := [],
           ports := w.ports.mapIdx (fun i x =>
             if w.mailbox.contains (.call i) && x == .waiting then PortSt.senderError else x) }

/-- pre_start's side effects through `myself` (status is `Starting`: pg accepts, the cast is queued) -/
def sideEffects (c : Cfg) (w : W) : W :=
  { w with members := c.joins.foldl addNew w.members,
           monitors := c.mons.foldl addNew w.monitors,
           mailbox := if w.admClosed || !w.portsOpen then w.mailbox else w.mailbox ++ List.replicate c.selfsends .cast }

def linkRefused (w : W) : Bool := 5 ≤ w.status || 4 ≤ w.supStatus

/-- one step of the spawn thread: the code from the point named by `pc` to the next point -/
def spawnStep (c : Cfg) (w : W) : W :=
  match w.pc with
  | .init => w
  | .unstarted =>
    if c.cut0 then { w with pc := .cStopping, res := .cut }      -- future dropped: guard → cleanup
    else { w with pc := .pubStarting }
  | .pubStarting =>
    -- the (biased) select polls the signal port first: a kill that is already pending wins before
    -- pre_start is polled at all
    if w.killReq then { w with status := max w.status 1, pc := .kTake, res := .err }
    else sideEffects c { w with status := max w.status 1, pc := if c.selflink then .selfLink else .pre }
  | .selfLink =>
    -- the public `link()`: refused iff either side is >= Draining
    if 4 ≤ w.status || 4 ≤ w.supStatus then { w with pc := .pre }
    else { w with supSlot := true, supKids := true, pc := .pre }
  | .pre =>
    match c.outcome with
    | .ok => if c.linked then { w with pc := .link } else { w with pc := .started, res := .ok }
    | .yieldThenOk =>
      if w.killReq then { w with pc := .kTake, res := .err }     -- "Actor killed during startup"
      else if c.linked then { w with pc := .link } else { w with pc := .started, res := .ok }
    | .err => { w with pc := .cStopping, res := .err }
    | .panic => { w with pc := .cStopping, res := .err }
    | .cut => { w with pc := .cStopping, res := .cut }
  | .kTake => { w with kidsOpen := false, pc := .cStopping }
  | .link =>
    if linkRefused w then { w with pc := .cStopping, res := .err }   -- "Supervisor is shutting down"
    else { w with supSlot := true, supKids := true, pc := .started, res := .ok }
  | .started => w
  | .cStopping => { w with status := max w.status 5, pc := .cUnregPid }
  | .cUnregPid => { w with pidReg := false, pc := .cUnregName }
  | .cUnregName => { w with nameMine := false, pc := .cPgDemon }
  | .cPgDemon => { w with monitors := [], pc := .cPgLeave }
  | .cPgLeave => { w with members := [], pc := .cTerminate }
  | .cTerminate => { w with pc := .cTake }
  | .cTake => { w with kidsOpen := false, pc := .cNotify }
  | .cNotify => { w with pc := .cUnlink }
  | .cUnlink => if w.supSlot then { w with pc := .cTreeUnlink } else { w with pc := .cStopped }
  | .cTreeUnlink => { w with supSlot := false, supKids := false, pc := .cStopped }
  | .cStopped => { w with pc := .cPubStopped }
  | .cPubStopped => { w with status := max w.status 6, pc := .cStatusNotify }
  | .cStatusNotify => { w with pc := .cNotifyWaiters }
  | .cNotifyWaiters =>
    dropPorts { w with released := w.released + w.waiting, waiting := 0, pc := .done }
  | .done => w

def step (c : Cfg) (w : W) : Op → W
  | .begin =>
    if w.pc ≠ .init then w
    else if c.named && c.nameTaken then { w with pc := .done, res := .errName }   -- AlreadyRegistered
    else
      let w := { w with exists_ := true, portsOpen := true, nameMine := c.named, pidReg := c.cluster }
      if c.instant then { w with pc := .unstarted } else { w with pc := .pubStarting }
  | .step => spawnStep c w
  | .cast =>
    -- status gate, admission, channel
    if !w.exists_ || 4 ≤ w.status || w.admClosed || !w.portsOpen then w
    else { w with mailbox := w.mailbox ++ [.cast] }
  | .call =>
    let p := w.ports.length
    if !w.exists_ then w
    else if 4 ≤ w.status || w.admClosed || !w.portsOpen then { w with ports := w.ports ++ [.sendErr] }
    else { w with ports := w.ports ++ [.waiting], mailbox := w.mailbox ++ [.call p] }
  | .wait =>
    -- `wait()` creates its `Notified` first, then checks the status
    if !w.exists_ then w
    else if 6 ≤ w.status then { w with released := w.released + 1 }
    else { w with waiting := w.waiting + 1 }
  | .joinExt g =>
    -- `pg::join` filters actors whose status is above Draining
    if !w.exists_ || 4 < w.status then w else { w with members := addNew w.members g }
  | .stop => if w.exists_ && w.portsOpen then { w with stopReq := true } else w
  | .kill => if w.exists_ && w.portsOpen then { w with killReq := true } else w
  | .drain =>
    if !w.exists_ then w
    else { w with admClosed := true, markerSent := true,
                  status := if w.status ≠ 0 ∧ w.status < 5 then 4 else w.status }
  | .supSet st =>
    -- a supervisor that reaches Stopped has run `terminate`: its child set is taken (closed), every
    -- child is detached and — unless it is already Stopping — killed
    if 6 ≤ st && w.supKids then
      { w with supStatus := max w.supStatus st, supKids := false, supSlot := false,
               killReq := w.killReq || (w.portsOpen && w.status < 5) }
    else { w with supStatus := max w.supStatus st }

/-- what `drain()` returns: the marker cannot be enqueued once the ports are gone -/
def drainResult (w : W) : Bool := w.markerSent || w.portsOpen

def run (c : Cfg) (ops : List Op) : W := ops.foldl (step c) {}

/-- the spawn did not produce a running actor — read off the spawn's own result -/
def failed (w : W) : Bool := w.res == .err || w.res == .cut

/-- "Nothing left behind", component by component. -/
def clean (w : W) : Bool :=
  w.status == 6 && !w.nameMine && !w.pidReg && w.members.isEmpty && w.monitors.isEmpty &&
  !w.supSlot && !w.supKids && !w.kidsOpen && w.waiting == 0 && !w.portsOpen && w.mailbox.isEmpty &&
  w.ports.all (· != .waiting) && w.handled == 0 && w.events == 0

/-- the property on one state: a failed spawn whose thread has finished has left nothing behind -/
def ok (w : W) : Bool := !(failed w && w.pc == .done) || clean w

/-- steps the cleanup still has to run from `pc` -/
def Pc.togo : Pc → Nat
  | .kTake => 15 | .cStopping => 14 | .cUnregPid => 13 | .cUnregName => 12 | .cPgDemon => 11 | .cPgLeave => 10
  | .cTerminate => 9 | .cTake => 8 | .cNotify => 7 | .cUnlink => 6 | .cTreeUnlink => 5 | .cStopped => 4
  | .cPubStopped => 3 | .cStatusNotify => 2 | .cNotifyWaiters => 1 | _ => 0

def Pc.inCleanup (p : Pc) : Bool := 0 < p.togo

end SpawnClean
