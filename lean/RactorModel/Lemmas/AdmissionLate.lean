import RactorModel.Lemmas.AdmissionBase

/-!
Invariant behind C07 (1): a send that performed its first step (`send.status`) when admission
was already closed (`Frame.late`, ghost) can only sit at `admit.load`, and returns `SendErr`.
-/

namespace Admission

def Frame.isLate (f : Frame) : Bool := f.late
def Frame.lateBad (f : Frame) : Bool :=
  f.late && (match f.pc with | .aLoad => false | _ => true)
/-- a logged return of a late send that is not `SendErr` -/
def Ret.lateBad (r : Ret) : Bool :=
  (match r.kind with | .send => true | _ => false) && r.late &&
    (match r.res with | .sendErr _ => false | _ => true)

structure LateN (s : Shared) (L M : Nat) : Prop where
  late_closed : 0 < L → s.word.closed = true
  late_pc : M = 0
  late_log : s.rets.countP Ret.lateBad = 0

set_option hygiene false in
macro "admission_late_case" : tactic => `(tactic| (
  obtain ⟨h1, h2, h3⟩ := h
  obtain ⟨e1, l1⟩ := d1
  obtain ⟨e2, l2⟩ := d2
  (try (cases ops <;> try (rename_i op ops'; cases op))) <;>
  simp only [stepThread, finish, startOp] at hs <;> (repeat' (split at hs)) <;>
  (try (simp only [Option.some.injEq, Prod.mk.injEq, reduceCtorEq] at hs)) <;>
  (try (obtain ⟨rfl, rfl⟩ := hs)) <;>
  simp only [List.countP_cons, List.countP_append, List.countP_nil, Frame.isLate, Frame.lateBad,
    Ret.lateBad, kindOf] at * <;>
  generalize List.countP Frame.isLate rest = a at * <;>
  generalize List.countP Frame.lateBad rest = b at * <;>
  (try (simp only [Bool.false_eq_true, ↓reduceIte, Nat.add_zero, Bool.and_true, Bool.and_false,
    Bool.true_and, Bool.false_and] at *)) <;>
  (constructor <;>
    (try (simp only [List.countP_cons, List.countP_append, List.countP_nil, Ret.lateBad])) <;>
    grind)))

section
variable {s s' : Shared} {rest stack' : List Frame} {id : Nat} {late bf : Bool} {ops : List Op} {sk : List Nat}
  {A B A' B' : Nat} {seen : Word} {r : Res} {ret : Option Res}

set_option hygiene false in
macro "late_lemma " n:ident pc:term : command => `(
  theorem $n (hs : stepThread s (⟨$pc, id, late, ops, bf, sk⟩ :: rest) = some (s', stack'))
    (d1 : Delta Frame.isLate (⟨$pc, id, late, ops, bf, sk⟩ :: rest) stack' A A')
    (d2 : Delta Frame.lateBad (⟨$pc, id, late, ops, bf, sk⟩ :: rest) stack' B B')
    (h : LateN s A B) : LateN s' A' B' := by
  admission_late_case)

late_lemma late_run Pc.run
late_lemma late_sStatus Pc.sStatus
late_lemma late_aLoad Pc.aLoad
late_lemma late_aCas (Pc.aCas seen)
late_lemma late_box Pc.box
late_lemma late_boxing Pc.boxing
late_lemma late_enq Pc.enq
late_lemma late_rel (Pc.rel r)
late_lemma late_dClose Pc.dClose
late_lemma late_dStatus Pc.dStatus
late_lemma late_mLoad (Pc.mLoad ret)
late_lemma late_mCas (Pc.mCas seen ret)
late_lemma late_mEnq (Pc.mEnq ret)
late_lemma late_bad Pc.bad
end

theorem lateN_stepThread {s s' : Shared} {stack stack' : List Frame}
    (hs : stepThread s stack = some (s', stack')) {A B A' B' : Nat}
    (d1 : Delta Frame.isLate stack stack' A A') (d2 : Delta Frame.lateBad stack stack' B B')
    (h : LateN s A B) : LateN s' A' B' := by
  cases stack with
  | nil => simp [stepThread] at hs
  | cons f rest =>
    obtain ⟨pc, id, late, ops, bf, sk⟩ := f
    cases pc
    · exact late_run hs d1 d2 h
    · exact late_sStatus hs d1 d2 h
    · exact late_aLoad hs d1 d2 h
    · exact late_aCas hs d1 d2 h
    · exact late_box hs d1 d2 h
    · exact late_boxing hs d1 d2 h
    · exact late_enq hs d1 d2 h
    · exact late_rel hs d1 d2 h
    · exact late_dClose hs d1 d2 h
    · exact late_dStatus hs d1 d2 h
    · exact late_mLoad hs d1 d2 h
    · exact late_mCas hs d1 d2 h
    · exact late_mEnq hs d1 d2 h
    · exact late_bad hs d1 d2 h

theorem lateN_rx {s : Shared} {A B : Nat} (tid : Tid) (h : LateN s A B) :
    LateN (stepRx s tid) A B := by
  obtain ⟨h1, h2, h3⟩ := h
  cases tid <;> simp only [stepRx] <;> (repeat' split) <;> constructor <;> simp_all

def LateInv (g : G) : Prop := LateN g.sh (cnt Frame.isLate g) (cnt Frame.lateBad g)

theorem lateInv_init (progs : List (List Op)) : LateInv (init progs) := by
  unfold LateInv
  rw [cnt_init Frame.isLate (fun _ => rfl), cnt_init Frame.lateBad (fun _ => rfl)]
  constructor <;> simp [init]

theorem lateInv_step (g : G) (tid : Tid) (h : LateInv g) : LateInv (step g tid) := by
  cases tid with
  | t i =>
    simp only [step]
    split
    · exact h
    · rename_i stack hi
      split
      · exact h
      · rename_i s' stack' hs
        exact lateN_stepThread hs (delta_of_set _ g i s' stack stack' hi)
          (delta_of_set _ g i s' stack stack' hi) h
  | recv => exact lateN_rx .recv h
  | rxStop => exact lateN_rx .rxStop h
  | rxClose => exact lateN_rx .rxClose h
  | rxFlush => exact lateN_rx .rxFlush h
  | setStatus st => exact lateN_rx (.setStatus st) h

theorem lateInv_run (g : G) (sched : List Tid) (h : LateInv g) : LateInv (run g sched) := by
  induction sched generalizing g with
  | nil => exact h
  | cons t l ih => exact ih _ (lateInv_step g t h)

end Admission
