import RactorModel.Model.Timers
import Driver.Common

/-! Driver for the `Timers` model (C12).

ops (macro ops executed by `harness/hcore/src/bin/timers.rs` at quiescent points):
  `case <n> [tl]`                 fresh runtime, fresh target (`tl`: a thread-local actor on its own, frozen, thread); clock 0
  `sa <p>` `si <p>` `ea <p>` `ka <p>`   send_after / send_interval / exit_after / kill_after, period p µs
  `dsa <p>` `dsi <p>` `dea <p>` `dka <p>`   the same four through a `DerivedActorRef` (same model steps)
  `csa <p>` `csi <p>` `cea <p>` `cka <p>`   the free functions `ractor::time::*` called with the target's `ActorCell`
  `xsa <p>` `xsi <p>`             the free functions send_after / send_interval with a message type that is not the target's
  `adv <d>`                       tokio::time::advance(d µs), run to quiescence   (every time and duration is in µs)
  `advabort <d> <i>`              clock += d, abort timer i before the time driver runs
  `advstop <d>` `advkill <d>` `advdrain <d>`   clock += d, then the API call on the target
  `abort <i>` `stop` `kill` `drain`
  `hold` `psrelease`              gate the target's `post_stop` / open the gate
  `starthold` (first op of a case) `started`   the target sits in a gated `post_start` (status `Starting`) / the gate opens
  `fail` `advfail <d>`            cast a message on which the target's handler returns `Err` (the actor FAILS)
  `drop <i>` `advdrop <d> <i>`    drop the `JoinHandle` of timer i (the task is detached; an `AbortHandle` is kept)

observation after each op (model and implementation, compared verbatim):
  `t=<now> att=<id.k@t,…|-> hd=<id.k@t,…|-> res=<P|ok|err|cancelled|panic|dP|dF,…|-> tgt=<Running|PostStop@<t>|Stopped:<reason>@<t>>`
  (`PostStop@t`: the message loop ended at `t` and the gated `post_stop` is running)
-/

namespace Driver.C12
open Timers Driver

structure DState where
  m : State := {}        -- the model
  v : State := {}        -- the implementation's history, as far as observed
  bad : Bool := false

def showRes : Res → String
  | .pending => "P" | .ok => "ok" | .err => "err" | .cancelled => "cancelled" | .panicked => "panic"

def parseRes? : String → Option Res
  | "P" => some .pending | "ok" => some .ok | "err" => some .err | "cancelled" => some .cancelled
  | "panic" => some .panicked
  | "err:InvalidActorType" => some .err
  | _ => none

/-- what the owner of timer `i`'s handle can read: the task's answer, or — once the `JoinHandle` is
dropped — only whether the task is still there (`AbortHandle::is_finished`) -/
inductive HObs | res (r : Res) | dropped (finished : Bool)
  deriving DecidableEq

def showHObs : HObs → String
  | .res r => showRes r
  | .dropped false => "dP"
  | .dropped true => "dF"

def parseHObs? : String → Option HObs
  | "dP" => some (.dropped false)
  | "dF" => some (.dropped true)
  | w => (parseRes? w).map HObs.res

def showEvs (l : List (Nat × Nat × Nat)) : String :=
  if l.isEmpty then "-" else
    let a := l.toArray.qsort (fun x y => x.1 < y.1 || (x.1 == y.1 && x.2.1 < y.2.1))
    ",".intercalate (a.toList.map fun e => s!"{e.1}.{e.2.1}@{e.2.2}")

def parseEv? (s : String) : Option (Nat × Nat × Nat) :=
  match splitOnChar s '@' with
  | [ik, t] => match splitOnChar ik '.' with
    | [i, k] => do pure (← i.toNat?, ← k.toNat?, ← t.toNat?)
    | _ => none
  | _ => none

def parseEvs? (s : String) : Option (List (Nat × Nat × Nat)) :=
  if s == "-" then some [] else (splitOnChar s ',').mapM parseEv?

def showTarget (T : Target) : String :=
  match T.exit, T.stopping with
  | some (r, t), _ => s!"Stopped:{r.render}@{t}"
  | none, some (_, ts) => s!"PostStop@{ts}"
  | none, none => if T.starting then (if T.draining then "Draining" else "Starting") else "Running"

/-- attempts of the sending timers beyond the lengths recorded in `old` -/
def newAttempts (old new : List Timer) : List (Nat × Nat × Nat) :=
  (new.zipIdx.map fun (τ, i) =>
    if τ.kind.sends then
      let n0 := match old[i]? with | some o => o.sentAt.length | none => 0
      ((τ.sentAt.drop n0).zipIdx.map fun (t, j) => (i, n0 + j + 1, t))
    else []).flatten

def observe (old new : State) : String :=
  let att := newAttempts old.timers new.timers
  let hd := new.target.handled.drop old.target.handled.length
  let res := if new.timers.isEmpty then "-" else ",".intercalate (new.timers.zipIdx.map fun (τ, i) =>
    if new.dropped.contains i then showHObs (.dropped (τ.res != .pending))
    -- the wrong message type: `MessagingErr::InvalidActorType` (not `SendErr`)
    else if !τ.typed && τ.res == .err then "err:InvalidActorType"
    else showRes τ.res)
  s!"t={new.now} att={showEvs att} hd={showEvs hd} res={res} tgt={showTarget new.target}"

def parseMOp? (ws : List String) : Option MOp :=
  match ws with
  | ["sa", p] => p.toNat?.map (MOp.create .sendAfter)
  | ["si", p] => p.toNat?.map (MOp.create .interval)
  -- the same timers created through a `DerivedActorRef` (a textual copy in time.rs)
  | ["dsa", p] => p.toNat?.map (MOp.create .sendAfter)
  | ["dsi", p] => p.toNat?.map (MOp.create .interval)
  | ["ea", p] => p.toNat?.map (MOp.create .exitAfter)
  | ["ka", p] => p.toNat?.map (MOp.create .killAfter)
  -- `DerivedActorRef::exit_after / kill_after`: must behave exactly like the two above
  | ["dea", p] => p.toNat?.map (MOp.create .exitAfter)
  | ["dka", p] => p.toNat?.map (MOp.create .killAfter)
  -- the free functions `ractor::time::*` called directly with an `ActorCell`
  | ["csa", p] => p.toNat?.map (MOp.create .sendAfter)
  | ["csi", p] => p.toNat?.map (MOp.create .interval)
  | ["cea", p] => p.toNat?.map (MOp.create .exitAfter)
  | ["cka", p] => p.toNat?.map (MOp.create .killAfter)
  -- ... with a message type that is not the target's
  | ["xsa", p] => p.toNat?.map (MOp.createX .sendAfter)
  | ["xsi", p] => p.toNat?.map (MOp.createX .interval)
  | ["adv", d] => d.toNat?.map MOp.adv
  | ["advabort", d, i] => do pure (MOp.advAbort (← d.toNat?) (← i.toNat?))
  | ["advstop", d] => d.toNat?.map MOp.advStop
  | ["advkill", d] => d.toNat?.map MOp.advKill
  | ["advdrain", d] => d.toNat?.map MOp.advDrain
  | ["abort", i] => i.toNat?.map MOp.abort
  | ["stop"] => some .stop | ["kill"] => some .kill | ["drain"] => some .drain
  | ["drop", i] => i.toNat?.map MOp.dropHandle
  | ["advdrop", d, i] => do pure (MOp.advDrop (← d.toNat?) (← i.toNat?))
  | ["starthold"] => some .startHold
  | ["started"] => some .started
  | ["fail"] => some .fail
  | ["advfail", d] => d.toNat?.map MOp.advFail
  -- the handler PANICS instead of returning `Err`: ractor catches it, the same `ActorFailed`
  | ["failp"] => some .fail
  | ["advfailp", d] => d.toNat?.map MOp.advFail
  | ["hold"] => some .hold
  | ["psrelease"] => some .psrelease
  | _ => none

def parseReason? (s : String) : Option Reason :=
  if s == "manual" then some .manual
  else if s == "Drained" then some .drained
  else if s == "killed" then some .killed
  else if s == "<failed> poison" then some .failed
  else if s.startsWith "Exit after " && s.endsWith "ms" then
    (((s.drop 11).dropEnd 2).toString.toNat?).map Reason.exitAfter
  else none

structure ImplObs where
  t : Nat
  att : List (Nat × Nat × Nat)
  hd : List (Nat × Nat × Nat)
  res : List HObs
  exit : Option (Reason × Nat)
  /-- the target reported that its message loop ended at this instant and `post_stop` runs -/
  ps : Option Nat := none

def field? (w pre : String) : Option String :=
  if w.startsWith pre then some (w.drop pre.length).toString else none

def parseImpl? (s : String) : Option ImplObs :=
  -- the target field is last and may contain spaces
  match s.splitOn " tgt=" with
  | [front, tgt] =>
    match words front with
    | [t, att, hd, res] => do
      let t ← (← field? t "t=").toNat?
      let att ← parseEvs? (← field? att "att=")
      let hd ← parseEvs? (← field? hd "hd=")
      let res ← field? res "res="
      let res ← if res == "-" then some [] else (splitOnChar res ',').mapM parseHObs?
      let ps ← match field? tgt "PostStop@" with
        | some ts => ts.toNat?.map some
        | none => some none
      let exit ← if tgt == "Running" || tgt == "Starting" || tgt == "Draining" || ps.isSome then some none else
        match field? tgt "Stopped:" with
        | some rest =>
          match rest.splitOn "@" with
          | [r, te] => do pure (some (← parseReason? r, ← te.toNat?))
          | _ => none
        | none => none
      pure { t, att, hd, res, exit, ps }
    | _ => none
  | _ => none

/-- Fold one implementation observation into the observed history. -/
def absorb (v : State) (mop : MOp) (o : ImplObs) : State × List String := Id.run do
  let mut errs : List String := []
  let mut timers := v.timers
  -- a creation op adds a timer created at the observed clock value
  match mop with
  | .create k p => timers := timers ++ [{ kind := k, period := p, created := o.t, armed := some o.t }]
  | .createX k p => timers := timers ++ [{ kind := k, period := p, created := o.t, armed := some o.t, typed := false }]
  | _ => pure ()
  -- attempts (message builder calls), in order of k
  let att := o.att.toArray.qsort (fun x y => x.1 < y.1 || (x.1 == y.1 && x.2.1 < y.2.1))
  for (i, k, t) in att.toList do
    match timers[i]? with
    | some τ =>
      if k != τ.sentAt.length + 1 then errs := errs ++ [s!"attempt-sequence timer={i} k={k}"]
      timers := timers.set i { τ with sentAt := τ.sentAt ++ [t] }
    | none => errs := errs ++ [s!"attempt-unknown-timer {i}"]
  -- the instant the target stopped accepting, as far as this observation tells
  let closeNow : Option Nat := match v.target.closedAt with
    | some tc => some tc
    | none => match o.ps, o.exit with
      | some ts, _ => some ts
      | none, some (_, te) => some te
      | none, none => none
  let aborted : Option Nat := match mop with
    | .abort i => some i | .advAbort _ i => some i | _ => none
  -- handle results
  if o.res.length != timers.length then errs := errs ++ ["res-length"]
  for (h, i) in o.res.zipIdx do
    match timers[i]? with
    | some τ =>
      -- a dropped handle tells nothing but "the task is gone": the answer nobody can read any more is
      -- reconstructed as the one that is consistent with what the message builder / the target saw
      -- (so the handle clauses of the oracle are vacuous for it, all the others are not)
      let r : Res := match h with
        | .res r => r
        | .dropped false => .pending
        | .dropped true =>
          if τ.res != .pending then τ.res
          else if aborted == some i then .cancelled
          else if τ.kind == .interval && τ.period == 0 then .panicked
          else if τ.kind == .sendAfter && !τ.typed then .err
          else if τ.kind == .sendAfter then
            (match closeNow, τ.sentAt.getLast? with
             | some tc, some t => if tc < t then .err else .ok
             | _, _ => .ok)
          else .ok
      if τ.res == .pending && r != .pending then
        -- exit_after / kill_after have no message builder: they acted when they finished ok
        let sent := if !τ.kind.sends && r == .ok then τ.sentAt ++ [o.t] else τ.sentAt
        timers := timers.set i { τ with res := r, finAt := some o.t, sentAt := sent }
      else if τ.res != r then errs := errs ++ [s!"result-changed timer={i}"]
    | none => pure ()
  let T := v.target
  let T := match mop with
    | .stop | .advStop _ => { T with manualStop := true }
    | .fail | .advFail _ => { T with manualFail := true }
    | .startHold => { T with starting := true }
    | .started => { T with starting := false }
    | .drain | .advDrain _ => { T with draining := true }
    | .kill | .advKill _ => { T with manualKill := true }
    | _ => T
  let T := { T with handled := T.handled ++ o.hd }
  -- `drain()` publishes `Draining` synchronously: a live target stops accepting at the CALL (audit: so that
  -- `acceptOk` / `closedOk` judge sends made between `drain()` and the drained exit on their own)
  let T := match mop with
    | .drain | .advDrain _ => if T.exit.isNone then { T with closedAt := some (T.closedAt.getD o.t) } else T
    | _ => T
  -- the message loop ended (observed from inside `post_stop`): nothing is accepted from then on
  let T := match o.ps with
    | some ts => { T with closedAt := some (T.closedAt.getD ts) }
    | none => T
  let T ← match T.exit, o.exit with
    | none, some (r, te) => pure { T with exit := some (r, te), closedAt := some (T.closedAt.getD te) }
    | some e, some e' => do
      if e != e' then errs := errs ++ ["exit-changed"]
      pure T
    | some _, none => do
      errs := errs ++ ["exit-vanished"]
      pure T
    | none, none => pure T
  let dropped := match mop with
    | .dropHandle i => v.dropped ++ [i] | .advDrop _ i => v.dropped ++ [i] | _ => v.dropped
  return ({ now := o.t, target := T, timers := timers, visits := v.visits ++ [o.t], dropped := dropped }, errs)

def firstBad (s : State) (f : State → Timer → Bool) : String :=
  match (s.timers.zipIdx.filter fun (τ, _) => !f s τ) with
  | (_, i) :: _ => s!"timer={i}"
  | [] => "target"

def step (st : DState) (op impl : String) : DState × StepOut :=
  match (words op).filter (fun w => !w.startsWith "h=") with
  | "case" :: _ => ({}, { model := "ok" })
  | ws =>
    match parseMOp? ws with
    | none => (st, { model := "bad-op" })
    | some mop =>
      let m' := mstep st.m mop
      let obs := observe st.m m'
      match parseImpl? impl with
      | none => ({ st with m := m' }, { model := obs, oracle := ["unparsable"] })
      | some o =>
        let (v', errs) := absorb st.v mop o
        let orc := errs
          ++ (if v'.timers.all (diesOk v') then [] else [s!"C12.dies {firstBad v' diesOk}"])
          ++ (if ok1 v' then [] else [s!"C12.ok {firstBad v' timerOk}"])
          -- delivery level: a message (timer id, k) handled twice
          ++ (if deliveredOk v' then [] else ["C12.delivered handled-twice"])
          ++ (if sentBeforeCloseOk v' then [] else ["C12.delivered sent-after-close"])
          ++ (if reasonSrcOk v' then [] else ["C12.reason no-source"])
          -- a running target has handled every attempt by the quiescent point
          ++ (if allHandledOk v' then [] else ["C12.delivered attempt-not-handled"])
          ++ (if okPrompt1 v' then [] else [s!"C12.okPrompt {firstBad v' timerPromptOk}"])
          -- the positive half: a kill_after / exit_after that has acted and a target that is still there
          ++ (if v'.timers.all (stopsOk v') then [] else [s!"C12.stops {firstBad v' stopsOk}"])
        let resChanged := (m'.timers.map (·.res)).take st.m.timers.length != st.m.timers.map (·.res)
        let nt := !(newAttempts st.m.timers m'.timers).isEmpty || resChanged
                    || (st.m.target.exit.isNone && m'.target.exit.isSome)
        ({ m := m', v := v' }, { model := obs, oracle := orc, nontrivial := nt })

def run (ops impl : Array String) : IO Tally :=
  replay ({} : DState) step ops impl

/-! ### Free-running traces (model name `c12-free`; harness `hcoreas/timers_as`, async-std backend)

The timers run on a REAL clock on async-std's executor: there are no quiescent points and no virtual time,
so the model is NOT replayed (no DIFF); the implementation's history is folded into a `Timers.State` by the
same `absorb` and judged by the clause functions of `Timers.ok` that are sound for observed instants:

* every instant in the trace is read from one monotonic clock by the task the event happens in (message
  builder, target handler, supervisor of the target), the `t=` of an op after the snapshot of the events; the
  `t=` of a creation op and of `stop`/`kill`/`drain` is read BEFORE the API call (a lower bound of the call);
* `earlyOk`, `shotOk`, `finOk`, `closedOk`, `handledOk`, `reasonOk` verbatim; `acceptOk` with the UPPER bound of
  the instant the target stopped accepting (its observed exit) for a handle that said `Ok`; for `Err` its clause
  "the target had stopped accepting" becomes: a close had begun (`lo`: the earliest closing API call / earliest
  legal firing of an exit_after / kill_after) no later than the handle was seen finished (the attempt's own stamp
  is taken before the failing send and may precede the close);
  in `reasonOk` an exit_after / kill_after timer counts from its earliest legal firing `created + period`
  (it has no message builder whose call could be time-stamped): exits are never early;
* liveness with a generous real-time bound `slack`: `await i` must find timer `i` finished (bounded wait in the
  harness, event-driven), a one-shot timer fires and the k-th interval message is handled no later than
  `created + k·period + slack`, an interval is gone no later than `exit + period + slack`.

ops: `case n` | `sa|si|ea|ka|dsa|dsi|dea|dka p` | `await i` | `awaithd i k` | `abort i` | `stop|kill|drain`
(the API call only) | `awaitexit`. -/

def slack : Nat := 3000000

structure FState where
  v : State := {}
  /-- lower bound of the instant the target stopped accepting -/
  lo : Option Nat := none

def minOpt (a : Option Nat) (b : Nat) : Option Nat :=
  match a with | some x => some (min x b) | none => some b

def freeTimerOk (lo hi : Option Nat) (now : Nat) (τ : Timer) : Bool :=
  earlyOk τ.created τ.period 0 τ.sentAt
  && τ.sentAt.all (fun t => decide (t ≤ now))
  && shotOk τ
  && (τ.kind.oneShot || τ.res != .err)
  && finOk now τ
  && closedOk hi τ
  && (match τ.res with
      | .ok => acceptOk hi τ
      -- `Err`: the attempt's stamp is taken in the message builder, i.e. BEFORE the failing send, so it may
      -- precede the close; what is certain is that a close had begun (`lo`) by the time the handle was seen finished
      | .err => τ.kind != .sendAfter ||
          (match lo, τ.finAt with
           | some l, some tf => decide (l ≤ tf)
           | _, _ => false)
      | _ => true)

/-- an exit_after / kill_after timer, for `reasonOk`: acts no earlier than `created + period` -/
def legalFiring (τ : Timer) : Timer :=
  if τ.kind.sends || τ.res == .cancelled then τ else { τ with sentAt := [τ.created + τ.period] }

def freeTargetOk (s : State) : Bool :=
  (match s.target.exit with
   | some (r, te) => reasonOk { s with timers := s.timers.map legalFiring } r te && decide (te ≤ s.now)
   | none => true)
  && s.target.handled.all (handledOk s)

def freeLate (s : State) : List String :=
  (s.timers.zipIdx.map fun (τ, i) =>
    -- one-shot: finished (fired) in time; interval: k-th message handled in time
    (if τ.kind.oneShot && τ.res == .ok && !(τ.sentAt.all fun t => decide (t ≤ τ.created + τ.period + slack))
      then [s!"C12.late timer={i}"] else [])
    ++ (if τ.kind == .interval &&
          !(s.target.handled.all fun h => h.1 != i || decide (h.2.2 ≤ τ.created + h.2.1 * τ.period + slack))
        then [s!"C12.late-interval timer={i}"] else [])
    ++ (match s.target.closedAt, τ.finAt with
        | some tc, some tf =>
          if τ.kind == .interval && τ.res == .ok && decide (tc + τ.period + slack < tf) && decide (τ.created ≤ tc)
          then [s!"C12.dies-late timer={i}"] else []
        | _, _ => [])).flatten

def parseFreeOp? (ws : List String) : Option MOp :=
  match ws with
  | ["await", _] => some (.adv 0)
  | ["awaithd", _, _] => some (.adv 0)
  | ["awaitexit"] => some (.adv 0)
  | _ => parseMOp? ws

def stepFree (st : FState) (op impl : String) : FState × StepOut :=
  match (words op).filter (fun w => !w.startsWith "h=") with
  | "case" :: _ => ({}, { model := impl })
  | ws =>
    match parseFreeOp? ws, parseImpl? impl with
    | none, _ => (st, { model := "bad-op" })
    | some _, none => (st, { model := impl, oracle := ["unparsable"] })
    | some mop, some o =>
      let (v', errs) := absorb st.v mop o
      -- lower bound of the close: the earliest closing call, the earliest legal firing of ea / ka
      let lo := match mop with
        | .stop | .kill | .drain => minOpt st.lo o.t
        | .create k p => if k == .exitAfter || k == .killAfter then minOpt st.lo (o.t + p) else st.lo
        | _ => st.lo
      let hi := v'.target.closedAt
      let live : List String := match ws with
        | ["await", i] =>
          (match i.toNat? with
           | some i => (match v'.timers[i]? with
              | some τ => if τ.res == .pending then [s!"C12.live timer={i}"] else []
              | none => ["await-unknown-timer"])
           | none => ["bad-op"])
        | ["awaithd", i, k] =>
          (match i.toNat?, k.toNat? with
           | some i, some k =>
             let got := v'.target.handled.any fun h => h.1 == i && h.2.1 == k
             let excused := lo.isSome || (match v'.timers[i]? with | some τ => τ.res != .pending | none => false)
             if got || excused then [] else [s!"C12.live-interval timer={i} k={k}"]
           | _, _ => ["bad-op"])
        | ["awaitexit"] => if v'.target.exit.isSome || lo.isNone then [] else ["C12.live-exit"]
        | _ => []
      let orc := errs
        ++ (if v'.timers.all (freeTimerOk lo hi v'.now) then []
            else [s!"C12.ok {firstBad v' (fun s τ => freeTimerOk lo hi s.now τ)}"])
        ++ (if freeTargetOk v' then [] else ["C12.ok target"])
        ++ freeLate v' ++ live
      let nt := !o.att.isEmpty || !o.hd.isEmpty
                  || (v'.timers.map (·.res)).take st.v.timers.length != st.v.timers.map (·.res)
                  || (st.v.target.exit.isNone && v'.target.exit.isSome)
      ({ v := v', lo := lo }, { model := impl, oracle := orc, nontrivial := nt })

def runFree (ops impl : Array String) : IO Tally :=
  replay ({} : FState) stepFree ops impl

end Driver.C12
